# sourced by every check: offline Go environment, build output confined to /verif/build
export VERIF_ROOT="${VERIF_ROOT:-$(cd "$(dirname "${BASH_SOURCE[0]}")/.." && pwd)}"
export GOFLAGS=-mod=mod GOPROXY=off GOSUMDB=off GOTOOLCHAIN=local CGO_ENABLED=0
export GOCACHE="${VERIF_GOCACHE:-/verif/build/gocache}"
# overlay builds that replace module-cache files would otherwise poison the go command's module index (keyed by directory only)
export GODEBUG=goindex=0
export REPO="${VERIF_REPO:-/repo}"
mkdir -p "$VERIF_ROOT/build" "$VERIF_ROOT/evidence" "$VERIF_ROOT/replays" "$GOCACHE"
