#!/usr/bin/env python3
"""mkmutant.py <name> <repo-relative-file> <old> <new> [<file2> <old2> <new2> ...]: writes /verif/mutants/<name>.diff (old must occur exactly once)."""
import sys, subprocess, tempfile, os
name = sys.argv[1]; args = sys.argv[2:]
out = []
for i in range(0, len(args), 3):
    f, old, new = args[i:i+3]
    src = open('/repo/' + f).read()
    assert src.count(old) == 1, f"{f}: pattern occurs {src.count(old)} times"
    with tempfile.NamedTemporaryFile('w', suffix='.go', delete=False) as t:
        t.write(src.replace(old, new)); tmp = t.name
    d = subprocess.run(['diff', '-u', '--label', 'a/' + f, '--label', 'b/' + f, '/repo/' + f, tmp], capture_output=True, text=True).stdout
    os.unlink(tmp); out.append(d)
dest = os.environ.get('MUTDIR', '/verif/mutants')
open(f'{dest}/{name}.diff', 'w').write(''.join(out))
print('wrote', f'{dest}/{name}.diff')
