#!/usr/bin/env python3
"""Regenerates /verif/MANIFEST.json from the table below (kept valid against MANIFEST.schema.json)."""
import json, os, sys

ROOT = os.path.dirname(os.path.dirname(os.path.abspath(__file__)))
props = [json.loads(l)["id"] for l in open(os.path.join(ROOT, "properties.jsonl"))]
baseline = json.load(open("/root/.vp/BASELINE.json"))["cmd"]

MC_A = ("explicit-state model checking of the real application: breadth-first search over all histories of a closed "
        "message alphabet up to a depth bound, every transition an execution of the real handler, oracles on every state and transition")
NOTE_A = ("trusted base: cosmos-sdk store/bank, the go runtime; transactions run through the msg-service router on a cache branch "
          "(ante handler not in the loop except C06); bounded alphabets and depth as recorded in the evidence")

checks = {
    "C01": dict(engine="chainmc", cat="model_checking", tech="explicit-state BFS over real-handler histories; conservation oracle per state + per-address flow equation per transition",
                text="All histories over the S-escrow/S-leased/S-life alphabets (same-block pairs, overdraft gaps) up to the depth bound are executed on the real app; in every reachable state module balance == sum of recorded balances, and on every transition each address's bank delta equals what its escrow records account for.", ref="6 C01"),
    "C03": dict(engine="chainmc", cat="model_checking", tech="explicit-state BFS over real-handler histories; escrow consistency invariants + close-takes-effect + final-is-final per transition",
                text="Every reachable state satisfies payment-open=>account-open, closed=>zero balance, real ExportGenesis passes real ValidateGenesis, nothing open=>module empty; every successful close leaves the named record non-open, including zero-block and zero-balance closes.", ref="6 C03"),
    "C04": dict(engine="chainmc", cat="model_checking", tech="explicit-state BFS over real-handler histories; cross-record lifecycle invariants on every reachable state",
                text="Every reachable state (two tenants, colliding dseq 1/12, two groups, two providers, overdraft reachable) satisfies the order/bid/lease/group/deployment agreement stated in C04, decoded independently from the raw stores.", ref="6 C04"),
    "C05": dict(engine="chainmc", cat="model_checking", tech="explicit-state BFS over real-handler histories; market<->escrow join invariants per state, refund equation per transition",
                text="Every reachable state satisfies lease active<=>payment open, bid live<=>bid account open, deployment active<=>account open; every closing transition refunds exactly the unspent balance to the owner.", ref="6 C05"),
}

m = {
    "version": 1,
    "setup_cmd": "bin/setup",
    "hooks": {
        "guard": "verif",
        "enable": "go build -tags verif -overlay /verif/build/<engine>/overlay.json — instrumented copies of repo/module-cache files and in-package harness files (//go:build verif) are supplied through the overlay; nothing under /repo is modified",
        "baseline_off_cmd": baseline,
        "source_commits": [],
        "add_only": True,
    },
    "engines": [
        {"name": "chainmc", "path": "chainmc", "serves_properties": ["C01", "C02", "C03", "C04", "C05", "C06", "C07", "C08", "C16", "C17", "C19"],
         "kind_free_text": "explicit-state model checker: BFS over histories executed on the real akash application (app.NewApp on MemDB, real bank), canonical state hashing, independent store decoder"},
        {"name": "gosched", "path": "gosched", "serves_properties": ["C12", "C13", "C14", "C15", "C20"],
         "kind_free_text": "controlled cooperative scheduler + source instrumenter (go build -overlay) + stateless DFS explorer with preemption / early-injection bounds and history-hash pruning"},
        {"name": "inputmc", "path": "inputmc", "serves_properties": ["C09", "C10", "C11", "C18"],
         "kind_free_text": "small-scope exhaustive enumeration of structured inputs against independent reference oracles"},
    ],
    "checks": [],
    "not_applicable": [],
    "notes": "See DESIGN.md. known_findings.json lists genuine defects (fixed ones suppress nothing). Exit 2 = machinery failure, never a verdict.",
}
for p in props:
    c = checks.get(p)
    if c is None or not os.access(os.path.join(ROOT, "checks", p), os.X_OK):
        m["not_applicable"].append({"property_id": p, "reason": "check still under construction in this session (DESIGN.md section 6 describes the intended model-checking decision procedure); not claimed yet"})
        continue
    m["checks"].append({
        "property_id": p,
        "quick_cmd": f"bin/check {p} quick",
        "thorough_cmd": f"bin/check {p} thorough",
        "evidence_file": f"/verif/evidence/{p}.json",
        "replay_cmd_template": f"checks/{p} replay {{path}}",
        "engine": c["engine"],
        "level_claimed": {"category": c["cat"], "text": c["text"], "design_ref": "DESIGN.md section " + c["ref"]},
        "level_note": c.get("note", NOTE_A),
        "technique": c["tech"],
    })
json.dump(m, open(os.path.join(ROOT, "MANIFEST.json"), "w"), indent=1)
try:
    import jsonschema
    jsonschema.validate(m, json.load(open("/root/.vp/MANIFEST.schema.json")))
    print("MANIFEST.json valid;", len(m["checks"]), "checks,", len(m["not_applicable"]), "not_applicable")
except ImportError:
    print("MANIFEST.json written (jsonschema not importable; run with python3-vt to validate)")
