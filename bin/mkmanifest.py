#!/usr/bin/env python3
"""Regenerates /verif/MANIFEST.json from the table below (kept valid against MANIFEST.schema.json)."""
import json, os, sys

ROOT = os.path.dirname(os.path.dirname(os.path.abspath(__file__)))
props = [json.loads(l)["id"] for l in open(os.path.join(ROOT, "properties.jsonl"))]
baseline = json.load(open("/root/.vp/BASELINE.json"))["cmd"]

MC_A = ("explicit-state model checking of the real application: breadth-first search over all histories of a closed "
        "message alphabet up to a depth bound, every transition an execution of the real handler, oracles on every state and transition")
NOTE_A = ("trusted base: cosmos-sdk store/bank, the go runtime; transactions run through the msg-service router on a cache branch "
          "(ante handler not in the loop except C06); bounded alphabets and depth as recorded in the evidence")

checks = {
    "C01": dict(engine="chainmc", cat="model_checking", tech="explicit-state BFS over real-handler histories; conservation oracle per state + per-address flow equation per transition",
                text="All histories over the S-poor (an account that cannot pay for everything it asks: failing bank transfers) / S-escrow / S-leased / S-life alphabets (same-block pairs, overdraft gaps) up to the depth bound are executed on the real app; in every reachable state module balance == sum of recorded balances, and on every transition each address's bank delta equals what its escrow records account for.", ref="6 C01"),
    "C03": dict(engine="chainmc", cat="model_checking", tech="explicit-state BFS over real-handler histories; escrow consistency invariants + close-takes-effect + final-is-final + no-payout-beyond-records per transition",
                text="Every reachable state satisfies payment-open=>account-open, closed=>zero balance, real ExportGenesis passes real ValidateGenesis, nothing open=>module empty; no address receives more in a transaction than the change of the records it owns accounts for (nothing is paid for a closed record); every successful close leaves the named record non-open, including zero-block and zero-balance closes.", ref="6 C03"),
    "C04": dict(engine="chainmc", cat="model_checking", tech="explicit-state BFS over real-handler histories; cross-record lifecycle invariants on every reachable state",
                text="Every reachable state (two tenants, colliding dseq 1/12, two groups, two providers, overdraft reachable) satisfies the order/bid/lease/group/deployment agreement stated in C04, decoded independently from the raw stores.", ref="6 C04"),
    "C05": dict(engine="chainmc", cat="model_checking", tech="explicit-state BFS over real-handler histories; market<->escrow join invariants per state, refund equation per transition",
                text="Every reachable state satisfies lease active<=>payment open, bid live<=>bid account open, deployment active<=>account open, bid deposit held=>deployment active; on every transition a deployment account transfers at most (prices of the leases active before it) x (blocks since its settlement); every closing transition refunds exactly the unspent balance to the owner.", ref="6 C05"),
    "C02": dict(engine="chainmc", cat="model_checking", tech="explicit-state BFS + exhaustive parameter grid (deposit x rates x stagger x gap x trigger) on the real app; independent integer settlement ledger per transition, closed-form accrual per state",
                text="Every settlement executed anywhere in the explored histories is compared with an independent ledger computed from the pre-state only (funded: rate x blocks for every payee; overdraft: everything distributed, each share within [rate*n, rate*(n+1)]); every open payment's accrual equals rate x (settled - lease creation height); transferred == credited; grid enumerates all deposits 1..10(14), 1-3 payments with rates 1..3, staggered creation, gaps 0..6(9), 8 settle-triggering tails.", ref="6 C02"),
    "C06": dict(engine="chainmc", cat="model_checking", tech="explicit-state BFS over colliding-id histories with whole-store diff confinement per transition + signer table + real signed DeliverTx matrix (message type x signer)",
                text="On every transition of S-collide (dseq 1,12,256,257,65536 over two owners; leases and bids live) the set of changed keys of all akash stores and balances is confined to the object the message names and only the signer's balance decreases; GetSigners equals the role table for every executed message; 140 real signed transactions (every message type x every cast member) are accepted by BaseApp.DeliverTx iff signed by the role.", ref="6 C06"),
    "C16": dict(engine="chainmc", cat="model_checking", tech="explicit-state BFS; expected typed events derived from the pre/post store diff vs. events decoded the provider's way; group lifecycle path matching; exhaustive codec round-trip grid",
                text="For every executed transition the emitted akash events, decoded through the modules' ParseEvent in the order events/publish.go uses, equal the events implied by the state change (created/closed strictly, group events as a lifecycle path), and each decoded event re-encodes to the emitted one; 13,900 constructor->decode round trips over colliding ids and prices up to 10^30.", ref="6 C16"),
    "C17": dict(engine="chainmc", cat="model_checking", tech="explicit-state BFS over create/revoke sequences; reference model decoded from the raw store vs. real keeper lookups, iterators and gRPC Certificates query for every filter x page size in every state",
                text="All create/revoke sequences over 2 owners x serials {0,1,255,256,257,2^64,2^159} (+ requests naming another account) to the depth bound: create accepted iff signer names itself and key absent, revoke iff valid, nothing removed, revocation permanent, and in every reachable state every lookup/listing/filter/page-size returns every matching certificate with correct serial and state without error or panic.", ref="6 C17"),
    "C18": dict(engine="inputmc", cat="exploration", tech="small-scope exhaustive enumeration of SDL documents from a structural grammar x all mapping-key permutations; generator-as-reference oracle; exact-rational quantity oracle",
                text="Every document of the grammar (services x images/commands/args/env x exposes x profiles x placements x pricing x counts, plus a quantity-string grid) is read by the real sdl package under every key order; groups, manifest and version are identical across runs and orders, every declared field appears unchanged, and the manifest validates against its own groups.", ref="6 C18",
                note="trusted base: gopkg.in/yaml.v3; the grammar bounds (<=2 services, 2 profiles, 2 placements) are stated in the evidence"),
    "C10": dict(engine="inputmc", cat="exploration", tech="small-scope exhaustive enumeration of (deployment groups, manifest) pairs, version triples and manifest field mutations against a set-theoretic oracle, through the real validation functions and manager.validateRequest (overlay harness)",
                text="accept <=> oracle in both directions for every pair of the grammar (splits, merges, reorderings, near-miss units, endpoint kinds); version check over all (on-chain version, update events incl. versions that return A->B->A->B, manifest) combinations; every single-field mutation changes the hash and every JSON key order leaves it unchanged.", ref="6 C10",
                note="trusted base: encoding/json, sha256; the update-event handling of manager.run is transcribed in the in-package harness and guarded by a source-text check (exit 2 on drift)"),
    "C08": dict(engine="chainmc", cat="model_checking", tech="exhaustive small-scope comparison of GroupSpec.MatchRequirements with a set-theoretic oracle + explicit-state BFS over histories in which attestations and provider records change between bids",
                text="2.6 million requirement/own-attribute/auditor-list/attestation combinations (attribute values incl. the empty string; also through Order.MatchAttributes) agree with the statement's oracle; on every accepted CreateBid of S-attr / S-attr-leased the pre-state satisfies every admission condition; every accepted UpdateProvider leaves attributes covering all of the provider's active leases.", ref="6 C08"),
    "C09": dict(engine="inputmc", cat="exploration", tech="exhaustive enumeration of certificate catalogue x chain state x route x path variables; real TLS handshakes against the real rest.NewServer handler/TLS config; real x/cert keeper and querier behind the query client; ordered sequences of presentations on one gateway; every interleaving of 2 (thorough: 3) overlapping verifications at the chain-lookup boundaries under the controlled scheduler; a menu of untruthful chain answers (error, empty, two, revoked, other bytes, nil)",
                text="For every certificate kind (genuine, forged same CN+serial, revoked, unknown, expired, not-yet-valid, wrong usage, chains, issuer CN mismatch, non-bech32 CN) x on-chain state x every route x path variables of both tenants: a request is authenticated as X only if the presented leaf is byte-identical to X's valid on-chain certificate inside its validity with client-auth usage, and every lease/deployment id reaching the provider clients has Owner == authenticated CN and Provider == this provider.", ref="6 C09",
                note="trusted base: crypto/tls proof of key possession, crypto/x509; validity windows are placed years away from time.Now(). A supplementary free-running -race pass of the overlapping-verification bodies runs first (skipped, and said so, when cgo is unavailable)"),
    "C11": dict(engine="inputmc", cat="exploration", tech="exhaustive enumeration of lease ids x manifest grammar x provider settings through the real kube builders and the real client.Deploy against client-go fake clientsets; semantic NetworkPolicy model",
                text="Every object produced by the builders and found in the fake cluster after Deploy / re-Deploy is in (or selects only) the lease namespace; containers unprivileged, no escalation, no service-account token, limits == leased, 0 < requests <= limits; lidNS injective and DNS-1123 valid over the colliding id set; network policies admit outside ingress only from the ingress controller or to globally exposed ports and no egress to private ranges outside the namespace.", ref="6 C11",
                note="trusted base: Kubernetes enforcement of the generated objects; client-go fake tracker (extended with DeleteCollection). Environment faults: every kube API call position of Deploy answers an error (quick: one, thorough: every ordered pair) and the oracle is evaluated on the cluster state left behind; settings toggle sequences across provider restarts. Two genuine defects found here are repaired (known_findings.json: fixed)"),
    "C19": dict(engine="chainmc", cat="model_checking", tech="exhaustive boundary grid (all singles and pairs, thorough: arithmetic triples, of every limit at/just beyond its bound plus overflow candidates) through ValidateBasic + real handler vs. an independent math/big predicate; stored-state predicate on every reachable state",
                text="No create-deployment request of the grid that violates any limit (group count, unique names, unit count, per-unit cpu/memory/storage/replicas/price, denomination, group totals, 32-byte version, minimum deposit) is admitted, in the initial and in a populated state, and rejected requests leave the state hash unchanged; every deployment stored in any reachable state of S-life satisfies the predicate.", ref="6 C19"),
    "C07": dict(engine="chainmc", cat="model_checking", tech="explicit-state BFS with every transition re-executed (a) on a freshly started application instance holding a copy of the stores, (b) after an attempt aborted at every out-of-gas cut point, (c) with the wall clock shifted by +-10 years, (d) under every enumerated map-iteration start (runtime overlay pins mapiterinit's random draw per goroutine): 8 offsets x up to 4 start buckets for all iterations, then per-iteration for the first 6",
                text="For every transaction in every explored state (incl. S-params: chain parameters changed through x/params), all these re-executions produce byte-identical state writes, result data, error, events and gas consumed, and agree with the free-running execution; all map iterations performed by akash code were over single-bucket maps, for which the 8 start offsets are all possible orders.", ref="6 C07",
                note="trusted base: determinism of cosmos-sdk / tendermint infrastructure over multi-bucket maps (varied over 32 starts of one layout, not exhaustively: layout depends on the per-map hash seed); handlers read no clock or randomness; patched copy of runtime/map.go supplied through -overlay (GOROOT untouched)"),
    "C15": dict(engine="gosched", cat="model_checking", tech="stateless exhaustive exploration of all interleavings (unbounded preemptions, history-hash pruning) of the real instrumented pubsub bus + go-lifecycle under a controlled cooperative scheduler; per-execution stream oracle",
                text="For 20 (quick) / 25 (thorough) client configurations (publishers, subscribers that read / stall / close, concurrent Clone, closers of a subscriber or the bus, all subscriber map-iteration rotations) every interleaving at channel/select/sync granularity is executed on the real code: each subscriber's stream is duplicate-free, gap-free and in publication order, a clone receives exactly what the original had not handed out plus later events, and every Publish/Subscribe/Clone/Close call returns.", ref="6 C15",
                note="trusted base: interleaving granularity = code between two channel/select/sync operations (unsynchronised accesses are covered only by the supplementary free-running -race pass); the instrumenter's rewrite table; bounded configurations as listed in the evidence"),
    "C12": dict(engine="gosched", cat="model_checking", tech="exhaustive exploration of all operation sequences (iterative deepening, every timer-firing position) on the live instrumented inventoryService under the controlled scheduler vs. a list reference model + exhaustive small-scope enumeration of the placement decision vs. exact bin packing + exhaustive arithmetic operand-mutation check",
                text="For 9 (quick) / 12 (thorough) configurations every sequence of reserve/unreserve/status/deployed/not-deployed/refresh/refresh-error up to depth 4 (5-6) is executed on the real service: a grant implies exact packability (commit-scaled, last reported availability, free ports), status reports exactly the granted-unreleased reservations with stable amounts, status queries never change later answers, a release removes exactly one; 11.5M (125M) placement instances: granted => packable; Add/Sub never modify operands.", ref="6 C12",
                note="trusted base: interleaving granularity of the gosched scheduler; scripted cluster client; budget (0,0) big-step mode (each operation driven to quiescence, timer firings explored)"),
    "C20": dict(engine="gosched", cat="model_checking", tech="stateless exhaustive exploration (preemption / early-injection budget ladder, history-hash pruning) of the real instrumented manifest service + managers + watchdog under the controlled scheduler; reply channels observed through a scheduler tap",
                text="For 18 (quick) / 23 (thorough) event menus (lease won x2, submits of valid / invalid / wrong-version manifests from concurrent clients, fetch ok/err, version update, lease closed, deployment closed, watchdog timer, shutdown; every order and every prefix) within the stated budgets: every Submit gets exactly one reply and none hangs; every ManifestReceived announcement happens with a lease held, after the chain data arrived, for a validated manifest, and announcements never go back to an older manifest.", ref="6 C20",
                note="trusted base: gosched interleaving granularity; scripted chain query / hostname / broadcaster; D11 (shutdown request consumed in checkHostnamesForManifest) is reproduced but breaks no stated clause and is reported as a statistic"),
    "C13": dict(engine="gosched", cat="model_checking", tech="stateless exhaustive exploration (budget ladder over preemptions / early injections, history-hash pruning with Pareto budget sets) of the real instrumented order.run + pubsub + go-lifecycle under the controlled scheduler; environment goroutine releases every scripted call ok/err and injects every terminating event at every pipeline point",
                text="For 25 (quick) / 36 (thorough) configurations (new order / catch-up with bid found, not found, query failing) x one terminating event (order closed, lease won by us / by another provider / for another group, bid timeout, shutdown) at every point of the pipeline incl. while a call is in flight x at most 1 (2) failures: at most one MsgCreateBid, price <= group maximum, only after a successful Reserve; when handling ends without a win every successful Reserve is matched by an Unreserve and a MsgCloseBid follows every placed bid; the monitor terminates.", ref="6 C13",
                note="trusted base: gosched interleaving granularity; scripted query / tx / cluster / pricing clients (the real pricing strategies are not in the loop); 'released' / 'closed' = the call was made"),
    "C14": dict(engine="gosched", cat="model_checking", tech="stateless exhaustive exploration (delay-bounded budget ladder, early-injection budget, history-hash pruning) of the real instrumented cluster service + deploymentManager + hostnameService + inventoryService under the controlled scheduler with a scripted cluster client",
                text="For 8 (quick) / 11 (thorough) configurations (1-3 manifest updates, lease closed, deploy / teardown finishing ok or with errors, shutdown) within the stated budgets: never two cluster operations for one lease overlapping, no Deploy started after the teardown request, after a close TeardownLease follows the last deploy and reservation and hostnames are released, absent close/failure the last Deploy carried the latest manifest, no INVALID STATE panic, termination after shutdown.", ref="6 C14",
                note="trusted base: gosched interleaving granularity; scripted cluster / chain clients; exempt from the teardown clause are only histories in which a deploy failed before the manager accepted any teardown request (the manager has left its loop; counted as an observation)"),
}

m = {
    "version": 1,
    "setup_cmd": "bin/setup",
    "hooks": {
        "guard": "verif",
        "enable": "go build -tags verif -overlay /verif/build/<engine>/overlay.json — instrumented copies of repo/module-cache files and in-package harness files (//go:build verif) are supplied through the overlay; nothing under /repo is modified",
        "baseline_off_cmd": baseline,
        "source_commits": [],
        "add_only": True,
    },
    "engines": [
        {"name": "chainmc", "path": "chainmc", "serves_properties": ["C01", "C02", "C03", "C04", "C05", "C06", "C07", "C08", "C16", "C17", "C19"],
         "kind_free_text": "explicit-state model checker: BFS over histories executed on the real akash application (app.NewApp on MemDB, real bank), canonical state hashing, independent store decoder"},
        {"name": "gosched", "path": "gosched", "serves_properties": ["C12", "C13", "C14", "C15", "C20"],
         "kind_free_text": "controlled cooperative scheduler + source instrumenter (go build -overlay) + stateless DFS explorer with preemption / early-injection bounds and history-hash pruning"},
        {"name": "inputmc", "path": "inputmc", "serves_properties": ["C09", "C10", "C11", "C18"],
         "kind_free_text": "small-scope exhaustive enumeration of structured inputs against independent reference oracles"},
    ],
    "checks": [],
    "not_applicable": [],
    "notes": "See DESIGN.md. known_findings.json lists genuine defects (fixed ones suppress nothing). Exit 2 = machinery failure, never a verdict.",
}
for p in props:
    c = checks.get(p)
    if c is None or not os.access(os.path.join(ROOT, "checks", p), os.X_OK):
        m["not_applicable"].append({"property_id": p, "reason": "check still under construction in this session (DESIGN.md section 6 describes the intended model-checking decision procedure); not claimed yet"})
        continue
    m["checks"].append({
        "property_id": p,
        "quick_cmd": f"bin/check {p} quick",
        "thorough_cmd": f"bin/check {p} thorough",
        "evidence_file": f"/verif/evidence/{p}.json",
        "replay_cmd_template": f"checks/{p} replay {{path}}",
        "engine": c["engine"],
        "level_claimed": {"category": c["cat"], "text": c["text"], "design_ref": "DESIGN.md section " + c["ref"]},
        "level_note": c.get("note", NOTE_A),
        "technique": c["tech"],
    })
json.dump(m, open(os.path.join(ROOT, "MANIFEST.json"), "w"), indent=1)
try:
    import jsonschema
    jsonschema.validate(m, json.load(open("/root/.vp/MANIFEST.schema.json")))
    print("MANIFEST.json valid;", len(m["checks"]), "checks,", len(m["not_applicable"]), "not_applicable")
except ImportError:
    print("MANIFEST.json written (jsonschema not importable; run with python3-vt to validate)")
