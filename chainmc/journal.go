package main

// journal.go — process crashes caused by the code under test.
//
// A panic inside a transaction is recovered by World.Exec and becomes a failed transaction. What cannot be recovered is
// a panic (or runtime fatal error) on a goroutine that the code under test started itself, a stack overflow or a
// concurrent map write: the whole checker process dies. So the checker runs as a child of a small supervisor. Every
// worker notes the transition it is about to execute (scenario, history, action — as indices) in its slot of a shared
// memory-mapped file; when the child dies with a Go crash trace that contains frames of ovrclk/akash, the supervisor
// re-executes each noted transition in a fresh child (`-replay`) and reports the one that crashes again as a violation
// of the determinism property (a transaction without a result). For other properties a crash stays a machinery failure
// (exit 2) — it is not what they state.

import (
	"bytes"
	"encoding/binary"
	"encoding/json"
	"fmt"
	"io"
	"os"
	"os/exec"
	"path/filepath"
	"strconv"
	"strings"
	"sync"
	"sync/atomic"
	"syscall"

	"verif.local/verif/evlib"
)

const (
	journalSlots    = 64
	journalSlotSize = 4096
)

var (
	journalMem  []byte
	journalNext int32
)

func journalOpen() {
	p := os.Getenv("CHAINMC_JOURNAL")
	if p == "" {
		return
	}
	f, err := os.OpenFile(p, os.O_RDWR, 0o644)
	if err != nil {
		return
	}
	defer f.Close()
	m, err := syscall.Mmap(int(f.Fd()), 0, journalSlots*journalSlotSize, syscall.PROT_READ|syscall.PROT_WRITE, syscall.MAP_SHARED)
	if err == nil {
		journalMem = m
	}
}

func journalSlot() int { return int(atomic.AddInt32(&journalNext, 1)-1) % journalSlots }

// journalSet notes "scenario|h0,h1,..|action" in the worker's slot (payload first, length last).
func journalSet(slot int, scenario string, hist []int, ai int) {
	if journalMem == nil {
		return
	}
	b := journalMem[slot*journalSlotSize : (slot+1)*journalSlotSize]
	buf := b[4:4]
	buf = append(buf, scenario...)
	buf = append(buf, '|')
	for i, h := range hist {
		if i > 0 {
			buf = append(buf, ',')
		}
		buf = strconv.AppendInt(buf, int64(h), 10)
	}
	buf = append(buf, '|')
	buf = strconv.AppendInt(buf, int64(ai), 10)
	if len(buf) > journalSlotSize-4 {
		binary.LittleEndian.PutUint32(b[:4], 0)
		return
	}
	binary.LittleEndian.PutUint32(b[:4], uint32(len(buf)))
}

type tailBuf struct {
	mu  sync.Mutex
	buf []byte
}

func (t *tailBuf) Write(p []byte) (int, error) {
	t.mu.Lock()
	t.buf = append(t.buf, p...)
	if len(t.buf) > 1<<20 {
		t.buf = append([]byte{}, t.buf[len(t.buf)-(1<<19):]...)
	}
	t.mu.Unlock()
	return len(p), nil
}

// crashOfCodeUnderTest: a Go crash trace whose frames include the repository's code.
func crashOfCodeUnderTest(stderr string) (string, bool) {
	i := strings.Index(stderr, "\npanic: ")
	if j := strings.Index(stderr, "\nfatal error: "); j >= 0 && (i < 0 || j < i) {
		i = j
	}
	if i < 0 {
		if strings.HasPrefix(stderr, "panic: ") || strings.HasPrefix(stderr, "fatal error: ") {
			i = -1
		} else {
			return "", false
		}
	}
	rest := stderr[i+1:]
	first := rest
	if k := strings.IndexByte(first, '\n'); k >= 0 {
		first = first[:k]
	}
	if !strings.Contains(rest, "github.com/ovrclk/akash/") {
		return first, false
	}
	return first, true
}

func runChild(args []string, journal string, out io.Writer) (int, string) {
	cmd := exec.Command(os.Args[0], args...)
	cmd.Env = append(os.Environ(), "CHAINMC_CHILD=1", "CHAINMC_JOURNAL="+journal)
	cmd.Stdout = out
	tb := &tailBuf{}
	cmd.Stderr = io.MultiWriter(os.Stderr, tb)
	err := cmd.Run()
	code := 0
	if err != nil {
		code = 2
		if ee, ok := err.(*exec.ExitError); ok && ee.ExitCode() >= 0 {
			code = ee.ExitCode()
		}
	}
	return code, string(tb.buf)
}

// supervise runs the check in a child process; returns the exit code for this process.
func supervise(prop string, noEvidence bool) int {
	dir := filepath.Join(evlib.Root(), "build", "journal")
	_ = os.MkdirAll(dir, 0o755)
	jp := filepath.Join(dir, fmt.Sprintf("chainmc.%d", os.Getpid()))
	if err := os.WriteFile(jp, make([]byte, journalSlots*journalSlotSize), 0o644); err != nil {
		jp = ""
	}
	defer func() {
		if jp != "" {
			os.Remove(jp)
		}
	}()
	code, stderr := runChild(os.Args[1:], jp, os.Stdout)
	if code == 0 || code == 1 {
		return code
	}
	first, ours := crashOfCodeUnderTest(stderr)
	if !ours || jp == "" {
		return 2
	}
	ps := props[prop]
	if !ps.LooseReplay { // only the determinism property states that every execution has a result
		fmt.Fprintf(os.Stderr, "chainmc: a transaction crashed the process (%s): not what %s states, see C07 — machinery failure\n", first, prop)
		return 2
	}
	raw, err := os.ReadFile(jp)
	if err != nil {
		return 2
	}
	n := 0
	// the crash may depend on goroutine scheduling: up to three rounds over the noted transitions
	for round := 0; round < 3; round++ {
		seen := map[string]bool{}
		for s := 0; s < journalSlots; s++ {
			b := raw[s*journalSlotSize : (s+1)*journalSlotSize]
			l := int(binary.LittleEndian.Uint32(b[:4]))
			if l == 0 || l > journalSlotSize-4 {
				continue
			}
			ent := string(b[4 : 4+l])
			if seen[ent] {
				continue
			}
			seen[ent] = true
			parts := strings.Split(ent, "|")
			if len(parts) != 3 {
				continue
			}
			scf, ok := scenarioTable[parts[0]]
			if !ok {
				continue
			}
			sc := scf()
			var names []string
			bad := false
			idx := []string{}
			if parts[1] != "" {
				idx = strings.Split(parts[1], ",")
			}
			idx = append(idx, parts[2])
			for _, x := range idx {
				i, err := strconv.Atoi(x)
				if err != nil || i < 0 || i >= len(sc.Alphabet) {
					bad = true
					break
				}
				names = append(names, sc.Alphabet[i].Name)
			}
			if bad {
				continue
			}
			rf := replayFile{Property: prop, Scenario: sc.Name, Genesis: sc.GP.String(), Inv: prop + ".deterministic", Sig: "process-crash",
				Message: "executing the last transaction of this history kills the process (crash on a goroutine started by the code under test, or a runtime fatal error): " + first, History: names}
			cand := filepath.Join(dir, fmt.Sprintf("cand.%d.%d.json", os.Getpid(), s))
			js, _ := json.MarshalIndent(rf, "", " ")
			if os.WriteFile(cand, js, 0o644) != nil {
				continue
			}
			var so bytes.Buffer
			c2, e2 := runChild([]string{"-replay", cand}, "", &so)
			os.Remove(cand)
			if os.Getenv("CHAINMC_DEBUG") != "" {
				fmt.Fprintf(os.Stderr, "chainmc: candidate %q -> exit %d\n", ent, c2)
			}
			switch {
			case c2 == 0:
				continue
			case c2 == 1:
				// the replay got far enough to report a violation of its own (the crashed run died before it could)
				const mark = "replay: VIOLATED "
				out := so.String()
				i := strings.Index(out, mark)
				if i < 0 {
					continue
				}
				line := out[i+len(mark):]
				if k := strings.IndexByte(line, '\n'); k >= 0 {
					line = line[:k]
				}
				if a, b := strings.Index(line, " ["), strings.Index(line, "]: "); a > 0 && b > a {
					rf.Inv, rf.Sig, rf.Message = line[:a], line[a+2:b], line[b+3:]+" (found when re-executing the transition after the run crashed: "+first+")"
				} else {
					continue
				}
			default:
				if _, again := crashOfCodeUnderTest(e2); !again {
					continue
				}
			}
			n++
			path, err := evlib.WriteReplay(prop, n, rf)
			if err != nil {
				fmt.Fprintln(os.Stderr, "chainmc: replay file:", err)
				return 2
			}
			fmt.Printf("VIOLATION property=%s replay=%s\n  invariant %s [%s]: %s\n  history: %s\n", prop, path, rf.Inv, rf.Sig, rf.Message, strings.Join(names, "; "))
			return 1
		}
	}
	fmt.Fprintf(os.Stderr, "chainmc: the process crashed in the code under test (%s) but no noted transition reproduces it\n", first)
	return 2
}

// replayCrash re-executes a process-crash replay file in a child and reports whether it crashes again.
func replayCrash(path string) int {
	code, stderr := runChild([]string{"-replay", path}, "", os.Stdout)
	if code == 0 || code == 1 {
		fmt.Println("replay: no crash")
		return 0
	}
	if first, ours := crashOfCodeUnderTest(stderr); ours {
		fmt.Printf("replay: VIOLATED process-crash: %s\n", first)
		return 1
	}
	return 2
}
