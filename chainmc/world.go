package main

// world.go — the system under test: a REAL akash application (app.NewApp on a MemDB, real bank,
// real escrow hooks), a fixed cast of funded accounts and the transaction mechanics of DESIGN §2.1.

import (
	"bytes"
	"crypto/sha256"
	"encoding/binary"
	"encoding/json"
	"fmt"
	"reflect"
	"sort"
	"strings"

	"github.com/cosmos/cosmos-sdk/crypto/keys/secp256k1"
	"github.com/cosmos/cosmos-sdk/simapp"
	sdk "github.com/cosmos/cosmos-sdk/types"
	authtypes "github.com/cosmos/cosmos-sdk/x/auth/types"
	banktypes "github.com/cosmos/cosmos-sdk/x/bank/types"
	abci "github.com/tendermint/tendermint/abci/types"
	"github.com/tendermint/tendermint/libs/log"
	tmproto "github.com/tendermint/tendermint/proto/tendermint/types"
	dbm "github.com/tendermint/tm-db"

	"github.com/ovrclk/akash/app"
	"github.com/ovrclk/akash/sdkutil"
	atypes "github.com/ovrclk/akash/x/audit/types"
	ctypes "github.com/ovrclk/akash/x/cert/types"
	dtypes "github.com/ovrclk/akash/x/deployment/types"
	mtypes "github.com/ovrclk/akash/x/market/types"
	ptypes "github.com/ovrclk/akash/x/provider/types"
)

const denom = "uakt"

// denom2: a second denomination every cast member also holds, so that requests paying in the wrong coin are executable
const denom2 = "uatom"

// Cast member names, in a fixed order; addresses are derived from the name.
// PX: an account that is short of funds in the scenarios that set GenesisParams.PoorFunds (bank transfers that fail)
var castNames = []string{"T1", "T2", "P1", "P2", "U1", "U2", "B", "PX"}

type Cast struct {
	Names []string
	Addr  map[string]sdk.AccAddress
	Name  map[string]string // bech32 -> name
	Priv  map[string]*secp256k1.PrivKey
}

func newCast() *Cast {
	c := &Cast{Names: castNames, Addr: map[string]sdk.AccAddress{}, Name: map[string]string{}, Priv: map[string]*secp256k1.PrivKey{}}
	for _, n := range castNames {
		pk := secp256k1.GenPrivKeyFromSecret([]byte("verif-cast-" + n))
		a := sdk.AccAddress(pk.PubKey().Address())
		c.Priv[n] = pk
		c.Addr[n] = a
		// "<name>^": the same account with its address spelled in upper-case bech32 (legal, decodes to the same bytes)
		c.Priv[n+"^"] = pk
		c.Addr[n+"^"] = a
		c.Name[strings.ToUpper(a.String())] = n + "^"
		c.Name[a.String()] = n
	}
	return c
}

func (c *Cast) S(n string) string {
	if strings.HasSuffix(n, "^") {
		return strings.ToUpper(c.Addr[n].String())
	}
	return c.Addr[n].String()
}

// GenesisParams are ordinary chain parameters set through genesis.
type GenesisParams struct {
	DeploymentMinDeposit int64
	BidMinDeposit        int64
	Funds                int64 // initial balance of every cast member
	StartHeight          int64
	PoorFunds            int64 // when > 0: the initial uakt balance of cast member PX
	// RestartCheck: the scenario changes chain parameters; the params store is part of the state identity and the determinism
	// check re-executes every transaction on a freshly started application instance holding the same stores
	RestartCheck bool
}

func (g GenesisParams) String() string {
	if g.PoorFunds > 0 {
		return fmt.Sprintf("dmin=%d bmin=%d funds=%d h0=%d funds(PX)=%d", g.DeploymentMinDeposit, g.BidMinDeposit, g.Funds, g.StartHeight, g.PoorFunds)
	}
	return fmt.Sprintf("dmin=%d bmin=%d funds=%d h0=%d", g.DeploymentMinDeposit, g.BidMinDeposit, g.Funds, g.StartHeight)
}

var akashStores = []string{"escrow", "deployment", "market", "provider", "audit", "cert"}

// allStores: every KV store of the application, for the "nothing else changed" assertion.
type World struct {
	App    *app.AkashApp
	Cast   *Cast
	GP     GenesisParams
	root   sdk.Context
	keys   map[string]sdk.StoreKey
	others []string // names of non-akash, non-bank stores (asserted unchanged)
	Escrow sdk.AccAddress
	slot   int // journal slot of the worker that owns this instance (journal.go)
}

func init() {
	sdkutil.InitSDKConfig()
}

func NewWorld(gp GenesisParams) *World {
	cast := newCast()
	db := dbm.NewMemDB()
	a := app.NewApp(log.NewNopLogger(), db, nil, true, 0, map[int64]bool{}, app.DefaultHome, simapp.EmptyAppOptions{})
	cdc := a.AppCodec()
	gs := app.NewDefaultGenesisState()

	// auth accounts + bank balances for the cast
	var accs []authtypes.GenesisAccount
	var bals []banktypes.Balance
	total := sdk.NewCoins()
	for i, n := range cast.Names {
		accs = append(accs, authtypes.NewBaseAccount(cast.Addr[n], nil, uint64(i), 0))
		funds := gp.Funds
		if n == "PX" && gp.PoorFunds > 0 {
			funds = gp.PoorFunds
		}
		coins := sdk.NewCoins(sdk.NewInt64Coin(denom, funds), sdk.NewInt64Coin(denom2, 1000))
		bals = append(bals, banktypes.Balance{Address: cast.S(n), Coins: coins})
		total = total.Add(coins...)
	}
	gs[authtypes.ModuleName] = cdc.MustMarshalJSON(authtypes.NewGenesisState(authtypes.DefaultParams(), accs))
	bgs := banktypes.DefaultGenesisState()
	bgs.Balances = bals
	bgs.Supply = total
	gs[banktypes.ModuleName] = cdc.MustMarshalJSON(bgs)

	dgs := dtypes.GenesisState{Params: dtypes.Params{DeploymentMinDeposit: sdk.NewInt64Coin(denom, gp.DeploymentMinDeposit)}}
	gs[dtypes.ModuleName] = cdc.MustMarshalJSON(&dgs)
	mgs := mtypes.GenesisState{Params: mtypes.Params{BidMinDeposit: sdk.NewInt64Coin(denom, gp.BidMinDeposit), OrderMaxBids: mtypes.DefaultParams().OrderMaxBids}}
	gs[mtypes.ModuleName] = cdc.MustMarshalJSON(&mgs)

	state, err := json.Marshal(gs)
	if err != nil {
		panic(err)
	}
	a.InitChain(abci.RequestInitChain{ChainId: "verif", Validators: []abci.ValidatorUpdate{}, AppStateBytes: state})
	a.Commit()

	w := &World{App: a, Cast: cast, GP: gp, keys: map[string]sdk.StoreKey{}, slot: journalSlot()}
	w.root = a.NewUncachedContext(false, tmproto.Header{Height: gp.StartHeight, ChainID: "verif"})
	for _, n := range append(append([]string{}, akashStores...), "bank") {
		w.keys[n] = a.GetKey(n)
	}
	for _, n := range []string{"acc", "staking", "mint", "distribution", "slashing", "gov", "params", "ibc", "upgrade", "evidence", "transfer", "capability"} {
		if k := a.GetKey(n); k != nil {
			w.keys[n] = k
			w.others = append(w.others, n)
		}
	}
	w.Escrow = authtypes.NewModuleAddress("escrow")
	return w
}

// State is a node of the search: a branch of the application's multistore plus the block height.
type State struct {
	Ctx    sdk.Context
	Height int64
}

func (w *World) Initial() State {
	c, _ := w.root.CacheContext()
	return State{Ctx: c.WithBlockHeight(w.GP.StartHeight), Height: w.GP.StartHeight}
}

// Result of one transaction.
type TxResult struct {
	OK     bool
	Err    string
	Panic  bool
	Events []abci.Event
	Data   []byte
	Gas    uint64 // gas consumed by the handler (part of the DeliverTx response, hence of the results hash)
}

var routes = map[string]string{}

func fq(msg sdk.Msg) string {
	switch msg.(type) {
	case *dtypes.MsgCreateDeployment:
		return "/akash.deployment.v1beta1.Msg/CreateDeployment"
	case *dtypes.MsgDepositDeployment:
		return "/akash.deployment.v1beta1.Msg/DepositDeployment"
	case *dtypes.MsgUpdateDeployment:
		return "/akash.deployment.v1beta1.Msg/UpdateDeployment"
	case *dtypes.MsgCloseDeployment:
		return "/akash.deployment.v1beta1.Msg/CloseDeployment"
	case *dtypes.MsgCloseGroup:
		return "/akash.deployment.v1beta1.Msg/CloseGroup"
	case *dtypes.MsgPauseGroup:
		return "/akash.deployment.v1beta1.Msg/PauseGroup"
	case *dtypes.MsgStartGroup:
		return "/akash.deployment.v1beta1.Msg/StartGroup"
	case *mtypes.MsgCreateBid:
		return "/akash.market.v1beta1.Msg/CreateBid"
	case *mtypes.MsgCloseBid:
		return "/akash.market.v1beta1.Msg/CloseBid"
	case *mtypes.MsgCreateLease:
		return "/akash.market.v1beta1.Msg/CreateLease"
	case *mtypes.MsgCloseLease:
		return "/akash.market.v1beta1.Msg/CloseLease"
	case *mtypes.MsgWithdrawLease:
		return "/akash.market.v1beta1.Msg/WithdrawLease"
	case *ptypes.MsgCreateProvider:
		return "/akash.provider.v1beta1.Msg/CreateProvider"
	case *ptypes.MsgUpdateProvider:
		return "/akash.provider.v1beta1.Msg/UpdateProvider"
	case *ptypes.MsgDeleteProvider:
		return "/akash.provider.v1beta1.Msg/DeleteProvider"
	case *atypes.MsgSignProviderAttributes:
		return "/akash.audit.v1beta1.Msg/SignProviderAttributes"
	case *atypes.MsgDeleteProviderAttributes:
		return "/akash.audit.v1beta1.Msg/DeleteProviderAttributes"
	case *ctypes.MsgCreateCertificate:
		return "/akash.cert.v1beta1.Msg/CreateCertificate"
	case *ctypes.MsgRevokeCertificate:
		return "/akash.cert.v1beta1.Msg/RevokeCertificate"
	case *banktypes.MsgSend:
		return "/cosmos.bank.v1beta1.Msg/Send"
	}
	panic(fmt.Sprintf("no route for %T", msg))
}

// Exec runs one transaction the way BaseApp.runTx/runMsgs does minus the ante handler:
// ValidateBasic, handler on a cache branch with a fresh event manager, write-back only on success;
// a panic is recovered and counts as a failed transaction.
func (w *World) Exec(st State, msg sdk.Msg) (res TxResult) { return w.ExecGas(st, msg, nil) }

// ExecGas is Exec with a caller-supplied gas meter (nil = the context's infinite meter). Running out of gas panics inside
// the store access, is recovered like any panic and discards the branch — exactly what BaseApp.runTx does.
func (w *World) ExecGas(st State, msg sdk.Msg, meter sdk.GasMeter) (res TxResult) {
	return execOn(w.App, st, msg, meter)
}

func execOn(a *app.AkashApp, st State, msg sdk.Msg, meter sdk.GasMeter) (res TxResult) {
	h := a.MsgServiceRouter().Handler(fq(msg))
	if h == nil {
		panic("no handler for " + fq(msg))
	}
	// BaseApp.runTx recovers panics of validateBasicTxMsgs and of the handlers alike
	defer func() {
		if r := recover(); r != nil {
			res = TxResult{Err: fmt.Sprintf("panic: %v", r), Panic: true}
			if meter != nil {
				res.Gas = meter.GasConsumed()
			}
		}
	}()
	// a real transaction reaches the handler after a protobuf round trip (nil vs empty slices etc.)
	if pm, ok := msg.(interface {
		Marshal() ([]byte, error)
	}); ok {
		bz, err := pm.Marshal()
		if err != nil {
			return TxResult{Err: "marshal: " + err.Error()}
		}
		fresh := reflect.New(reflect.TypeOf(msg).Elem()).Interface()
		if err := fresh.(interface{ Unmarshal([]byte) error }).Unmarshal(bz); err != nil {
			return TxResult{Err: "unmarshal: " + err.Error()}
		}
		msg = fresh.(sdk.Msg)
	}
	if err := msg.ValidateBasic(); err != nil {
		return TxResult{Err: "validate-basic: " + err.Error()}
	}
	cctx, write := st.Ctx.CacheContext()
	cctx = cctx.WithEventManager(sdk.NewEventManager())
	if meter == nil {
		meter = sdk.NewInfiniteGasMeter()
	}
	cctx = cctx.WithGasMeter(meter)
	r, err := h(cctx, msg)
	if err != nil {
		return TxResult{Err: err.Error(), Gas: meter.GasConsumed()}
	}
	write()
	out := TxResult{OK: true, Gas: meter.GasConsumed()}
	if r != nil {
		out.Events = r.Events
		out.Data = r.Data
	}
	// events emitted into the manager but not returned through the result (the msg-service handler
	// returns ctx.EventManager().ABCIEvents() in r.Events already)
	if out.Events == nil {
		out.Events = cctx.EventManager().ABCIEvents()
	}
	return out
}

// Branch returns a child state that can be mutated without affecting st.
func (st State) Branch() State {
	c, _ := st.Ctx.CacheContext()
	return State{Ctx: c, Height: st.Height}
}

func (st State) Next(g int64) State {
	return State{Ctx: st.Ctx.WithBlockHeight(st.Height + g), Height: st.Height + g}
}

// KV is one store entry.
type KV struct {
	Store string
	Key   []byte
	Val   []byte
}

// Dump is the canonical form of a state: every key/value of the six akash stores, the bank
// balances (all of them: cast, module accounts), and the height.
type Dump struct {
	Height int64
	KVs    []KV // sorted by (store, key)
}

func (w *World) dumpStores(st State, names []string) []KV {
	var out []KV
	for _, n := range names {
		s := st.Ctx.KVStore(w.keys[n])
		it := s.Iterator(nil, nil)
		for ; it.Valid(); it.Next() {
			k := append([]byte{}, it.Key()...)
			v := append([]byte{}, it.Value()...)
			out = append(out, KV{n, k, v})
		}
		it.Close()
	}
	return out
}

func (w *World) Dump(st State) *Dump {
	d := &Dump{Height: st.Height}
	d.KVs = w.dumpStores(st, akashStores)
	if w.GP.RestartCheck {
		d.KVs = append(d.KVs, w.dumpStores(st, []string{"params"})...)
	}
	// bank: balances (prefix 0x02) and supply (0x00)
	s := st.Ctx.KVStore(w.keys["bank"])
	it := s.Iterator(nil, nil)
	for ; it.Valid(); it.Next() {
		d.KVs = append(d.KVs, KV{"bank", append([]byte{}, it.Key()...), append([]byte{}, it.Value()...)})
	}
	it.Close()
	sort.SliceStable(d.KVs, func(i, j int) bool {
		if d.KVs[i].Store != d.KVs[j].Store {
			return d.KVs[i].Store < d.KVs[j].Store
		}
		return bytes.Compare(d.KVs[i].Key, d.KVs[j].Key) < 0
	})
	return d
}

// OthersHash hashes every store no akash handler is expected to touch (asserted unchanged).
func (w *World) OthersHash(st State) [32]byte {
	h := sha256.New()
	for _, kv := range w.dumpStores(st, w.others) {
		if kv.Store == "acc" {
			// the auth store legitimately changes when a module account is created lazily on the first
			// deposit (new account record + global account number); the records of the cast must not change
			isCast := false
			if len(kv.Key) == 21 && kv.Key[0] == 0x01 {
				_, isCast = w.Cast.Name[sdk.AccAddress(kv.Key[1:]).String()]
			}
			if !isCast {
				continue
			}
		}
		writeLP(h, []byte(kv.Store))
		writeLP(h, kv.Key)
		writeLP(h, kv.Val)
	}
	var out [32]byte
	copy(out[:], h.Sum(nil))
	return out
}

type lpw interface{ Write([]byte) (int, error) }

func writeLP(h lpw, b []byte) {
	var l [4]byte
	binary.BigEndian.PutUint32(l[:], uint32(len(b)))
	h.Write(l[:])
	h.Write(b)
}

func (d *Dump) Hash() [32]byte {
	h := sha256.New()
	var hb [8]byte
	binary.BigEndian.PutUint64(hb[:], uint64(d.Height))
	h.Write(hb[:])
	for _, kv := range d.KVs {
		writeLP(h, []byte(kv.Store))
		writeLP(h, kv.Key)
		writeLP(h, kv.Val)
	}
	var out [32]byte
	copy(out[:], h.Sum(nil))
	return out
}

// HashNoHeight: state hash ignoring the height (used for "failed tx leaves state unchanged").
func (d *Dump) HashNoHeight() [32]byte {
	h := sha256.New()
	for _, kv := range d.KVs {
		writeLP(h, []byte(kv.Store))
		writeLP(h, kv.Key)
		writeLP(h, kv.Val)
	}
	var out [32]byte
	copy(out[:], h.Sum(nil))
	return out
}

// Restarted returns a freshly constructed application instance (nothing initialised, no genesis run: exactly what a node has
// in memory after a restart) whose stores hold the contents of st, and the corresponding state.
func (w *World) Restarted(st State) (*World, State) {
	a := app.NewApp(log.NewNopLogger(), dbm.NewMemDB(), nil, true, 0, map[int64]bool{}, app.DefaultHome, simapp.EmptyAppOptions{})
	w2 := &World{App: a, Cast: w.Cast, GP: w.GP, keys: map[string]sdk.StoreKey{}, others: w.others, Escrow: w.Escrow, slot: w.slot}
	w2.root = a.NewUncachedContext(false, tmproto.Header{Height: st.Height, ChainID: "verif"})
	for n, k1 := range w.keys {
		k2 := a.GetKey(n)
		w2.keys[n] = k2
		src, dst := st.Ctx.KVStore(k1), w2.root.KVStore(k2)
		it := src.Iterator(nil, nil)
		for ; it.Valid(); it.Next() {
			dst.Set(append([]byte{}, it.Key()...), append([]byte{}, it.Value()...))
		}
		it.Close()
	}
	c, _ := w2.root.CacheContext()
	return w2, State{Ctx: c.WithBlockHeight(st.Height), Height: st.Height}
}
