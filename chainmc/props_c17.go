package main

// props_c17.go — C17: certificates are unique per owner+serial, revocation is permanent, and every
// registered certificate can always be found and listed. Reference model: the set of (owner, serial, state)
// decoded independently from the raw store; the REAL keeper lookups, iterators and the REAL gRPC querier
// (every filter x page size, following next_key) are compared against it in every reachable state.

import (
	"crypto/x509"
	"encoding/pem"
	"fmt"
	"math/big"
	"sort"

	sdk "github.com/cosmos/cosmos-sdk/types"
	sdkquery "github.com/cosmos/cosmos-sdk/types/query"

	ckeeper "github.com/ovrclk/akash/x/cert/keeper"
	ctypes "github.com/ovrclk/akash/x/cert/types"
)

func pow2(n uint) *big.Int { return new(big.Int).Lsh(big.NewInt(1), n) }

var certSerials = []*big.Int{big.NewInt(0), big.NewInt(1), big.NewInt(255), big.NewInt(256), big.NewInt(257), pow2(64), pow2(159)}

func scCert(serials []*big.Int) func() Scenario {
	return func() Scenario {
		sc := Scenario{Name: "S-cert", GP: GenesisParams{DeploymentMinDeposit: 10, BidMinDeposit: 5, Funds: 1000, StartHeight: 5}}
		var al []Action
		for _, o := range []string{"T1", "T2"} {
			for _, s := range serials {
				al = append(al, aCreateCert(o, o, s), aRevokeCert(o, s))
			}
		}
		// a stranger submitting someone else's certificate under its own name
		al = append(al, aCreateCert("T2", "T1", big.NewInt(1)), aCreateCert("T1", "T2", big.NewInt(256)))
		// another certificate with an already used serial; serials 8 and 10 with a revoke spelled "010" (decimal 10, octal 8)
		al = append(al, aCreateCertAlt("T1", big.NewInt(1)), aCreateCertAlt("T1", big.NewInt(256)),
			aCreateCert("T1", "T1", big.NewInt(8)), aCreateCert("T1", "T1", big.NewInt(10)), aRevokeCertSpelled("T1", "010"))
		// certificates issued by another identity (Issuer CN != Subject CN): only the account the SUBJECT names may register one
		al = append(al, aCreateCertIssued("T2", "T1", "T2", big.NewInt(12)), aCreateCertIssued("T1", "T1", "T2", big.NewInt(12)))
		sc.Alphabet = al
		return sc
	}
}

type certRec struct {
	Owner  string // bech32
	Serial *big.Int
	State  ctypes.Certificate_State
	CN     string
}

// model decodes the certificate store by hand: key = 0x01 | owner(20) | big-endian serial bytes.
func certModel(s *Snap) (map[string]certRec, []string) {
	m := map[string]certRec{}
	var errs []string
	for k, c := range s.Certs {
		key := []byte(k)
		if len(key) < 21 || key[0] != 0x01 {
			errs = append(errs, fmt.Sprintf("certificate key of unexpected shape %x", key))
			continue
		}
		owner := sdk.AccAddress(key[1:21]).String()
		rec := certRec{Owner: owner, State: c.State}
		blk, _ := pem.Decode(c.Cert)
		if blk == nil {
			errs = append(errs, fmt.Sprintf("stored certificate %x is not PEM", key))
			continue
		}
		x, err := x509.ParseCertificate(blk.Bytes)
		if err != nil {
			errs = append(errs, fmt.Sprintf("stored certificate %x does not parse: %v", key, err))
			continue
		}
		rec.Serial = x.SerialNumber
		rec.CN = x.Subject.CommonName
		if new(big.Int).SetBytes(key[21:]).Cmp(x.SerialNumber) != 0 {
			errs = append(errs, fmt.Sprintf("certificate key %x does not encode serial %s", key, x.SerialNumber))
		}
		id := owner + "/" + x.SerialNumber.String()
		if _, dup := m[id]; dup {
			errs = append(errs, "two records for "+id)
		}
		m[id] = rec
	}
	return m, errs
}

type chkC17 struct{}

func (chkC17) Name() string { return "C17" }

func (chkC17) CheckState(w *World, s *Snap, st State) (out []Viol) {
	model, errs := certModel(s)
	for _, e := range errs {
		out = append(out, Viol{"C17.store", "store-shape", shortKey(w, e)})
	}
	add := func(inv, sig, f string, a ...interface{}) {
		out = append(out, Viol{"C17." + inv, sig, shortKey(w, fmt.Sprintf(f, a...))})
	}
	for id, r := range model {
		if r.CN != r.Owner {
			add("registered-by-named-account", "cn-ne-owner", "certificate %s is stored under an owner different from the account it names (%s)", id, r.CN)
		}
	}
	k := ckeeper.NewKeeper(w.App.AppCodec(), w.keys["cert"])
	ctx := st.Ctx
	guard := func(what string, sigExtra string, fn func()) {
		defer func() {
			if r := recover(); r != nil {
				add("listings-never-fail", "panic:"+what+sigExtra, "%s panicked: %v", what, r)
			}
		}()
		fn()
	}
	has0 := ""
	for _, r := range model {
		if r.Serial.Sign() == 0 {
			has0 = ":serial-0-registered"
		}
	}
	check := func(what string, got []ctypes.CertificateResponse, match func(certRec) bool) {
		seen := map[string]bool{}
		for _, g := range got {
			blk, _ := pem.Decode(g.Certificate.Cert)
			if blk == nil {
				add("listing-correct", "listed-garbage", "%s returned an entry without certificate", what)
				continue
			}
			x, err := x509.ParseCertificate(blk.Bytes)
			if err != nil {
				add("listing-correct", "listed-garbage", "%s returned an unparsable certificate", what)
				continue
			}
			id := x.Subject.CommonName + "/" + x.SerialNumber.String()
			r, ok := model[id]
			if !ok {
				add("listing-correct", "listed-unregistered", "%s returned %s which is not registered", what, id)
				continue
			}
			if g.Serial != r.Serial.String() {
				add("listing-correct", "listed-wrong-serial", "%s returned %s with serial %q", what, id, g.Serial)
			}
			if g.Certificate.State != r.State {
				add("listing-correct", "listed-wrong-state", "%s returned %s as %s, it is %s", what, id, g.Certificate.State, r.State)
			}
			seen[id] = true
		}
		for id, r := range model {
			if match(r) && !seen[id] {
				add("listing-complete", "listing-misses-match", "%s does not contain registered certificate %s (%s)", what, id, r.State)
			}
		}
	}
	// keeper-level lookups and iterators
	for id, r := range model {
		id, r := id, r
		guard("GetCertificateByID", has0, func() {
			o, _ := sdk.AccAddressFromBech32(r.Owner)
			got, found := k.GetCertificateByID(ctx, ctypes.CertID{Owner: o, Serial: *r.Serial})
			if !found {
				add("findable", "not-findable", "registered certificate %s cannot be found by owner and serial", id)
			} else if got.Serial != r.Serial.String() || got.Certificate.State != r.State {
				add("findable", "found-wrong", "lookup of %s returned serial %s state %s", id, got.Serial, got.Certificate.State)
			}
		})
	}
	owners := []string{w.Cast.S("T1"), w.Cast.S("T2")}
	states := []ctypes.Certificate_State{ctypes.CertificateValid, ctypes.CertificateRevoked}
	guard("WithCertificates", has0, func() {
		var got []ctypes.CertificateResponse
		k.WithCertificates(ctx, func(c ctypes.CertificateResponse) bool { got = append(got, c); return false })
		check("WithCertificates", got, func(certRec) bool { return true })
	})
	for _, stt := range states {
		stt := stt
		guard("WithCertificatesState", has0, func() {
			var got []ctypes.CertificateResponse
			k.WithCertificatesState(ctx, stt, func(c ctypes.CertificateResponse) bool { got = append(got, c); return false })
			check("WithCertificatesState("+stt.String()+")", got, func(r certRec) bool { return r.State == stt })
		})
	}
	for _, o := range owners {
		o := o
		oa, _ := sdk.AccAddressFromBech32(o)
		guard("WithOwner", has0, func() {
			var got []ctypes.CertificateResponse
			k.WithOwner(ctx, oa, func(c ctypes.CertificateResponse) bool { got = append(got, c); return false })
			check("WithOwner("+o+")", got, func(r certRec) bool { return r.Owner == o })
		})
		for _, stt := range states {
			stt := stt
			guard("WithOwnerState", has0, func() {
				var got []ctypes.CertificateResponse
				k.WithOwnerState(ctx, oa, stt, func(c ctypes.CertificateResponse) bool { got = append(got, c); return false })
				check("WithOwnerState("+o+","+stt.String()+")", got, func(r certRec) bool { return r.Owner == o && r.State == stt })
			})
		}
	}
	// gRPC querier: every filter x page size, following next_key
	q := k.Querier()
	var serialFilters []string
	serialFilters = append(serialFilters, "")
	seenSer := map[string]bool{}
	for _, r := range model {
		if !seenSer[r.Serial.String()] {
			seenSer[r.Serial.String()] = true
			serialFilters = append(serialFilters, r.Serial.String())
		}
	}
	sort.Strings(serialFilters)
	for _, fo := range append([]string{""}, owners...) {
		for _, fs := range serialFilters {
			for _, fst := range []string{"", "valid", "revoked"} {
				for _, limit := range []uint64{0, 1, 2} {
					fo, fs, fst, limit := fo, fs, fst, limit
					what := fmt.Sprintf("Certificates(owner=%q,serial=%q,state=%q,limit=%d)", fo, fs, fst, limit)
					guard("grpc-Certificates", has0, func() {
						var got []ctypes.CertificateResponse
						var next []byte
						for page := 0; page < 64; page++ {
							req := &ctypes.QueryCertificatesRequest{Filter: ctypes.CertificateFilter{Owner: fo, Serial: fs, State: fst},
								Pagination: &sdkquery.PageRequest{Key: next, Limit: limit}}
							res, err := q.Certificates(sdk.WrapSDKContext(ctx), req)
							if err != nil {
								add("listings-never-fail", "error:grpc-Certificates"+has0, "%s failed: %v", what, err)
								return
							}
							got = append(got, res.Certificates...)
							if res.Pagination == nil || len(res.Pagination.NextKey) == 0 {
								break
							}
							next = res.Pagination.NextKey
						}
						match := func(r certRec) bool {
							return (fo == "" || r.Owner == fo) && (fs == "" || r.Serial.String() == fs) &&
								(fst == "" || (fst == "valid" && r.State == ctypes.CertificateValid) || (fst == "revoked" && r.State == ctypes.CertificateRevoked))
						}
						check(what, got, match)
						if limit == 0 {
							return
						}
						// the same listing paged by OFFSET (with count_total): the pages together are the listing, the total is its size
						var byOff []ctypes.CertificateResponse
						for off := uint64(0); off < 64; off += limit {
							req := &ctypes.QueryCertificatesRequest{Filter: ctypes.CertificateFilter{Owner: fo, Serial: fs, State: fst},
								Pagination: &sdkquery.PageRequest{Offset: off, Limit: limit, CountTotal: true}}
							res, err := q.Certificates(sdk.WrapSDKContext(ctx), req)
							if err != nil {
								add("listings-never-fail", "error:grpc-Certificates-offset"+has0, "%s offset=%d failed: %v", what, off, err)
								return
							}
							want := 0
							for _, r := range model {
								if match(r) {
									want++
								}
							}
							if res.Pagination != nil && off == 0 && int(res.Pagination.Total) < want { // the statement demands completeness only: a filter the implementation ignores (serial without owner) may over-count
								add("listing-complete", "offset-total", "%s offset=0 count_total reports only %d certificates, %d match the filter", what, res.Pagination.Total, want)
							}
							if len(res.Certificates) == 0 {
								break
							}
							byOff = append(byOff, res.Certificates...)
						}
						check(what+" paged by offset", byOff, match)
						// disjoint offset windows must not hand out one certificate twice: if they do, some window holds the wrong
						// certificates, and a client that reads exactly the windows covering the matching ones misses one
						// (a query naming owner AND serial is a point lookup, answered whatever the page window: not a listing)
						seenOff := map[string]bool{}
						for _, c := range byOff {
							if fo != "" && fs != "" {
								break
							}
							id := c.Certificate.String() + "|" + c.Serial
							if seenOff[id] {
								add("listing-complete", "offset-window-duplicate", "%s paged by offset (stride %d) returns certificate serial %s in two disjoint windows", what, limit, c.Serial)
								break
							}
							seenOff[id] = true
						}
					})
				}
			}
		}
	}
	return out
}

func (chkC17) CheckTrans(t *TransCtx) (out []Viol) {
	if t.Act.Gap > 0 {
		return nil
	}
	w := t.W
	pre, _ := certModel(t.Pre)
	post, _ := certModel(t.Post)
	add := func(inv, sig, f string, a ...interface{}) {
		out = append(out, Viol{"C17." + inv, sig, t.Act.Name + ": " + shortKey(w, fmt.Sprintf(f, a...))})
	}
	// nothing is ever removed; state only moves valid -> revoked
	for id, r := range pre {
		q, ok := post[id]
		if !ok {
			add("never-removed", "removed", "certificate %s disappeared", id)
			continue
		}
		if r.State != q.State && !(r.State == ctypes.CertificateValid && q.State == ctypes.CertificateRevoked) {
			add("revocation-permanent", "state-moved-back", "certificate %s moved from %s to %s", id, r.State, q.State)
		}
		if r.State != q.State && !(t.Act.Kind == "RevokeCertificate" && t.Res.OK && id == w.Cast.S(t.Act.Tag["owner"])+"/"+t.Act.Tag["serial"]) {
			add("revoked-only-by-owner-request", "state-changed-by-other", "certificate %s changed state without its owner's revoke request", id)
		}
	}
	for id := range post {
		if _, ok := pre[id]; !ok {
			named := w.Cast.S(t.Act.Tag["owner"]) + "/" + t.Act.Tag["serial"]
			if !(t.Act.Kind == "CreateCertificate" && t.Res.OK && id == named) {
				add("registered-by-named-account", "appeared", "certificate %s appeared without a matching create request", id)
			}
		}
	}
	switch t.Act.Kind {
	case "CreateCertificate":
		id := w.Cast.S(t.Act.Tag["cn"]) + "/" + t.Act.Tag["serial"]
		_, existed := pre[id]
		want := t.Act.Tag["cn"] == t.Act.Tag["owner"] && !existed
		if t.Res.OK != want {
			add("create-iff", fmt.Sprintf("create-accepted=%v-expected=%v", t.Res.OK, want), "create was accepted=%v, expected %v (signer names itself: %v, already registered: %v) %s", t.Res.OK, want, t.Act.Tag["cn"] == t.Act.Tag["owner"], existed, t.Res.Err)
		}
	case "RevokeCertificate":
		id := w.Cast.S(t.Act.Tag["owner"]) + "/" + t.Act.Tag["serial"]
		r, existed := pre[id]
		want := existed && r.State == ctypes.CertificateValid
		if t.Res.OK != want {
			add("revoke-iff", fmt.Sprintf("revoke-accepted=%v-expected=%v", t.Res.OK, want), "revoke was accepted=%v, expected %v %s", t.Res.OK, want, t.Res.Err)
		}
	}
	return out
}
