package main

// props_c16.go — C16: every lifecycle change is observable as a well-formed chain event.
// For every transition the multiset of expected typed events is derived from the independent diff of
// the pre/post snapshots; the emitted abci events are decoded the way events/publish.go does it
// (sdk.StringifyEvent -> sdkutil.ParseEvent -> the modules' ParseEvent) and compared.

import (
	"fmt"
	"reflect"
	"sort"
	"strings"

	sdk "github.com/cosmos/cosmos-sdk/types"
	abci "github.com/tendermint/tendermint/abci/types"

	"github.com/ovrclk/akash/sdkutil"
	atypes "github.com/ovrclk/akash/x/audit/types"
	dtypes "github.com/ovrclk/akash/x/deployment/types"
	mtypes "github.com/ovrclk/akash/x/market/types"
	ptypes "github.com/ovrclk/akash/x/provider/types"
)

// decodeLikeProvider mirrors events.processEvent (unexported there): first module parser that accepts wins.
func decodeLikeProvider(bev abci.Event) (interface{}, error) {
	ev, err := sdkutil.ParseEvent(sdk.StringifyEvent(bev))
	if err != nil {
		return nil, err
	}
	var errs []string
	if mev, err := dtypes.ParseEvent(ev); err == nil {
		return mev, nil
	} else {
		errs = append(errs, "deployment: "+err.Error())
	}
	if mev, err := mtypes.ParseEvent(ev); err == nil {
		return mev, nil
	} else {
		errs = append(errs, "market: "+err.Error())
	}
	if mev, err := ptypes.ParseEvent(ev); err == nil {
		return mev, nil
	} else {
		errs = append(errs, "provider: "+err.Error())
	}
	if mev, err := atypes.ParseEvent(ev); err == nil {
		return mev, nil
	} else {
		errs = append(errs, "audit: "+err.Error())
	}
	return nil, fmt.Errorf("%s", strings.Join(errs, "; "))
}

func evKey(e interface{}) string { return fmt.Sprintf("%T%+v", e, e) }

func evAction(bev abci.Event) (module, action string) {
	for _, a := range bev.Attributes {
		switch string(a.Key) {
		case sdk.AttributeKeyModule:
			module = string(a.Value)
		case sdk.AttributeKeyAction:
			action = string(a.Value)
		}
	}
	return
}

type chkC16 struct{}

func (chkC16) Name() string                                  { return "C16" }
func (chkC16) CheckState(w *World, s *Snap, st State) []Viol { return nil }

func (chkC16) CheckTrans(t *TransCtx) (out []Viol) {
	if t.Act.Gap > 0 || !t.Res.OK {
		return nil
	}
	w := t.W
	add := func(inv, sig, f string, a ...interface{}) {
		out = append(out, Viol{"C16." + inv, sig, t.Act.Name + ": " + shortKey(w, fmt.Sprintf(f, a...))})
	}
	// ---- emitted, decoded the provider's way
	emitted := map[string]int{}
	var emittedList []interface{}
	for _, bev := range t.Res.Events {
		if bev.Type != sdkutil.EventTypeMessage {
			continue
		}
		mod, act := evAction(bev)
		mev, err := decodeLikeProvider(bev)
		if err != nil {
			add("decodes", "undecodable:"+mod+"/"+act, "emitted event %s/%s does not decode through the provider's event parser: %v", mod, act, err)
			continue
		}
		// the decoded typed event must equal the one emitted: re-encoding it gives the same abci event
		if me, ok := mev.(interface{ ToSDKEvent() sdk.Event }); ok {
			re := abci.Event(me.ToSDKEvent())
			if !sameEvent(re, bev) {
				add("decodes", "roundtrip:"+mod+"/"+act, "event %s/%s decodes to %+v which re-encodes differently", mod, act, mev)
			}
		}
		emitted[evKey(mev)]++
		emittedList = append(emittedList, mev)
	}
	// ---- expected from the diff
	strict := map[string]int{} // kinds for which emitted must equal expected exactly
	exp := func(e interface{}) { strict[evKey(e)]++ }
	atLeastOnce := map[string]string{} // key -> description; exactly one expected
	for k, o := range t.Post.Orders {
		p, existed := t.Pre.Orders[k]
		if !existed {
			exp(mtypes.NewEventOrderCreated(o.OrderID))
			if o.State == mtypes.OrderClosed {
				exp(mtypes.NewEventOrderClosed(o.OrderID))
			}
		} else if p.State != mtypes.OrderClosed && o.State == mtypes.OrderClosed {
			exp(mtypes.NewEventOrderClosed(o.OrderID))
		}
	}
	for k, b := range t.Post.Bids {
		p, existed := t.Pre.Bids[k]
		if !existed {
			exp(mtypes.NewEventBidCreated(b.BidID, b.Price))
			if b.State == mtypes.BidClosed {
				exp(mtypes.NewEventBidClosed(b.BidID, b.Price))
			}
		} else if p.State != mtypes.BidClosed && b.State == mtypes.BidClosed {
			exp(mtypes.NewEventBidClosed(b.BidID, b.Price))
		}
	}
	for k, l := range t.Post.Leases {
		p, existed := t.Pre.Leases[k]
		closed := l.State == mtypes.LeaseClosed || l.State == mtypes.LeaseInsufficientFunds
		if !existed {
			exp(mtypes.NewEventLeaseCreated(l.LeaseID, l.Price))
			if closed {
				exp(mtypes.NewEventLeaseClosed(l.LeaseID, l.Price))
			}
		} else if p.State == mtypes.LeaseActive && closed {
			exp(mtypes.NewEventLeaseClosed(l.LeaseID, l.Price))
		}
	}
	for k, d := range t.Post.Deployments {
		p, existed := t.Pre.Deployments[k]
		if !existed {
			exp(dtypes.NewEventDeploymentCreated(d.DeploymentID, d.Version))
			if d.State == dtypes.DeploymentClosed {
				exp(dtypes.NewEventDeploymentClosed(d.DeploymentID))
			}
			continue
		}
		if p.State != dtypes.DeploymentClosed && d.State == dtypes.DeploymentClosed {
			exp(dtypes.NewEventDeploymentClosed(d.DeploymentID))
		}
		if string(p.Version) != string(d.Version) {
			e := dtypes.NewEventDeploymentUpdated(d.DeploymentID, d.Version)
			atLeastOnce[evKey(e)] = "deployment version changed"
		}
	}
	// groups: the lifecycle has a cycle (open -> paused -> open) and transient states inside one transaction
	// (CloseBid pauses the group, then an overdraft discovered while closing the payment closes it), so the
	// emitted group events must equal the edge labels of SOME path pre-state -> post-state of the lifecycle graph.
	type gedge struct {
		from, to dtypes.Group_State
		ev       string
	}
	gedges := []gedge{
		{dtypes.GroupOpen, dtypes.GroupPaused, "paused"}, {dtypes.GroupPaused, dtypes.GroupOpen, "started"},
		{dtypes.GroupOpen, dtypes.GroupClosed, "closed"}, {dtypes.GroupPaused, dtypes.GroupClosed, "closed"}, {dtypes.GroupInsufficientFunds, dtypes.GroupClosed, "closed"},
		{dtypes.GroupOpen, dtypes.GroupInsufficientFunds, "closed"}, {dtypes.GroupPaused, dtypes.GroupInsufficientFunds, "closed"},
	}
	var pathOK func(from, to dtypes.Group_State, left map[string]int, depth int) bool
	pathOK = func(from, to dtypes.Group_State, left map[string]int, depth int) bool {
		rem := 0
		for _, n := range left {
			rem += n
		}
		if from == to && rem == 0 {
			return true
		}
		if depth == 0 || rem == 0 {
			return false
		}
		for _, e := range gedges {
			if e.from == from && left[e.ev] > 0 {
				left[e.ev]--
				ok := pathOK(e.to, to, left, depth-1)
				left[e.ev]++
				if ok {
					return true
				}
			}
		}
		return false
	}
	groupEvents := map[string]map[string]int{} // group id -> kind -> count
	for _, e := range emittedList {
		var id dtypes.GroupID
		var kind string
		switch ev := e.(type) {
		case dtypes.EventGroupClosed:
			id, kind = ev.ID, "closed"
		case dtypes.EventGroupPaused:
			id, kind = ev.ID, "paused"
		case dtypes.EventGroupStarted:
			id, kind = ev.ID, "started"
		default:
			continue
		}
		if groupEvents[gid(id)] == nil {
			groupEvents[gid(id)] = map[string]int{}
		}
		groupEvents[gid(id)][kind]++
	}
	for k, g := range t.Post.Groups {
		from := dtypes.GroupOpen // a new group starts open
		if p, existed := t.Pre.Groups[k]; existed {
			from = p.State
		}
		evs := groupEvents[k]
		if evs == nil {
			evs = map[string]int{}
		}
		if !pathOK(from, g.State, evs, 4) {
			sig := fmt.Sprintf("group-events:%s->%s:%v", from, g.State, evs)
			add("exactly-the-event", sig, "group %s went %s -> %s but the group events emitted for it are %v, which no lifecycle path explains", k, from, g.State, evs)
		}
		delete(groupEvents, k)
	}
	for k, evs := range groupEvents {
		add("no-spurious-event", "group-events-for-unknown-group", "group events %v emitted for %s which is not a stored group", evs, k)
	}
	for k, p := range t.Post.Providers {
		o, _ := sdk.AccAddressFromBech32(p.Owner)
		q, existed := t.Pre.Providers[k]
		if !existed {
			exp(ptypes.NewEventProviderCreated(o))
		} else if !pbEq(&p, &q) {
			atLeastOnce[evKey(ptypes.NewEventProviderUpdated(o))] = "provider record changed"
		}
	}
	for k, p := range t.Post.Audits {
		q, existed := t.Pre.Audits[k]
		// created or updated = the record is new or gained / replaced an attribute; a record that only lost
		// attributes was changed by a delete request, whose corresponding event is the "deleted" one (not demanded here)
		grew := !existed
		for _, a := range p.Attributes {
			found := false
			for _, b := range q.Attributes {
				if a.Key == b.Key && a.Value == b.Value {
					found = true
				}
			}
			if !found {
				grew = true
			}
		}
		if grew {
			o, _ := sdk.AccAddressFromBech32(p.Owner)
			a, _ := sdk.AccAddressFromBech32(p.Auditor)
			atLeastOnce[evKey(atypes.NewEventTrustedAuditorCreated(o, a))] = "attestation created or updated"
		}
	}
	// ---- compare
	isStrictKind := func(e interface{}) bool {
		switch e.(type) {
		case mtypes.EventOrderCreated, mtypes.EventOrderClosed, mtypes.EventBidCreated, mtypes.EventBidClosed, mtypes.EventLeaseCreated, mtypes.EventLeaseClosed,
			dtypes.EventDeploymentCreated, dtypes.EventDeploymentClosed, ptypes.EventProviderCreated:
			return true
		}
		return false
	}
	var keys []string
	for k := range strict {
		keys = append(keys, k)
	}
	sort.Strings(keys)
	for _, k := range keys {
		if emitted[k] != strict[k] {
			add("exactly-the-event", "missing:"+kindOf(k), "expected %d x %s from the state change, emitted %d", strict[k], k, emitted[k])
		}
	}
	for _, e := range emittedList {
		k := evKey(e)
		if isStrictKind(e) && strict[k] == 0 {
			add("no-spurious-event", "spurious:"+kindOf(k), "emitted %s but the object did not change in that way", k)
			strict[k] = -1 << 30 // report once
		}
	}
	for k, why := range atLeastOnce {
		if emitted[k] != 1 {
			add("exactly-the-event", "missing:"+kindOf(k), "%s: expected exactly one %s, emitted %d", why, k, emitted[k])
		}
	}
	return out
}

func kindOf(k string) string {
	if i := strings.IndexByte(k, '{'); i > 0 {
		k = k[:i]
	}
	return k[strings.LastIndexByte(k, '.')+1:]
}

func sameEvent(a, b abci.Event) bool {
	if a.Type != b.Type || len(a.Attributes) != len(b.Attributes) {
		return false
	}
	for i := range a.Attributes {
		if string(a.Attributes[i].Key) != string(b.Attributes[i].Key) || string(a.Attributes[i].Value) != string(b.Attributes[i].Value) {
			return false
		}
	}
	return true
}

// ---- codec grid: constructor -> ToSDKEvent -> provider's decoder -> equal typed event

func CheckEventCodecs() (extraResult, error) {
	c := newCast()
	var viols []Viol
	var n int64
	var smp []interface{}
	prices := []string{"1", "9223372036854775807", "18446744073709551616", "1000000000000000000000000000000"}
	dseqs := append(append([]uint64{}, collideDSeqs...), 1<<32, 1<<63, ^uint64(0))
	seqs := []uint32{1, 2, 255, 256, 1<<32 - 1}
	try := func(e interface{ ToSDKEvent() sdk.Event }) {
		n++
		got, err := decodeLikeProvider(abci.Event(e.ToSDKEvent()))
		if err != nil {
			viols = append(viols, Viol{"C16.codec", "codec-undecodable:" + kindOf(evKey(e)), fmt.Sprintf("%+v does not decode: %v", e, err)})
			return
		}
		if !reflect.DeepEqual(normalize(got), normalize(e)) {
			viols = append(viols, Viol{"C16.codec", "codec-roundtrip:" + kindOf(evKey(e)), fmt.Sprintf("%+v decodes to %+v", e, got)})
		}
		if n%997 == 1 {
			smp = append(smp, fmt.Sprintf("%T%+v", e, e))
		}
	}
	for _, o := range []string{"T1", "T2"} {
		for _, d := range dseqs {
			did := dtypes.DeploymentID{Owner: c.S(o), DSeq: d}
			try(dtypes.NewEventDeploymentCreated(did, version("v1")))
			try(dtypes.NewEventDeploymentUpdated(did, version("v2")))
			try(dtypes.NewEventDeploymentClosed(did))
			for _, g := range seqs {
				gid := dtypes.GroupID{Owner: c.S(o), DSeq: d, GSeq: g}
				try(dtypes.NewEventGroupClosed(gid))
				try(dtypes.NewEventGroupPaused(gid))
				try(dtypes.NewEventGroupStarted(gid))
				for _, os := range seqs {
					oid := mtypes.OrderID{Owner: c.S(o), DSeq: d, GSeq: g, OSeq: os}
					try(mtypes.NewEventOrderCreated(oid))
					try(mtypes.NewEventOrderClosed(oid))
					for _, p := range []string{"P1", "P2"} {
						bid := mtypes.BidID{Owner: c.S(o), DSeq: d, GSeq: g, OSeq: os, Provider: c.S(p)}
						for _, pr := range prices {
							amt, _ := sdk.NewIntFromString(pr)
							price := sdk.NewCoin(denom, amt)
							try(mtypes.NewEventBidCreated(bid, price))
							try(mtypes.NewEventBidClosed(bid, price))
							try(mtypes.NewEventLeaseCreated(mtypes.LeaseID(bid), price))
							try(mtypes.NewEventLeaseClosed(mtypes.LeaseID(bid), price))
						}
					}
				}
			}
		}
	}
	for _, p := range []string{"P1", "P2"} {
		try(ptypes.NewEventProviderCreated(c.Addr[p]))
		try(ptypes.NewEventProviderUpdated(c.Addr[p]))
		for _, a := range []string{"U1", "U2"} {
			try(atypes.NewEventTrustedAuditorCreated(c.Addr[p], c.Addr[a]))
			try(atypes.NewEventTrustedAuditorDeleted(c.Addr[p], c.Addr[a]))
		}
	}
	return extraResult{Name: "event-codec-grid", Evals: n, Samples: smp, Viols: viols, Info: map[string]interface{}{"codec_roundtrips": n}}, nil
}

func normalize(e interface{}) string { return fmt.Sprintf("%T%+v", e, e) }
