package main

// props_c08.go — C08: bid admission rules and the provider attribute guard.
//  EX: GroupSpec.MatchRequirements over all requirement / own-attribute / auditor / attestation sets of a small alphabet
//      against the set-theoretic oracle of the statement;
//  MC: S-attr — attestations and provider records change between bids; every accepted CreateBid is compared with the
//      oracle evaluated on the PRE-state, every accepted UpdateProvider with the active leases' requirements.

import (
	"fmt"
	"sort"
	"strings"

	sdk "github.com/cosmos/cosmos-sdk/types"

	"github.com/ovrclk/akash/types"
	atypes "github.com/ovrclk/akash/x/audit/types"
	dtypes "github.com/ovrclk/akash/x/deployment/types"
	mtypes "github.com/ovrclk/akash/x/market/types"
	ptypes "github.com/ovrclk/akash/x/provider/types"
)

// ---- oracle (from the statement) ----

func covers(have types.Attributes, need types.Attributes) bool {
	for _, n := range need {
		ok := false
		for _, h := range have {
			if h.Key == n.Key && h.Value == n.Value {
				ok = true
			}
		}
		if !ok {
			return false
		}
	}
	return true
}

// oracleMatch: own = self-declared attributes; att = auditor -> attested attributes (absent = no attestation).
func oracleMatch(req types.PlacementRequirements, own types.Attributes, att map[string]types.Attributes) bool {
	if len(req.SignedBy.AllOf) == 0 && len(req.SignedBy.AnyOf) == 0 {
		return covers(own, req.Attributes)
	}
	for _, u := range req.SignedBy.AllOf {
		a, ok := att[u]
		if !ok || !covers(a, req.Attributes) {
			return false
		}
	}
	if len(req.SignedBy.AnyOf) > 0 {
		for _, u := range req.SignedBy.AnyOf {
			if a, ok := att[u]; ok && covers(a, req.Attributes) {
				return true
			}
		}
		return false
	}
	return true
}

// ---- EX: exhaustive small-scope comparison of MatchRequirements ----

func CheckMatchRequirements(thorough bool) (extraResult, error) {
	// an attribute value may legally be the empty string: a provider LACKING the key does not cover {a: ""}
	alpha := []types.Attribute{{Key: "a", Value: "1"}, {Key: "b", Value: "1"}, {Key: "a", Value: "2"}, {Key: "c", Value: ""}}
	subsets := func() []types.Attributes {
		var out []types.Attributes
		for m := 0; m < 1<<len(alpha); m++ {
			var s types.Attributes
			for i := range alpha {
				if m&(1<<i) != 0 {
					s = append(s, alpha[i])
				}
			}
			out = append(out, s)
		}
		return out
	}()
	auditors := []string{"U1", "U2"}
	lists := [][]string{{}, {"U1"}, {"U2"}, {"U1", "U2"}, {"U2", "U1"}, {"U1", "U1"}}
	if thorough {
		lists = append(lists, []string{"U2", "U2"}, []string{"U1", "U2", "U1"}, []string{"U3"}, []string{"U1", "U3"})
	}
	// attestation per auditor: absent or one of the subsets
	attChoices := append([]types.Attributes{nil}, subsets...)
	var n, acc, rej int64
	var viols []Viol
	var smp []interface{}
	seen := map[string]bool{}
	for _, R := range subsets {
		for _, O := range subsets {
			// the update guard's predicate (Order.MatchAttributes) over the same sets
			if got, want := (mtypes.Order{Spec: dtypes.GroupSpec{Name: "g", Requirements: types.PlacementRequirements{Attributes: R}}}).MatchAttributes(O), covers(O, R); got != want {
				sig := fmt.Sprintf("match-attributes:got=%v-want=%v", got, want)
				if !seen[sig] {
					seen[sig] = true
					viols = append(viols, Viol{"C08.match-requirements", sig, fmt.Sprintf("Order.MatchAttributes(required=%v; provider=%v) = %v, the statement gives %v", R, O, got, want)})
				}
			}
			n++
			for _, all := range lists {
				for _, any := range lists {
					for i1, a1 := range attChoices {
						for i2, a2 := range attChoices {
							req := types.PlacementRequirements{Attributes: R, SignedBy: types.SignedBy{AllOf: all, AnyOf: any}}
							att := map[string]types.Attributes{}
							provs := []atypes.Provider{{Owner: "P", Attributes: O}}
							if i1 > 0 {
								att[auditors[0]] = a1
								provs = append(provs, atypes.Provider{Owner: "P", Auditor: auditors[0], Attributes: a1})
							}
							if i2 > 0 {
								att[auditors[1]] = a2
								provs = append(provs, atypes.Provider{Owner: "P", Auditor: auditors[1], Attributes: a2})
							}
							want := oracleMatch(req, O, att)
							got := dtypes.GroupSpec{Name: "g", Requirements: req}.MatchRequirements(provs)
							n++
							if got {
								acc++
							} else {
								rej++
							}
							if got != want {
								sig := fmt.Sprintf("match-requirements:got=%v-want=%v:signed=%v", got, want, len(all)+len(any) > 0)
								if !seen[sig] {
									seen[sig] = true
									viols = append(viols, Viol{"C08.match-requirements", sig,
										fmt.Sprintf("MatchRequirements(required=%v allOf=%v anyOf=%v; own=%v; attested U1=%v U2=%v) = %v, the statement gives %v", R, all, any, O, att["U1"], att["U2"], got, want)})
								}
							}
							if n%40009 == 1 {
								smp = append(smp, fmt.Sprintf("required=%v allOf=%v anyOf=%v own=%v U1=%v U2=%v -> %v", R, all, any, O, att["U1"], att["U2"], got))
							}
						}
					}
				}
			}
		}
	}
	return extraResult{Name: "match-requirements-grid", Evals: n, Samples: smp, Viols: viols,
		Info: map[string]interface{}{"match_requirements_cases": n, "accepted": acc, "rejected": rej}}, nil
}

// ---- MC: S-attr ----

func reqOf(at types.Attributes, allOf, anyOf []string) func(c *Cast) types.PlacementRequirements {
	return func(c *Cast) types.PlacementRequirements {
		r := types.PlacementRequirements{Attributes: at}
		for _, u := range allOf {
			r.SignedBy.AllOf = append(r.SignedBy.AllOf, c.S(u))
		}
		for _, u := range anyOf {
			r.SignedBy.AnyOf = append(r.SignedBy.AnyOf, c.S(u))
		}
		return r
	}
}

func aCreateDeploymentReq(t string, dseq uint64, label string, rq func(c *Cast) types.PlacementRequirements) Action {
	return Action{Name: fmt.Sprintf("CreateDeployment(%s,%d,req=%s)", t, dseq, label), Kind: "CreateDeployment", Signer: t, Tag: tag("owner", t, "dseq", u(dseq)),
		Msg: func(c *Cast) sdk.Msg {
			return &dtypes.MsgCreateDeployment{ID: dtypes.DeploymentID{Owner: c.S(t), DSeq: dseq},
				Groups: []dtypes.GroupSpec{groupSpec("g1", 3, rq(c))}, Version: version("v1"), Deposit: coin(10)}
		}}
}

func scAttr() Scenario {
	sc := Scenario{Name: "S-attr", GP: GenesisParams{DeploymentMinDeposit: 10, BidMinDeposit: 5, Funds: 1000, StartHeight: 5}}
	a1 := attrs("aaa", "1")
	ab := attrs("aaa", "1", "bbb", "1")
	a2 := attrs("aaa", "2")
	var al []Action
	al = append(al,
		aProvider("CreateProvider", "P1", a1, "aaa=1"),
		aProvider("UpdateProvider", "P1", nil, "none"), aProvider("UpdateProvider", "P1", a1, "aaa=1"), aProvider("UpdateProvider", "P1", ab, "aaa=1,bbb=1"), aProvider("UpdateProvider", "P1", a2, "aaa=2"),
		aProvider("CreateProvider", "P2", ab, "aaa=1,bbb=1"),
		aSign("U1", "P1", a1, "aaa=1"), aSign("U1", "P1", attrs("bbb", "1"), "bbb=1"), aSign("U1", "P1", attrs("ccc", "1"), "ccc=1"), aSign("U1", "P1", attrs("AAA", "1"), "AAA=1"), aSign("U1", "P1", a2, "aaa=2"), aSign("U2", "P1", ab, "aaa=1,bbb=1"),
		aUnsign("U1", "P1", nil, "all"), aUnsign("U1", "P1", []string{"aaa"}, "aaa"), aUnsign("U2", "P1", nil, "all"),
		aUnsign("U1", "P1", []string{"bbb", "aaa"}, "bbb+aaa"), aUnsign("U2", "P1", []string{"bbb", "aaa"}, "bbb+aaa"),
		aCreateDeploymentReq("T1", 1, "aaa=1", reqOf(a1, nil, nil)),
		aCreateDeploymentReq("T1", 2, "aaa=1,bbb=1;all=U1", reqOf(ab, []string{"U1"}, nil)),
		aCreateDeploymentReq("T1", 3, "aaa=1;any=U1,U2", reqOf(a1, nil, []string{"U1", "U2"})),
		aCreateDeploymentReq("T2", 1, "aaa=1;all=U1;any=U2", reqOf(a1, []string{"U1"}, []string{"U2"})),
		// a tenant that only wants a provider vetted by U1 (no attribute required), and an attribute whose required value is ""
		aSign("U1", "P1", nil, "nothing"),
		aCreateDeploymentReq("T1", 5, "none;all=U1", reqOf(nil, []string{"U1"}, nil)),
		aCreateDeploymentReq("T1", 6, "ccc=", reqOf(attrs("ccc", ""), nil, nil)),
	)
	for _, b := range []bidRef{{"T1", 1, 1, 1, "P1"}, {"T1", 2, 1, 1, "P1"}, {"T1", 3, 1, 1, "P1"}, {"T2", 1, 1, 1, "P1"}, {"T1", 5, 1, 1, "P1"}, {"T1", 6, 1, 1, "P1"}} {
		al = append(al, aCreateBid(b, 2, 5), aBidOp("CreateLease", b), aBidOp("CloseLease", b))
	}
	al = append(al,
		aCreateBid(bidRef{"T1", 1, 1, 1, "P2"}, 3, 5),
		aCreateBid(bidRef{"T1", 1, 1, 1, "P1"}, 4, 5), // above the order's maximum
		aCreateBid(bidRef{"T1", 1, 1, 1, "P1"}, 2, 4), // below the minimum deposit
		aCreateBid(bidRef{"T1", 1, 1, 1, "U1"}, 2, 5), // not a registered provider
		aCreateBid(bidRef{"T1", 1, 1, 1, "T1"}, 2, 5), // the tenant itself
		aCreateBid(bidRef{"T1", 1, 1, 2, "P1"}, 2, 5), // second order of the group
		// the tenant, registered as a provider, bidding on its own order with its address spelled in upper case
		aProvider("CreateProvider", "T1", ab, "aaa=1,bbb=1"),
		aCreateBidRaw("CreateBid(T1,1,1,1,T1-UPPERCASE,price=2,dep=5)", bidRef{"T1", 1, 1, 1, "T1"}, func(c *Cast) string { return strings.ToUpper(c.S("T1")) }, coin(2), 5),
		// a price in another denomination whose amount is within the maximum
		aCreateBidRaw("CreateBid(T1,1,1,1,P1,price=2uatom,dep=5)", bidRef{"T1", 1, 1, 1, "P1"}, func(c *Cast) string { return c.S("P1") }, sdk.NewInt64Coin(denom2, 2), 5),
		aGroup("CloseGroup", "T1", 1, 1),
	)
	sc.Alphabet = al
	return sc
}

// S-attr-leased: S-attr's alphabet started from a state in which P1 already holds two leases whose
// requirements differ (aaa=1 on T1/1; aaa=1,bbb=1 signed by U1 on T1/2).
func scAttrLeased() Scenario {
	sc := scAttr()
	sc.Name = "S-attr-leased"
	ab := attrs("aaa", "1", "bbb", "1")
	b1, b2 := bidRef{"T1", 1, 1, 1, "P1"}, bidRef{"T1", 2, 1, 1, "P1"}
	sc.Preamble = []Action{
		aProvider("CreateProvider", "P1", ab, "aaa=1,bbb=1"),
		aSign("U1", "P1", ab, "aaa=1,bbb=1"),
		aCreateDeploymentReq("T1", 1, "aaa=1", reqOf(attrs("aaa", "1"), nil, nil)),
		aCreateDeploymentReq("T1", 2, "aaa=1,bbb=1;all=U1", reqOf(ab, []string{"U1"}, nil)),
		aCreateBid(b1, 2, 5), aCreateBid(b2, 2, 5),
		aBidOp("CreateLease", b1), aBidOp("CreateLease", b2),
	}
	return sc
}

// S-attr-2groups: P1 holds leases on BOTH groups of one deployment; the groups' orders have the same oseq and
// different requirements (g1: aaa=1, g2: aaa=1,bbb=1).
func scAttr2Groups() Scenario {
	sc := scAttr()
	sc.Name = "S-attr-2groups"
	ab := attrs("aaa", "1", "bbb", "1")
	b1, b2 := bidRef{"T1", 4, 1, 1, "P1"}, bidRef{"T1", 4, 2, 1, "P1"}
	dep := Action{Name: "CreateDeployment(T1,4,g1 req=aaa=1,g2 req=aaa=1+bbb=1)", Kind: "CreateDeployment", Signer: "T1", Tag: tag("owner", "T1", "dseq", "4"),
		Msg: func(c *Cast) sdk.Msg {
			return &dtypes.MsgCreateDeployment{ID: dtypes.DeploymentID{Owner: c.S("T1"), DSeq: 4},
				Groups: []dtypes.GroupSpec{groupSpec("g1", 3, types.PlacementRequirements{Attributes: attrs("aaa", "1")}), groupSpec("g2", 3, types.PlacementRequirements{Attributes: ab})},
				Version: version("v1"), Deposit: coin(10)}
		}}
	sc.Preamble = []Action{
		aProvider("CreateProvider", "P1", ab, "aaa=1,bbb=1"), dep,
		aCreateBid(b1, 2, 5), aCreateBid(b2, 2, 5), aBidOp("CreateLease", b1), aBidOp("CreateLease", b2),
	}
	sc.Alphabet = append(sc.Alphabet, aBidOp("CloseLease", b1), aBidOp("CloseLease", b2))
	return sc
}

// aProviderUpper registers / updates a provider whose owner address is spelled in upper-case bech32 (legal).
func aProviderUpper(kind, p string, at types.Attributes, label string) Action {
	a := aProvider(kind, p, at, label)
	a.Name = fmt.Sprintf("%s(%s-UPPERCASE,%s)", kind, p, label)
	inner := a.Msg
	a.Msg = func(c *Cast) sdk.Msg {
		switch m := inner(c).(type) {
		case *ptypes.MsgCreateProvider:
			m.Owner = strings.ToUpper(m.Owner)
			return m
		case *ptypes.MsgUpdateProvider:
			m.Owner = strings.ToUpper(m.Owner)
			return m
		}
		panic("aProviderUpper")
	}
	return a
}

// S-attr-upper: like S-attr-leased, but P1 registered itself with its address spelled in upper case.
func scAttrUpper() Scenario {
	sc := scAttrLeased()
	sc.Name = "S-attr-upper"
	ab := attrs("aaa", "1", "bbb", "1")
	sc.Preamble[0] = aProviderUpper("CreateProvider", "P1", ab, "aaa=1,bbb=1")
	sc.Alphabet = append(sc.Alphabet,
		aProviderUpper("UpdateProvider", "P1", attrs("aaa", "1"), "aaa=1"),
		aProviderUpper("UpdateProvider", "P1", nil, "none"))
	return sc
}

type chkC08 struct{}

func (chkC08) Name() string                                  { return "C08" }
func (chkC08) CheckState(w *World, s *Snap, st State) []Viol { return nil }

func attestationsOf(s *Snap, provider string) map[string]types.Attributes {
	m := map[string]types.Attributes{}
	for _, p := range s.Audits {
		if p.Owner == provider {
			m[p.Auditor] = p.Attributes
		}
	}
	return m
}

func (chkC08) CheckTrans(t *TransCtx) (out []Viol) {
	if t.Act.Gap > 0 {
		return nil
	}
	w := t.W
	add := func(inv, sig, f string, a ...interface{}) {
		out = append(out, Viol{"C08." + inv, sig, t.Act.Name + ": " + shortKey(w, fmt.Sprintf(f, a...))})
	}
	switch t.Act.Kind {
	case "SignProviderAttributes", "DeleteProviderAttributes":
		// reference model of what an auditor attests: signing merges (new values win), deleting removes the named keys
		// (all keys when none are named); the stored record must be exactly that
		if !t.Res.OK {
			return nil
		}
		k := w.Cast.S(t.Act.Tag["provider"]) + "/" + w.Cast.S(t.Act.Tag["auditor"])
		model := map[string]string{}
		_, present := t.Pre.Audits[k]
		for _, a := range t.Pre.Audits[k].Attributes {
			model[a.Key] = a.Value
		}
		if m, ok := t.Act.Msg(w.Cast).(*atypes.MsgSignProviderAttributes); ok {
			present = true // signing vouches for the provider, even with an empty attribute list
			for _, a := range m.Attributes {
				model[a.Key] = a.Value
			}
		}
		if m, ok := t.Act.Msg(w.Cast).(*atypes.MsgDeleteProviderAttributes); ok {
			if len(m.Keys) == 0 {
				model = map[string]string{}
			}
			for _, key := range m.Keys {
				delete(model, key)
			}
			if len(model) == 0 {
				present = false // a revocation that leaves nothing attested withdraws the attestation itself
			}
		}
		got := map[string]string{}
		_, gotPresent := t.Post.Audits[k]
		for _, a := range t.Post.Audits[k].Attributes {
			got[a.Key] = a.Value
		}
		if fmt.Sprint(got) != fmt.Sprint(model) {
			add("attestation-model", "attestation-ne-model:"+t.Act.Kind, "the attestation of %s by %s is %v after this request, the requests so far amount to %v", t.Act.Tag["provider"], t.Act.Tag["auditor"], got, model)
		} else if gotPresent != present {
			add("attestation-model", fmt.Sprintf("attestation-present=%v-want=%v:%s", gotPresent, present, t.Act.Kind), "after this request the attestation record of %s by %s exists=%v, the requests so far amount to exists=%v (an auditor that revoked everything no longer signs for the provider; orders naming it in signed_by would still match)", t.Act.Tag["provider"], t.Act.Tag["auditor"], gotPresent, present)
		}
	case "CreateBid":
		if !t.Res.OK {
			return nil
		}
		msg := t.Act.Msg(w.Cast).(*mtypes.MsgCreateBid)
		var why []string
		o, found := t.Pre.Orders[oid(msg.Order)]
		if !found || o.State != mtypes.OrderOpen {
			why = append(why, "order-not-open")
		}
		prov, registered := t.Pre.Providers[msg.Provider]
		if perr0, pa0 := error(nil), sdk.AccAddress(nil); !registered {
			// the provider store is keyed by address; the message may spell the address differently (upper-case bech32)
			if pa0, perr0 = sdk.AccAddressFromBech32(msg.Provider); perr0 == nil {
				for _, pr := range t.Pre.Providers {
					if o, e := sdk.AccAddressFromBech32(pr.Owner); e == nil && o.Equals(pa0) {
						prov, registered = pr, true
					}
				}
			}
		}
		if !registered {
			why = append(why, "provider-not-registered")
		}
		pa, perr := sdk.AccAddressFromBech32(msg.Provider)
		oa, oerr := sdk.AccAddressFromBech32(msg.Order.Owner)
		if perr != nil || oerr != nil || pa.Equals(oa) {
			why = append(why, "provider-is-tenant")
		}
		if !msg.Price.IsValid() || !msg.Price.IsPositive() {
			why = append(why, "price-not-positive")
		}
		if found {
			max := int64(0)
			for _, r := range o.Spec.Resources {
				max += i64(r.Price) * int64(r.Count)
			}
			if msg.Price.Denom != denom || i64(msg.Price) > max {
				why = append(why, "price-above-max")
			}
			if registered && !oracleMatch(o.Spec.Requirements, prov.Attributes, attestationsOf(t.Pre, msg.Provider)) {
				why = append(why, "attributes-do-not-cover")
			}
		}
		if msg.Deposit.Denom != denom || i64(msg.Deposit) < w.GP.BidMinDeposit {
			why = append(why, "deposit-below-min")
		}
		if len(why) > 0 {
			add("bid-admission", "accepted:"+strings.Join(why, "+"), "bid was accepted although: %s", strings.Join(why, ", "))
		}
	case "UpdateProvider":
		if !t.Res.OK {
			return nil
		}
		p := w.Cast.S(t.Act.Tag["provider"])
		prov, okp := t.Post.Providers[p]
		if !okp {
			prov = t.Post.Providers[strings.ToUpper(p)]
		}
		var keys []string
		for k := range t.Post.Leases {
			keys = append(keys, k)
		}
		sort.Strings(keys)
		for _, k := range keys {
			l := t.Post.Leases[k]
			if l.LeaseID.Provider != p || l.State != mtypes.LeaseActive {
				continue
			}
			o := t.Post.Orders[oid(l.LeaseID.OrderID())]
			if !covers(prov.Attributes, o.Spec.Requirements.Attributes) {
				add("attribute-guard", "update-drops-required-attribute", "provider attributes are now %v but active lease %s requires %v", prov.Attributes, k, o.Spec.Requirements.Attributes)
			}
		}
	}
	return out
}
