//go:build !verifmap

package main

func verifMapSet(offset uint32, bucket uint32, kth uint32) {}
func verifMapClear() (count, multi, akash, akashMulti uint32) { return 0, 0, 0, 0 }

const mapHookAvailable = false

func verifTimeSet(shift int64) {}
func verifTimeNows() uint32    { return 0 }
