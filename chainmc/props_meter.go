package main

// props_meter.go — C02: pay-per-block metering is exact and never overcharges.
// The oracle is an independent integer ledger evaluated on every transition (what a settlement at
// height h must do to every payment of the account, given only the PRE-state and h) and on every
// state (closed-form accrual: rate x (settled - created), with the creation height taken from the
// market module's lease record, an independent source).

import (
	"fmt"
	"sort"
	"strings"

	etypes "github.com/ovrclk/akash/x/escrow/types"
	mtypes "github.com/ovrclk/akash/x/market/types"
)

type chkC02 struct{}

func (chkC02) Name() string { return "C02" }

func payTotal(p etypes.Payment) int64 { return i64(p.Balance) + i64(p.Withdrawn) }

func accKeyOf(p etypes.Payment) string { return p.AccountID.Scope + "/" + p.AccountID.XID }

func (chkC02) CheckState(w *World, s *Snap, st State) []Viol {
	var out []Viol
	sums := map[string]int64{}
	for k, p := range s.Payments {
		sums[accKeyOf(p)] += payTotal(p)
		acc, ok := s.Accounts[accKeyOf(p)]
		if !ok {
			continue
		}
		id, ok := mtypes.LeaseIDFromEscrowAccount(p.AccountID, p.PaymentID)
		if !ok {
			continue
		}
		l, ok := s.Leases[bid(mtypes.BidID(id))]
		if !ok {
			continue
		}
		rate := i64(p.Rate)
		// the agreed price is the lease's price (= the accepted bid's price), whatever rate the payment record carries
		if !p.Rate.IsEqual(l.Price) {
			out = append(out, Viol{"C02.agreed-price", "payment-rate-ne-lease-price", fmt.Sprintf("payment %s runs at %s but the lease was agreed at %s", shortKey(w, k), p.Rate, l.Price)})
		}
		if p.State == etypes.PaymentOpen && acc.State == etypes.AccountOpen {
			want := rate * (acc.SettledAt - l.CreatedAt)
			if payTotal(p) != want {
				out = append(out, Viol{"C02.exact-accrual", "exact-accrual", fmt.Sprintf("open payment %s (rate %d, lease created at %d, account settled at %d) has accrued %d, expected exactly %d", shortKey(w, k), rate, l.CreatedAt, acc.SettledAt, payTotal(p), want)})
			}
		}
		// never more than price x blocks-open (blocks-open <= now - created)
		if max := rate * (s.Height - l.CreatedAt); payTotal(p) > max {
			out = append(out, Viol{"C02.never-overpaid", "overpaid", fmt.Sprintf("payment %s (rate %d, created at %d, now %d) has received %d > %d", shortKey(w, k), rate, l.CreatedAt, s.Height, payTotal(p), max)})
		}
	}
	for k, a := range s.Accounts {
		if i64(a.Transferred) != sums[k] {
			out = append(out, Viol{"C02.transferred-equals-credited", "transferred-ne-credited", fmt.Sprintf("account %s has transferred %d but its payees were credited %d", shortKey(w, k), i64(a.Transferred), sums[k])})
		}
		if a.Balance.IsNegative() {
			out = append(out, Viol{"C02.never-overspent", "negative-balance", "negative balance on " + shortKey(w, k)})
		}
	}
	return out
}

func (chkC02) CheckTrans(t *TransCtx) []Viol {
	if t.Act.Gap > 0 || !t.Res.OK {
		return nil
	}
	var out []Viol
	w := t.W
	h := t.Pre.Height
	add := func(inv, sig, f string, a ...interface{}) {
		out = append(out, Viol{"C02." + inv, sig, t.Act.Name + ": " + shortKey(w, fmt.Sprintf(f, a...))})
	}
	var accKeys []string
	for k := range t.Pre.Accounts {
		accKeys = append(accKeys, k)
	}
	sort.Strings(accKeys)
	for _, ak := range accKeys {
		a := t.Pre.Accounts[ak]
		b, ok := t.Post.Accounts[ak]
		if !ok {
			continue
		}
		// payments of this account that were open before the transaction
		var open []string
		for pk, p := range t.Pre.Payments {
			if accKeyOf(p) == ak && p.State == etypes.PaymentOpen {
				open = append(open, pk)
			}
		}
		sort.Strings(open)
		gain := func(pk string) int64 { return payTotal(t.Post.Payments[pk]) - payTotal(t.Pre.Payments[pk]) }
		// payments not open before never gain; payments created now start at zero
		for pk, p := range t.Post.Payments {
			if accKeyOf(p) != ak {
				continue
			}
			q, existed := t.Pre.Payments[pk]
			if !existed && payTotal(p) != 0 {
				add("new-payment-starts-at-zero", "new-payment-earned", "payment %s was created with %d already credited", pk, payTotal(p))
			}
			if existed && q.State != etypes.PaymentOpen && gain(pk) != 0 {
				add("closed-never-accrues", "closed-accrued", "%s payment %s gained %d", q.State, pk, gain(pk))
			}
		}
		dT := i64(b.Transferred) - i64(a.Transferred)
		if dT < 0 {
			add("transferred-monotone", "transferred-decreased", "account %s: transferred decreased by %d", ak, -dT)
		}
		if dT > i64(a.Balance) {
			add("never-overspent", "overspent", "account %s transferred %d out of a balance of %d", ak, dT, i64(a.Balance))
		}
		if a.State != etypes.AccountOpen {
			continue
		}
		R := int64(0)
		for _, pk := range open {
			R += i64(t.Pre.Payments[pk].Rate)
		}
		total := int64(0)
		for _, pk := range open {
			total += gain(pk)
		}
		if total != dT {
			add("transferred-equals-credited", "delta-transferred-ne-credited", "account %s transferred %d but open payees gained %d", ak, dT, total)
		}
		delta := h - a.SettledAt
		settled := b.SettledAt != a.SettledAt
		if b.SettledAt < a.SettledAt || b.SettledAt > h {
			add("settled-at", "settled-at", "account %s settled-at moved from %d to %d at height %d", ak, a.SettledAt, b.SettledAt, h)
			continue
		}
		if !settled {
			// no settlement: nobody may gain anything
			for _, pk := range open {
				if gain(pk) != 0 {
					add("accrual-without-settlement", "accrual-without-settlement", "payment %s gained %d although the account was not settled", pk, gain(pk))
				}
			}
			continue
		}
		if len(open) == 0 {
			if dT != 0 {
				add("transferred-equals-credited", "transfer-without-payee", "account %s transferred %d with no open payment", ak, dT)
			}
			continue
		}
		B := i64(a.Balance)
		if B >= R*delta {
			// funded: every open payee accrues exactly rate x blocks, whatever triggered the settlement
			for _, pk := range open {
				r := i64(t.Pre.Payments[pk].Rate)
				if gain(pk) != r*delta {
					add("exact-accrual", "funded-settlement", "funded settlement over %d blocks: payment %s (rate %d) gained %d, expected %d", delta, pk, r, gain(pk), r*delta)
				}
			}
			if b.State == etypes.AccountOverdrawn {
				add("exact-accrual", "overdrawn-while-funded", "account %s (balance %d, block rate %d, %d blocks) was marked overdrawn although fully funded", ak, B, R, delta)
			}
		} else {
			n := B / R
			if total != B {
				add("overdraft-distributes-everything", "overdraft-remainder", "overdraft: account %s had %d left but distributed %d", ak, B, total)
			}
			for _, pk := range open {
				r := i64(t.Pre.Payments[pk].Rate)
				if g := gain(pk); g < r*n || g > r*(n+1) {
					add("overdraft-share", "overdraft-share", "overdraft with %d full blocks: payment %s (rate %d) gained %d, expected between %d and %d", n, pk, r, g, r*n, r*(n+1))
				}
			}
			if b.State != etypes.AccountOverdrawn || i64(b.Balance) != 0 {
				add("overdraft-distributes-everything", "overdraft-state", "overdraft: account %s ended %s with balance %d", ak, b.State, i64(b.Balance))
			}
		}
	}
	return out
}

// ---- S-meter: three groups, three concurrently open payments with rates 1..3 ----

func scMeter() Scenario {
	sc := Scenario{Name: "S-meter", GP: GenesisParams{DeploymentMinDeposit: 1, BidMinDeposit: 1, Funds: 1000, StartHeight: 5}}
	b1 := bidRef{"T1", 1, 1, 1, "P1"}
	b2 := bidRef{"T1", 1, 2, 1, "P2"}
	b3 := bidRef{"T1", 1, 3, 1, "P1"}
	sc.Preamble = []Action{
		aProvider("CreateProvider", "P1", nil, "none"), aProvider("CreateProvider", "P2", nil, "none"),
		aCreateDeployment("T1", 1, 3, 3, 12, noReq),
		aCreateBid(b1, 1, 1), aCreateBid(b2, 2, 1), aCreateBid(b3, 3, 1),
	}
	al := []Action{aNext(1), aNext(2), aNext(5)}
	for _, b := range []bidRef{b1, b2, b3} {
		al = append(al, aBidOp("CreateLease", b), aBidOp("WithdrawLease", b), aBidOp("CloseLease", b))
	}
	al = append(al, aDeposit("T1", 1, 3), aCloseDeployment("T1", 1), aBidOp("CloseBid", b2))
	sc.Alphabet = al
	return sc
}

// ---- grid ("exhaustively for all small balances / rates / gaps") ----

// scGrid's alphabet contains every action a grid history may use; histories are enumerated, not searched.
func scGrid() Scenario {
	sc := Scenario{Name: "S-grid", GP: GenesisParams{DeploymentMinDeposit: 1, BidMinDeposit: 1, Funds: 100000, StartHeight: 5}}
	sc.Preamble = []Action{aProvider("CreateProvider", "P1", nil, "none"), aProvider("CreateProvider", "P2", nil, "none"), aProvider("CreateProvider", "B", nil, "none")}
	var al []Action
	for B := int64(1); B <= 14; B++ {
		al = append(al, aCreateDeployment("T1", 1, 3, 3, B, noReq))
	}
	provs := []string{"P1", "P2", "B"}
	for g := uint32(1); g <= 3; g++ {
		b := bidRef{"T1", 1, g, 1, provs[g-1]}
		for price := int64(1); price <= 3; price++ {
			al = append(al, aCreateBid(b, price, 1))
		}
		al = append(al, aBidOp("CreateLease", b), aBidOp("WithdrawLease", b), aBidOp("CloseLease", b), aBidOp("CloseBid", b))
	}
	al = append(al, aDeposit("T1", 1, 2), aCloseDeployment("T1", 1))
	for g := int64(1); g <= 9; g++ {
		al = append(al, aNext(g))
	}
	sc.Alphabet = al
	return sc
}

// gridHistories enumerates: deposit B, k payments with rates, stagger gaps between lease creations,
// a gap, and a settle-triggering tail.
func gridHistories(sc Scenario, thorough bool) [][]int {
	idx := map[string]int{}
	for i, a := range sc.Alphabet {
		idx[a.Name] = i
	}
	at := func(n string) int {
		i, ok := idx[n]
		if !ok {
			panic("grid: no action " + n)
		}
		return i
	}
	provs := []string{"P1", "P2", "B"}
	bname := func(g int) string { return fmt.Sprintf("T1,1,%d,1,%s", g, provs[g-1]) }
	maxB, maxGap := int64(8), int64(5)
	staggers := []int64{0, 1}
	if thorough {
		maxB, maxGap = 14, 9
		staggers = []int64{0, 1, 3}
	}
	triggers := []string{"withdraw1", "closelease1", "closedeployment", "closebid1", "deposit-withdraw", "withdraw-last", "withdraw1-next1-withdraw1", "newlease"}
	var out [][]int
	var rec func(k int, rates []int64)
	emit := func(rates []int64) {
		k := len(rates)
		// stagger patterns: gap before each lease creation after the first
		var stag [][]int64
		var gen func(cur []int64)
		gen = func(cur []int64) {
			if len(cur) == k-1 {
				stag = append(stag, append([]int64{}, cur...))
				return
			}
			for _, s := range staggers {
				gen(append(cur, s))
			}
		}
		gen(nil)
		for B := int64(1); B <= maxB; B++ {
			for _, sg := range stag {
				for gap := int64(0); gap <= maxGap; gap++ {
					for _, trg := range triggers {
						if trg == "newlease" && k == 3 {
							continue
						}
						var h []int
						h = append(h, at(fmt.Sprintf("CreateDeployment(T1,1,groups=3,max=3,dep=%d)", B)))
						for g := 1; g <= k; g++ {
							h = append(h, at(fmt.Sprintf("CreateBid(%s,price=%d,dep=1)", bname(g), rates[g-1])))
						}
						if trg == "newlease" {
							h = append(h, at(fmt.Sprintf("CreateBid(%s,price=%d,dep=1)", bname(k+1), 2)))
						}
						for g := 1; g <= k; g++ {
							if g > 1 && sg[g-2] > 0 {
								h = append(h, at(fmt.Sprintf("Next(%d)", sg[g-2])))
							}
							h = append(h, at(fmt.Sprintf("CreateLease(%s)", bname(g))))
						}
						if gap > 0 {
							h = append(h, at(fmt.Sprintf("Next(%d)", gap)))
						}
						switch trg {
						case "withdraw1":
							h = append(h, at("WithdrawLease("+bname(1)+")"))
						case "withdraw-last":
							h = append(h, at("WithdrawLease("+bname(k)+")"))
						case "closelease1":
							h = append(h, at("CloseLease("+bname(1)+")"))
						case "closebid1":
							h = append(h, at("CloseBid("+bname(1)+")"))
						case "closedeployment":
							h = append(h, at("CloseDeployment(T1,1)"))
						case "deposit-withdraw":
							h = append(h, at("Deposit(T1,1,2)"), at("WithdrawLease("+bname(1)+")"))
						case "withdraw1-next1-withdraw1":
							h = append(h, at("WithdrawLease("+bname(1)+")"), at("Next(1)"), at("WithdrawLease("+bname(1)+")"))
						case "newlease":
							h = append(h, at("CreateLease("+bname(k+1)+")"))
						}
						// a final settlement of everything so that the last accruals are observed too
						h = append(h, at("Next(1)"), at("CloseDeployment(T1,1)"))
						out = append(out, h)
					}
				}
			}
		}
	}
	rec = func(k int, rates []int64) {
		if len(rates) == k {
			emit(rates)
			return
		}
		for r := int64(1); r <= 3; r++ {
			rec(k, append(rates, r))
		}
	}
	for k := 1; k <= 3; k++ {
		rec(k, nil)
	}
	return out
}

func histKey(h []int) string {
	var sb strings.Builder
	for _, i := range h {
		fmt.Fprintf(&sb, "%d,", i)
	}
	return sb.String()
}
