//go:build verifmap

package main

import _ "unsafe"

// Provided by the runtime overlay (chainmc/rt/zz_verif_map.go.in), see checks/C07.

//go:linkname verifMapSet runtime.verifMapSet
func verifMapSet(offset uint32, bucket uint32, kth uint32)

//go:linkname verifMapClear runtime.verifMapClear
func verifMapClear() (count, multi, akash, akashMulti uint32)

const mapHookAvailable = true

//go:linkname verifTimeSet runtime.verifTimeSet
func verifTimeSet(shift int64)

//go:linkname verifTimeNows runtime.verifTimeNows
func verifTimeNows() uint32
