package main

// props_c06.go — C06: right signer, and a transaction touches only what it names.
//  (a) signer table: GetSigners() of every message instance of every alphabet == the protocol role
//  (b) ante path: every message type x every cast member as signer through real signed DeliverTx
//  (c) confinement: on every transition of S-collide, the diff of all stores is confined to the named object

import (
	"bytes"
	"encoding/binary"
	"fmt"
	"math/big"
	"sort"
	"strings"

	"github.com/cosmos/cosmos-sdk/client/tx"
	sdk "github.com/cosmos/cosmos-sdk/types"
	"github.com/cosmos/cosmos-sdk/types/tx/signing"
	authsigning "github.com/cosmos/cosmos-sdk/x/auth/signing"
	authtypes "github.com/cosmos/cosmos-sdk/x/auth/types"
	abci "github.com/tendermint/tendermint/abci/types"
	tmproto "github.com/tendermint/tendermint/proto/tendermint/types"

	"github.com/ovrclk/akash/app"
)

// ---------------------------------------------------------------- scenario

var collideDSeqs = []uint64{1, 12, 255, 256, 257, 65536, 1<<32 + 7, 1<<64 - 1}

func scCollide() Scenario {
	sc := Scenario{Name: "S-collide", GP: GenesisParams{DeploymentMinDeposit: 10, BidMinDeposit: 5, Funds: 100000, StartHeight: 5}}
	pre := []Action{aProvider("CreateProvider", "P1", nil, "none"), aProvider("CreateProvider", "P2", nil, "none")}
	type dep struct {
		t string
		d uint64
		g int
	}
	deps := []dep{{"T1", 1, 2}, {"T1", 12, 2}, {"T1", 256, 1}, {"T1", 257, 1}, {"T1", 65536, 1}, {"T1", 1<<32 + 7, 1}, {"T1", 255, 1}, {"T2", 1, 1}, {"T2", 12, 1}, {"T2", 1<<64 - 1, 1}}
	for _, d := range deps {
		pre = append(pre, aCreateDeployment(d.t, d.d, d.g, 3, 10, noReq))
	}
	var bids []bidRef
	for _, d := range deps {
		b := bidRef{d.t, d.d, 1, 1, "P1"}
		bids = append(bids, b)
		pre = append(pre, aCreateBid(b, 2, 5))
	}
	extra := []bidRef{{"T1", 1, 1, 1, "P2"}, {"T1", 12, 1, 1, "P2"}, {"T1", 1, 2, 1, "P2"}}
	for _, b := range extra {
		bids = append(bids, b)
		pre = append(pre, aCreateBid(b, 3, 5))
	}
	for _, b := range []bidRef{{"T1", 1, 1, 1, "P1"}, {"T1", 12, 1, 1, "P1"}, {"T2", 1, 1, 1, "P1"}, {"T1", 256, 1, 1, "P1"}, {"T1", 1<<32 + 7, 1, 1, "P1"}, {"T2", 1<<64 - 1, 1, 1, "P1"}} {
		pre = append(pre, aBidOp("CreateLease", b))
	}
	pre = append(pre, aNext(1))
	sc.Preamble = pre
	al := []Action{aNext(1), aNext(6)}
	for _, d := range deps {
		al = append(al, aCloseDeployment(d.t, d.d), aDeposit(d.t, d.d, 3),
			aGroup("CloseGroup", d.t, d.d, 1), aGroup("PauseGroup", d.t, d.d, 1), aGroup("StartGroup", d.t, d.d, 1))
		if d.g > 1 {
			al = append(al, aGroup("CloseGroup", d.t, d.d, 2))
		}
	}
	for _, b := range bids {
		al = append(al, aBidOp("CreateLease", b), aBidOp("CloseLease", b), aBidOp("CloseBid", b), aBidOp("WithdrawLease", b))
	}
	al = append(al, bidOps(bidRef{"T1", 1, 1, 2, "P2"}, 1, true)...)
	al = append(al,
		aCreateBid(bidRef{"T1", 12, 1, 2, "P2"}, 1, 5), aCreateBid(bidRef{"T2", 12, 1, 1, "P2"}, 1, 5),
		aUpdateDeployment("T1", 1, "v2"), aUpdateDeployment("T1", 12, "v2"),
		aProvider("UpdateProvider", "P1", attrs("aaa", "1"), "aaa=1"),
		aSign("U1", "P1", attrs("aaa", "1"), "aaa=1"), aSign("U2", "P1", attrs("aaa", "1"), "aaa=1"), aSign("U1", "P2", attrs("aaa", "1"), "aaa=1"),
		aUnsign("U1", "P1", nil, "all"),
		aCreateCert("T1", "T1", big.NewInt(1)), aCreateCert("T1", "T1", big.NewInt(256)), aCreateCert("T2", "T2", big.NewInt(1)),
		aRevokeCert("T1", big.NewInt(1)),
		aCreateCert("T1", "T1", big.NewInt(8)), aCreateCert("T1", "T1", big.NewInt(10)), aRevokeCertSpelled("T1", "010"),
	)
	sc.Alphabet = al
	return sc
}

// ---------------------------------------------------------------- checker

type chkC06 struct{}

func (chkC06) Name() string { return "C06" }

func (chkC06) CheckState(w *World, s *Snap, st State) []Viol {
	var out []Viol
	for _, e := range s.Errors {
		out = append(out, Viol{"C06.key-matches-record", "key-record-mismatch", shortKey(w, e)})
	}
	return out
}

func parseU(s string) uint64 { var n uint64; fmt.Sscan(s, &n); return n }

func (chkC06) CheckTrans(t *TransCtx) []Viol {
	var out []Viol
	w := t.W
	a := t.Act
	if a.Gap > 0 {
		// a block step changes nothing
		if t.PreDump.HashNoHeight() != t.PostDump.HashNoHeight() {
			out = append(out, Viol{"C06.block-step", "block-step", "a block step changed the stores"})
		}
		return out
	}
	// (a) signer table, on every executed message instance
	msg := a.Msg(w.Cast)
	signers := msg.GetSigners()
	if len(signers) != 1 || !signers[0].Equals(w.Cast.Addr[a.Signer]) {
		var got []string
		for _, s := range signers {
			got = append(got, w.Cast.Name[s.String()])
		}
		out = append(out, Viol{"C06.signer-table", "signer:" + a.Kind, fmt.Sprintf("%s: GetSigners() = %v, protocol role is %s", a.Name, got, a.Signer)})
	}
	if !t.Res.OK {
		return out // failed transaction: the cache branch is discarded, state unchanged by construction (checked in CheckAnte for DeliverTx)
	}
	add := func(sig, f string, x ...interface{}) {
		out = append(out, Viol{"C06.confinement", sig + ":" + a.Kind, a.Name + ": " + shortKey(w, fmt.Sprintf(f, x...))})
	}
	// stores no akash message may touch
	if w.OthersHash(t.PreSt) != w.OthersHash(t.PostSt) {
		add("foreign-store", "changed a store outside the akash modules and bank balances")
	}
	owner, hasDep := a.Tag["owner"], a.Tag["dseq"] != ""
	dseq := parseU(a.Tag["dseq"])
	ownerAddr := ""
	if owner != "" {
		ownerAddr = w.Cast.S(owner)
	}
	inDeployment := func(o string, d uint64) bool { return hasDep && o == ownerAddr && d == dseq }
	// group-, bid- and lease-level actions name one group of the deployment: apart from the lazy settlement of the
	// deployment's escrow account (balances of all its payments accrue), they may only change records of that group —
	// unless the transaction discovered an overdraft, which legitimately closes the whole deployment.
	gseqTag := a.Tag["gseq"]
	groupScoped := gseqTag != "" && hasDep
	if groupScoped {
		dk := fmt.Sprintf("%s/%d", ownerAddr, dseq)
		if pre, post := t.Pre.Deployments[dk], t.Post.Deployments[dk]; pre.State != post.State {
			groupScoped = false
		}
	}
	inGroup := func(g uint64) bool { return !groupScoped || g == parseU(gseqTag) }
	keys := map[string]bool{}
	for k, v := range t.Pre.Raw {
		if pv, ok := t.Post.Raw[k]; !ok || !bytes.Equal(pv, v) {
			keys[k] = true
		}
	}
	for k := range t.Post.Raw {
		if _, ok := t.Pre.Raw[k]; !ok {
			keys[k] = true
		}
	}
	var ks []string
	for k := range keys {
		ks = append(ks, k)
	}
	sort.Strings(ks)
	signer := w.Cast.S(a.Signer)
	for _, rk := range ks {
		i := strings.IndexByte(rk, 0)
		store, key := rk[:i], []byte(rk[i+1:])
		switch store {
		case "deployment":
			o, q, _, ok := splitOwnerSeqs(key[1:], 1)
			if !ok || !inDeployment(o, q[0]) {
				add("deployment-record", "changed deployment-store record %s/%d", o, q[0])
			} else if key[0] == 2 && groupScoped {
				if _, gq, _, ok := splitOwnerSeqs(key[1:], 2); ok && !inGroup(gq[1]) {
					add("other-group", "changed group %s/%d/%d, the message names group %s", o, gq[0], gq[1], gseqTag)
				}
			}
		case "market":
			o, q, _, ok := splitOwnerSeqs(key[2:], 1)
			if !ok || !inDeployment(o, q[0]) {
				add("market-record", "changed market-store record of %s/%d", o, q[0])
			} else if groupScoped {
				if _, gq, _, ok := splitOwnerSeqs(key[2:], 2); ok && !inGroup(gq[1]) {
					add("other-group", "changed a market record of group %s/%d/%d, the message names group %s", o, gq[0], gq[1], gseqTag)
				}
			}
		case "escrow":
			parts := strings.Split(string(key[1:]), "/")
			// "", scope, owner, dseq, ...
			if len(parts) < 4 || !inDeployment(parts[2], parseU(parts[3])) {
				add("escrow-record", "changed escrow record %s", string(key[1:]))
			} else if groupScoped && len(parts) >= 5 {
				// payment "/deployment/owner/dseq/<gseq>/<oseq>/<provider>": may accrue, but its STATE may change only in the named group;
				// bid deposit account "/bid/owner/dseq/<gseq>/...": only in the named group
				if !inGroup(parseU(parts[4])) {
					if parts[1] == "bid" {
						add("other-group", "changed bid deposit account %s, the message names group %s", string(key[1:]), gseqTag)
					} else if pk := strings.Join(parts[1:], "/"); t.Pre.Payments[pk].State != t.Post.Payments[pk].State {
						add("other-group", "changed the state of payment %s, the message names group %s", string(key[1:]), gseqTag)
					}
				}
			}
		case "provider":
			if !strings.HasSuffix(a.Kind, "Provider") || sdk.AccAddress(key).String() != w.Cast.S(a.Tag["provider"]) {
				add("provider-record", "changed provider record of %s", sdk.AccAddress(key).String())
			}
		case "audit":
			okk := strings.HasSuffix(a.Kind, "ProviderAttributes") && len(key) == 41 &&
				sdk.AccAddress(key[1:21]).String() == w.Cast.S(a.Tag["provider"]) && sdk.AccAddress(key[21:41]).String() == w.Cast.S(a.Tag["auditor"])
			if !okk {
				add("audit-record", "changed attestation record %x", key)
			}
		case "cert":
			okk := strings.HasSuffix(a.Kind, "Certificate") && len(key) >= 21 && sdk.AccAddress(key[1:21]).String() == ownerAddr
			if okk {
				ser, _ := new(big.Int).SetString(a.Tag["serial"], 10)
				okk = bytes.Equal(key[21:], ser.Bytes())
			}
			if !okk {
				add("cert-record", "changed certificate record %x", key)
			}
		case "bank":
			if bytes.HasPrefix(key, []byte("balances")) {
				addr := sdk.AccAddress(key[8:28]).String()
				d := t.Post.Bal[addr] - t.Pre.Bal[addr]
				if d < 0 && addr != signer && addr != w.Escrow.String() {
					add("balance-decreased", "reduced the balance of %s (not the signer) by %d", addr, -d)
				}
			} else {
				add("bank-other", "changed bank key %x", key)
			}
		}
	}
	return out
}

// ---------------------------------------------------------------- (b) ante path: real signed DeliverTx

type anteCase struct {
	Msg    string `json:"msg"`
	Signer string `json:"signed_by"`
	Role   string `json:"role"`
	Code   uint32 `json:"code"`
	Log    string `json:"log,omitempty"`
}

// CheckAnte delivers, for every message of a fixed valid history, the message signed by every cast
// member (wrong signers first), through the real BaseApp.DeliverTx with the real ante handler.
func CheckAnte() (cases []anteCase, viols []Viol, err error) {
	gp := GenesisParams{DeploymentMinDeposit: 10, BidMinDeposit: 5, Funds: 100000, StartHeight: 5}
	w := NewWorld(gp)
	a := w.App
	txCfg := app.MakeEncodingConfig().TxConfig
	height := int64(2)
	a.BeginBlock(abci.RequestBeginBlock{Header: tmproto.Header{Height: height, ChainID: "verif"}})

	b1 := bidRef{"T1", 1, 1, 1, "P1"}
	b2 := bidRef{"T1", 1, 2, 1, "P1"}
	hist := []Action{
		aProvider("CreateProvider", "P1", attrs("aaa", "1"), "aaa=1"),
		aProvider("UpdateProvider", "P1", attrs("aaa", "1", "bbb", "1"), "aaa=1,bbb=1"),
		aSign("U1", "P1", attrs("aaa", "1"), "aaa=1"),
		aUnsign("U1", "P1", nil, "all"),
		aCreateCert("T1", "T1", big.NewInt(7)),
		aRevokeCert("T1", big.NewInt(7)),
		aCreateDeployment("T1", 1, 2, 3, 10, noReq),
		aDeposit("T1", 1, 3),
		aUpdateDeployment("T1", 1, "v2"),
		aCreateBid(b1, 2, 5),
		aBidOp("CreateLease", b1),
		aBidOp("WithdrawLease", b1),
		aBidOp("CloseLease", b1),
		aCreateBid(b2, 2, 5),
		aBidOp("CreateLease", b2),
		aBidOp("CloseBid", b2),
		aGroup("StartGroup", "T1", 1, 2),
		aGroup("PauseGroup", "T1", 1, 2),
		aGroup("CloseGroup", "T1", 1, 2),
		aCloseDeployment("T1", 1),
	}
	readAcc := func(addr sdk.AccAddress) (num, seq uint64) {
		ctx := a.NewContext(false, tmproto.Header{Height: height, ChainID: "verif"}) // deliverState branch
		bz := ctx.KVStore(a.GetKey("acc")).Get(authtypes.AddressStoreKey(addr))
		var acc authtypes.AccountI
		if e := a.AppCodec().UnmarshalInterface(bz, &acc); e != nil {
			panic(e)
		}
		return acc.GetAccountNumber(), acc.GetSequence()
	}
	snapshot := func() [32]byte {
		ctx := a.NewContext(false, tmproto.Header{Height: height, ChainID: "verif"})
		return w.Dump(State{Ctx: ctx, Height: height}).HashNoHeight()
	}
	deliver := func(act Action, signerName string) abci.ResponseDeliverTx {
		msg := act.Msg(w.Cast)
		priv := w.Cast.Priv[signerName]
		num, seq := readAcc(w.Cast.Addr[signerName])
		b := txCfg.NewTxBuilder()
		if e := b.SetMsgs(msg); e != nil {
			panic(e)
		}
		b.SetGasLimit(5_000_000)
		b.SetFeeAmount(sdk.NewCoins())
		sd := authsigning.SignerData{ChainID: "verif", AccountNumber: num, Sequence: seq}
		sig := signing.SignatureV2{PubKey: priv.PubKey(), Data: &signing.SingleSignatureData{SignMode: txCfg.SignModeHandler().DefaultMode()}, Sequence: seq}
		if e := b.SetSignatures(sig); e != nil {
			panic(e)
		}
		sig2, e := tx.SignWithPrivKey(txCfg.SignModeHandler().DefaultMode(), sd, b, priv, txCfg, seq)
		if e != nil {
			panic(e)
		}
		if e := b.SetSignatures(sig2); e != nil {
			panic(e)
		}
		bz, e := txCfg.TxEncoder()(b.GetTx())
		if e != nil {
			panic(e)
		}
		return a.DeliverTx(abci.RequestDeliverTx{Tx: bz})
	}
	for _, act := range hist {
		// wrong signers first: all must be rejected and leave the akash stores and balances untouched
		for _, s := range w.Cast.Names {
			if s == act.Signer {
				continue
			}
			before := snapshot()
			r := deliver(act, s)
			cases = append(cases, anteCase{Msg: act.Name, Signer: s, Role: act.Signer, Code: r.Code, Log: firstLine(r.Log)})
			if r.Code == 0 {
				viols = append(viols, Viol{"C06.ante", "accepted-wrong-signer:" + act.Kind, fmt.Sprintf("%s was accepted by DeliverTx when signed by %s; the protocol role is %s", act.Name, s, act.Signer)})
			}
			if snapshot() != before {
				viols = append(viols, Viol{"C06.ante", "rejected-tx-changed-state:" + act.Kind, fmt.Sprintf("%s signed by %s was rejected but changed the stores", act.Name, s)})
			}
		}
		r := deliver(act, act.Signer)
		cases = append(cases, anteCase{Msg: act.Name, Signer: act.Signer, Role: act.Signer, Code: r.Code, Log: firstLine(r.Log)})
		if r.Code != 0 {
			viols = append(viols, Viol{"C06.ante", "rejected-right-signer:" + act.Kind, fmt.Sprintf("%s signed by its role %s was rejected: %s", act.Name, act.Signer, firstLine(r.Log))})
		}
	}
	return cases, viols, nil
}

func firstLine(s string) string {
	if i := strings.IndexByte(s, '\n'); i >= 0 {
		s = s[:i]
	}
	if len(s) > 160 {
		s = s[:160]
	}
	return s
}

var _ = binary.BigEndian
