package main

// decode.go — independent decoder: turns the raw key/value dump of a state into typed records.
// It never goes through a keeper; keys are parsed by hand so that key-encoding mistakes are visible.

import (
	"bytes"
	"encoding/binary"
	"fmt"
	"sort"
	"strings"

	sdk "github.com/cosmos/cosmos-sdk/types"

	atypes "github.com/ovrclk/akash/x/audit/types"
	ctypes "github.com/ovrclk/akash/x/cert/types"
	dtypes "github.com/ovrclk/akash/x/deployment/types"
	etypes "github.com/ovrclk/akash/x/escrow/types"
	mtypes "github.com/ovrclk/akash/x/market/types"
	ptypes "github.com/ovrclk/akash/x/provider/types"
)

type Snap struct {
	Height      int64
	Deployments map[string]dtypes.Deployment
	Groups      map[string]dtypes.Group
	Orders      map[string]mtypes.Order
	Bids        map[string]mtypes.Bid
	Leases      map[string]mtypes.Lease
	Accounts    map[string]etypes.Account // "scope/xid"
	Payments    map[string]etypes.Payment // "scope/xid/pid"
	Providers   map[string]ptypes.Provider
	Audits      map[string]atypes.Provider // "owner/auditor"
	Certs       map[string]ctypes.Certificate
	CertKeys    map[string][]byte
	Bal         map[string]int64 // bech32 -> uakt
	BalX        map[string]int64 // bech32 + "/" + denom -> amount, for every other denomination
	Supply      int64
	Raw         map[string][]byte // store + "\x00" + key -> value
	Errors      []string          // decoding problems (key/value disagreement etc.)
}

func rawKey(store string, key []byte) string { return store + "\x00" + string(key) }

func (s *Snap) errf(f string, a ...interface{}) { s.Errors = append(s.Errors, fmt.Sprintf(f, a...)) }

func did(id dtypes.DeploymentID) string { return fmt.Sprintf("%s/%d", id.Owner, id.DSeq) }
func gid(id dtypes.GroupID) string      { return fmt.Sprintf("%s/%d/%d", id.Owner, id.DSeq, id.GSeq) }
func oid(id mtypes.OrderID) string {
	return fmt.Sprintf("%s/%d/%d/%d", id.Owner, id.DSeq, id.GSeq, id.OSeq)
}
func bid(id mtypes.BidID) string {
	return fmt.Sprintf("%s/%d/%d/%d/%s", id.Owner, id.DSeq, id.GSeq, id.OSeq, id.Provider)
}

const bechLen = 44 // len("akash1" + 38)

func Decode(d *Dump) *Snap {
	s := &Snap{
		Height:      d.Height,
		Deployments: map[string]dtypes.Deployment{}, Groups: map[string]dtypes.Group{},
		Orders: map[string]mtypes.Order{}, Bids: map[string]mtypes.Bid{}, Leases: map[string]mtypes.Lease{},
		Accounts: map[string]etypes.Account{}, Payments: map[string]etypes.Payment{},
		Providers: map[string]ptypes.Provider{}, Audits: map[string]atypes.Provider{},
		Certs: map[string]ctypes.Certificate{}, CertKeys: map[string][]byte{},
		Bal: map[string]int64{}, BalX: map[string]int64{}, Raw: map[string][]byte{},
	}
	for _, kv := range d.KVs {
		s.Raw[rawKey(kv.Store, kv.Key)] = kv.Val
		switch kv.Store {
		case "params":
			// part of the state identity in parameter-changing scenarios; not decoded
		case "deployment":
			s.decDeployment(kv)
		case "market":
			s.decMarket(kv)
		case "escrow":
			s.decEscrow(kv)
		case "provider":
			var p ptypes.Provider
			if err := p.Unmarshal(kv.Val); err != nil {
				s.errf("provider value: %v", err)
				continue
			}
			if sdk.AccAddress(kv.Key).String() != p.Owner {
				s.errf("provider key %x does not match owner %s", kv.Key, p.Owner)
			}
			s.Providers[p.Owner] = p
		case "audit":
			var p atypes.Provider
			if err := p.Unmarshal(kv.Val); err != nil {
				s.errf("audit value: %v", err)
				continue
			}
			if len(kv.Key) != 41 || kv.Key[0] != 1 {
				s.errf("audit key shape %x", kv.Key)
			} else if sdk.AccAddress(kv.Key[1:21]).String() != p.Owner || sdk.AccAddress(kv.Key[21:41]).String() != p.Auditor {
				s.errf("audit key %x does not match owner/auditor %s/%s", kv.Key, p.Owner, p.Auditor)
			}
			s.Audits[p.Owner+"/"+p.Auditor] = p
		case "cert":
			var c ctypes.Certificate
			if err := c.Unmarshal(kv.Val); err != nil {
				s.errf("cert value: %v", err)
				continue
			}
			s.Certs[string(kv.Key)] = c
			s.CertKeys[string(kv.Key)] = kv.Key
		case "bank":
			if bytes.HasPrefix(kv.Key, []byte("balances")) {
				rest := kv.Key[len("balances"):]
				if len(rest) < 20 {
					s.errf("bank key %x", kv.Key)
					continue
				}
				addr := sdk.AccAddress(rest[:20]).String()
				var c sdk.Coin
				if err := c.Unmarshal(kv.Val); err != nil {
					s.errf("bank value: %v", err)
					continue
				}
				if c.Denom == denom {
					s.Bal[addr] = c.Amount.Int64()
				} else {
					s.BalX[addr+"/"+c.Denom] = c.Amount.Int64()
				}
			}
		}
	}
	return s
}

func splitOwnerSeqs(b []byte, nseq int) (owner string, seqs []uint64, rest []byte, ok bool) {
	if len(b) < bechLen+8+4*(nseq-1) {
		return "", nil, nil, false
	}
	owner = string(b[:bechLen])
	p := bechLen
	seqs = append(seqs, binary.BigEndian.Uint64(b[p:p+8]))
	p += 8
	for i := 1; i < nseq; i++ {
		seqs = append(seqs, uint64(binary.BigEndian.Uint32(b[p:p+4])))
		p += 4
	}
	return owner, seqs, b[p:], true
}

func (s *Snap) decDeployment(kv KV) {
	switch kv.Key[0] {
	case 1:
		var v dtypes.Deployment
		if err := v.Unmarshal(kv.Val); err != nil {
			s.errf("deployment value: %v", err)
			return
		}
		o, q, rest, ok := splitOwnerSeqs(kv.Key[1:], 1)
		if !ok || len(rest) != 0 || o != v.DeploymentID.Owner || q[0] != v.DeploymentID.DSeq {
			s.errf("deployment key %x does not match id %v", kv.Key, v.DeploymentID)
		}
		s.Deployments[did(v.DeploymentID)] = v
	case 2:
		var v dtypes.Group
		if err := v.Unmarshal(kv.Val); err != nil {
			s.errf("group value: %v", err)
			return
		}
		o, q, rest, ok := splitOwnerSeqs(kv.Key[1:], 2)
		if !ok || len(rest) != 0 || o != v.GroupID.Owner || q[0] != v.GroupID.DSeq || uint32(q[1]) != v.GroupID.GSeq {
			s.errf("group key %x does not match id %v", kv.Key, v.GroupID)
		}
		s.Groups[gid(v.GroupID)] = v
	default:
		s.errf("deployment store: unknown key prefix %x", kv.Key)
	}
}

func (s *Snap) decMarket(kv KV) {
	if len(kv.Key) < 2 || kv.Key[1] != 0 {
		s.errf("market store: unknown key %x", kv.Key)
		return
	}
	switch kv.Key[0] {
	case 1:
		var v mtypes.Order
		if err := v.Unmarshal(kv.Val); err != nil {
			s.errf("order value: %v", err)
			return
		}
		o, q, rest, ok := splitOwnerSeqs(kv.Key[2:], 3)
		if !ok || len(rest) != 0 || o != v.OrderID.Owner || q[0] != v.OrderID.DSeq || uint32(q[1]) != v.OrderID.GSeq || uint32(q[2]) != v.OrderID.OSeq {
			s.errf("order key %x does not match id %v", kv.Key, v.OrderID)
		}
		s.Orders[oid(v.OrderID)] = v
	case 2:
		var v mtypes.Bid
		if err := v.Unmarshal(kv.Val); err != nil {
			s.errf("bid value: %v", err)
			return
		}
		o, q, rest, ok := splitOwnerSeqs(kv.Key[2:], 3)
		if !ok || string(rest) != v.BidID.Provider || o != v.BidID.Owner || q[0] != v.BidID.DSeq || uint32(q[1]) != v.BidID.GSeq || uint32(q[2]) != v.BidID.OSeq {
			s.errf("bid key %x does not match id %v", kv.Key, v.BidID)
		}
		s.Bids[bid(v.BidID)] = v
	case 3:
		var v mtypes.Lease
		if err := v.Unmarshal(kv.Val); err != nil {
			s.errf("lease value: %v", err)
			return
		}
		o, q, rest, ok := splitOwnerSeqs(kv.Key[2:], 3)
		if !ok || string(rest) != v.LeaseID.Provider || o != v.LeaseID.Owner || q[0] != v.LeaseID.DSeq || uint32(q[1]) != v.LeaseID.GSeq || uint32(q[2]) != v.LeaseID.OSeq {
			s.errf("lease key %x does not match id %v", kv.Key, v.LeaseID)
		}
		s.Leases[bid(mtypes.BidID(v.LeaseID))] = v
	default:
		s.errf("market store: unknown key prefix %x", kv.Key)
	}
}

func (s *Snap) decEscrow(kv KV) {
	switch kv.Key[0] {
	case 1:
		var v etypes.Account
		if err := v.Unmarshal(kv.Val); err != nil {
			s.errf("account value: %v", err)
			return
		}
		want := "/" + v.ID.Scope + "/" + v.ID.XID
		if string(kv.Key[1:]) != want {
			s.errf("escrow account key %q does not match id %v", kv.Key[1:], v.ID)
		}
		s.Accounts[v.ID.Scope+"/"+v.ID.XID] = v
	case 2:
		var v etypes.Payment
		if err := v.Unmarshal(kv.Val); err != nil {
			s.errf("payment value: %v", err)
			return
		}
		want := "/" + v.AccountID.Scope + "/" + v.AccountID.XID + "/" + v.PaymentID
		if string(kv.Key[1:]) != want {
			s.errf("escrow payment key %q does not match id %v/%s", kv.Key[1:], v.AccountID, v.PaymentID)
		}
		s.Payments[v.AccountID.Scope+"/"+v.AccountID.XID+"/"+v.PaymentID] = v
	default:
		s.errf("escrow store: unknown key prefix %x", kv.Key)
	}
}

func sortedKeys(m interface{}) []string {
	var ks []string
	switch mm := m.(type) {
	case map[string]dtypes.Deployment:
		for k := range mm {
			ks = append(ks, k)
		}
	case map[string]dtypes.Group:
		for k := range mm {
			ks = append(ks, k)
		}
	case map[string]mtypes.Order:
		for k := range mm {
			ks = append(ks, k)
		}
	case map[string]mtypes.Bid:
		for k := range mm {
			ks = append(ks, k)
		}
	case map[string]mtypes.Lease:
		for k := range mm {
			ks = append(ks, k)
		}
	case map[string]etypes.Account:
		for k := range mm {
			ks = append(ks, k)
		}
	case map[string]etypes.Payment:
		for k := range mm {
			ks = append(ks, k)
		}
	case map[string]int64:
		for k := range mm {
			ks = append(ks, k)
		}
	case map[string][]byte:
		for k := range mm {
			ks = append(ks, k)
		}
	default:
		panic(fmt.Sprintf("sortedKeys: %T", m))
	}
	sort.Strings(ks)
	return ks
}

// Describe renders a snapshot compactly with cast names, for replay files and messages.
func (s *Snap) Describe(c *Cast) []string {
	nm := func(x string) string {
		for a, n := range c.Name {
			x = strings.ReplaceAll(x, a, n)
		}
		return x
	}
	var out []string
	out = append(out, fmt.Sprintf("height=%d", s.Height))
	for _, k := range sortedKeys(s.Deployments) {
		out = append(out, fmt.Sprintf("deployment %s %s", nm(k), s.Deployments[k].State))
	}
	for _, k := range sortedKeys(s.Groups) {
		out = append(out, fmt.Sprintf("group %s %s", nm(k), s.Groups[k].State))
	}
	for _, k := range sortedKeys(s.Orders) {
		out = append(out, fmt.Sprintf("order %s %s", nm(k), s.Orders[k].State))
	}
	for _, k := range sortedKeys(s.Bids) {
		out = append(out, fmt.Sprintf("bid %s %s price=%s", nm(k), s.Bids[k].State, s.Bids[k].Price.Amount))
	}
	for _, k := range sortedKeys(s.Leases) {
		out = append(out, fmt.Sprintf("lease %s %s price=%s", nm(k), s.Leases[k].State, s.Leases[k].Price.Amount))
	}
	for _, k := range sortedKeys(s.Accounts) {
		a := s.Accounts[k]
		out = append(out, fmt.Sprintf("account %s %s bal=%s xfer=%s settled=%d", nm(k), a.State, a.Balance.Amount, a.Transferred.Amount, a.SettledAt))
	}
	for _, k := range sortedKeys(s.Payments) {
		p := s.Payments[k]
		out = append(out, fmt.Sprintf("payment %s %s rate=%s bal=%s wd=%s", nm(k), p.State, p.Rate.Amount, p.Balance.Amount, p.Withdrawn.Amount))
	}
	for _, k := range sortedKeys(s.Bal) {
		out = append(out, fmt.Sprintf("bank %s %d", nm(k), s.Bal[k]))
	}
	return out
}
