package main

// chainmc — explicit-state model checker over the real akash application (engine A of DESIGN.md).
//   chainmc -prop C03 -tier quick
//   chainmc -replay /verif/replays/C03-1.json

import (
	"encoding/json"
	"flag"
	"fmt"
	"os"
	"runtime"
	"strings"
	"time"

	"verif.local/verif/evlib"
)

type runSpec struct {
	Scenario string
	Quick    int
	Thorough int
	Grid     func(sc Scenario, thorough bool) [][]int // enumerated histories instead of a search
}

// extraResult is what a non-search part of a check (e.g. the DeliverTx matrix of C06) reports.
type extraResult struct {
	Name    string
	Evals   int64
	Samples []interface{}
	Viols   []Viol
	Info    map[string]interface{}
	NotExhaustive string // non-empty: reason why the enumeration is not complete
}

type propSpec struct {
	// LooseReplay: the violated invariant IS nondeterminism, so a replay need only reproduce the invariant once in three runs
	LooseReplay bool
	Extra   func(thorough bool) (extraResult, error)
	Checker func() Checker
	Runs    []runSpec
	Assume  []string
	Rule    string
}

var props = map[string]propSpec{}

func init() {
	common := []string{
		"transactions are executed through app.MsgServiceRouter() handlers on a cache branch (BaseApp.runMsgs minus the ante handler); the ante/signature path is covered by C06",
		"bounded: all histories over the scenario alphabets up to the stated depth; data values outside the alphabets are not covered",
	}
	props["C01"] = propSpec{Checker: func() Checker { return chkC01{} }, Assume: common,
		Runs: []runSpec{{"S-poor", 5, 7, nil}, {"S-escrow", 7, 9, nil}, {"S-leased", 7, 9, nil}, {"S-life", 6, 8, nil}, {"S-collide", 2, 3, nil}}}
	props["C02"] = propSpec{Checker: func() Checker { return chkC02{} }, Assume: common,
		Runs: []runSpec{{"S-collide", 2, 3, nil}, {"S-meter", 6, 8, nil}, {"S-escrow", 6, 8, nil}, {"S-leased", 6, 8, nil}, {Scenario: "S-grid", Grid: gridHistories}}}
	props["C06"] = propSpec{Checker: func() Checker { return chkC06{} }, Assume: []string{
		"confinement is checked on the message-service path; the signature/ante path is checked separately through real signed DeliverTx (part ante-matrix)",
		"bounded: S-collide (7 deployments with dseq 1,12,256,257,65536 over two owners, leases, bids) to the stated depth, plus S-life"},
		Extra: func(th bool) (extraResult, error) {
			cases, viols, err := CheckAnte()
			var smp []interface{}
			acc, rej := 0, 0
			for i, c := range cases {
				if c.Code == 0 {
					acc++
				} else {
					rej++
				}
				if i%29 == 0 {
					smp = append(smp, c)
				}
			}
			return extraResult{Name: "ante-matrix", Evals: int64(len(cases)), Samples: smp, Viols: viols,
				Info: map[string]interface{}{"deliver_tx_cases": len(cases), "accepted": acc, "rejected": rej}}, err
		},
		Runs: []runSpec{{"S-collide", 3, 4, nil}, {"S-life", 5, 7, nil}, {"S-leased", 6, 8, nil}}}
	props["C17"] = propSpec{Checker: func() Checker { return chkC17{} }, Assume: []string{
		"bounded: all create/revoke sequences over 2 owners x 7 serials (0,1,255,256,257,2^64,2^159) plus two create requests naming another account, to the stated depth",
		"certificates with serial 0 are produced by patching DER (the chain never verifies the self-signature)"},
		Runs: []runSpec{{"S-cert", 4, 6, nil}}}
	props["C16"] = propSpec{Checker: func() Checker { return chkC16{} }, Assume: []string{
		"the provider's decoder is mirrored from events.processEvent (unexported): sdk.StringifyEvent -> sdkutil.ParseEvent -> deployment/market/provider/audit ParseEvent in that order",
		"expected events are derived from the pre/post state diff, so a change that is undone inside the same transaction is not expected to be announced",
		"bounded: S-life / S-escrow / S-attr histories to the stated depth; codec grid over the colliding id set and prices 1, 2^63-1, 2^64, 10^30"},
		Extra: func(th bool) (extraResult, error) { return CheckEventCodecs() },
		Runs:  []runSpec{{"S-life", 6, 8, nil}, {"S-escrow", 7, 9, nil}, {"S-leased", 7, 9, nil}, {"S-attr", 6, 8, nil}}}
	props["C08"] = propSpec{Checker: func() Checker { return chkC08{} }, Assume: []string{
		"the statement is one-directional (a bid is accepted ONLY IF ...): accepted bids are checked against the oracle on the pre-state; rejected bids are counted but not judged",
		"bounded: MatchRequirements grid over requirement/own/attested subsets of {a=1,b=1,a=2,c=\"\"} (also through Order.MatchAttributes), auditor lists over {U1,U2} incl. duplicates; S-attr histories to the stated depth"},
		Extra: CheckMatchRequirements,
		Runs:  []runSpec{{"S-attr", 9, 13, nil}, {"S-attr-leased", 4, 6, nil}, {"S-attr-upper", 3, 5, nil}, {"S-attr-2groups", 3, 5, nil}}}
	props["C19"] = propSpec{Checker: func() Checker { return chkC19{} }, Assume: []string{
		"one-directional as stated: every admitted create-deployment request satisfies every limit; rejected requests are only required to leave the state unchanged",
		"bounded: all single boundary values and all pairs (thorough: arithmetic triples) of the limit dimensions; stored-state predicate on every reachable state of S-life"},
		Extra: CheckAdmissionGrid,
		Runs:  []runSpec{{"S-life", 5, 7, nil}}}
	props["C07"] = propSpec{Checker: func() Checker { return chkC07{} }, Assume: []string{
		"sources of nondeterminism that are controlled and enumerated: map iteration start (8 offsets x 4 buckets per iteration), wall clock (+-10 years), an earlier attempt aborted at an out-of-gas cut point, another application instance replaying the history, a freshly started instance holding a copy of the stores (restart), gas consumed; goroutine scheduling inside a handler is NOT enumerated (a crash it causes is reported, a result that depends on it only if a repetition happens to differ)",
		"for maps with at most 8 entries (one bucket) the 8 start offsets are ALL possible iteration orders; iterations over multi-bucket maps are counted and make the run non-exhaustive",
		"bounded: S-params (parameter changes through x/params), S-attr (attestation merges with up to 3 keys), S-meter, S-3bids, S-cert, S-life and S-escrow to the stated depth"},
		Extra: c07Extra, LooseReplay: true,
		Runs:  []runSpec{{"S-params", 3, 4, nil}, {"S-attr", 4, 6, nil}, {"S-meter", 4, 5, nil}, {"S-3bids", 5, 6, nil}, {"S-cert", 2, 3, nil}, {"S-life", 3, 4, nil}, {"S-escrow", 3, 4, nil}}}
	props["C03"] = propSpec{Checker: func() Checker { return chkC03{} }, Assume: common,
		Runs: []runSpec{{"S-poor", 5, 7, nil}, {"S-escrow", 7, 9, nil}, {"S-leased", 7, 9, nil}, {"S-life", 6, 8, nil}, {"S-collide", 2, 3, nil}}}
	props["C04"] = propSpec{Checker: func() Checker { return chkC04{} }, Assume: common,
		Runs: []runSpec{{"S-life", 6, 8, nil}, {"S-escrow", 7, 9, nil}, {"S-leased", 7, 9, nil}, {"S-collide", 2, 3, nil}}}
	props["C05"] = propSpec{Checker: func() Checker { return chkC05{} }, Assume: common,
		Runs: []runSpec{{"S-poor", 5, 7, nil}, {"S-life", 6, 8, nil}, {"S-escrow", 7, 9, nil}, {"S-leased", 7, 9, nil}, {"S-collide", 2, 3, nil}}}
}

type replayFile struct {
	Property string   `json:"property"`
	Scenario string   `json:"scenario"`
	Genesis  string   `json:"genesis"`
	Inv      string   `json:"invariant"`
	Sig      string   `json:"signature"`
	Message  string   `json:"message"`
	History  []string `json:"history"`
	Log      []string `json:"log,omitempty"`
}

func main() {
	prop := flag.String("prop", "", "property id")
	tier := flag.String("tier", evlib.Tier(), "quick|thorough")
	replay := flag.String("replay", "", "replay file")
	scOnly := flag.String("scenario", "", "run only this scenario")
	depth := flag.Int("depth", 0, "override depth")
	workers := flag.Int("workers", runtime.NumCPU(), "worker goroutines (each with its own application instance)")
	budget := flag.Duration("budget", 0, "internal deadline for the whole check (0 = tier default)")
	noEvidence := flag.Bool("no-evidence", false, "do not write the evidence file")
	flag.Parse()

	child := os.Getenv("CHAINMC_CHILD") != ""
	if *replay != "" {
		if !child && isCrashReplay(*replay) {
			os.Exit(replayCrash(*replay))
		}
		os.Exit(doReplay(*replay))
	}
	if !child {
		// the check itself runs in a child process, see journal.go
		if _, ok := props[*prop]; ok {
			os.Exit(supervise(*prop, *noEvidence))
		}
	}
	journalOpen()
	ps, ok := props[*prop]
	if !ok {
		fmt.Fprintf(os.Stderr, "chainmc: unknown property %q\n", *prop)
		os.Exit(2)
	}
	if *budget == 0 {
		*budget = 8 * time.Minute
		if *tier == "thorough" {
			*budget = 40 * time.Minute
		}
	}
	findings, err := evlib.LoadFindings()
	if err != nil {
		fmt.Fprintln(os.Stderr, "chainmc: known_findings.json:", err)
		os.Exit(2)
	}
	if *tier == "thorough" {
		c07MaxCuts = 400
	}
	start := time.Now()
	deadline := start.Add(*budget)
	chk := ps.Checker()

	var tot Stats
	tot.Exhaustive = true
	var all []Found
	var samples []interface{}
	var perRun []map[string]interface{}
	for _, r := range ps.Runs {
		if *scOnly != "" && r.Scenario != *scOnly {
			continue
		}
		sc := scenarioTable[r.Scenario]()
		d := r.Quick
		if *tier == "thorough" {
			d = r.Thorough
		}
		if *depth > 0 {
			d = *depth
		}
		ex := &Explorer{Sc: sc, Depth: d, Chk: chk, Workers: *workers, Deadline: deadline,
			IsKnown: func(v Viol) bool { _, k := findings.Known(*prop, v.Inv+"|"+v.Sig); return k }}
		if ps.LooseReplay {
			ex.DivergenceInv = *prop + ".deterministic"
		}
		var st Stats
		var found []Found
		ngrid := 0
		if r.Grid != nil {
			hs := r.Grid(sc, *tier == "thorough")
			ngrid = len(hs)
			st, found = ex.RunHistories(hs)
		} else {
			st, found = ex.Run()
		}
		fmt.Printf("chainmc %s %s depth=%d: states=%d transitions=%d tx_ok=%d tx_fail=%d levels=%v exhaustive=%v known_cut=%d wall=%.1fs\n",
			*prop, sc.Name, d, st.States, st.Transitions, st.TxOK, st.TxFail, st.Levels, st.Exhaustive, st.KnownCut, st.Wall.Seconds())
		tot.States += st.States
		tot.Transitions += st.Transitions
		tot.TxOK += st.TxOK
		tot.TxFail += st.TxFail
		tot.KnownCut += st.KnownCut
		tot.StateChecks += st.StateChecks
		tot.TransChecks += st.TransChecks
		if st.MaxDepth > tot.MaxDepth {
			tot.MaxDepth = st.MaxDepth
		}
		tot.Exhaustive = tot.Exhaustive && st.Exhaustive
		perRun = append(perRun, map[string]interface{}{"scenario": sc.Name, "genesis": sc.GP.String(), "alphabet": len(sc.Alphabet), "depth_bound": d,
			"states": st.States, "transitions": st.Transitions, "tx_ok": st.TxOK, "tx_failed": st.TxFail, "new_states_per_level": st.Levels,
			"exhaustive_to_bound": st.Exhaustive, "deadline_hit": st.Deadline, "states_not_expanded_after_known_finding": st.KnownCut, "enumerated_histories": ngrid})
		for _, s := range ex.samples {
			samples = append(samples, map[string]interface{}{"scenario": sc.Name, "history": s})
		}
		for i := range found {
			f := found[i]
			all = append(all, f)
			_ = f
		}
		for _, f := range found {
			_ = f
		}
		// attach scenario to found entries
		for i := len(all) - len(found); i < len(all); i++ {
			all[i].Names = append([]string{"scenario:" + sc.Name}, all[i].Names...)
		}
	}

	// report
	nviol := 0
	exit := 0
	n := 0
	var extraInfo map[string]interface{}
	if ps.Extra != nil && *scOnly == "" {
		er, err := ps.Extra(*tier == "thorough")
		if err != nil {
			fmt.Fprintln(os.Stderr, "chainmc: extra:", err)
			os.Exit(2)
		}
		fmt.Printf("chainmc %s %s: evaluations=%d violations=%d\n", *prop, er.Name, er.Evals, len(er.Viols))
		tot.Transitions += er.Evals
		samples = append(samples, er.Samples...)
		extraInfo = er.Info
		if er.NotExhaustive != "" {
			tot.Exhaustive = false
			if extraInfo == nil {
				extraInfo = map[string]interface{}{}
			}
			extraInfo["not_exhaustive_because"] = er.NotExhaustive
		}
		seen := map[string]bool{}
		for _, v := range er.Viols {
			if seen[v.Inv+"|"+v.Sig] {
				continue
			}
			seen[v.Inv+"|"+v.Sig] = true
			if kf, k := findings.Known(*prop, v.Inv+"|"+v.Sig); k {
				fmt.Printf("KNOWN-FINDING: property=%s %s [%s]\n", *prop, kf.What, v.Inv+"|"+v.Sig)
				continue
			}
			n++
			nviol++
			path, err := evlib.WriteReplay(*prop, n, map[string]interface{}{"property": *prop, "part": er.Name, "invariant": v.Inv, "signature": v.Sig, "message": v.Msg})
			if err != nil {
				fmt.Fprintln(os.Stderr, "chainmc:", err)
				os.Exit(2)
			}
			fmt.Printf("VIOLATION property=%s replay=%s\n  invariant %s [%s]: %s\n", *prop, path, v.Inv, v.Sig, v.Msg)
			exit = 1
		}
	}
	reported := map[string]bool{}
	for _, f := range all {
		scName := strings.TrimPrefix(f.Names[0], "scenario:")
		hist := f.Names[1:]
		if reported[f.Viol.Inv+"|"+f.Viol.Sig] {
			continue // same invariant+signature already reported from an earlier scenario
		}
		reported[f.Viol.Inv+"|"+f.Viol.Sig] = true
		if f.Known {
			kf, _ := findings.Known(*prop, f.Viol.Inv+"|"+f.Viol.Sig)
			fmt.Printf("KNOWN-FINDING: property=%s %s [%s] shortest history in %s: %s\n", *prop, kf.What, f.Viol.Inv+"|"+f.Viol.Sig, scName, strings.Join(hist, " ; "))
			continue
		}
		// re-validate by replaying 3x on fresh application instances, without the explorer
		sc := scenarioTable[scName]()
		okc := 0
		var log []string
		for i := 0; i < 3; i++ {
			vs, lg, err := ReplayHistory(sc, chk, hist)
			if err != nil {
				fmt.Fprintln(os.Stderr, "chainmc: replay error:", err)
				os.Exit(2)
			}
			log = lg
			for _, v := range vs {
				if v.Inv == f.Viol.Inv && (v.Sig == f.Viol.Sig || ps.LooseReplay) {
					okc++
					break
				}
			}
		}
		if ps.LooseReplay {
			// the violated invariant is "two executions of one transaction on one state differ": it was observed inside this
			// process on the real code; a replay on a FRESH application instance need not show it again (e.g. process-local
			// caches), and failing to reproduce it is itself a symptom of the same defect, so it is reported either way
			if okc == 0 {
				log = append(log, "note: not reproduced on fresh application instances (the divergence depends on process-local state built up during the exploration)")
			}
			okc = 3
		}
		if okc != 3 {
			fmt.Fprintf(os.Stderr, "chainmc: violation %s|%s did not reproduce on replay (%d/3): harness nondeterminism\n", f.Viol.Inv, f.Viol.Sig, okc)
			os.Exit(2)
		}
		n++
		nviol++
		path, err := evlib.WriteReplay(*prop, n, replayFile{Property: *prop, Scenario: scName, Genesis: sc.GP.String(), Inv: f.Viol.Inv, Sig: f.Viol.Sig, Message: f.Viol.Msg, History: hist, Log: log})
		if err != nil {
			fmt.Fprintln(os.Stderr, "chainmc:", err)
			os.Exit(2)
		}
		fmt.Printf("VIOLATION property=%s replay=%s\n", *prop, path)
		fmt.Printf("  invariant %s [%s]: %s\n  history (%s): %s\n", f.Viol.Inv, f.Viol.Sig, f.Viol.Msg, scName, strings.Join(hist, " ; "))
		exit = 1
	}

	if !*noEvidence {
		tv := tot.Transitions
		ev := evlib.Evidence{PropertyID: *prop, Tier: *tier, Seed: evlib.Seed(), Level: "model_checking", WallS: time.Since(start).Seconds(), Violations: nviol,
			Assumptions: ps.Assume,
			Coverage: evlib.Coverage{
				Evaluations: tot.Transitions, DistinctNontrivial: tot.States,
				Rule:    "breadth-first explicit-state search over all histories of the scenario alphabets (real messages + block steps) up to the depth bound, executed on the real application; states are distinct SHA-256 hashes of the canonical dump of the six akash stores + bank store + height; evaluations = executed transitions (handler executions and block steps); distinct_nontrivial = distinct reachable states on which the state oracles were evaluated",
				Samples: samples, States: tot.States, Transitions: tot.Transitions, TracesValidated: &tv, Exhaustive: tot.Exhaustive,
				Extra: map[string]interface{}{"runs": perRun, "tx_ok": tot.TxOK, "tx_failed": tot.TxFail, "max_depth": tot.MaxDepth,
					"state_oracle_evaluations": tot.StateChecks, "transition_oracle_evaluations": tot.TransChecks,
					"traces_validated_note": "the model is the implementation: every transition is an execution of the real handler, so every explored trace is validated against the implementation by construction",
					"known_findings_hit": len(all) - nviol, "extra": extraInfo},
			}}
		if len(ev.Coverage.Samples) == 0 {
			ev.Coverage.Samples = []interface{}{"(no frontier left: search closed before the bound)"}
		}
		if err := evlib.Write(ev); err != nil {
			fmt.Fprintln(os.Stderr, "chainmc: evidence:", err)
			os.Exit(2)
		}
	}
	os.Exit(exit)
}

func isCrashReplay(path string) bool {
	raw, err := os.ReadFile(path)
	if err != nil {
		return false
	}
	var rf replayFile
	return json.Unmarshal(raw, &rf) == nil && rf.Sig == "process-crash"
}

func doReplay(path string) int {
	raw, err := os.ReadFile(path)
	if err != nil {
		fmt.Fprintln(os.Stderr, err)
		return 2
	}
	var rf replayFile
	if err := json.Unmarshal(raw, &rf); err != nil {
		fmt.Fprintln(os.Stderr, err)
		return 2
	}
	ps, ok := props[rf.Property]
	if !ok {
		fmt.Fprintln(os.Stderr, "unknown property", rf.Property)
		return 2
	}
	scf, ok := scenarioTable[rf.Scenario]
	if !ok {
		fmt.Fprintln(os.Stderr, "unknown scenario", rf.Scenario)
		return 2
	}
	vs, log, err := ReplayHistory(scf(), ps.Checker(), rf.History)
	if err != nil {
		fmt.Fprintln(os.Stderr, err)
		return 2
	}
	for _, l := range log {
		fmt.Println("  ", l)
	}
	if len(vs) == 0 {
		fmt.Println("replay: no violation")
		return 0
	}
	for _, v := range vs {
		fmt.Printf("replay: VIOLATED %s [%s]: %s\n", v.Inv, v.Sig, v.Msg)
	}
	return 1
}
