package main

// props_c19.go — C19: only deployments within the network's resource and price limits are admitted.
//  EX: boundary grid (all single limits and all PAIRS of limits at / just beyond their bounds, overflow
//      candidates) through ValidateBasic + the real CreateDeployment handler, in the initial and in a
//      populated state, against an independent math/big predicate written from the statement;
//  MC: in every reachable state of S-life every stored deployment/group satisfies the predicate.

import (
	"fmt"
	"math/big"

	sdk "github.com/cosmos/cosmos-sdk/types"

	"github.com/ovrclk/akash/types"
	dtypes "github.com/ovrclk/akash/x/deployment/types"
)

// ---- independent predicate ----

func bi(i sdk.Int) *big.Int {
	if i.IsNil() {
		return nil
	}
	return i.BigInt()
}

func within(v *big.Int, lo, hi uint64) bool {
	return v != nil && v.Cmp(new(big.Int).SetUint64(lo)) >= 0 && v.Cmp(new(big.Int).SetUint64(hi)) <= 0
}

// groupOK returns the list of violated clauses of one group.
func groupViolations(g dtypes.GroupSpec) []string {
	cfg := dtypes.GetValidationConfig()
	var bad []string
	if n := len(g.Resources); n < 1 || n > cfg.MaxGroupUnits {
		bad = append(bad, "unit-count")
	}
	tc, tm, ts := new(big.Int), new(big.Int), new(big.Int)
	for _, r := range g.Resources {
		cnt := new(big.Int).SetUint64(uint64(r.Count))
		if r.Resources.CPU == nil || !within(bi(r.Resources.CPU.Units.Val), uint64(cfg.MinUnitCPU), uint64(cfg.MaxUnitCPU)) {
			bad = append(bad, "unit-cpu")
		} else {
			tc.Add(tc, new(big.Int).Mul(bi(r.Resources.CPU.Units.Val), cnt))
		}
		if r.Resources.Memory == nil || !within(bi(r.Resources.Memory.Quantity.Val), cfg.MinUnitMemory, cfg.MaxUnitMemory) {
			bad = append(bad, "unit-memory")
		} else {
			tm.Add(tm, new(big.Int).Mul(bi(r.Resources.Memory.Quantity.Val), cnt))
		}
		if r.Resources.Storage == nil || !within(bi(r.Resources.Storage.Quantity.Val), cfg.MinUnitStorage, cfg.MaxUnitStorage) {
			bad = append(bad, "unit-storage")
		} else {
			ts.Add(ts, new(big.Int).Mul(bi(r.Resources.Storage.Quantity.Val), cnt))
		}
		if uint64(r.Count) < uint64(cfg.MinUnitCount) || uint64(r.Count) > uint64(cfg.MaxUnitCount) {
			bad = append(bad, "replica-count")
		}
		if !within(bi(r.Price.Amount), cfg.MinUnitPrice, cfg.MaxUnitPrice) {
			bad = append(bad, "unit-price")
		}
		if r.Price.Denom != denom {
			bad = append(bad, "price-denom")
		}
	}
	if tc.Sign() <= 0 || tc.Cmp(new(big.Int).SetUint64(cfg.MaxGroupCPU)) > 0 {
		bad = append(bad, "group-cpu")
	}
	if tm.Sign() <= 0 || tm.Cmp(new(big.Int).SetUint64(cfg.MaxGroupMemory)) > 0 {
		bad = append(bad, "group-memory")
	}
	if ts.Sign() <= 0 || ts.Cmp(new(big.Int).SetUint64(cfg.MaxGroupStorage)) > 0 {
		bad = append(bad, "group-storage")
	}
	return bad
}

func deploymentViolations(groups []dtypes.GroupSpec, version []byte, deposit sdk.Coin, minDeposit int64) []string {
	cfg := dtypes.GetValidationConfig()
	seen := map[string]bool{}
	var bad []string
	add := func(s string) {
		if !seen[s] {
			seen[s] = true
			bad = append(bad, s)
		}
	}
	if n := len(groups); n < 1 || n > cfg.MaxGroupCount {
		add("group-count")
	}
	names := map[string]bool{}
	for _, g := range groups {
		if names[g.Name] {
			add("duplicate-group-name")
		}
		names[g.Name] = true
		for _, b := range groupViolations(g) {
			add(b)
		}
	}
	if len(version) != 32 {
		add("version-length")
	}
	if deposit.Denom != denom || deposit.Amount.IsNil() || deposit.Amount.LT(sdk.NewInt(minDeposit)) {
		add("deposit")
	}
	return bad
}

// ---- MC part: stored state ----

type chkC19 struct{}

func (chkC19) Name() string                  { return "C19" }
func (chkC19) CheckTrans(t *TransCtx) []Viol { return nil }
func (chkC19) CheckState(w *World, s *Snap, st State) (out []Viol) {
	per := map[string][]dtypes.GroupSpec{}
	for _, g := range s.Groups {
		k := did(g.GroupID.DeploymentID())
		per[k] = append(per[k], g.GroupSpec)
	}
	for k, d := range s.Deployments {
		acc := s.Accounts["deployment/"+d.DeploymentID.String()]
		dep := sdk.NewInt64Coin(denom, w.GP.DeploymentMinDeposit) // the deposit is spent over time; only the stored shape is checked here
		_ = acc
		if bad := deploymentViolations(per[k], d.Version, dep, w.GP.DeploymentMinDeposit); len(bad) > 0 {
			out = append(out, Viol{"C19.stored-deployment-within-limits", fmt.Sprintf("stored:%v", bad), fmt.Sprintf("stored deployment %s violates %v", shortKey(w, k), bad)})
		}
	}
	return out
}

// ---- EX part: boundary grid ----

type c19Case struct {
	Dims   map[string]string
	Groups []dtypes.GroupSpec
	Ver    []byte
	Dep    sdk.Coin
}

// wrap returns 2^64 + v in decimal: a value far beyond every bound whose low 64 bits are v
func wrap(v uint64) string {
	return new(big.Int).Add(new(big.Int).Lsh(big.NewInt(1), 64), new(big.Int).SetUint64(v)).String()
}

func rv(s string) types.ResourceValue {
	v, ok := sdk.NewIntFromString(s)
	if !ok {
		panic("rv " + s)
	}
	return types.ResourceValue{Val: v}
}

func CheckAdmissionGrid(thorough bool) (extraResult, error) {
	cfg := dtypes.GetValidationConfig()
	const minDep = 10
	u64 := func(v uint64) string { return new(big.Int).SetUint64(v).String() }
	type dim struct {
		name string
		vals []string
	}
	dims := []dim{
		{"groups", []string{"1", "0", "2", u(uint64(cfg.MaxGroupCount)), u(uint64(cfg.MaxGroupCount) + 1)}},
		{"dupname", []string{"no", "yes"}},
		{"units", []string{"1", "0", "2", u(uint64(cfg.MaxGroupUnits)), u(uint64(cfg.MaxGroupUnits) + 1)}},
		// an additional, perfectly valid unit (cpu 200) next to the unit(s) under test: a negative or wrapped value can hide behind it in the group totals
		{"extraunit", []string{"no", "yes"}},
		{"cpu", []string{u64(uint64(cfg.MinUnitCPU)), u64(uint64(cfg.MinUnitCPU) - 1), "0", "400", "401", u64(uint64(cfg.MaxUnitCPU)), u64(uint64(cfg.MaxUnitCPU) + 1), "9223372036854775808", "18446744073709551615", "18446744073709551616", wrap(uint64(cfg.MinUnitCPU)), "-1", "-100", "nil"}},
		{"memory", []string{u64(cfg.MinUnitMemory), u64(cfg.MinUnitMemory - 1), "0", u64(cfg.MaxUnitMemory), u64(cfg.MaxUnitMemory + 1), "18446744073709551615", "18446744073709551626", wrap(cfg.MinUnitMemory), "-1", "-2097152", "nil"}},
		{"storage", []string{u64(cfg.MinUnitStorage), u64(cfg.MinUnitStorage - 1), "0", u64(cfg.MaxUnitStorage), u64(cfg.MaxUnitStorage + 1), "18446744073709551615", wrap(cfg.MinUnitStorage), "-1", "-10485760", "nil"}},
		{"count", []string{"1", "0", "2", "3", u64(uint64(cfg.MaxUnitCount)), u64(uint64(cfg.MaxUnitCount) + 1), "4294967295"}},
		// 2^64 + a value within the bounds: a comparison made after truncating to 64 bits sees a legal value (round-9 seed C19-15)
		{"price", []string{"1", "0", u64(cfg.MaxUnitPrice), u64(cfg.MaxUnitPrice + 1), "18446744073709551616", wrap(1), wrap(cfg.MaxUnitPrice)}},
		{"pricedenom", []string{denom, "uatom"}},
		{"version", []string{"32", "0", "31", "33"}},
		{"deposit", []string{u64(minDep), u64(minDep - 1), "0"}},
		{"depdenom", []string{denom, "uatom"}},
	}
	build := func(ch map[string]string) c19Case {
		get := func(n string) string { return ch[n] }
		var unitRes dtypes.Resource
		if get("cpu") != "nil" {
			unitRes.Resources.CPU = &types.CPU{Units: rv(get("cpu"))}
		}
		if get("memory") != "nil" {
			unitRes.Resources.Memory = &types.Memory{Quantity: rv(get("memory"))}
		}
		if get("storage") != "nil" {
			unitRes.Resources.Storage = &types.Storage{Quantity: rv(get("storage"))}
		}
		unitRes.Count = uint32(parseU(get("count")))
		pa, _ := sdk.NewIntFromString(get("price"))
		unitRes.Price = sdk.Coin{Denom: get("pricedenom"), Amount: pa}
		nUnits := int(parseU(get("units")))
		nGroups := int(parseU(get("groups")))
		var groups []dtypes.GroupSpec
		for gi := 0; gi < nGroups; gi++ {
			g := dtypes.GroupSpec{Name: fmt.Sprintf("g%d", gi+1)}
			if get("dupname") == "yes" && gi == nGroups-1 && gi > 0 {
				g.Name = "g1"
			}
			for ui := 0; ui < nUnits; ui++ {
				g.Resources = append(g.Resources, unitRes)
			}
			if get("extraunit") == "yes" {
				g.Resources = append(g.Resources, dtypes.Resource{Resources: types.ResourceUnits{
					CPU: &types.CPU{Units: rv("200")}, Memory: &types.Memory{Quantity: rv(u64(8 * cfg.MinUnitMemory))}, Storage: &types.Storage{Quantity: rv(u64(8 * cfg.MinUnitStorage))}},
					Count: 1, Price: sdk.Coin{Denom: denom, Amount: sdk.NewInt(1)}})
			}
			groups = append(groups, g)
		}
		ver := make([]byte, parseU(get("version")))
		for i := range ver {
			ver[i] = byte(i + 1)
		}
		da, _ := sdk.NewIntFromString(get("deposit"))
		return c19Case{Dims: ch, Groups: groups, Ver: ver, Dep: sdk.Coin{Denom: get("depdenom"), Amount: da}}
	}
	var cases []c19Case
	seen := map[string]bool{}
	addCase := func(over map[string]string) {
		ch := map[string]string{}
		for _, d := range dims {
			ch[d.name] = d.vals[0]
		}
		for k, v := range over {
			ch[k] = v
		}
		if ch["dupname"] == "yes" && parseU(ch["groups"]) < 2 {
			ch["groups"] = "2"
		}
		key := fmt.Sprint(ch)
		if seen[key] {
			return
		}
		seen[key] = true
		cases = append(cases, build(ch))
	}
	addCase(nil)
	for i, d1 := range dims {
		for _, v1 := range d1.vals {
			addCase(map[string]string{d1.name: v1})
			for _, d2 := range dims[i+1:] {
				for _, v2 := range d2.vals {
					addCase(map[string]string{d1.name: v1, d2.name: v2})
				}
			}
		}
	}
	if thorough {
		// all triples drawn from the dimensions that interact arithmetically
		arith := []int{2, 3, 4, 5, 6}
		for ai, i := range arith {
			for aj := ai + 1; aj < len(arith); aj++ {
				for ak := aj + 1; ak < len(arith); ak++ {
					j, k := arith[aj], arith[ak]
					for _, v1 := range dims[i].vals {
						for _, v2 := range dims[j].vals {
							for _, v3 := range dims[k].vals {
								addCase(map[string]string{dims[i].name: v1, dims[j].name: v2, dims[k].name: v3})
							}
						}
					}
				}
			}
		}
	}

	gp := GenesisParams{DeploymentMinDeposit: minDep, BidMinDeposit: 5, Funds: 1_000_000, StartHeight: 5}
	w := NewWorld(gp)
	initial := w.Initial()
	populated := w.Initial()
	for _, a := range []Action{aProvider("CreateProvider", "P1", nil, "none"), aCreateDeployment("T1", 7, 2, 3, 10, noReq), aCreateBid(bidRef{"T1", 7, 1, 1, "P1"}, 2, 5), aBidOp("CreateLease", bidRef{"T1", 7, 1, 1, "P1"})} {
		var r TxResult
		populated, r = applyAction(w, populated, a)
		if !r.OK {
			return extraResult{}, fmt.Errorf("C19 populated-state preamble %s: %s", a.Name, r.Err)
		}
	}
	var n, acc, rej int64
	var viols []Viol
	var smp []interface{}
	sigSeen := map[string]bool{}
	for ci, c := range cases {
		want := deploymentViolations(c.Groups, c.Ver, c.Dep, minDep)
		for si, base := range []State{initial, populated} {
			st := base.Branch()
			pre := w.Dump(st).HashNoHeight()
			msg := &dtypes.MsgCreateDeployment{ID: dtypes.DeploymentID{Owner: w.Cast.S("T1"), DSeq: 1}, Groups: c.Groups, Version: c.Ver, Deposit: c.Dep}
			res := w.Exec(st, msg)
			n++
			if res.OK {
				acc++
			} else {
				rej++
			}
			if res.OK && len(want) > 0 {
				sig := fmt.Sprintf("admitted:%v", want)
				if !sigSeen[sig] {
					sigSeen[sig] = true
					viols = append(viols, Viol{"C19.admission", sig, fmt.Sprintf("create-deployment %v was admitted although it violates %v", c.Dims, want)})
				}
			}
			if !res.OK && w.Dump(st).HashNoHeight() != pre {
				viols = append(viols, Viol{"C19.rejected-without-effect", "rejected-with-effect", fmt.Sprintf("create-deployment %v was rejected but changed the state", c.Dims)})
			}
			if (ci*2+si)%211 == 0 {
				smp = append(smp, map[string]interface{}{"dims": c.Dims, "state": []string{"initial", "populated"}[si], "admitted": res.OK, "oracle_violations": want})
			}
		}
	}
	return extraResult{Name: "admission-grid", Evals: n, Samples: smp, Viols: viols,
		Info: map[string]interface{}{"create_deployment_cases": len(cases), "executions": n, "admitted": acc, "rejected": rej}}, nil
}
