package main

// explore.go — explicit-state breadth-first search over histories of transactions executed on the
// real application. A node is a history (list of action indices); it is re-materialised on a fresh
// branch of a worker's own application instance by replaying the history (live multistores cannot be
// cloned across application instances). States are deduplicated by the SHA-256 of their canonical dump.

import (
	"fmt"
	"runtime"
	"sort"
	"strings"
	"sync"
	"sync/atomic"
	"time"

	sdk "github.com/cosmos/cosmos-sdk/types"
)

type Action struct {
	Name   string
	Gap    int64                   // >0: block step
	Msg    func(c *Cast) sdk.Msg   // nil for a block step
	Signer string                  // cast name of the party the protocol assigns to this action
	Kind   string                  // message kind, e.g. "CloseLease"
	Tag    map[string]string       // free-form info for oracles (dseq, gseq, provider, ...)
	// Do: an environment step that is not a marketplace message (e.g. a parameter change as a passed governance proposal
	// applies it); executed directly on the state's branch
	Do func(w *World, st State) TxResult
}

type Scenario struct {
	Name     string
	GP       GenesisParams
	Preamble []Action
	Alphabet []Action
}

type Viol struct {
	Inv string // invariant id, e.g. "C03.close-takes-effect"
	Sig string // signature used for known-finding matching
	Msg string
}

// TransCtx is what a per-transition oracle sees.
type TransCtx struct {
	W       *World
	Act     Action
	Res     TxResult
	Pre     *Snap
	Post    *Snap
	PreSt   State
	PostSt  State
	PreDump *Dump
	PostDump *Dump
}

type Checker interface {
	Name() string
	// CheckState is evaluated once on every distinct reachable state.
	CheckState(w *World, s *Snap, st State) []Viol
	// CheckTrans is evaluated on every executed transition (successful or failed transaction, block step).
	CheckTrans(t *TransCtx) []Viol
}

type Found struct {
	Viol    Viol
	History []int
	Names   []string
	Known   bool
}

type Stats struct {
	States       int64
	Transitions  int64
	TxOK         int64
	TxFail       int64
	MaxDepth     int
	Levels       []int64
	FrontierLeft int64
	Exhaustive   bool
	Deadline     bool
	KnownCut     int64 // states not expanded because they were reached through a known finding
	StateChecks  int64
	TransChecks  int64
	Wall         time.Duration
}

type Explorer struct {
	Sc       Scenario
	Depth    int
	Chk      Checker
	Workers  int
	Deadline time.Time
	IsKnown  func(v Viol) bool
	MaxFound int
	// DivergenceInv: when non-empty, a replayed transaction that no longer succeeds is recorded as a violation of this invariant
	DivergenceInv string

	mu      sync.Mutex
	found   []Found
	seenSig map[string]bool
	visited [256]struct {
		sync.Mutex
		m map[[32]byte]struct{}
	}
	samples [][]string
}

func (e *Explorer) visit(h [32]byte) bool {
	sh := &e.visited[h[0]]
	sh.Lock()
	defer sh.Unlock()
	if sh.m == nil {
		sh.m = map[[32]byte]struct{}{}
	}
	if _, ok := sh.m[h]; ok {
		return false
	}
	sh.m[h] = struct{}{}
	return true
}

func (e *Explorer) names(hist []int) []string {
	var out []string
	for _, a := range e.Sc.Preamble {
		out = append(out, "pre:"+a.Name)
	}
	for _, i := range hist {
		out = append(out, e.Sc.Alphabet[i].Name)
	}
	return out
}

func (e *Explorer) record(v Viol, hist []int, last int) (known bool, stop bool) {
	known = e.IsKnown != nil && e.IsKnown(v)
	e.mu.Lock()
	defer e.mu.Unlock()
	if e.seenSig == nil {
		e.seenSig = map[string]bool{}
	}
	key := v.Inv + "|" + v.Sig
	if e.seenSig[key] {
		return known, false
	}
	e.seenSig[key] = true
	h := append(append([]int{}, hist...), last)
	if last < 0 {
		h = append([]int{}, hist...)
	}
	e.found = append(e.found, Found{Viol: v, History: h, Names: e.names(h), Known: known})
	return known, false
}

// applyAction executes one action on st (mutating a branch), returning the new state and the tx result.
func applyAction(w *World, st State, a Action) (State, TxResult) {
	if a.Gap > 0 {
		return st.Next(a.Gap), TxResult{OK: true}
	}
	if a.Do != nil {
		return st, a.Do(w, st)
	}
	res := w.Exec(st, a.Msg(w.Cast))
	return st, res
}

// materialise replays the preamble and a history on a fresh branch. Every replayed transaction succeeded when it was
// first executed (on this or another application instance, from the same state); if it fails now, the same transaction on
// the same state gave two different results. For the determinism property that IS a violation; elsewhere it is a harness error.
func (e *Explorer) materialise(w *World, hist []int) State { return e.materialiseMode(w, hist, true) }

// materialiseMode: strict = every history step is known to have succeeded before (BFS histories); enumerated grid
// histories legitimately contain failing transactions and are replayed non-strictly.
func (e *Explorer) materialiseMode(w *World, hist []int, strict bool) State {
	st := w.Initial()
	diverged := func(what string, a Action, r TxResult) {
		msg := fmt.Sprintf("scenario %s: %s %s succeeded before but fails when replayed on the same state in this process: %s", e.Sc.Name, what, a.Name, r.Err)
		if e.DivergenceInv == "" {
			panic(msg)
		}
		e.record(Viol{e.DivergenceInv, "replay-diverged:" + a.Kind, msg}, hist, -1)
	}
	for _, a := range e.Sc.Preamble {
		var r TxResult
		st, r = applyAction(w, st, a)
		if !r.OK {
			diverged("preamble action", a, r)
		}
	}
	for _, i := range hist {
		var r TxResult
		st, r = applyAction(w, st, e.Sc.Alphabet[i])
		if !r.OK && strict {
			diverged("history step", e.Sc.Alphabet[i], r)
		}
	}
	return st
}

func (e *Explorer) Run() (Stats, []Found) {
	start := time.Now()
	var stats Stats
	if e.Workers <= 0 {
		e.Workers = runtime.NumCPU()
	}
	worlds := make([]*World, e.Workers)
	var wg sync.WaitGroup
	for i := range worlds {
		wg.Add(1)
		go func(i int) { defer wg.Done(); worlds[i] = NewWorld(e.Sc.GP) }(i)
	}
	wg.Wait()

	// initial state
	w0 := worlds[0]
	st0 := e.materialise(w0, nil)
	d0 := w0.Dump(st0)
	e.visit(d0.Hash())
	stats.States = 1
	s0 := Decode(d0)
	for _, v := range e.Chk.CheckState(w0, s0, st0) {
		e.record(v, nil, -1)
	}
	stats.StateChecks++

	frontier := [][]int{{}}
	stats.Exhaustive = true
	for depth := 0; depth < e.Depth && len(frontier) > 0; depth++ {
		if !e.Deadline.IsZero() && time.Now().After(e.Deadline) {
			stats.Deadline = true
			stats.Exhaustive = false
			break
		}
		var next [][]int
		var nmu sync.Mutex
		var idx int64 = -1
		var trans, ok, fail, newStates, cut, sc, tc int64
		var abort int32
		for wi := 0; wi < e.Workers; wi++ {
			wg.Add(1)
			go func(w *World) {
				defer wg.Done()
				var local [][]int
				for {
					i := atomic.AddInt64(&idx, 1)
					if i >= int64(len(frontier)) {
						break
					}
					if !e.Deadline.IsZero() && i%64 == 0 && time.Now().After(e.Deadline) {
						atomic.StoreInt32(&abort, 1)
					}
					if atomic.LoadInt32(&abort) == 1 {
						break
					}
					hist := frontier[i]
					st := e.materialise(w, hist)
					preDump := w.Dump(st)
					pre := Decode(preDump)
					for ai, a := range e.Sc.Alphabet {
						child := st.Branch()
						journalSet(w.slot, e.Sc.Name, hist, ai)
						post, res := applyAction(w, child, a)
						atomic.AddInt64(&trans, 1)
						if a.Gap == 0 {
							if res.OK {
								atomic.AddInt64(&ok, 1)
							} else {
								atomic.AddInt64(&fail, 1)
							}
						}
						var postDump *Dump
						var postSnap *Snap
						if a.Gap == 0 && !res.OK {
							postDump, postSnap = preDump, pre
						} else {
							postDump = w.Dump(post)
							postSnap = Decode(postDump)
						}
						tctx := &TransCtx{W: w, Act: a, Res: res, Pre: pre, Post: postSnap, PreSt: st, PostSt: post, PreDump: preDump, PostDump: postDump}
						knownCut := false
						atomic.AddInt64(&tc, 1)
						for _, v := range e.Chk.CheckTrans(tctx) {
							if k, _ := e.record(v, hist, ai); k {
								knownCut = true
							}
						}
						if a.Gap == 0 && !res.OK {
							continue // state unchanged
						}
						if !e.visit(postDump.Hash()) {
							continue
						}
						atomic.AddInt64(&newStates, 1)
						atomic.AddInt64(&sc, 1)
						for _, v := range e.Chk.CheckState(w, postSnap, post) {
							if k, _ := e.record(v, hist, ai); k {
								knownCut = true
							}
						}
						if knownCut {
							atomic.AddInt64(&cut, 1)
							continue
						}
						nh := make([]int, len(hist)+1)
						copy(nh, hist)
						nh[len(hist)] = ai
						local = append(local, nh)
					}
				}
				nmu.Lock()
				next = append(next, local...)
				nmu.Unlock()
			}(worlds[wi])
		}
		wg.Wait()
		stats.Transitions += trans
		stats.TxOK += ok
		stats.TxFail += fail
		stats.States += newStates
		stats.KnownCut += cut
		stats.StateChecks += sc
		stats.TransChecks += tc
		stats.Levels = append(stats.Levels, newStates)
		if abort == 1 {
			stats.Deadline = true
			stats.Exhaustive = false
			frontier = next
			break
		}
		if newStates > 0 {
			stats.MaxDepth = depth + 1
		}
		// deterministic order of the next frontier
		sort.Slice(next, func(i, j int) bool { return lessHist(next[i], next[j]) })
		frontier = next
		if e.unknownFound() >= e.maxFound() {
			stats.Exhaustive = false
			break
		}
	}
	stats.FrontierLeft = int64(len(frontier))
	// a few sample histories (longest ones explored)
	for i := 0; i < len(frontier) && i < 3; i++ {
		j := (i * 7919) % len(frontier)
		e.samples = append(e.samples, e.names(frontier[j]))
	}
	stats.Wall = time.Since(start)
	return stats, e.found
}

func (e *Explorer) maxFound() int {
	if e.MaxFound > 0 {
		return e.MaxFound
	}
	return 5
}

func (e *Explorer) unknownFound() int {
	e.mu.Lock()
	defer e.mu.Unlock()
	n := 0
	for _, f := range e.found {
		if !f.Known {
			n++
		}
	}
	return n
}

func lessHist(a, b []int) bool {
	for i := 0; i < len(a) && i < len(b); i++ {
		if a[i] != b[i] {
			return a[i] < b[i]
		}
	}
	return len(a) < len(b)
}

// ReplayHistory re-executes a history given by action names on a fresh world and returns every
// violation the checker reports along it (state oracles on every prefix, transition oracles on every step).
func ReplayHistory(sc Scenario, chk Checker, names []string) ([]Viol, []string, error) {
	w := NewWorld(sc.GP)
	byName := map[string]Action{}
	for _, a := range sc.Alphabet {
		byName[a.Name] = a
	}
	st := w.Initial()
	for _, a := range sc.Preamble {
		var r TxResult
		st, r = applyAction(w, st, a)
		if !r.OK {
			return nil, nil, fmt.Errorf("preamble %s failed: %s", a.Name, r.Err)
		}
	}
	var out []Viol
	var log []string
	preDump := w.Dump(st)
	pre := Decode(preDump)
	out = append(out, chk.CheckState(w, pre, st)...)
	for _, n := range names {
		if strings.HasPrefix(n, "pre:") {
			continue
		}
		a, ok := byName[n]
		if !ok {
			return nil, nil, fmt.Errorf("unknown action %q in scenario %s", n, sc.Name)
		}
		child := st.Branch()
		post, res := applyAction(w, child, a)
		postDump := w.Dump(post)
		postSnap := Decode(postDump)
		log = append(log, fmt.Sprintf("%s -> ok=%v %s", n, res.OK, res.Err))
		t := &TransCtx{W: w, Act: a, Res: res, Pre: pre, Post: postSnap, PreSt: st, PostSt: post, PreDump: preDump, PostDump: postDump}
		out = append(out, chk.CheckTrans(t)...)
		out = append(out, chk.CheckState(w, postSnap, post)...)
		st, preDump, pre = post, postDump, postSnap
	}
	log = append(log, pre.Describe(w.Cast)...)
	return out, log, nil
}

// RunHistories executes an enumerated, prefix-closed family of straight-line histories (a grid of
// parameters rather than a search). The histories are merged into a trie; every trie edge is one
// executed transition (transition oracles), every distinct state reached gets the state oracles.
func (e *Explorer) RunHistories(hists [][]int) (Stats, []Found) {
	start := time.Now()
	var stats Stats
	if e.Workers <= 0 {
		e.Workers = runtime.NumCPU()
	}
	worlds := make([]*World, e.Workers)
	var wg sync.WaitGroup
	for i := range worlds {
		wg.Add(1)
		go func(i int) { defer wg.Done(); worlds[i] = NewWorld(e.Sc.GP) }(i)
	}
	wg.Wait()
	// trie: parent prefix -> set of next actions
	type node struct {
		prefix []int
		next   []int
	}
	index := map[string]*node{}
	var nodes []*node
	for _, h := range hists {
		for d := 0; d < len(h); d++ {
			k := histKey(h[:d])
			n, ok := index[k]
			if !ok {
				n = &node{prefix: append([]int{}, h[:d]...)}
				index[k] = n
				nodes = append(nodes, n)
			}
			dup := false
			for _, x := range n.next {
				if x == h[d] {
					dup = true
					break
				}
			}
			if !dup {
				n.next = append(n.next, h[d])
			}
		}
	}
	stats.Exhaustive = true
	var idx int64 = -1
	var trans, ok, fail, states, sc, tc int64
	var abort int32
	// work items: the root and every node whose parent branches; single-child chains are followed
	// in place (no re-materialisation)
	var items []*node
	for _, n := range nodes {
		if len(n.prefix) == 0 {
			items = append(items, n)
			continue
		}
		if par := index[histKey(n.prefix[:len(n.prefix)-1])]; len(par.next) > 1 {
			items = append(items, n)
		}
	}
	for wi := 0; wi < e.Workers; wi++ {
		wg.Add(1)
		go func(w *World) {
			defer wg.Done()
			for {
				i := atomic.AddInt64(&idx, 1)
				if i >= int64(len(items)) || atomic.LoadInt32(&abort) == 1 {
					return
				}
				if !e.Deadline.IsZero() && i%256 == 0 && time.Now().After(e.Deadline) {
					atomic.StoreInt32(&abort, 1)
					return
				}
				n := items[i]
				st := e.materialiseMode(w, n.prefix, false)
				preDump := w.Dump(st)
				pre := Decode(preDump)
			chain:
				if len(n.prefix) == 0 && e.visit(preDump.Hash()) {
					atomic.AddInt64(&states, 1)
					for _, v := range e.Chk.CheckState(w, pre, st) {
						e.record(v, nil, -1)
					}
				}
				for _, ai := range n.next {
					a := e.Sc.Alphabet[ai]
					journalSet(w.slot, e.Sc.Name, n.prefix, ai)
					post, res := applyAction(w, st.Branch(), a)
					atomic.AddInt64(&trans, 1)
					postDump, postSnap := preDump, pre
					if a.Gap > 0 || res.OK {
						postDump = w.Dump(post)
						postSnap = Decode(postDump)
					}
					if a.Gap == 0 {
						if res.OK {
							atomic.AddInt64(&ok, 1)
						} else {
							atomic.AddInt64(&fail, 1)
						}
					}
					atomic.AddInt64(&tc, 1)
					t := &TransCtx{W: w, Act: a, Res: res, Pre: pre, Post: postSnap, PreSt: st, PostSt: post, PreDump: preDump, PostDump: postDump}
					for _, v := range e.Chk.CheckTrans(t) {
						e.record(v, n.prefix, ai)
					}
					if e.visit(postDump.Hash()) {
						atomic.AddInt64(&states, 1)
						atomic.AddInt64(&sc, 1)
						for _, v := range e.Chk.CheckState(w, postSnap, post) {
							e.record(v, n.prefix, ai)
						}
					}
					if len(n.next) == 1 {
						if c, ok := index[histKey(append(append([]int{}, n.prefix...), ai))]; ok {
							if !(a.Gap > 0 || res.OK) {
								post = st
							}
							n, st, preDump, pre = c, post, postDump, postSnap
							goto chain
						}
					}
				}
			}
		}(worlds[wi])
	}
	wg.Wait()
	stats.States, stats.Transitions, stats.TxOK, stats.TxFail, stats.StateChecks, stats.TransChecks = states, trans, ok, fail, sc, tc
	if abort == 1 {
		stats.Exhaustive = false
		stats.Deadline = true
	}
	for i := 0; i < 3 && i < len(hists); i++ {
		e.samples = append(e.samples, e.names(hists[(i*104729)%len(hists)]))
	}
	stats.Wall = time.Since(start)
	return stats, e.found
}
