package main

// props_c07.go — C07: state transitions are deterministic.
// Every transition of the scenario is re-executed on sibling branches of the same pre-state with the Go
// map-iteration start offset PINNED by a patched runtime (overlay): all 8 intra-bucket rotations for every
// map iterated while the transaction runs, then each of the first six iterations varied on its own.
// State write-set, result bytes, error and events must be byte-identical in all executions.

import (
	"crypto/sha256"
	"fmt"
	"sync/atomic"

	sdk "github.com/cosmos/cosmos-sdk/types"
)

type c07Stats struct {
	execs, pinnedIters, multiBucket, txWithIter, txNoIter, maxIters, akashIters, akashMulti, clockReads, gasCuts, restarts int64
}

var c07 c07Stats

// S-3bids: four providers bid on one order, so that creating the lease has several losing bids to settle.
func sc3Bids() Scenario {
	sc := Scenario{Name: "S-3bids", GP: GenesisParams{DeploymentMinDeposit: 10, BidMinDeposit: 5, Funds: 1000, StartHeight: 5}}
	provs := []string{"P1", "P2", "B", "U1"}
	for _, p := range provs {
		sc.Preamble = append(sc.Preamble, aProvider("CreateProvider", p, nil, "none"))
	}
	sc.Preamble = append(sc.Preamble, aCreateDeployment("T1", 1, 1, 3, 10, noReq))
	var al []Action
	for i, p := range provs {
		b := bidRef{"T1", 1, 1, 1, p}
		al = append(al, aCreateBid(b, int64(1+i%3), 5), aBidOp("CreateLease", b), aBidOp("CloseBid", b))
	}
	al = append(al, aNext(1), aCloseDeployment("T1", 1), aGroup("CloseGroup", "T1", 1, 1))
	sc.Alphabet = al
	return sc
}

// c07MaxCuts: out-of-gas cut points tried per transaction (quick: evenly spaced; thorough: effectively all)
var c07MaxCuts = 16

// recMeter is an infinite gas meter that records the cumulative consumption after every ConsumeGas call.
type recMeter struct {
	consumed uint64
	cuts     []uint64
}

func (m *recMeter) GasConsumed() sdk.Gas        { return m.consumed }
func (m *recMeter) GasConsumedToLimit() sdk.Gas { return m.consumed }
func (m *recMeter) Limit() sdk.Gas              { return 0 }
func (m *recMeter) ConsumeGas(amount sdk.Gas, descriptor string) {
	m.consumed += amount
	if n := len(m.cuts); n == 0 || m.cuts[n-1] != m.consumed {
		m.cuts = append(m.cuts, m.consumed)
	}
}
func (m *recMeter) IsPastLimit() bool { return false }
func (m *recMeter) IsOutOfGas() bool  { return false }
func (m *recMeter) String() string    { return fmt.Sprintf("recMeter(%d)", m.consumed) }

type chkC07 struct{}

func (chkC07) Name() string                                  { return "C07" }
func (chkC07) CheckState(w *World, s *Snap, st State) []Viol { return nil }

func fingerprint(w *World, st State, res TxResult) [32]byte {
	h := sha256.New()
	d := w.Dump(st)
	x := d.HashNoHeight()
	h.Write(x[:])
	fmt.Fprintf(h, "|ok=%v|err=%s|data=%x|gas=%d|", res.OK, res.Err, res.Data, res.Gas)
	for _, e := range res.Events {
		bz, _ := e.Marshal()
		writeLP(h, bz)
	}
	var out [32]byte
	copy(out[:], h.Sum(nil))
	return out
}

func (chkC07) CheckTrans(t *TransCtx) (out []Viol) {
	if t.Act.Gap > 0 || t.Act.Do != nil {
		return nil
	}
	w := t.W
	run := func(start, kth uint32) ([32]byte, uint32, uint32, TxResult) {
		st := t.PreSt.Branch()
		msg := t.Act.Msg(w.Cast)
		verifMapSet(start%8, start/8, kth)
		res := w.Exec(st, msg)
		cnt, multi, ak, akm := verifMapClear()
		atomic.AddInt64(&c07.execs, 1)
		atomic.AddInt64(&c07.pinnedIters, int64(cnt))
		atomic.AddInt64(&c07.multiBucket, int64(multi))
		atomic.AddInt64(&c07.akashIters, int64(ak))
		atomic.AddInt64(&c07.akashMulti, int64(akm))
		return fingerprint(w, st, res), cnt, multi, res
	}
	// start = offset + 8*bucket: 8 intra-bucket offsets x 4 start buckets (maps with <= 8 entries have one bucket,
	// for them the 8 offsets are all possible orders; for 2- and 4-bucket maps all 16/32 starts of this layout)
	const starts = 32
	base, cnt, multi0, res0 := run(0, 0)
	nstarts := uint32(8)
	if multi0 > 0 {
		nstarts = starts
	}
	for {
		m := atomic.LoadInt64(&c07.maxIters)
		if int64(cnt) <= m || atomic.CompareAndSwapInt64(&c07.maxIters, m, int64(cnt)) {
			break
		}
	}
	// the un-pinned execution done by the explorer must agree as well
	free := fingerprint(w, t.PostSt, t.Res)
	if !t.Res.OK {
		free = fingerprint(w, t.PreSt, t.Res)
	}
	if free != base {
		out = append(out, Viol{"C07.deterministic", "differs-from-free-run:" + t.Act.Kind, fmt.Sprintf("%s: execution with pinned map order differs from the free-running execution (ok=%v/%v err=%q/%q gas=%d/%d)", t.Act.Name, res0.OK, t.Res.OK, res0.Err, t.Res.Err, res0.Gas, t.Res.Gas)})
	}
	// the wall clock must not matter either: re-execute "ten years later" and "ten years earlier"
	for _, shift := range []int64{10 * 365 * 86400, -10 * 365 * 86400} {
		st := t.PreSt.Branch()
		verifMapSet(0, 0, 0)
		verifTimeSet(shift)
		res := w.Exec(st, t.Act.Msg(w.Cast))
		nows := verifTimeNows()
		verifMapClear()
		atomic.AddInt64(&c07.execs, 1)
		atomic.AddInt64(&c07.clockReads, int64(nows))
		if fingerprint(w, st, res) != base {
			out = append(out, Viol{"C07.deterministic", "wall-clock:" + t.Act.Kind, fmt.Sprintf("%s: result depends on the wall clock (re-executed with time.Now() shifted by %d years: ok=%v err=%q; at the real time: ok=%v err=%q)", t.Act.Name, shift/(365*86400), res.OK, res.Err, res0.OK, res0.Err)})
			return out
		}
	}
	// a RESTART must not matter either: the same transaction on a freshly constructed
	// application instance whose stores hold the same contents — nothing a process keeps only in memory may decide a result
	{
		w2, st2 := w.Restarted(t.PreSt)
		res := w2.Exec(st2, t.Act.Msg(w.Cast))
		atomic.AddInt64(&c07.execs, 1)
		atomic.AddInt64(&c07.restarts, 1)
		if fingerprint(w2, st2, res) != base {
			out = append(out, Viol{"C07.deterministic", "restart:" + t.Act.Kind, fmt.Sprintf("%s: a freshly started node holding the same state gives a different result (restarted: ok=%v err=%q gas=%d; running process: ok=%v err=%q gas=%d)", t.Act.Name, res.OK, res.Err, res.Gas, res0.OK, res0.Err, res0.Gas)})
			return out
		}
	}
	// an earlier ABORTED attempt must not matter either: the transaction is cut off by an out-of-gas panic at a store
	// access (every access point in the thorough tier, evenly spaced ones in quick), the attempt is discarded, and the
	// transaction is then executed normally on the same state: result must equal the base execution
	rec := &recMeter{}
	w.ExecGas(t.PreSt.Branch(), t.Act.Msg(w.Cast), rec)
	cuts := rec.cuts
	if max := c07MaxCuts; len(cuts) > max {
		var sel []uint64
		for i := 0; i < max; i++ {
			sel = append(sel, cuts[i*len(cuts)/max])
		}
		cuts = sel
	}
	for _, c := range cuts {
		if c == 0 {
			continue
		}
		aborted := w.ExecGas(t.PreSt.Branch(), t.Act.Msg(w.Cast), sdk.NewGasMeter(c-1))
		st := t.PreSt.Branch()
		res := w.Exec(st, t.Act.Msg(w.Cast))
		atomic.AddInt64(&c07.execs, 2)
		atomic.AddInt64(&c07.gasCuts, 1)
		if fingerprint(w, st, res) != base {
			out = append(out, Viol{"C07.deterministic", "after-aborted-attempt:" + t.Act.Kind, fmt.Sprintf("%s: after an attempt that ran out of gas at %d gas units (discarded: ok=%v %s) the same transaction on the same state gives a different result (ok=%v err=%q; untouched process: ok=%v err=%q)", t.Act.Name, c-1, aborted.OK, aborted.Err, res.OK, res.Err, res0.OK, res0.Err)})
			return out
		}
	}
	if cnt == 0 {
		atomic.AddInt64(&c07.txNoIter, 1)
		return out
	}
	atomic.AddInt64(&c07.txWithIter, 1)
	for off := uint32(1); off < nstarts; off++ {
		fp, _, _, res := run(off, 0)
		if fp != base {
			out = append(out, Viol{"C07.deterministic", "map-order:" + t.Act.Kind, fmt.Sprintf("%s: result depends on map iteration order (all iterations started at offset %d bucket %d vs 0; ok=%v err=%q)", t.Act.Name, off%8, off/8, res.OK, res.Err)})
			return out
		}
	}
	if cnt >= 2 {
		kmax := cnt
		if kmax > 6 {
			kmax = 6
		}
		for k := uint32(1); k <= kmax; k++ {
			// per-iteration pass: the 8 intra-bucket offsets (start bucket 0) of iteration #k alone
			for off := uint32(1); off < 8; off++ {
				fp, _, _, res := run(off, k)
				if fp != base {
					out = append(out, Viol{"C07.deterministic", "map-order:" + t.Act.Kind, fmt.Sprintf("%s: result depends on the order of map iteration #%d (offset %d vs 0; ok=%v err=%q)", t.Act.Name, k, off, res.OK, res.Err)})
					return out
				}
			}
		}
	}
	return out
}

func c07Extra(thorough bool) (extraResult, error) {
	_ = thorough
	if !mapHookAvailable {
		return extraResult{}, fmt.Errorf("C07 needs the runtime map overlay (build with -tags verifmap -overlay ...; see checks/C07)")
	}
	// self-test of the hook: a map literal iterated under each pinned offset must produce 8 distinct rotations
	m := map[int]int{1: 1, 2: 2, 3: 3, 4: 4, 5: 5, 6: 6, 7: 7, 8: 8}
	orders := map[string]bool{}
	for off := uint32(0); off < 8; off++ {
		verifMapSet(off, 0, 0)
		s := ""
		for k := range m {
			s += fmt.Sprint(k)
		}
		verifMapClear()
		orders[s] = true
	}
	if len(orders) != 8 {
		return extraResult{}, fmt.Errorf("C07 map hook self-test: expected 8 distinct iteration orders of an 8-entry map, got %d", len(orders))
	}
	info := map[string]interface{}{
		"pinned_executions": atomic.LoadInt64(&c07.execs), "map_iterations_pinned": atomic.LoadInt64(&c07.pinnedIters),
		"multi_bucket_map_iterations": atomic.LoadInt64(&c07.multiBucket),
		"map_iterations_in_akash_code": atomic.LoadInt64(&c07.akashIters), "multi_bucket_map_iterations_in_akash_code": atomic.LoadInt64(&c07.akashMulti), "transactions_iterating_maps": atomic.LoadInt64(&c07.txWithIter),
		"transactions_without_map_iteration": atomic.LoadInt64(&c07.txNoIter), "max_map_iterations_in_one_tx": atomic.LoadInt64(&c07.maxIters),
		"hook_selftest_distinct_orders": len(orders), "time_now_calls_under_shifted_clock": atomic.LoadInt64(&c07.clockReads),
		"out_of_gas_cut_points_followed_by_reexecution": atomic.LoadInt64(&c07.gasCuts), "max_cut_points_per_tx": c07MaxCuts,
		"reexecutions_on_a_freshly_started_instance": atomic.LoadInt64(&c07.restarts)}
	ne := ""
	if n := atomic.LoadInt64(&c07.akashMulti); n > 0 {
		ne = fmt.Sprintf("%d iterations over multi-bucket maps happened inside akash code; their order also depends on the per-map hash seed, which is not enumerated", n)
	}
	return extraResult{Name: "map-order-enumeration", Evals: atomic.LoadInt64(&c07.execs), Info: info, NotExhaustive: ne,
		Samples: []interface{}{fmt.Sprintf("every transaction re-executed with map start offsets 0..7 (all iterations) and per-iteration offsets for the first 6 iterations; %d pinned executions", c07.execs)}}, nil
}
