package main

// props_money.go — oracles for C01 (conservation), C03 (closing takes effect, escrow self-consistency)
// and C05 (market records and escrow records agree). Written from the property statements over the
// independently decoded snapshot; they never call a keeper method of the code under test, except that
// C03 hands the real ExportGenesis output to the real ValidateGenesis, as its statement demands.

import (
	"fmt"
	"sort"
	"strings"

	sdk "github.com/cosmos/cosmos-sdk/types"

	"github.com/ovrclk/akash/x/escrow"
	ekeeper "github.com/ovrclk/akash/x/escrow/keeper"
	etypes "github.com/ovrclk/akash/x/escrow/types"
	dtypes "github.com/ovrclk/akash/x/deployment/types"
	mtypes "github.com/ovrclk/akash/x/market/types"
)

func i64(c sdk.Coin) int64 {
	if c.Amount.IsNil() {
		return 0
	}
	return c.Amount.Int64()
}

// ---------------------------------------------------------------- C01

type chkC01 struct{}

func (chkC01) Name() string { return "C01" }

func (chkC01) CheckState(w *World, s *Snap, st State) []Viol {
	var out []Viol
	for _, e := range s.Errors {
		out = append(out, Viol{"C01.decode", "decode", e})
	}
	sum := int64(0)
	for _, a := range s.Accounts {
		sum += i64(a.Balance)
		if a.Balance.Denom != denom {
			out = append(out, Viol{"C01.denom", "denom", "account with foreign denom " + a.Balance.String()})
		}
	}
	for _, p := range s.Payments {
		sum += i64(p.Balance)
	}
	for k, v := range s.BalX {
		if strings.HasPrefix(k, w.Escrow.String()+"/") && v != 0 {
			out = append(out, Viol{"C01.module-balance", "module-holds-foreign-denom", fmt.Sprintf("escrow module holds %d of %s which no record accounts for", v, k[len(w.Escrow.String())+1:])})
		}
	}
	mod := s.Bal[w.Escrow.String()]
	if mod != sum {
		out = append(out, Viol{"C01.module-balance", "module-balance", fmt.Sprintf("escrow module holds %d but recorded balances sum to %d", mod, sum)})
	}
	return out
}

// inflow(X) over a transition = Σ payments owned by X ΔWithdrawn − Σ accounts owned by X Δ(Balance+Transferred)
func ownerFlows(pre, post *Snap) map[string]int64 {
	f := map[string]int64{}
	for k, a := range post.Accounts {
		now := i64(a.Balance) + i64(a.Transferred)
		was := int64(0)
		if b, ok := pre.Accounts[k]; ok {
			was = i64(b.Balance) + i64(b.Transferred)
		}
		f[a.Owner] -= now - was
	}
	for k, p := range post.Payments {
		was := int64(0)
		if q, ok := pre.Payments[k]; ok {
			was = i64(q.Withdrawn)
		}
		f[p.Owner] += i64(p.Withdrawn) - was
	}
	return f
}

func (chkC01) CheckTrans(t *TransCtx) []Viol {
	var out []Viol
	if t.Act.Kind == "SendToEscrow" {
		if t.Res.OK {
			out = append(out, Viol{"C01.blocked-address", "blocked-address", "a plain bank transfer to the escrow module account was accepted"})
		}
		return out
	}
	if t.Act.Gap > 0 || !t.Res.OK {
		return nil
	}
	// no record disappears
	for k := range t.Pre.Accounts {
		if _, ok := t.Post.Accounts[k]; !ok {
			out = append(out, Viol{"C01.record-removed", "record-removed", "escrow account removed: " + k})
		}
	}
	for k := range t.Pre.Payments {
		if _, ok := t.Post.Payments[k]; !ok {
			out = append(out, Viol{"C01.record-removed", "record-removed", "escrow payment removed: " + k})
		}
	}
	flows := ownerFlows(t.Pre, t.Post)
	esc := t.W.Escrow.String()
	addrs := map[string]bool{}
	for a := range t.Pre.Bal {
		addrs[a] = true
	}
	for a := range t.Post.Bal {
		addrs[a] = true
	}
	total := int64(0)
	var names []string
	for a := range addrs {
		names = append(names, a)
	}
	sort.Strings(names)
	for _, a := range names {
		d := t.Post.Bal[a] - t.Pre.Bal[a]
		total += d
		if a == esc {
			continue
		}
		if d != flows[a] {
			who := t.W.Cast.Name[a]
			out = append(out, Viol{"C01.flows", "flows:" + t.Act.Kind,
				fmt.Sprintf("%s: bank balance of %s changed by %d but its escrow records account for %d (deposits are debited from the depositor; refunds go to the depositor, payouts to the payee)", t.Act.Name, who, d, flows[a])})
		}
		if t.W.Cast.Name[a] == "B" && d != 0 {
			out = append(out, Viol{"C01.bystander", "bystander", fmt.Sprintf("%s changed the bystander's balance by %d", t.Act.Name, d)})
		}
	}
	if total != 0 {
		out = append(out, Viol{"C01.supply", "supply", fmt.Sprintf("%s changed the total of all balances by %d", t.Act.Name, total)})
	}
	// no escrow record is denominated in anything but the network coin, so no other coin may move at all
	for k, v := range t.Post.BalX {
		if t.Pre.BalX[k] != v {
			out = append(out, Viol{"C01.flows", "foreign-denom-moved:" + t.Act.Kind, fmt.Sprintf("%s moved %d of %s although no escrow record is denominated in it", t.Act.Name, v-t.Pre.BalX[k], shortKey(t.W, k))})
		}
	}
	return out
}

// ---------------------------------------------------------------- C03

type chkC03 struct{}

func (chkC03) Name() string { return "C03" }

func (chkC03) CheckState(w *World, s *Snap, st State) []Viol {
	var out []Viol
	anyOpen := false
	for k, p := range s.Payments {
		acc, ok := s.Accounts[p.AccountID.Scope+"/"+p.AccountID.XID]
		if p.State == etypes.PaymentOpen {
			anyOpen = true
			if !ok {
				out = append(out, Viol{"C03.open-payment-open-account", "payment-without-account", "open payment without account: " + k})
			} else if acc.State != etypes.AccountOpen {
				out = append(out, Viol{"C03.open-payment-open-account", "open-payment-under-" + stateName(acc.State.String()), fmt.Sprintf("payment %s is open but its account is %s", shortKey(w, k), acc.State)})
			}
		} else if !p.Balance.IsZero() {
			out = append(out, Viol{"C03.closed-zero-balance", "payment-balance", fmt.Sprintf("payment %s is %s with balance %s", shortKey(w, k), p.State, p.Balance)})
		}
	}
	for k, a := range s.Accounts {
		if a.State == etypes.AccountOpen {
			anyOpen = true
		} else if !a.Balance.IsZero() {
			out = append(out, Viol{"C03.closed-zero-balance", "account-balance", fmt.Sprintf("account %s is %s with balance %s", shortKey(w, k), a.State, a.Balance)})
		}
	}
	if !anyOpen && s.Bal[w.Escrow.String()] != 0 {
		out = append(out, Viol{"C03.nothing-open-nothing-held", "module-holds", fmt.Sprintf("nothing is open but the escrow module holds %d", s.Bal[w.Escrow.String()])})
	}
	// exported state passes the chain's own genesis validation (real ExportGenesis + real ValidateGenesis)
	k := ekeeper.NewKeeper(w.App.AppCodec(), w.keys["escrow"], nil)
	gs := escrow.ExportGenesis(st.Ctx, k)
	if err := escrow.ValidateGenesis(gs); err != nil {
		out = append(out, Viol{"C03.genesis-valid", "genesis:" + genesisErrClass(err.Error()), "exported escrow state fails ValidateGenesis: " + shortKey(w, err.Error())})
	}
	return out
}

func stateName(s string) string { return strings.ToLower(s) }

func genesisErrClass(e string) string {
	switch {
	case strings.Contains(e, "invalid payment state"):
		return "payment-state"
	case strings.Contains(e, "no account for payment"):
		return "no-account"
	case strings.Contains(e, "duplicate") || strings.Contains(e, "dupliate"):
		return "duplicate"
	}
	return "other"
}

func shortKey(w *World, k string) string {
	for a, n := range w.Cast.Name {
		k = strings.ReplaceAll(k, a, n)
	}
	return k
}

func (chkC03) CheckTrans(t *TransCtx) []Viol {
	var out []Viol
	if t.Act.Gap > 0 || !t.Res.OK {
		return nil
	}
	w := t.W
	// monotone lifecycle: a closed / overdrawn record never changes again
	for k, a := range t.Pre.Accounts {
		if a.State == etypes.AccountOpen {
			continue
		}
		if b, ok := t.Post.Accounts[k]; !ok || !pbEq(&a, &b) {
			out = append(out, Viol{"C03.final-is-final", "account-changed-after-close", fmt.Sprintf("%s: %s account %s changed after it was %s", t.Act.Name, a.State, shortKey(w, k), a.State)})
		}
	}
	for k, p := range t.Pre.Payments {
		if p.State == etypes.PaymentOpen {
			continue
		}
		if q, ok := t.Post.Payments[k]; !ok || !pbEq(&p, &q) {
			out = append(out, Viol{"C03.final-is-final", "payment-changed-after-close", fmt.Sprintf("%s: payment %s changed after it was %s", t.Act.Name, shortKey(w, k), p.State)})
		}
	}
	// a closed record never pays out: every coin an address receives in this transaction is accounted for by the
	// change of the records it owns (refund = drop of an account's balance, payout = growth of a payment's withdrawn
	// total). Records that were final before the transaction cannot change (checked above), so anything received
	// beyond this was paid on behalf of a record that had already been closed within the same transaction
	// (round-7 seed C03-13: AccountClose fired its hooks before persisting, the lease was paid out twice while the
	// records showed a single payout).
	{
		flows := ownerFlows(t.Pre, t.Post)
		esc := w.Escrow.String()
		var names []string
		for a := range t.Post.Bal {
			names = append(names, a)
		}
		sort.Strings(names)
		for _, a := range names {
			if a == esc {
				continue
			}
			if d := t.Post.Bal[a] - t.Pre.Bal[a]; d > flows[a] {
				out = append(out, Viol{"C03.no-payout-beyond-records", "paid-beyond-records:" + t.Act.Kind,
					fmt.Sprintf("%s: %s received %d but the escrow records it owns account for %d: a payout or refund was made for a record already closed", t.Act.Name, w.Cast.Name[a], d, flows[a])})
			}
		}
	}
	// a successful close request takes effect, also with zero elapsed blocks / zero balance
	cond := func(pre *Snap, accKey string) string {
		a, ok := pre.Accounts[accKey]
		if !ok {
			return "no-account"
		}
		var c []string
		if a.SettledAt == pre.Height {
			c = append(c, "zero-blocks-since-settlement")
		}
		if a.Balance.IsZero() {
			c = append(c, "zero-account-balance")
		}
		return strings.Join(c, "+")
	}
	switch t.Act.Kind {
	case "CloseLease", "CloseBid":
		b := bidFromTag(w, t.Act.Tag)
		accKey := "deployment/" + fmt.Sprintf("%s/%d", b.Owner, b.DSeq)
		pk := accKey + "/" + mtypes.EscrowPaymentForLease(mtypes.LeaseID(b))
		if p, ok := t.Pre.Payments[pk]; ok && p.State == etypes.PaymentOpen {
			if q := t.Post.Payments[pk]; q.State == etypes.PaymentOpen {
				c := cond(t.Pre, accKey)
				if p.Balance.IsZero() && q.Balance.IsZero() {
					c += "+zero-payment-balance"
				}
				out = append(out, Viol{"C03.close-takes-effect", "payment-still-open:" + t.Act.Kind + ":" + c,
					fmt.Sprintf("%s succeeded but payment %s is still open (%s)", t.Act.Name, shortKey(w, pk), c)})
			}
		}
		if t.Act.Kind == "CloseBid" {
			bk := "bid/" + b.String()
			if a, ok := t.Pre.Accounts[bk]; ok && a.State == etypes.AccountOpen {
				if q := t.Post.Accounts[bk]; q.State == etypes.AccountOpen {
					out = append(out, Viol{"C03.close-takes-effect", "bid-account-still-open:" + cond(t.Pre, bk),
						fmt.Sprintf("%s succeeded but bid deposit account %s is still open", t.Act.Name, shortKey(w, bk))})
				}
			}
		}
	case "CloseDeployment":
		accKey := "deployment/" + fmt.Sprintf("%s/%s", w.Cast.S(t.Act.Tag["owner"]), t.Act.Tag["dseq"])
		if a, ok := t.Pre.Accounts[accKey]; ok && a.State == etypes.AccountOpen {
			if q := t.Post.Accounts[accKey]; q.State == etypes.AccountOpen {
				out = append(out, Viol{"C03.close-takes-effect", "deployment-account-still-open:" + cond(t.Pre, accKey),
					fmt.Sprintf("%s succeeded but escrow account %s is still open", t.Act.Name, shortKey(w, accKey))})
			}
			for pk, p := range t.Post.Payments {
				if strings.HasPrefix(pk, accKey+"/") && p.State == etypes.PaymentOpen {
					out = append(out, Viol{"C03.close-takes-effect", "payment-still-open:CloseDeployment:" + cond(t.Pre, accKey),
						fmt.Sprintf("%s succeeded but payment %s is still open (%s)", t.Act.Name, shortKey(w, pk), cond(t.Pre, accKey))})
				}
			}
		}
	}
	return out
}

func bidFromTag(w *World, tg map[string]string) mtypes.BidID {
	var d, g, o uint64
	fmt.Sscan(tg["dseq"], &d)
	fmt.Sscan(tg["gseq"], &g)
	fmt.Sscan(tg["oseq"], &o)
	return mtypes.BidID{Owner: w.Cast.S(tg["owner"]), DSeq: d, GSeq: uint32(g), OSeq: uint32(o), Provider: w.Cast.S(tg["provider"])}
}

// ---------------------------------------------------------------- C05

type chkC05 struct{}

func (chkC05) Name() string { return "C05" }

func (chkC05) CheckState(w *World, s *Snap, st State) []Viol {
	var out []Viol
	// lease active <=> payment open
	for k, l := range s.Leases {
		pk := "deployment/" + fmt.Sprintf("%s/%d", l.LeaseID.Owner, l.LeaseID.DSeq) + "/" + mtypes.EscrowPaymentForLease(l.LeaseID)
		p, ok := s.Payments[pk]
		open := ok && p.State == etypes.PaymentOpen
		active := l.State == mtypes.LeaseActive
		if active != open {
			ps := "absent"
			if ok {
				ps = p.State.String()
			}
			out = append(out, Viol{"C05.lease-payment", fmt.Sprintf("lease-%s/payment-%s", l.State, ps), fmt.Sprintf("lease %s is %s but its payment stream is %s", shortKey(w, k), l.State, ps)})
		}
	}
	for pk, p := range s.Payments {
		if p.State != etypes.PaymentOpen || p.AccountID.Scope != "deployment" {
			continue
		}
		// map the payment back to its lease by hand: "<owner>/<dseq>" + "<gseq>/<oseq>/<provider>" (owner kept as spelled)
		lk := p.AccountID.XID + "/" + p.PaymentID
		if strings.Count(lk, "/") != 4 {
			out = append(out, Viol{"C05.lease-payment", "payment-unparsable", "open payment that maps to no lease: " + shortKey(w, pk)})
			continue
		}
		if l, ok := s.Leases[lk]; !ok || l.State != mtypes.LeaseActive {
			out = append(out, Viol{"C05.lease-payment", "payment-open/lease-not-active", fmt.Sprintf("payment %s is open but there is no active lease for it", shortKey(w, pk))})
		}
	}
	// bid open or matched <=> bid deposit account open
	for k, b := range s.Bids {
		ak := "bid/" + b.BidID.String()
		a, ok := s.Accounts[ak]
		open := ok && a.State == etypes.AccountOpen
		live := b.State == mtypes.BidOpen || b.State == mtypes.BidActive
		if live != open {
			as := "absent"
			if ok {
				as = a.State.String()
			}
			out = append(out, Viol{"C05.bid-account", fmt.Sprintf("bid-%s/account-%s", b.State, as), fmt.Sprintf("bid %s is %s but its deposit account is %s", shortKey(w, k), b.State, as)})
		}
	}
	// deployment active <=> deployment account open
	for k, d := range s.Deployments {
		ak := "deployment/" + d.DeploymentID.String()
		a, ok := s.Accounts[ak]
		open := ok && a.State == etypes.AccountOpen
		if (d.State == dtypes.DeploymentActive) != open {
			as := "absent"
			if ok {
				as = a.State.String()
			}
			out = append(out, Viol{"C05.deployment-account", fmt.Sprintf("deployment-%s/account-%s", d.State, as), fmt.Sprintf("deployment %s is %s but its escrow account is %s", shortKey(w, k), d.State, as)})
		}
	}
	for ak, a := range s.Accounts {
		if a.State != etypes.AccountOpen {
			continue
		}
		switch a.ID.Scope {
		case "deployment":
			if d, ok := s.Deployments[a.ID.XID]; !ok || d.State != dtypes.DeploymentActive {
				out = append(out, Viol{"C05.deployment-account", "account-open/deployment-not-active", "open escrow account without active deployment: " + shortKey(w, ak)})
			}
		case "bid":
			if b, ok := s.Bids[a.ID.XID]; !ok || (b.State != mtypes.BidOpen && b.State != mtypes.BidActive) {
				out = append(out, Viol{"C05.bid-account", "account-open/bid-not-live", "open bid deposit account without live bid: " + shortKey(w, ak)})
			}
			// "a provider's bid deposit is returned exactly when the bid OR THE DEPLOYMENT ends": a deposit still held
			// implies that the deployment the bid was made on is active (round-7 seed C05-13: the account-closed hook
			// stopped at the first group that was already closed; the later groups' bids stayed open, deposits held,
			// under a closed deployment — bid and deposit account agreed with each other all along)
			if parts := strings.Split(a.ID.XID, "/"); len(parts) == 5 {
				owner := parts[0]
				if addr, err := sdk.AccAddressFromBech32(owner); err == nil {
					owner = addr.String()
				}
				if d, ok := s.Deployments[owner+"/"+parts[1]]; !ok || d.State != dtypes.DeploymentActive {
					ds := "absent"
					if ok {
						ds = d.State.String()
					}
					out = append(out, Viol{"C05.deposit-follows-deployment", "bid-deposit-held/deployment-" + ds, fmt.Sprintf("bid deposit account %s is still open (deposit not returned) although its deployment is %s", shortKey(w, ak), ds)})
				}
			}
		default:
			out = append(out, Viol{"C05.scope", "scope", "escrow account of unknown scope " + ak})
		}
	}
	return out
}

func (chkC05) CheckTrans(t *TransCtx) []Viol {
	var out []Viol
	if t.Act.Gap > 0 || !t.Res.OK {
		return nil
	}
	w := t.W
	// "a tenant stops paying the moment a lease ends": what a deployment's escrow account transfers away in one transaction
	// is bounded by the prices of the leases that were ACTIVE before it, for the blocks since the account was last settled
	// (leases created by this very transaction start now and cost nothing yet). Round-9 seed C05-14: the per-block rate was
	// summed over closed payments too; lease and payment were both closed, every pairwise join held, the tenant kept paying.
	canon := func(o string) string {
		if a, err := sdk.AccAddressFromBech32(o); err == nil {
			return a.String()
		}
		return o
	}
	for k, a := range t.Pre.Accounts {
		b, ok := t.Post.Accounts[k]
		if !ok || a.ID.Scope != "deployment" || a.State != etypes.AccountOpen {
			continue
		}
		paid := i64(b.Transferred) - i64(a.Transferred)
		blocks := t.Post.Height - a.SettledAt
		if blocks < 0 {
			blocks = 0
		}
		parts := strings.Split(a.ID.XID, "/")
		if len(parts) != 2 {
			continue
		}
		bound := int64(0)
		for _, l := range t.Pre.Leases {
			if l.State == mtypes.LeaseActive && canon(l.LeaseID.Owner) == canon(parts[0]) && fmt.Sprint(l.LeaseID.DSeq) == parts[1] {
				bound += i64(l.Price) * blocks
			}
		}
		if paid > bound {
			out = append(out, Viol{"C05.stops-paying-when-lease-ends", "paid-beyond-active-leases:" + t.Act.Kind,
				fmt.Sprintf("%s: escrow account %s transferred %d in this transaction, but the leases active before it account for at most %d over the %d blocks since its last settlement: the tenant is paying for a lease that has ended", t.Act.Name, shortKey(w, k), paid, bound, blocks)})
		}
	}
	// deposits are returned exactly when the bid / the deployment ends
	gain := map[string]int64{}
	for k, a := range t.Pre.Accounts {
		b, ok := t.Post.Accounts[k]
		if !ok || a.State != etypes.AccountOpen || b.State == etypes.AccountOpen {
			continue
		}
		spent := i64(b.Transferred) - i64(a.Transferred)
		unspent := i64(a.Balance) - spent
		if unspent < 0 {
			out = append(out, Viol{"C05.refund", "overspent", fmt.Sprintf("%s: account %s transferred %d out of a balance of %s", t.Act.Name, shortKey(w, k), spent, a.Balance)})
		}
		gain[a.Owner] += unspent
	}
	for o, g := range gain {
		// the owner may additionally receive payouts as a payee; never less than the refunds
		d := t.Post.Bal[o] - t.Pre.Bal[o]
		payouts := int64(0)
		for k, p := range t.Post.Payments {
			if p.Owner == o {
				payouts += i64(p.Withdrawn) - i64(t.Pre.Payments[k].Withdrawn)
			}
		}
		for k, b := range t.Post.Accounts {
			// deposits made by the same owner in the same transaction
			if a, ok := t.Pre.Accounts[k]; b.Owner == o && b.State == etypes.AccountOpen && (!ok || a.State == etypes.AccountOpen) {
				payouts -= i64(b.Balance) + i64(b.Transferred) - i64(a.Balance) - i64(a.Transferred)
			}
		}
		if d != g+payouts {
			out = append(out, Viol{"C05.refund", "refund:" + t.Act.Kind, fmt.Sprintf("%s: accounts of %s ended with %d unspent (+%d payouts) but its bank balance changed by %d", t.Act.Name, w.Cast.Name[o], g, payouts, d)})
		}
	}
	return out
}

type marshaler interface{ Marshal() ([]byte, error) }

func pbEq(a, b marshaler) bool {
	x, _ := a.Marshal()
	y, _ := b.Marshal()
	return string(x) == string(y)
}
