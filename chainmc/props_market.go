package main

// props_market.go — oracle for C04 (marketplace lifecycle consistency), written from the statement.

import (
	"fmt"

	dtypes "github.com/ovrclk/akash/x/deployment/types"
	mtypes "github.com/ovrclk/akash/x/market/types"
)

type chkC04 struct{}

func (chkC04) Name() string { return "C04" }

func (chkC04) CheckTrans(t *TransCtx) []Viol { return nil }

func (chkC04) CheckState(w *World, s *Snap, st State) []Viol {
	var out []Viol
	add := func(inv, sig, f string, a ...interface{}) {
		out = append(out, Viol{"C04." + inv, sig, shortKey(w, fmt.Sprintf(f, a...))})
	}
	for _, e := range s.Errors {
		add("decode", "decode", "%s", e)
	}
	// active leases per order
	activeLeases := map[string]int{}
	for k, l := range s.Leases {
		ok := oid(l.LeaseID.OrderID())
		if l.State == mtypes.LeaseActive {
			activeLeases[ok]++
			b, found := s.Bids[k]
			if !found || b.State != mtypes.BidActive {
				add("active-lease-implies", "lease-active/bid-not-matched", "lease %s is active but its bid is %v", k, bidState(b, found))
			}
			o, found := s.Orders[ok]
			if !found || o.State != mtypes.OrderActive {
				add("active-lease-implies", "lease-active/order-not-matched", "lease %s is active but its order is %v", k, orderState(o, found))
			}
			g, found := s.Groups[gid(l.LeaseID.GroupID())]
			if !found || g.State != dtypes.GroupOpen {
				add("active-lease-implies", "lease-active/group-not-open", "lease %s is active but its group is %v", k, groupState(g, found))
			}
			d, found := s.Deployments[did(l.LeaseID.DeploymentID())]
			if !found || d.State != dtypes.DeploymentActive {
				add("active-lease-implies", "lease-active/deployment-not-active", "lease %s is active but its deployment is not active", k)
			}
		}
		// price agreement
		if b, found := s.Bids[k]; !found {
			add("lease-price", "lease-without-bid", "lease %s has no bid record", k)
		} else if !b.Price.IsEqual(l.Price) {
			add("lease-price", "lease-price-ne-bid-price", "lease %s price %s differs from bid price %s", k, l.Price, b.Price)
		}
		if o, found := s.Orders[ok]; found {
			// the order's maximum price, recomputed from its resources (sum of unit price x count), not taken from the code under test
			max := int64(0)
			for _, r := range o.Spec.Resources {
				max += i64(r.Price) * int64(r.Count)
			}
			if l.Price.Denom != denom || i64(l.Price) > max {
				add("lease-price", "lease-price-above-max", "lease %s price %s exceeds the order's maximum %d%s", k, l.Price, max, denom)
			}
		} else {
			add("lease-price", "lease-without-order", "lease %s has no order record", k)
		}
	}
	nonClosedOrders := map[string]int{}
	for k, o := range s.Orders {
		n := activeLeases[k]
		if o.State == mtypes.OrderActive && n != 1 {
			add("matched-order-one-lease", fmt.Sprintf("order-matched/%d-active-leases", n), "order %s is matched but has %d active leases", k, n)
		}
		if o.State != mtypes.OrderActive && n != 0 {
			add("matched-order-one-lease", fmt.Sprintf("order-%s/%d-active-leases", o.State, n), "order %s is %s but has %d active leases", k, o.State, n)
		}
		if o.State != mtypes.OrderClosed {
			nonClosedOrders[gid(o.OrderID.GroupID())]++
		}
		if _, found := s.Groups[gid(o.OrderID.GroupID())]; !found {
			add("orphan", "order-without-group", "order %s has no group", k)
		}
	}
	for k, b := range s.Bids {
		o, found := s.Orders[oid(b.BidID.OrderID())]
		if b.State == mtypes.BidOpen && (!found || o.State != mtypes.OrderOpen) {
			add("open-bid-open-order", "bid-open/order-"+orderState(o, found), "bid %s is open but its order is %v", k, orderState(o, found))
		}
		if b.State == mtypes.BidActive {
			if l, ok := s.Leases[k]; !ok || l.State != mtypes.LeaseActive {
				add("matched-bid-active-lease", "bid-matched/lease-not-active", "bid %s is matched but has no active lease", k)
			}
		}
	}
	for k, g := range s.Groups {
		n := nonClosedOrders[k]
		d, found := s.Deployments[did(g.GroupID.DeploymentID())]
		if !found {
			add("orphan", "group-without-deployment", "group %s has no deployment", k)
			continue
		}
		if n > 1 {
			add("group-orders", "group-many-orders", "group %s has %d non-closed orders", k, n)
		}
		if g.State == dtypes.GroupOpen && d.State == dtypes.DeploymentActive && n != 1 {
			add("group-orders", fmt.Sprintf("open-group/%d-orders", n), "open group %s of an active deployment has %d non-closed orders", k, n)
		}
		if g.State != dtypes.GroupOpen && n != 0 {
			add("group-orders", fmt.Sprintf("group-%s/%d-orders", g.State, n), "group %s is %s but has %d non-closed orders", k, g.State, n)
		}
		if d.State == dtypes.DeploymentClosed && (g.State == dtypes.GroupOpen || g.State == dtypes.GroupPaused) {
			add("closed-deployment", "closed-deployment/group-"+g.State.String(), "deployment %s is closed but group %s is %s", did(d.DeploymentID), k, g.State)
		}
	}
	// nothing live beneath a closed deployment
	for dk, d := range s.Deployments {
		if d.State != dtypes.DeploymentClosed {
			continue
		}
		for k, o := range s.Orders {
			if did(o.OrderID.GroupID().DeploymentID()) == dk && o.State != mtypes.OrderClosed {
				add("closed-deployment", "closed-deployment/order-"+o.State.String(), "deployment %s is closed but order %s is %s", dk, k, o.State)
			}
		}
		for k, b := range s.Bids {
			if did(b.BidID.DeploymentID()) == dk && (b.State == mtypes.BidOpen || b.State == mtypes.BidActive) {
				add("closed-deployment", "closed-deployment/bid-"+b.State.String(), "deployment %s is closed but bid %s is %s", dk, k, b.State)
			}
		}
		for k, l := range s.Leases {
			if did(l.LeaseID.DeploymentID()) == dk && l.State == mtypes.LeaseActive {
				add("closed-deployment", "closed-deployment/lease-active", "deployment %s is closed but lease %s is active", dk, k)
			}
		}
	}
	return out
}

func bidState(b mtypes.Bid, found bool) string {
	if !found {
		return "absent"
	}
	return b.State.String()
}
func orderState(o mtypes.Order, found bool) string {
	if !found {
		return "absent"
	}
	return o.State.String()
}
func groupState(g dtypes.Group, found bool) string {
	if !found {
		return "absent"
	}
	return g.State.String()
}
