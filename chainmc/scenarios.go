package main

// scenarios.go — closed drivers: small, deliberately colliding alphabets of real messages.

import (
	"crypto/sha256"
	"fmt"

	sdk "github.com/cosmos/cosmos-sdk/types"
	authtypes "github.com/cosmos/cosmos-sdk/x/auth/types"
	banktypes "github.com/cosmos/cosmos-sdk/x/bank/types"

	"github.com/ovrclk/akash/types"
	"github.com/ovrclk/akash/types/unit"
	atypes "github.com/ovrclk/akash/x/audit/types"
	dtypes "github.com/ovrclk/akash/x/deployment/types"
	mtypes "github.com/ovrclk/akash/x/market/types"
	ptypes "github.com/ovrclk/akash/x/provider/types"
)

func coin(n int64) sdk.Coin { return sdk.NewInt64Coin(denom, n) }

func version(tag string) []byte {
	h := sha256.Sum256([]byte(tag))
	return h[:]
}

func unitRes(price int64, count uint32) dtypes.Resource {
	return dtypes.Resource{
		Resources: types.ResourceUnits{
			CPU:     &types.CPU{Units: types.NewResourceValue(10)},
			Memory:  &types.Memory{Quantity: types.NewResourceValue(unit.Mi)},
			Storage: &types.Storage{Quantity: types.NewResourceValue(5 * unit.Mi)},
		},
		Count: count,
		Price: coin(price),
	}
}

func groupSpec(name string, maxPrice int64, req types.PlacementRequirements) dtypes.GroupSpec {
	return dtypes.GroupSpec{Name: name, Requirements: req, Resources: []dtypes.Resource{unitRes(maxPrice, 1)}}
}

func tag(kv ...string) map[string]string {
	m := map[string]string{}
	for i := 0; i+1 < len(kv); i += 2 {
		m[kv[i]] = kv[i+1]
	}
	return m
}

func u(n uint64) string { return fmt.Sprintf("%d", n) }

// ---- message constructors (each returns an Action) ----

func aNext(g int64) Action { return Action{Name: fmt.Sprintf("Next(%d)", g), Gap: g, Kind: "Next"} }

func aCreateDeployment(t string, dseq uint64, ngroups int, maxPrice int64, deposit int64, req types.PlacementRequirements) Action {
	return Action{
		Name: fmt.Sprintf("CreateDeployment(%s,%d,groups=%d,max=%d,dep=%d)", t, dseq, ngroups, maxPrice, deposit), Kind: "CreateDeployment", Signer: t,
		Tag: tag("owner", t, "dseq", u(dseq)),
		Msg: func(c *Cast) sdk.Msg {
			var gs []dtypes.GroupSpec
			for i := 0; i < ngroups; i++ {
				gs = append(gs, groupSpec(fmt.Sprintf("g%d", i+1), maxPrice, req))
			}
			return &dtypes.MsgCreateDeployment{ID: dtypes.DeploymentID{Owner: c.S(t), DSeq: dseq}, Groups: gs, Version: version("v1"), Deposit: coin(deposit)}
		},
	}
}

func aDeposit(t string, dseq uint64, amt int64) Action {
	return Action{Name: fmt.Sprintf("Deposit(%s,%d,%d)", t, dseq, amt), Kind: "DepositDeployment", Signer: t, Tag: tag("owner", t, "dseq", u(dseq)),
		Msg: func(c *Cast) sdk.Msg {
			return &dtypes.MsgDepositDeployment{ID: dtypes.DeploymentID{Owner: c.S(t), DSeq: dseq}, Amount: coin(amt)}
		}}
}

// probes paying in the wrong coin (all must be refused)
func aDepositDenom(t string, dseq uint64, amt int64, dn string) Action {
	return Action{Name: fmt.Sprintf("Deposit(%s,%d,%d%s)", t, dseq, amt, dn), Kind: "DepositDeployment", Signer: t, Tag: tag("owner", t, "dseq", u(dseq)),
		Msg: func(c *Cast) sdk.Msg {
			return &dtypes.MsgDepositDeployment{ID: dtypes.DeploymentID{Owner: c.S(t), DSeq: dseq}, Amount: sdk.NewInt64Coin(dn, amt)}
		}}
}

// aCreateBidRaw lets the alphabet spell the provider address and the price coin freely (upper-case bech32, foreign denomination).
func aCreateBidRaw(name string, b bidRef, providerSpelling func(c *Cast) string, price sdk.Coin, deposit int64) Action {
	return Action{Name: name, Kind: "CreateBid", Signer: b.P, Tag: b.tags(),
		Msg: func(c *Cast) sdk.Msg {
			return &mtypes.MsgCreateBid{Order: b.id(c).OrderID(), Provider: providerSpelling(c), Price: price, Deposit: coin(deposit)}
		}}
}

func aCreateBidDenom(b bidRef, price, deposit int64, dn string) Action {
	return Action{Name: fmt.Sprintf("CreateBid(%s,price=%d,dep=%d%s)", b, price, deposit, dn), Kind: "CreateBid", Signer: b.P, Tag: b.tags(),
		Msg: func(c *Cast) sdk.Msg {
			return &mtypes.MsgCreateBid{Order: b.id(c).OrderID(), Provider: c.S(b.P), Price: coin(price), Deposit: sdk.NewInt64Coin(dn, deposit)}
		}}
}

func aUpdateDeployment(t string, dseq uint64, v string) Action {
	return Action{Name: fmt.Sprintf("UpdateDeployment(%s,%d,%s)", t, dseq, v), Kind: "UpdateDeployment", Signer: t, Tag: tag("owner", t, "dseq", u(dseq)),
		Msg: func(c *Cast) sdk.Msg {
			return &dtypes.MsgUpdateDeployment{ID: dtypes.DeploymentID{Owner: c.S(t), DSeq: dseq}, Version: version(v)}
		}}
}

// aUpdateDeploymentRaw: an update carrying a version of n bytes (only 32 is legal).
func aUpdateDeploymentRaw(t string, dseq uint64, n int) Action {
	return Action{Name: fmt.Sprintf("UpdateDeployment(%s,%d,version-of-%d-bytes)", t, dseq, n), Kind: "UpdateDeployment", Signer: t, Tag: tag("owner", t, "dseq", u(dseq)),
		Msg: func(c *Cast) sdk.Msg {
			v := make([]byte, n)
			for i := range v {
				v[i] = byte(i + 7)
			}
			return &dtypes.MsgUpdateDeployment{ID: dtypes.DeploymentID{Owner: c.S(t), DSeq: dseq}, Version: v}
		}}
}

func aCloseDeployment(t string, dseq uint64) Action {
	return Action{Name: fmt.Sprintf("CloseDeployment(%s,%d)", t, dseq), Kind: "CloseDeployment", Signer: t, Tag: tag("owner", t, "dseq", u(dseq)),
		Msg: func(c *Cast) sdk.Msg {
			return &dtypes.MsgCloseDeployment{ID: dtypes.DeploymentID{Owner: c.S(t), DSeq: dseq}}
		}}
}

func aGroup(kind string, t string, dseq uint64, gseq uint32) Action {
	return Action{Name: fmt.Sprintf("%s(%s,%d,%d)", kind, t, dseq, gseq), Kind: kind, Signer: t, Tag: tag("owner", t, "dseq", u(dseq), "gseq", u(uint64(gseq))),
		Msg: func(c *Cast) sdk.Msg {
			id := dtypes.GroupID{Owner: c.S(t), DSeq: dseq, GSeq: gseq}
			switch kind {
			case "CloseGroup":
				return &dtypes.MsgCloseGroup{ID: id}
			case "PauseGroup":
				return &dtypes.MsgPauseGroup{ID: id}
			case "StartGroup":
				return &dtypes.MsgStartGroup{ID: id}
			}
			panic(kind)
		}}
}

type bidRef struct {
	T    string
	DSeq uint64
	GSeq uint32
	OSeq uint32
	P    string
}

func (b bidRef) id(c *Cast) mtypes.BidID {
	return mtypes.BidID{Owner: c.S(b.T), DSeq: b.DSeq, GSeq: b.GSeq, OSeq: b.OSeq, Provider: c.S(b.P)}
}
func (b bidRef) String() string { return fmt.Sprintf("%s,%d,%d,%d,%s", b.T, b.DSeq, b.GSeq, b.OSeq, b.P) }
func (b bidRef) tags() map[string]string {
	return tag("owner", b.T, "dseq", u(b.DSeq), "gseq", u(uint64(b.GSeq)), "oseq", u(uint64(b.OSeq)), "provider", b.P)
}

func aCreateBid(b bidRef, price, deposit int64) Action {
	return Action{Name: fmt.Sprintf("CreateBid(%s,price=%d,dep=%d)", b, price, deposit), Kind: "CreateBid", Signer: b.P, Tag: b.tags(),
		Msg: func(c *Cast) sdk.Msg {
			return &mtypes.MsgCreateBid{Order: b.id(c).OrderID(), Provider: c.S(b.P), Price: coin(price), Deposit: coin(deposit)}
		}}
}

func aBidOp(kind string, b bidRef) Action {
	signer := b.T
	if kind == "CloseBid" || kind == "WithdrawLease" {
		signer = b.P
	}
	return Action{Name: fmt.Sprintf("%s(%s)", kind, b), Kind: kind, Signer: signer, Tag: b.tags(),
		Msg: func(c *Cast) sdk.Msg {
			switch kind {
			case "CloseBid":
				return &mtypes.MsgCloseBid{BidID: b.id(c)}
			case "CreateLease":
				return &mtypes.MsgCreateLease{BidID: b.id(c)}
			case "CloseLease":
				return &mtypes.MsgCloseLease{LeaseID: mtypes.LeaseID(b.id(c))}
			case "WithdrawLease":
				return &mtypes.MsgWithdrawLease{LeaseID: mtypes.LeaseID(b.id(c))}
			}
			panic(kind)
		}}
}

func attrs(kv ...string) types.Attributes {
	var a types.Attributes
	for i := 0; i+1 < len(kv); i += 2 {
		a = append(a, types.Attribute{Key: kv[i], Value: kv[i+1]})
	}
	return a
}

func aProvider(kind, p string, at types.Attributes, label string) Action {
	return Action{Name: fmt.Sprintf("%s(%s,%s)", kind, p, label), Kind: kind, Signer: p, Tag: tag("provider", p),
		Msg: func(c *Cast) sdk.Msg {
			switch kind {
			case "CreateProvider":
				return &ptypes.MsgCreateProvider{Owner: c.S(p), HostURI: "https://" + p + ".example.com", Attributes: append(types.Attributes{}, at...)}
			case "UpdateProvider":
				return &ptypes.MsgUpdateProvider{Owner: c.S(p), HostURI: "https://" + p + ".example.com", Attributes: append(types.Attributes{}, at...)}
			case "DeleteProvider":
				return &ptypes.MsgDeleteProvider{Owner: c.S(p)}
			}
			panic(kind)
		}}
}

func aSign(auditor, p string, at types.Attributes, label string) Action {
	return Action{Name: fmt.Sprintf("SignAttrs(%s,%s,%s)", auditor, p, label), Kind: "SignProviderAttributes", Signer: auditor, Tag: tag("provider", p, "auditor", auditor),
		Msg: func(c *Cast) sdk.Msg {
			return &atypes.MsgSignProviderAttributes{Owner: c.S(p), Auditor: c.S(auditor), Attributes: append(types.Attributes{}, at...)}
		}}
}

func aUnsign(auditor, p string, keys []string, label string) Action {
	return Action{Name: fmt.Sprintf("DeleteAttrs(%s,%s,%s)", auditor, p, label), Kind: "DeleteProviderAttributes", Signer: auditor, Tag: tag("provider", p, "auditor", auditor),
		Msg: func(c *Cast) sdk.Msg {
			return &atypes.MsgDeleteProviderAttributes{Owner: c.S(p), Auditor: c.S(auditor), Keys: append([]string{}, keys...)}
		}}
}

// aSendToEscrow: a plain bank transfer to the escrow module account (must be refused: blocked address).
func aSendToEscrow(from string, amt int64) Action {
	return Action{Name: fmt.Sprintf("BankSendToEscrow(%s,%d)", from, amt), Kind: "SendToEscrow", Signer: from, Tag: tag("owner", from),
		Msg: func(c *Cast) sdk.Msg {
			return &banktypes.MsgSend{FromAddress: c.S(from), ToAddress: authtypes.NewModuleAddress("escrow").String(), Amount: sdk.NewCoins(coin(amt))}
		}}
}

// ---- scenarios ----

var noReq = types.PlacementRequirements{}

func bidOps(b bidRef, price int64, withWithdraw bool) []Action {
	out := []Action{aCreateBid(b, price, 5), aBidOp("CreateLease", b), aBidOp("CloseLease", b), aBidOp("CloseBid", b)}
	if withWithdraw {
		out = append(out, aBidOp("WithdrawLease", b))
	}
	return out
}

// S-escrow: one tenant, one deployment with two groups, two providers; deposit 10, rates 1..3, gaps 1 and 4:
// 10 is exhausted by rate 3 after 3 full blocks with remainder 1, and by rates 2+3 after exactly 2 blocks.
func scEscrow() Scenario {
	sc := Scenario{Name: "S-escrow", GP: GenesisParams{DeploymentMinDeposit: 10, BidMinDeposit: 5, Funds: 1000, StartHeight: 5}}
	sc.Preamble = []Action{aProvider("CreateProvider", "P1", nil, "none"), aProvider("CreateProvider", "P2", nil, "none")}
	al := []Action{
		aCreateDeployment("T1", 1, 2, 3, 10, noReq),
		aNext(1), aNext(4),
	}
	al = append(al, bidOps(bidRef{"T1", 1, 1, 1, "P1"}, 2, true)...)
	al = append(al, bidOps(bidRef{"T1", 1, 1, 1, "P2"}, 3, true)...)
	al = append(al, bidOps(bidRef{"T1", 1, 2, 1, "P2"}, 3, true)...)
	// second order of group 1, bid by P2: (gseq 1, oseq 2, P2) mirrors (gseq 2, oseq 1, P2) above
	al = append(al, bidOps(bidRef{"T1", 1, 1, 2, "P2"}, 1, true)...)
	al = append(al,
		aDeposit("T1", 1, 3),
		aCloseDeployment("T1", 1),
		aGroup("CloseGroup", "T1", 1, 1), aGroup("PauseGroup", "T1", 1, 1), aGroup("StartGroup", "T1", 1, 1),
		aSendToEscrow("B", 1),
		aDepositDenom("T1", 1, 3, denom2), aCreateBidDenom(bidRef{"T1", 1, 2, 1, "P1"}, 2, 5, denom2),
	)
	// lease / bid ids naming the provider in upper-case bech32 (no such record exists: must be refused)
	al = append(al, aBidOp("CreateLease", bidRef{"T1", 1, 1, 1, "P1^"}), aBidOp("CloseBid", bidRef{"T1", 1, 1, 1, "P1^"}), aBidOp("WithdrawLease", bidRef{"T1", 1, 1, 1, "P1^"}))
	// negative amounts (a coin decoded from the wire may carry one; sdk.NewCoin would panic, a struct literal does not)
	neg := func(n int64) sdk.Coin { return sdk.Coin{Denom: denom, Amount: sdk.NewInt(n)} }
	al = append(al,
		Action{Name: "Deposit(T1,1,-3)", Kind: "DepositDeployment", Signer: "T1", Tag: tag("owner", "T1", "dseq", "1"),
			Msg: func(c *Cast) sdk.Msg {
				return &dtypes.MsgDepositDeployment{ID: dtypes.DeploymentID{Owner: c.S("T1"), DSeq: 1}, Amount: neg(-3)}
			}},
		aCreateBidRaw("CreateBid(T1,1,2,1,P1,price=-2,dep=5)", bidRef{"T1", 1, 2, 1, "P1"}, func(c *Cast) string { return c.S("P1") }, neg(-2), 5),
		Action{Name: "CreateBid(T1,1,2,1,P1,price=2,dep=-5)", Kind: "CreateBid", Signer: "P1", Tag: bidRef{"T1", 1, 2, 1, "P1"}.tags(),
			Msg: func(c *Cast) sdk.Msg {
				return &mtypes.MsgCreateBid{Order: bidRef{"T1", 1, 2, 1, "P1"}.id(c).OrderID(), Provider: c.S("P1"), Price: coin(2), Deposit: neg(-5)}
			}},
	)
	// the same tenant spelling its address in upper-case bech32 (must be refused: ids are keyed by the owner string)
	al = append(al, aCreateDeployment("T1^", 7, 1, 3, 10, noReq), aCloseDeployment("T1^", 7))
	al = append(al, bidOps(bidRef{"T1^", 7, 1, 1, "P1"}, 2, false)...)
	// a bid above the order's maximum price (3), and what a tenant could do with it if it were admitted
	al = append(al, bidOps(bidRef{"T1", 1, 2, 1, "P1"}, 4, false)...)
	sc.Alphabet = al
	return sc
}

// S-pre-lease: S-escrow's alphabet started from a non-initial state (deployment, two bids and one lease exist),
// so that the depth budget is spent on what happens AFTER a lease is running.
func scLeased() Scenario {
	sc := scEscrow()
	sc.Name = "S-leased"
	b1 := bidRef{"T1", 1, 1, 1, "P1"}
	b3 := bidRef{"T1", 1, 2, 1, "P2"}
	sc.Preamble = append(sc.Preamble,
		aCreateDeployment("T1", 1, 2, 3, 10, noReq),
		aCreateBid(b1, 2, 5), aCreateBid(b3, 3, 5),
		aBidOp("CreateLease", b1),
	)
	return sc
}

// S-life: two tenants, dseq 1 and 12, two groups, two providers, all market + deployment messages.
func scLife() Scenario {
	sc := Scenario{Name: "S-life", GP: GenesisParams{DeploymentMinDeposit: 10, BidMinDeposit: 5, Funds: 1000, StartHeight: 5}}
	sc.Preamble = []Action{aProvider("CreateProvider", "P1", nil, "none"), aProvider("CreateProvider", "P2", nil, "none")}
	al := []Action{
		aCreateDeployment("T1", 1, 2, 3, 10, noReq),
		aCreateDeployment("T2", 12, 1, 3, 10, noReq),
		aNext(1), aNext(6),
	}
	al = append(al, bidOps(bidRef{"T1", 1, 1, 1, "P1"}, 2, true)...)
	al = append(al, bidOps(bidRef{"T1", 1, 1, 1, "P2"}, 3, false)...)
	al = append(al, bidOps(bidRef{"T1", 1, 2, 1, "P1"}, 3, false)...)
	al = append(al, bidOps(bidRef{"T1", 1, 1, 2, "P2"}, 1, false)...)
	al = append(al, bidOps(bidRef{"T2", 12, 1, 1, "P1"}, 2, false)...)
	al = append(al, aCreateBid(bidRef{"T2", 12, 1, 1, "P2"}, 5, 5), aBidOp("CreateLease", bidRef{"T2", 12, 1, 1, "P2"})) // above the maximum (3)
	al = append(al,
		aCloseDeployment("T1", 1), aCloseDeployment("T2", 12),
		aUpdateDeployment("T1", 1, "v2"), aUpdateDeploymentRaw("T1", 1, 64), aUpdateDeploymentRaw("T1", 1, 31),
		aGroup("CloseGroup", "T1", 1, 1), aGroup("PauseGroup", "T1", 1, 1), aGroup("StartGroup", "T1", 1, 1),
		aGroup("CloseGroup", "T1", 1, 2), aGroup("PauseGroup", "T1", 1, 2), aGroup("StartGroup", "T1", 1, 2),
		aGroup("StartGroup", "T2", 12, 1),
	)
	sc.Alphabet = al
	return sc
}

// S-poor: bank transfers that FAIL. PX holds 12uakt: enough for one deployment deposit (10) or two bid deposits (5), never
// for all it asks for; every request it cannot pay for must be refused without leaving a record behind.
func scPoor() Scenario {
	sc := Scenario{Name: "S-poor", GP: GenesisParams{DeploymentMinDeposit: 10, BidMinDeposit: 5, Funds: 1000, StartHeight: 5, PoorFunds: 12}}
	sc.Preamble = []Action{aProvider("CreateProvider", "PX", nil, "none"), aProvider("CreateProvider", "P1", nil, "none"),
		aCreateDeployment("T1", 1, 3, 3, 10, noReq)}
	al := []Action{aNext(1), aNext(4),
		aCreateDeployment("PX", 1, 1, 3, 10, noReq), aDeposit("PX", 1, 3), aDeposit("PX", 1, 2), aCloseDeployment("PX", 1),
		aCreateDeployment("PX", 2, 1, 3, 10, noReq), aCreateDeployment("PX", 3, 1, 3, 13, noReq),
	}
	for g := uint32(1); g <= 3; g++ {
		b := bidRef{"T1", 1, g, 1, "PX"}
		al = append(al, aCreateBid(b, 2, 5), aBidOp("CloseBid", b))
	}
	al = append(al, aCreateBid(bidRef{"T1", 1, 1, 1, "PX"}, 2, 13)) // a deposit above everything PX owns
	al = append(al, aBidOp("CreateLease", bidRef{"T1", 1, 1, 1, "PX"}), aBidOp("WithdrawLease", bidRef{"T1", 1, 1, 1, "PX"}), aBidOp("CloseLease", bidRef{"T1", 1, 1, 1, "PX"}))
	al = append(al, aCreateBid(bidRef{"PX", 1, 1, 1, "P1"}, 2, 5), aBidOp("CreateLease", bidRef{"PX", 1, 1, 1, "P1"}), aCloseDeployment("T1", 1))
	sc.Alphabet = al
	return sc
}

// aParam: a chain parameter changed the way a passed governance proposal changes it (x/params subspace update, no module code involved).
func aParam(module, key string, label string, val interface{}) Action {
	return Action{Name: fmt.Sprintf("ParamChange(%s.%s=%s)", module, key, label), Kind: "ParamChange",
		Do: func(w *World, st State) (res TxResult) {
			defer func() {
				if r := recover(); r != nil {
					res = TxResult{Err: fmt.Sprintf("panic: %v", r), Panic: true}
				}
			}()
			w.App.GetSubspace(module).Set(st.Ctx, []byte(key), val)
			return TxResult{OK: true}
		}}
}

// S-params: chain parameters change while the marketplace is in use; every transaction is also re-executed on a freshly
// started application instance (GenesisParams.RestartCheck).
func scParams() Scenario {
	sc := Scenario{Name: "S-params", GP: GenesisParams{DeploymentMinDeposit: 10, BidMinDeposit: 5, Funds: 1000, StartHeight: 5, RestartCheck: true}}
	sc.Preamble = []Action{aProvider("CreateProvider", "P1", nil, "none"), aProvider("CreateProvider", "P2", nil, "none"), aCreateDeployment("T1", 1, 1, 3, 10, noReq)}
	b1, b2 := bidRef{"T1", 1, 1, 1, "P1"}, bidRef{"T1", 1, 1, 1, "P2"}
	sc.Alphabet = []Action{
		aParam("market", "BidMinDeposit", "7uakt", sdk.NewInt64Coin(denom, 7)),
		aParam("market", "OrderMaxBids", "1", uint32(1)),
		aParam("deployment", "DeploymentMinDeposit", "12uakt", sdk.NewInt64Coin(denom, 12)),
		aCreateBid(b1, 2, 5), aCreateBid(b1, 2, 7), aCreateBid(b2, 2, 7), aBidOp("CloseBid", b1),
		aCreateDeployment("T1", 2, 1, 3, 10, noReq), aCreateDeployment("T1", 3, 1, 3, 12, noReq),
		aBidOp("CreateLease", b1), aCloseDeployment("T1", 1), aNext(1),
	}
	return sc
}

var scenarioTable = map[string]func() Scenario{
	"S-params": scParams,
	"S-poor":   scPoor,
	"S-escrow": scEscrow,
	"S-leased": scLeased,
	"S-life":   scLife,
	"S-meter":  scMeter,
	"S-3bids":  sc3Bids,
	"S-attr":   scAttr,
	"S-attr-leased": scAttrLeased,
	"S-attr-upper":  scAttrUpper,
	"S-attr-2groups": scAttr2Groups,
	"S-cert":   scCert(certSerials),
	"S-collide": scCollide,
	"S-grid":   scGrid,
}
