package main

// certs.go — x509 client certificates for the cert-module messages. Generated once per process
// (memoised) so that every worker's application instance sees byte-identical messages.

import (
	"bytes"
	"crypto/ecdsa"
	"crypto/elliptic"
	"crypto/rand"
	"crypto/x509"
	"crypto/x509/pkix"
	"encoding/pem"
	"fmt"
	"math/big"
	"strings"
	"sync"
	"time"

	sdk "github.com/cosmos/cosmos-sdk/types"

	ctypes "github.com/ovrclk/akash/x/cert/types"
)

type testCert struct {
	CertPEM []byte
	PubPEM  []byte
	Serial  *big.Int
}

var (
	certMu    sync.Mutex
	certCache = map[string]testCert{}
)

// makeCert returns a self-signed certificate whose CommonName is cn and whose serial is `serial`.
// Serial 0 cannot be produced by x509.CreateCertificate, so it is made by patching the DER of a
// serial-1 certificate (the chain never verifies the signature, so this is what an attacker would do too).
func makeCert(cn string, serial *big.Int) testCert { return makeCertKeyed(cn, serial, "") }

func makeCertKeyed(cn string, serial *big.Int, variant string) testCert {
	key := cn + "/" + serial.String() + "#" + variant
	certMu.Lock()
	defer certMu.Unlock()
	if c, ok := certCache[key]; ok {
		return c
	}
	priv, err := ecdsa.GenerateKey(elliptic.P256(), rand.Reader)
	if err != nil {
		panic(err)
	}
	genSerial := serial
	if serial.Sign() == 0 {
		genSerial = big.NewInt(1)
	}
	now := time.Now()
	tpl := x509.Certificate{
		SerialNumber:          genSerial,
		Subject:               pkix.Name{CommonName: cn},
		Issuer:                pkix.Name{CommonName: cn},
		NotBefore:             now.Add(-24 * time.Hour),
		NotAfter:              now.Add(5 * 365 * 24 * time.Hour),
		KeyUsage:              x509.KeyUsageDataEncipherment | x509.KeyUsageKeyEncipherment,
		ExtKeyUsage:           []x509.ExtKeyUsage{x509.ExtKeyUsageClientAuth},
		BasicConstraintsValid: true,
	}
	parent, signer := &tpl, priv
	if strings.HasPrefix(variant, "issuer:") {
		// issued by another identity: the Issuer common name differs from the Subject's (legal x509; the chain never checks the chain of trust)
		ca, err := ecdsa.GenerateKey(elliptic.P256(), rand.Reader)
		if err != nil {
			panic(err)
		}
		caTpl := tpl
		caTpl.Subject = pkix.Name{CommonName: strings.TrimPrefix(variant, "issuer:")}
		caTpl.IsCA = true
		caTpl.KeyUsage |= x509.KeyUsageCertSign
		parent, signer = &caTpl, ca
	}
	der, err := x509.CreateCertificate(rand.Reader, &tpl, parent, priv.Public(), signer)
	if err != nil {
		panic(err)
	}
	if serial.Sign() == 0 {
		// TBSCertificate ::= SEQUENCE { [0] EXPLICIT version (a0 03 02 01 02), serialNumber INTEGER (02 01 01), ...
		pat := []byte{0xa0, 0x03, 0x02, 0x01, 0x02, 0x02, 0x01, 0x01}
		i := bytes.Index(der, pat)
		if i < 0 {
			panic("makeCert: cannot locate serial in DER")
		}
		der[i+7] = 0x00
		c, err := x509.ParseCertificate(der)
		if err != nil || c.SerialNumber.Sign() != 0 {
			panic(fmt.Sprintf("makeCert: serial-0 patch failed: %v", err))
		}
	}
	pubDer, err := x509.MarshalPKIXPublicKey(priv.Public())
	if err != nil {
		panic(err)
	}
	c := testCert{
		CertPEM: pem.EncodeToMemory(&pem.Block{Type: ctypes.PemBlkTypeCertificate, Bytes: der}),
		PubPEM:  pem.EncodeToMemory(&pem.Block{Type: ctypes.PemBlkTypeECPublicKey, Bytes: pubDer}),
		Serial:  serial,
	}
	certCache[key] = c
	return c
}

// aCreateCert: `signer` submits a certificate whose CommonName names `cnOwner`, with the message's owner field = msgOwner.
func aCreateCert(msgOwner, cnOwner string, serial *big.Int) Action {
	name := fmt.Sprintf("CreateCert(%s,serial=%s)", msgOwner, serial)
	if cnOwner != msgOwner {
		name = fmt.Sprintf("CreateCert(%s,cn=%s,serial=%s)", msgOwner, cnOwner, serial)
	}
	return Action{Name: name, Kind: "CreateCertificate", Signer: msgOwner, Tag: tag("owner", msgOwner, "cn", cnOwner, "serial", serial.String()),
		Msg: func(c *Cast) sdk.Msg {
			tc := makeCert(c.S(cnOwner), serial)
			return &ctypes.MsgCreateCertificate{Owner: c.S(msgOwner), Cert: tc.CertPEM, Pubkey: tc.PubPEM}
		}}
}

func aRevokeCert(owner string, serial *big.Int) Action {
	return Action{Name: fmt.Sprintf("RevokeCert(%s,serial=%s)", owner, serial), Kind: "RevokeCertificate", Signer: owner, Tag: tag("owner", owner, "serial", serial.String()),
		Msg: func(c *Cast) sdk.Msg {
			return &ctypes.MsgRevokeCertificate{ID: ctypes.CertificateID{Owner: c.S(owner), Serial: serial.String()}}
		}}
}

// aCreateCertAlt: a DIFFERENT certificate (new key pair) carrying the same common name and serial.
func aCreateCertAlt(owner string, serial *big.Int) Action {
	return Action{Name: fmt.Sprintf("CreateCert(%s,serial=%s,other-key)", owner, serial), Kind: "CreateCertificate", Signer: owner, Tag: tag("owner", owner, "cn", owner, "serial", serial.String()),
		Msg: func(c *Cast) sdk.Msg {
			tc := makeCertKeyed(c.S(owner), serial, "alt")
			return &ctypes.MsgCreateCertificate{Owner: c.S(owner), Cert: tc.CertPEM, Pubkey: tc.PubPEM}
		}}
}

// aRevokeCertSpelled: revoke naming the serial with a non-canonical decimal spelling (e.g. "010" = 10).
func aRevokeCertSpelled(owner string, spelling string) Action {
	ser, _ := new(big.Int).SetString(spelling, 10)
	return Action{Name: fmt.Sprintf("RevokeCert(%s,serial=%q)", owner, spelling), Kind: "RevokeCertificate", Signer: owner, Tag: tag("owner", owner, "serial", ser.String()),
		Msg: func(c *Cast) sdk.Msg {
			return &ctypes.MsgRevokeCertificate{ID: ctypes.CertificateID{Owner: c.S(owner), Serial: spelling}}
		}}
}

// aCreateCertIssued: msgOwner submits a certificate whose SUBJECT names cnOwner and whose ISSUER names issuer.
func aCreateCertIssued(msgOwner, cnOwner, issuer string, serial *big.Int) Action {
	return Action{Name: fmt.Sprintf("CreateCert(%s,cn=%s,issuer=%s,serial=%s)", msgOwner, cnOwner, issuer, serial), Kind: "CreateCertificate", Signer: msgOwner,
		Tag: tag("owner", msgOwner, "cn", cnOwner, "serial", serial.String()),
		Msg: func(c *Cast) sdk.Msg {
			tc := makeCertKeyed(c.S(cnOwner), serial, "issuer:"+c.S(issuer))
			return &ctypes.MsgCreateCertificate{Owner: c.S(msgOwner), Cert: tc.CertPEM, Pubkey: tc.PubPEM}
		}}
}
