package main

// Supplementary FREE-RUNNING pass (checks/C20 race): the same harness bodies - the real, instrumented
// manifest service, the scripted collaborators, the clients - run as real goroutines on real channels,
// with the gosched shim in pass-through mode (vs.Active()==false), built with -race. Its only purpose is
// to give the race detector a chance on the premise of the engine (shared state of provider/manifest is
// only touched around hooked channel/select/sync operations); under the cooperative scheduler every
// hand-off is a happens-before edge and the detector is blind. It decides nothing about C20: no tap, no
// per-goroutine logs, no schedule control; only schedule-independent safety facts are looked at (an
// invalid manifest accepted or announced, an announcement without chain data), and a run that does not
// come to rest within a generous horizon is counted "inconclusive", never a violation.

import (
	"fmt"
	"math/rand"
	"os"
	"path/filepath"
	"sort"
	"strings"
	"sync"
	"time"

	"verif.local/verif/evlib"
)

// free-mode fields of inst live here (harness.go only calls lock/unlock/goClient)
type freeState struct {
	free    bool
	mu      sync.Mutex
	clientW sync.WaitGroup
}

func (in *inst) lock() {
	if in.free {
		in.mu.Lock()
	}
}

func (in *inst) unlock() {
	if in.free {
		in.mu.Unlock()
	}
}

const freeHorizon = 3 * time.Second

// waitFor polls cond (under the harness lock) until it holds or the horizon passes. The horizon is a
// machinery guard: its expiry makes the run inconclusive, nothing else.
func (in *inst) waitFor(d time.Duration, cond func() bool) bool {
	dl := time.Now().Add(d)
	for {
		in.mu.Lock()
		ok := cond()
		in.mu.Unlock()
		if ok {
			return true
		}
		if time.Now().After(dl) {
			return false
		}
		time.Sleep(20 * time.Microsecond)
	}
}

// runFree performs one free-running execution. It returns the safety violations seen and whether the
// run was conclusive (every client returned and the service came to rest within the horizon).
func (in *inst) runFree(rng *rand.Rand) (viol []string, conclusive bool) {
	in.free = true
	in.body()
	if in.svc == nil {
		return []string{"NewService failed"}, false
	}
	idle := 0
	for {
		m := in.menu() // spontaneous events still to fire + one entry per (pending scripted call, outcome)
		if len(m) == 0 {
			// nothing to do: the system may still produce a scripted call; give it a moment, several times
			if in.waitFor(300*time.Microsecond, func() bool { return len(in.pending) > 0 }) {
				idle = 0
				continue
			}
			if idle++; idle >= 3 {
				break
			}
			continue
		}
		idle = 0
		a := m[rng.Intn(len(m))]
		in.envLog = append(in.envLog, a.id)
		a.fire()
		// pacing: mostly let the system react, sometimes fire back to back
		switch rng.Intn(4) {
		case 0:
		case 1:
			time.Sleep(time.Duration(rng.Intn(40)) * time.Microsecond)
		default:
			time.Sleep(time.Duration(50+rng.Intn(400)) * time.Microsecond)
		}
	}
	// every Submit must come back once the environment has nothing left to do - free-running this is only a
	// horizon (inconclusive), the controlled exploration is what decides hangs
	done := make(chan struct{})
	go func() { in.clientW.Wait(); close(done) }()
	conclusive = true
	select {
	case <-done:
	case <-time.After(freeHorizon):
		conclusive = false
	}
	// tear down: shutdown, answer whatever is still asked, wait for the service (D11 can keep it from finishing)
	in.cancel()
	stop := time.Now().Add(freeHorizon)
	for {
		select {
		case <-in.svc.Done():
		default:
			if time.Now().Before(stop) {
				for _, a := range in.menuPendingOnly() {
					a.fire()
				}
				time.Sleep(50 * time.Microsecond)
				continue
			}
			conclusive = false
		}
		break
	}
	if conclusive {
		select {
		case <-done:
		default:
			conclusive = false
		}
	}
	in.bus.Close()
	if !conclusive {
		return nil, false // client records may still be written: do not read them
	}
	return in.checkFree(), true
}

// menuPendingOnly: the "ok" answer for every pending scripted call.
func (in *inst) menuPendingOnly() []action {
	q := in.quit
	in.quit = true
	m := in.menu()
	in.quit = q
	var out []action
	for _, a := range m {
		if strings.HasSuffix(a.id, "=ok") {
			out = append(out, a)
		}
	}
	return out
}

// checkFree: schedule-independent safety facts only.
func (in *inst) checkFree() []string {
	var viol []string
	in.mu.Lock()
	defer in.mu.Unlock()
	names := make([]string, 0, len(in.clients))
	for n := range in.clients {
		names = append(names, n)
	}
	sort.Strings(names)
	for _, n := range names {
		c := in.clients[n]
		if c.started && c.returned && c.err == nil && (c.kind == "I" || c.kind == "W") {
			viol = append(viol, sig("accepted-invalid:"+c.kind, "free-running: Submit of %s returned nil for manifest %s", n, c.kind))
		}
	}
	for _, lg := range in.glog {
		for i := range lg {
			e := &lg[i]
			if e.k != ePub {
				continue
			}
			if e.pub.Deployment == nil {
				viol = append(viol, sig("announce-before-data", "free-running: ManifestReceived without deployment data"))
			}
			if k := in.kindName(in.pubHash(e)); k == "I" || k == "W" {
				viol = append(viol, sig("announce-unvalidated:"+k, "free-running: ManifestReceived carries manifest %s", k))
			}
		}
	}
	return viol
}

func (in *inst) goClient(f func()) {
	if !in.free {
		goManagedClient(f)
		return
	}
	in.clientW.Add(1)
	go func() { defer in.clientW.Done(); f() }()
}

// doFree runs every configuration of the tier n times free-running and writes build/race/C20.txt.
// Exit 0 clean, 1 safety violation seen; the race detector turns the exit status into 66 by itself.
func doFree(tier, only string, n int) int {
	start := time.Now()
	var lines []string
	runs, bad, inconclusive, ncfg := 0, 0, 0, 0
	for _, c := range configs {
		if (only != "" && c.Name != only) || (c.Tier != "quick" && tier != "thorough") {
			continue
		}
		ncfg++
		cb, ci := 0, 0
		for i := 0; i < n; i++ {
			runs++
			rng := rand.New(rand.NewSource(int64(i)*7919 + int64(len(c.Name))))
			in := newInst(c)
			v, ok := in.runFree(rng)
			if !ok {
				ci++
				inconclusive++
			}
			if len(v) > 0 {
				cb++
				bad++
				fmt.Printf("free-running %s run %d: %v (environment: %s)\n", c.Name, i, v, strings.Join(in.envLog, " "))
			}
		}
		lines = append(lines, fmt.Sprintf("%-24s runs=%d inconclusive=%d safety_violations=%d", c.Name, n, ci, cb))
	}
	summary := fmt.Sprintf("c20: free-running pass (supplementary, decides nothing): tier=%s configurations=%d runs=%d inconclusive=%d runs_with_safety_violations=%d wall=%.1fs",
		tier, ncfg, runs, inconclusive, bad, time.Since(start).Seconds())
	fmt.Println(summary)
	out := filepath.Join(evlib.Root(), "build", "race", "C20.txt")
	os.MkdirAll(filepath.Dir(out), 0o755)
	os.WriteFile(out, []byte(summary+"\n"+strings.Join(lines, "\n")+"\n(race detector reports, if any, are appended below by checks/C20 race)\n"), 0o644)
	if bad > 0 {
		return 1
	}
	return 0
}
