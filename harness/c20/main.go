// Command c20 decides property C20 (manifest submissions answered exactly once; announce only when
// complete) with the gosched engine: the real provider/manifest service.run + manager + watchdog, the
// real pubsub bus, util/runner and go-lifecycle, mechanically instrumented, run under the controlled
// scheduler; scripted chain query / hostname service / broadcaster are released by an environment
// goroutine; every order of the environment's events (and every prefix), every scripted outcome and
// every schedule within the (preemption, early-injection) budgets is enumerated, and the oracle of
// harness.go is evaluated on every execution.
//
//	c20 -tier quick|thorough [-workers N] [-deadline D]     parent: runs all configurations, writes evidence
//	c20 -config NAME -worker [-deadline D] [-budgets S]      worker: explores one configuration, prints JSON
//	c20 -replay FILE                                         re-executes a recorded violation
//	c20 -list
//
// exit 0: no violation; 1: VIOLATION printed; 2: machinery failure.
package main

import (
	"bytes"
	"context"
	"encoding/json"
	"flag"
	"fmt"
	"os"
	"os/exec"
	"path/filepath"
	"runtime"
	"runtime/pprof"
	"sort"
	"strings"
	"sync"
	"time"

	"verif.local/gosched/vs"
	"verif.local/verif/evlib"
)

// budget ladders "p,e;p,e"; groups separated by "|" run as separate worker processes; "p,e/n" splits
// the exploration of one budget into n shards (worker processes)
const (
	b00 = "0,0"
	bQ  = "0,0;1,0;0,1;1,1"
	bT5 = "0,0;1,0;0,1|1,1/2" // thorough, five-event menus
)

var configs = []*Config{
	// --- replies: concurrent submissions queued behind the chain query; query fails / shutdown / deployment closed
	{Name: "2sub-fetcherr", Tier: "quick", Events: []string{evLease1, evSubA, evSubA2}, FetchErrs: 1, Budgets: bQ + "|2,2|3,3", ThoroughBudgets: bQ + "|2,2|3,3|4,4/4"},
	{Name: "2sub-shutdown", Tier: "quick", Events: []string{evLease1, evSubA, evSubA2, evShutdown}, FetchErrs: 1, Budgets: bQ + "|2,1", ThoroughBudgets: bQ + "|2,1|1,2/2|2,2/2"},
	{Name: "2sub-dclosed", Tier: "quick", Events: []string{evLease1, evSubA, evSubW, evDClosed}, FetchErrs: 1, Budgets: bQ, ThoroughBudgets: bQ + "|2,1|1,2/2"},
	{Name: "3sub-kinds", Tier: "quick", Events: []string{evLease1, evSubA, evSubI, evSubW}, FetchErrs: 1, Budgets: bQ, ThoroughBudgets: bQ + "|2,1"},
	{Name: "nolease-3sub", Tier: "quick", Events: []string{evSubA, evSubA2, evSubW, evShutdown}, Budgets: bQ, ThoroughBudgets: bQ + "|2,2"},
	{Name: "chain-invalid", Tier: "quick", Events: []string{evLease1, evSubI, evSubA, evLease2}, ChainInvalid: true, Budgets: bQ + "|2,2", ThoroughBudgets: bQ + "|2,2|3,3/2"},
	// --- announcements: leases come and go
	{Name: "2lease-close", Tier: "quick", Events: []string{evLease1, evLease2, evSubA, evClose1, evClose2}, Budgets: bQ, ThoroughBudgets: bQ + "|2,1|0,2/4|2,2/4"},
	// lease won and closed back to back, then a submission (a removal must never overtake the "lease won" it belongs to)
	{Name: "lease-close-race", Tier: "quick", Events: []string{evLease1, evClose1, evSubA}, Budgets: bQ + "|0,2|2,2", ThoroughBudgets: bQ + "|0,2|2,2|1,3|3,3/2"},
	{Name: "lease-close-sub", Tier: "quick", Events: []string{evLease1, evClose1, evSubA, evSubA2, evLease2}, FetchErrs: 1, Budgets: "0,0;1,0|0,1/2", ThoroughBudgets: bT5},
	{Name: "prelease", Tier: "quick", Events: []string{evSubA, evSubW, evClose1, evLease2}, PreLease: true, FetchErrs: 1, Budgets: "0,0;1,0;0,1", ThoroughBudgets: bQ + "|2,1"},
	// --- announcements: version update, latest validated manifest
	{Name: "update-latest", Tier: "quick", Events: []string{evLease1, evSubA, evUpdate, evSubB, evLease2}, Budgets: "0,0;1,0|0,1/2", ThoroughBudgets: bT5 + "|2,1/4"},
	// the on-chain version returns to an earlier value (A -> B -> A): the announcement after the third acceptance must carry the third accepted manifest
	{Name: "version-returns", Tier: "quick", Events: []string{evLease1, evSubA, evUpdate, evSubB, evUpdateA, evSubA2}, Budgets: "0,0/2|1,0/2", ThoroughBudgets: "0,0/2|1,0/4|0,1/8"},
	{Name: "version-returns-lease2", Tier: "thorough", Events: []string{evLease1, evSubA, evUpdate, evSubB, evUpdateA, evSubA2, evLease2}, ThoroughBudgets: "0,0/8"},
	{Name: "update-3sub", Tier: "quick", Events: []string{evLease1, evSubA, evUpdate, evSubB, evSubA2}, FetchErrs: 1, Budgets: "0,0;1,0|0,1/3", ThoroughBudgets: bT5},
	// --- a second manager after the deployment was closed
	{Name: "reincarnate", Tier: "quick", Events: []string{evLease1, evSubA, evDClosed, evLease2, evSubA2}, Budgets: "0,0;1,0|0,1/2", ThoroughBudgets: bT5},
	// --- hostname service answers late (D11: checkHostnamesForManifest consumes the shutdown request)
	{Name: "host-shutdown", Tier: "quick", Events: []string{evLease1, evSubA, evSubA2, evShutdown}, HostAsync: true, HostErrs: 1, Budgets: bQ, ThoroughBudgets: bQ + "|2,1|1,2/2"},
	{Name: "host-dclosed", Tier: "quick", Events: []string{evLease1, evSubA, evSubA2, evDClosed, evLease2}, HostAsync: true, Budgets: "0,0|1,0/2", ThoroughBudgets: "0,0;1,0|0,1/2"},
	// --- watchdog (ManifestTimeout > 0): virtual timer per new lease, scripted close-bid broadcast
	{Name: "watchdog", Tier: "quick", Events: []string{evLease1, evSubA, evShutdown}, Watchdog: true, FetchErrs: 1, Budgets: "0,0;1,0;0,1|1,1/2", ThoroughBudgets: "0,0;1,0;0,1|1,1/2|2,1/2"},
	{Name: "watchdog-2lease", Tier: "quick", Events: []string{evLease1, evLease2, evSubA, evClose1}, Watchdog: true, Budgets: "0,0|1,0/2", ThoroughBudgets: "0,0;1,0|0,1/2"},
	// --- long menus
	{Name: "len7-a", Tier: "quick", Events: []string{evLease1, evSubA, evSubW, evUpdate, evSubB, evClose1, evShutdown}, FetchErrs: 1, Budgets: "0,0/4", ThoroughBudgets: "0,0/4|1,0/8"},
	{Name: "len6-b", Tier: "quick", Events: []string{evLease1, evLease2, evSubA, evSubA2, evClose1, evDClosed}, FetchErrs: 1, Budgets: b00, ThoroughBudgets: "0,0|1,0/2"},
	// --- thorough only
	{Name: "len7-b", Tier: "thorough", Events: []string{evLease1, evLease2, evSubA, evSubA2, evClose1, evDClosed, evSubI}, FetchErrs: 1, ThoroughBudgets: "0,0/4"},
	{Name: "len7-c", Tier: "thorough", Events: []string{evLease1, evLease2, evSubA, evUpdate, evSubB, evClose1, evClose2}, FetchErrs: 2, ThoroughBudgets: "0,0/4"},
	// (measured on 16 idle cores, 16 shards each: the former len7-host - the same menu plus dclosed, one hostname
	// rejection, one failed query - and watchdog-full - lease1, lease2, subA, subA2, dclosed, shutdown with both
	// watchdog timers, late hostname answers and a failed query - did not finish (0,0) in 20 and 45 minutes
	// (> 37M and > 217M states); the menus below are the largest of their kind that are covered COMPLETELY)
	{Name: "watchdog-2lease-full", Tier: "thorough", First: true, Events: []string{evLease1, evLease2, evSubA, evDClosed, evShutdown}, Watchdog: true, HostAsync: true, ThoroughBudgets: "0,0/16"},
	{Name: "len6-host", Tier: "thorough", First: true, Events: []string{evLease1, evSubA, evSubA2, evUpdate, evSubB, evShutdown}, HostAsync: true, HostErrs: 1, FetchErrs: 1, ThoroughBudgets: "0,0/16"},
	{Name: "watchdog-1lease-full", Tier: "thorough", First: true, Events: []string{evLease1, evSubA, evSubA2, evDClosed, evShutdown}, Watchdog: true, HostAsync: true, FetchErrs: 1, ThoroughBudgets: "0,0/16"},
	{Name: "len8", Tier: "thorough", Events: []string{evLease1, evLease2, evSubA, evSubW, evUpdate, evSubB, evClose1, evShutdown}, FetchErrs: 1, ThoroughBudgets: "0,0/8"},
}

// The version-protocol family of C10 (checks/C20 c10version): lease won, the deployment query answered by
// the environment, two DISTINCT updates (update -> vB, update2 -> vC; either may come first, and the one
// fired first is the older chain state), and 1-2 clients submitting the manifests that hash to the
// initial version (A), to vB (B) and to vC (C). Every order and prefix; oracle: checkVersion.
var c10vConfigs = []*Config{
	{Name: "v-subA", Tier: "quick", Mode: "c10v", Events: []string{evLease1, evUpdate, evUpdate2, evSubA}, Budgets: bQ + "|2,2", ThoroughBudgets: bQ + "|2,2|3,3/2"},
	{Name: "v-subB", Tier: "quick", Mode: "c10v", Events: []string{evLease1, evUpdate, evUpdate2, evSubB}, Budgets: bQ + "|2,2", ThoroughBudgets: bQ + "|2,2|3,3/2"},
	{Name: "v-subC", Tier: "quick", Mode: "c10v", Events: []string{evLease1, evUpdate, evUpdate2, evSubC}, Budgets: bQ + "|2,2", ThoroughBudgets: bQ + "|2,2|3,3/2"},
	{Name: "v-subAB", Tier: "quick", Mode: "c10v", Events: []string{evLease1, evUpdate, evUpdate2, evSubA, evSubB}, Budgets: "0,0;1,0;0,1|1,1/2", ThoroughBudgets: "0,0;1,0;0,1|1,1/2|2,1/4|1,2/4"},
	{Name: "v-subBC", Tier: "quick", Mode: "c10v", Events: []string{evLease1, evUpdate, evUpdate2, evSubB, evSubC}, Budgets: "0,0;1,0;0,1|1,1/2", ThoroughBudgets: "0,0;1,0;0,1|1,1/2|2,1/4|1,2/4"},
	{Name: "v-subAC", Tier: "thorough", Mode: "c10v", Events: []string{evLease1, evUpdate, evUpdate2, evSubA, evSubC}, ThoroughBudgets: "0,0;1,0;0,1|1,1/2|2,1/4"},
	// a right-hash and a wrong-hash submission queued together while the query is in flight: what is announced?
	{Name: "v-subAW", Tier: "quick", Mode: "c10v", Events: []string{evLease1, evSubA, evSubW}, Budgets: bQ + "|2,2", ThoroughBudgets: bQ + "|2,2|3,3/2"},
	{Name: "v-update-subAW", Tier: "quick", Mode: "c10v", Events: []string{evLease1, evUpdate, evSubB, evSubW, evLease2}, Budgets: "0,0;1,0;0,1", ThoroughBudgets: "0,0;1,0;0,1|1,1/2"},
	{Name: "v-1update-subAB", Tier: "quick", Mode: "c10v", Events: []string{evLease1, evUpdate, evSubA, evSubB}, Budgets: bQ, ThoroughBudgets: bQ + "|2,2|3,3/4"},
	// versions that come back (round-7 seed C10-13: a manager that de-duplicated its version list judged by a stale "last" entry
	// once the deployment was rolled B -> A -> B): three updates over two distinct versions, in every order
	{Name: "v-returns-subB", Tier: "quick", Mode: "c10v", Events: []string{evLease1, evUpdate, evUpdateA, evUpdateB2, evSubB}, Budgets: "0,0;1,0;0,1", ThoroughBudgets: "0,0;1,0;0,1|1,1/2|2,1/4"},
	{Name: "v-returns-subA", Tier: "quick", Mode: "c10v", Events: []string{evLease1, evUpdate, evUpdateA, evUpdateB2, evSubA}, Budgets: "0,0;1,0;0,1", ThoroughBudgets: "0,0;1,0;0,1|1,1/2|2,1/4"},
	{Name: "v-returns-subAB", Tier: "thorough", Mode: "c10v", Events: []string{evLease1, evUpdate, evUpdateA, evUpdateB2, evSubA, evSubB}, ThoroughBudgets: "0,0;1,0;0,1|1,1/2"},
	{Name: "v-nolease-subBC", Tier: "thorough", Mode: "c10v", Events: []string{evUpdate, evUpdate2, evSubB, evSubC, evLease1}, ThoroughBudgets: "0,0;1,0;0,1|1,1/2"},
	{Name: "v-fetcherr-subBC", Tier: "thorough", Mode: "c10v", Events: []string{evLease1, evUpdate, evUpdate2, evSubB, evSubC}, FetchErrs: 1, ThoroughBudgets: "0,0;1,0|0,1/2"},
}

func familyConfigs(family string) []*Config {
	if family == "c10v" {
		return c10vConfigs
	}
	return configs
}

// Provider-record spelling as a configuration dimension: every quick configuration that contains a
// lease-closed event is also run with the provider record's owner spelled in upper-case bech32 (same
// account; all event ids canonical), with a reduced budget ladder.
func init() {
	var extra []*Config
	for _, c := range configs {
		closes := false
		for _, e := range c.Events {
			if e == evClose1 || e == evClose2 {
				closes = true
			}
		}
		if !closes || len(c.Events) > 5 {
			continue
		}
		u := *c
		u.Name = c.Name + "-upper"
		u.UpperOwner = true
		u.Budgets, u.ThoroughBudgets = "0,0;1,0", "0,0;1,0;0,1"
		if len(c.Events) <= 3 {
			u.Budgets, u.ThoroughBudgets = bQ, bQ+"|2,2"
		}
		if c.Tier != "quick" {
			u.Budgets = ""
		}
		extra = append(extra, &u)
	}
	configs = append(configs, extra...)
}

func findConfig(name string) *Config {
	for _, c := range c10vConfigs {
		if c.Name == name {
			return c
		}
	}
	for _, c := range configs {
		if c.Name == name {
			return c
		}
	}
	return nil
}

func (c *Config) budgets(tier string) string {
	if tier == "thorough" && c.ThoroughBudgets != "" {
		return c.ThoroughBudgets
	}
	if c.Budgets != "" {
		return c.Budgets
	}
	return c.ThoroughBudgets
}

// Replay is the content of /verif/replays/C20-<n>.json.
type Replay struct {
	Property   string   `json:"property"`
	Config     string   `json:"config"`
	Choices    []int    `json:"choices"`
	Ns         []int    `json:"ns"`
	Status     string   `json:"status"`
	Signatures []string `json:"signatures"`
	Messages   []string `json:"messages"`
	Obs        string   `json:"obs"`
	Schedule   []string `json:"schedule"`
	How        string   `json:"how_to_replay"`
}

type workerOut struct {
	Config string         `json:"config"`
	Stats  *vs.Stats      `json:"stats"`
	Info   map[string]int `json:"info,omitempty"`
}

func parseBudgets(spec string) ([]vs.Budget, error) {
	var out []vs.Budget
	for _, part := range strings.Split(spec, ";") {
		var p, e int
		if _, err := fmt.Sscanf(part, "%d,%d", &p, &e); err != nil {
			return nil, fmt.Errorf("bad budget %q", part)
		}
		if p < 0 {
			p = vs.Unbounded
		}
		if e < 0 {
			e = vs.Unbounded
		}
		out = append(out, vs.Budget{P: p, E: e})
	}
	return out, nil
}

func exploreOpts(b []vs.Budget, deadline time.Time) vs.Options {
	max := 50000
	if v := os.Getenv("C20_MAXSTEPS"); v != "" {
		fmt.Sscan(v, &max)
	}
	return vs.Options{Budgets: b, Prune: true, Deadline: deadline, MaxSteps: max}
}

// signatures of the messages of one violating execution. The scheduler's own "deadlock: ..." message is
// dropped when the oracle explains it (submit-hangs:*).
func signatures(msgs []string) []string {
	var out []string
	explained := false
	for _, m := range msgs {
		if strings.HasPrefix(m, "[submit-hangs") {
			explained = true
		}
	}
	seen := map[string]bool{}
	for _, m := range msgs {
		s := ""
		switch {
		case strings.HasPrefix(m, "["):
			if i := strings.Index(m, "]"); i > 0 {
				s = m[1:i]
			}
		case strings.HasPrefix(m, "deadlock:"):
			if explained {
				continue
			}
			s = "deadlock"
		case strings.HasPrefix(m, "panic in goroutine"):
			s = "panic"
			if i := strings.Index(m, ": "); i > 0 {
				p := m[i+2:]
				if len(p) > 60 {
					p = p[:60]
				}
				s = "panic:" + p
			}
		default:
			s = "other"
		}
		if !seen[s] {
			seen[s] = true
			out = append(out, s)
		}
	}
	sort.Strings(out)
	return out
}

func main() {
	var (
		tier      = flag.String("tier", evlib.Tier(), "quick|thorough")
		workers   = flag.Int("workers", 0, "parallel worker processes (default: min(16, NumCPU))")
		config    = flag.String("config", "", "run one configuration only")
		worker    = flag.Bool("worker", false, "worker mode: print JSON stats on stdout")
		replay    = flag.String("replay", "", "replay file to re-execute")
		list      = flag.Bool("list", false, "list configurations")
		deadline  = flag.Duration("deadline", 0, "internal deadline for the exploration (0: tier default)")
		noEvid    = flag.Bool("no-evidence", false, "do not write evidence / replay files (mutant runs)")
		selftestN = flag.Int("selftest", 2, "determinism self-test: replays of one recorded schedule")
		family    = flag.String("family", "c20", "c20: the configurations and oracle of C20; c10v: the version-protocol part of C10 (writes build/c10-version.json, no evidence file)")
		failFast  = flag.Bool("fail-fast", false, "stop the remaining workers as soon as one configuration reports a violation")
		budgetStr = flag.String("budgets", "", "override the budgets of the configuration(s), e.g. \"0,0;1,0\" (-1 = unbounded)")
		maxViol   = flag.Int("max-violations", 1, "worker mode: violations to collect before stopping")
	)
	free := flag.Int("free", 0, "supplementary pass: run every configuration of the tier N times FREE-RUNNING (real goroutines, shim in pass-through mode); build with -race")
	cpuprof := flag.String("cpuprofile", "", "write a CPU profile (worker mode)")
	shard := flag.Int("shard", 0, "worker mode: index of this shard")
	nshards := flag.Int("shards", 1, "worker mode: the exploration is split into that many shards (subtrees below the first choice points, dealt round-robin)")
	flag.Parse()
	if *cpuprof != "" {
		if f, err := os.Create(*cpuprof); err == nil {
			pprof.StartCPUProfile(f)
			defer pprof.StopCPUProfile()
		}
	}
	if err := initFixtures(); err != nil {
		fmt.Fprintln(os.Stderr, "c20: fixtures:", err)
		os.Exit(2)
	}
	switch {
	case *list:
		for _, c := range familyConfigs(*family) {
			fmt.Printf("%-18s %-8s %v quick=%q thorough=%q\n", c.Name, c.Tier, c.Events, c.Budgets, c.ThoroughBudgets)
		}
	case *replay != "":
		os.Exit(doReplay(*replay))
	case *free > 0:
		os.Exit(doFree(*tier, *config, *free))
	case *worker:
		rc := doWorker(*config, *tier, *budgetStr, *deadline, *maxViol, *shard, *nshards)
		pprof.StopCPUProfile()
		os.Exit(rc)
	default:
		os.Exit(doParent(*family, *tier, *workers, *config, *budgetStr, *deadline, *noEvid, *selftestN, *failFast))
	}
}

func doWorker(name, tier, budgetStr string, d time.Duration, maxViol, shard, nshards int) int {
	cfg := findConfig(name)
	if cfg == nil {
		fmt.Fprintf(os.Stderr, "c20: unknown configuration %q\n", name)
		return 2
	}
	if budgetStr == "" {
		budgetStr = strings.ReplaceAll(cfg.budgets(tier), "|", ";")
	}
	b, err := parseBudgets(budgetStr)
	if err != nil {
		fmt.Fprintln(os.Stderr, "c20:", err)
		return 2
	}
	var dl time.Time
	if d > 0 {
		dl = time.Now().Add(d)
	}
	if nshards > 1 && len(b) != 1 {
		fmt.Fprintln(os.Stderr, "c20: a sharded exploration takes exactly one budget")
		return 2
	}
	opts := exploreOpts(b, dl)
	opts.MaxViolations = maxViol
	var st *vs.Stats
	if nshards > 1 {
		st = exploreShard(cfg, opts, shard, nshards)
	} else {
		st = vs.Explore(factory(cfg), opts)
	}
	json.NewEncoder(os.Stdout).Encode(workerOut{Config: name, Stats: st, Info: infoCounters})
	if len(st.Errors) > 0 {
		return 2
	}
	return 0
}

// frontierDepth: the choice tree is cut after that many choice points and the subtrees are dealt to the
// shards. Every shard computes the same frontier (deterministic, cheap); executions that end above the
// cut are evaluated, and counted, by shard 0 only. Shards do not share their visited sets: a state
// reachable in two subtrees is expanded in both (the subtrees differ in the environment's first choices,
// hence in its history, so little is lost).
const frontierDepth = 5
const frontierDepthFine = 8

func exploreShard(cfg *Config, opts vs.Options, shard, nshards int) *vs.Stats {
	start := time.Now()
	fo := opts
	fo.Prune = false
	fo.FrontierDepth = frontierDepth
	if nshards > 8 {
		fo.FrontierDepth = frontierDepthFine // more, and more even, subtrees when there are many shards
	}
	fo.Samples = -1
	if shard == 0 {
		fo.Samples = 1
	}
	tot := vs.Explore(factory(cfg), fo)
	roots := tot.Roots
	tot.Roots = nil
	tot.BudgetsCompleted = nil
	if shard != 0 {
		// the executions above the cut belong to shard 0
		*tot = vs.Stats{Exhaustive: tot.Exhaustive, Errors: tot.Errors, Violations: nil}
	}
	if len(tot.Errors) > 0 || len(tot.Violations) >= opts.MaxViolations {
		tot.Exhaustive = false
		return tot
	}
	completed := map[string]int{}
	mine := 0
	for i, r := range roots {
		if i%nshards != shard {
			continue
		}
		mine++
		o := opts
		o.Root = r
		o.Samples = -1
		if len(tot.Samples) == 0 {
			o.Samples = 1
		}
		st := vs.Explore(factory(cfg), o)
		tot.Executions += st.Executions
		tot.Pruned += st.Pruned
		tot.Skipped += st.Skipped
		tot.Transitions += st.Transitions
		tot.States += st.States
		tot.ChoicePoints += st.ChoicePoints
		tot.DistinctOutcomes += st.DistinctOutcomes
		tot.Deadlocks += st.Deadlocks
		tot.Panics += st.Panics
		if st.MaxChoiceDepth > tot.MaxChoiceDepth {
			tot.MaxChoiceDepth = st.MaxChoiceDepth
		}
		tot.Violations = append(tot.Violations, st.Violations...)
		tot.Samples = append(tot.Samples, st.Samples...)
		tot.Errors = append(tot.Errors, st.Errors...)
		for _, b := range st.BudgetsCompleted {
			completed[b]++
		}
		if !st.Exhaustive {
			tot.Exhaustive = false
		}
		if len(tot.Errors) > 0 || len(tot.Violations) >= opts.MaxViolations {
			tot.Exhaustive = false
			break
		}
	}
	for _, b := range opts.Budgets {
		if completed[b.String()] == mine && tot.Exhaustive {
			tot.BudgetsCompleted = append(tot.BudgetsCompleted, b.String())
		}
	}
	tot.WallS = time.Since(start).Seconds()
	return tot
}

func doReplay(path string) int {
	raw, err := os.ReadFile(path)
	if err != nil {
		fmt.Fprintln(os.Stderr, "c20:", err)
		return 2
	}
	var rp Replay
	if err := json.Unmarshal(raw, &rp); err != nil {
		fmt.Fprintln(os.Stderr, "c20:", err)
		return 2
	}
	cfg := findConfig(rp.Config)
	if cfg == nil {
		fmt.Fprintf(os.Stderr, "c20: unknown configuration %q\n", rp.Config)
		return 2
	}
	r := vs.RunOnce(factory(cfg), rp.Choices, exploreOpts(nil, time.Time{}))
	fmt.Printf("configuration %s %v, %d choices, %d transitions, status %s\n", cfg.Name, cfg.Events, len(rp.Choices), r.Steps, r.Status)
	for _, l := range r.Trace {
		fmt.Println("  ", l)
	}
	fmt.Println("observation:", r.Obs)
	switch r.Status {
	case vs.StatusDone, vs.StatusDeadlock, vs.StatusPanic:
	default:
		fmt.Printf("replay failed: %s %s\n", r.Status, r.Msg)
		return 2
	}
	if r.Status == vs.StatusPanic {
		fmt.Println(r.PanicStack)
	}
	if r.Status == vs.StatusDeadlock {
		for _, g := range r.Goroutines {
			if !g.Done {
				fmt.Printf("   blocked: %s[%s] %s at %s\n", g.ID, g.Label, g.Class, g.Pending)
			}
		}
	}
	if len(r.Violations) == 0 {
		fmt.Println("no violation on this schedule")
		return 0
	}
	for _, v := range r.Violations {
		fmt.Println("VIOLATED:", v)
	}
	return 1
}

// selfTest replays one recorded schedule n times and compares the observation logs and traces.
func selfTest(n int, cfgName string) error {
	cfg := findConfig(cfgName)
	rec := vs.Explore(factory(cfg), vs.Options{Budgets: []vs.Budget{{P: 1, E: 0}}, MaxSteps: 50000, Samples: 4, MaxViolations: 1 << 30, Deadline: time.Now().Add(8 * time.Second)})
	if len(rec.Errors) > 0 {
		return fmt.Errorf("self-test exploration failed: %v", rec.Errors)
	}
	if len(rec.Samples) == 0 {
		return fmt.Errorf("self-test recorded no schedule")
	}
	s := rec.Samples[len(rec.Samples)-1]
	for i := 0; i < n; i++ {
		r := vs.RunOnce(factory(cfg), s.Choices, exploreOpts(nil, time.Time{}))
		if r.Obs != s.Obs || r.Status.String() != s.Status {
			return fmt.Errorf("replay %d of schedule %v diverged:\n recorded %s %q\n replayed %s %q", i, s.Choices, s.Status, s.Obs, r.Status, r.Obs)
		}
		if strings.Join(r.Trace, "\n") != strings.Join(s.Trace, "\n") {
			return fmt.Errorf("replay %d of schedule %v produced a different schedule trace", i, s.Choices)
		}
	}
	return nil
}

func doParent(family, tier string, nworkers int, only, budgetStr string, d time.Duration, noEvid bool, selftestN int, failFast bool) int {
	ctx, cancel := context.WithCancel(context.Background())
	defer cancel()
	start := time.Now()
	if tier != "quick" && tier != "thorough" {
		fmt.Fprintf(os.Stderr, "c20: bad tier %q\n", tier)
		return 2
	}
	if nworkers <= 0 {
		nworkers = runtime.NumCPU()
		if nworkers > 16 {
			nworkers = 16
		}
	}
	if d == 0 {
		d = 110 * time.Second
		if tier == "thorough" {
			d = 40 * time.Minute
		}
		if family == "c10v" {
			d = 35 * time.Second
			if tier == "thorough" {
				d = 10 * time.Minute
			}
		}
	}
	findings, err := evlib.LoadFindings()
	if err != nil {
		fmt.Fprintln(os.Stderr, "c20: known_findings.json:", err)
		return 2
	}
	stCfg := "2sub-shutdown"
	if family == "c10v" {
		stCfg = "v-subB"
	}
	if err := selfTest(selftestN, stCfg); err != nil {
		fmt.Fprintln(os.Stderr, "c20: determinism self-test FAILED:", err)
		return 2
	}
	fmt.Printf("c20: determinism self-test ok (%d replays)\n", selftestN)

	// one worker process per (configuration, budget group): the groups of a configuration ("a;b|c") are
	// explored independently, in parallel (a higher budget subsumes the lower ones; the ladder inside a
	// group only serves to find shallow counterexamples first)
	var todo []*Config
	var groups []string
	var shardOf [][2]int
	ncfg := 0
	for _, c := range familyConfigs(family) {
		if only != "" && c.Name != only {
			continue
		}
		if c.Tier == "quick" || tier == "thorough" {
			ncfg++
			spec := c.budgets(tier)
			if budgetStr != "" {
				spec = budgetStr
			}
			for _, g := range strings.Split(spec, "|") {
				n := 1
				if k := strings.Index(g, "/"); k >= 0 {
					fmt.Sscan(g[k+1:], &n)
					g = g[:k]
				}
				for sh := 0; sh < n; sh++ {
					todo = append(todo, c)
					groups = append(groups, g)
					shardOf = append(shardOf, [2]int{sh, n})
				}
			}
		}
	}
	if len(todo) == 0 {
		fmt.Fprintln(os.Stderr, "c20: no configuration selected")
		return 2
	}
	// most expensive first: highest budget sum, then longest menu
	weight := func(i int) int {
		b, _ := parseBudgets(groups[i])
		w := 0
		for _, x := range b {
			if x.P+2*x.E > w {
				w = x.P + 2*x.E
			}
		}
		c := todo[i]
		w = w*4 + len(c.Events)*10
		if c.HostAsync {
			w += 8
		}
		if c.Watchdog {
			w += 12
		}
		return w
	}
	idx := make([]int, len(todo))
	for i := range idx {
		idx[i] = i
	}
	base := func(i int) bool { return strings.HasPrefix(groups[i], "0,0") && shardOf[i][1] == 1 }
	sort.SliceStable(idx, func(a, b int) bool {
		// configurations marked First (the big sharded ones) are started before everything else, so that
		// their long shards do not become the tail of the run
		if todo[idx[a]].First != todo[idx[b]].First {
			return todo[idx[a]].First
		}
		// the base ladders first (cheap, and the most valuable), then the rest, heaviest first
		if base(idx[a]) != base(idx[b]) {
			return base(idx[a])
		}
		return weight(idx[a]) > weight(idx[b])
	})
	{
		t2, g2, s2 := make([]*Config, len(todo)), make([]string, len(todo)), make([][2]int, len(todo))
		for k, i := range idx {
			t2[k], g2[k], s2[k] = todo[i], groups[i], shardOf[i]
		}
		todo, groups, shardOf = t2, g2, s2
		for i := range groups {
			if shardOf[i][1] > 1 {
				groups[i] = fmt.Sprintf("%s shard %d/%d", groups[i], shardOf[i][0], shardOf[i][1])
			}
		}
	}

	self, err := os.Executable()
	if err != nil {
		fmt.Fprintln(os.Stderr, "c20:", err)
		return 2
	}
	results := make([]*workerOut, len(todo))
	errs := make([]string, len(todo))
	var wg sync.WaitGroup
	sem := make(chan struct{}, nworkers)
	for i, c := range todo {
		i, c := i, c
		wg.Add(1)
		go func() {
			defer wg.Done()
			sem <- struct{}{}
			defer func() { <-sem }()
			remaining := d - time.Since(start)
			if remaining < 5*time.Second {
				remaining = 5 * time.Second
			}
			if ctx.Err() != nil {
				return
			}
			args := []string{"-worker", "-tier", tier, "-config", c.Name, "-deadline", remaining.String(), "-max-violations", "4"}
			args = append(args, "-budgets", strings.Fields(groups[i])[0], "-shard", fmt.Sprint(shardOf[i][0]), "-shards", fmt.Sprint(shardOf[i][1]))
			cmd := exec.CommandContext(ctx, self, args...)
			cmd.Env = append(os.Environ(), "GOMAXPROCS=1")
			var out, stderr bytes.Buffer
			cmd.Stdout, cmd.Stderr = &out, &stderr
			err := cmd.Run()
			var wo workerOut
			if ctx.Err() != nil && err != nil {
				return // stopped by -fail-fast
			}
			if jerr := json.Unmarshal(out.Bytes(), &wo); jerr != nil {
				errs[i] = fmt.Sprintf("worker %s: %v: %s", c.Name, err, lastLines(stderr.String(), 25))
				return
			}
			if err != nil && len(wo.Stats.Errors) == 0 {
				errs[i] = fmt.Sprintf("worker %s: %v: %s", c.Name, err, lastLines(stderr.String(), 25))
			}
			results[i] = &wo
			if failFast && len(wo.Stats.Violations) > 0 {
				cancel()
			}
		}()
	}
	wg.Wait()

	machinery := false
	for _, e := range errs {
		if e != "" {
			fmt.Fprintln(os.Stderr, "c20: MACHINERY FAILURE:", e)
			machinery = true
		}
	}
	var (
		tot        vs.Stats
		perConfig  = map[string]interface{}{}
		samples    []interface{}
		exhaust    = true
		nviol      = 0
		nknown     = 0
		replays    []string
		info       = map[string]int{}
		budgetsOK  = map[string][]string{}
		reported   = map[string]bool{}
		shardsDone = map[string]int{}
		sampled    = map[string]bool{}
		c10viol    = []map[string]interface{}{}
		ndup       = 0 // c10v: further violating executions with a (signature, configuration) already listed
	)
	fmt.Printf("%-18s %-22s %10s %10s %10s %12s %9s %8s %-5s %s\n", "configuration", "budgets", "executions", "pruned", "states", "transitions", "outcomes", "wall_s", "exh.", "budgets completed")
	for i, wo := range results {
		if wo == nil {
			exhaust = false
			continue
		}
		st := wo.Stats
		cfg := todo[i]
		for _, e := range st.Errors {
			fmt.Fprintf(os.Stderr, "c20: MACHINERY FAILURE in %s: %s\n", wo.Config, e)
			machinery = true
		}
		fmt.Printf("%-18s %-22s %10d %10d %10d %12d %9d %8.1f %-5v %s\n", wo.Config, groups[i], st.Executions, st.Pruned, st.States, st.Transitions, st.DistinctOutcomes, st.WallS, st.Exhaustive, strings.Join(st.BudgetsCompleted, " "))
		tot.Executions += st.Executions
		tot.Pruned += st.Pruned
		tot.Skipped += st.Skipped
		tot.States += st.States
		tot.Transitions += st.Transitions
		tot.DistinctOutcomes += st.DistinctOutcomes
		tot.Deadlocks += st.Deadlocks
		tot.Panics += st.Panics
		if st.MaxChoiceDepth > tot.MaxChoiceDepth {
			tot.MaxChoiceDepth = st.MaxChoiceDepth
		}
		if !st.Exhaustive {
			exhaust = false
		}
		for k, v := range wo.Info {
			info[k] += v
		}
		if _, ok := budgetsOK[wo.Config]; !ok {
			budgetsOK[wo.Config] = []string{}
		}
		for _, b := range st.BudgetsCompleted {
			key := wo.Config + " " + b
			shardsDone[key]++
			if shardsDone[key] == shardOf[i][1] {
				budgetsOK[wo.Config] = append(budgetsOK[wo.Config], b)
			}
		}
		perConfig[wo.Config+" "+groups[i]] = map[string]interface{}{
			"events": cfg.Events, "fetch_errors": cfg.FetchErrs, "hostname_async": cfg.HostAsync, "hostname_rejections": cfg.HostErrs, "watchdog": cfg.Watchdog, "preexisting_lease": cfg.PreLease, "provider_owner_upper_case": cfg.UpperOwner, "chain_version_of_invalid_manifest": cfg.ChainInvalid,
			"budgets_requested": groups[i], "budgets_completed": st.BudgetsCompleted,
			"executions": st.Executions, "pruned_revisits": st.Pruned, "skipped_by_lookahead": st.Skipped, "states": st.States, "transitions": st.Transitions,
			"distinct_outcomes": st.DistinctOutcomes, "deadlocks": st.Deadlocks, "exhaustive": st.Exhaustive, "wall_s": st.WallS,
		}
		if len(st.Samples) > 0 && !sampled[wo.Config] {
			// the longest recorded schedule of this worker; at most one per configuration, four in all
			best := st.Samples[0]
			for _, x := range st.Samples {
				if len(x.Choices) > len(best.Choices) {
					best = x
				}
			}
			if len(best.Choices) >= 12 && len(samples) < 4 {
				sampled[wo.Config] = true
				samples = append(samples, map[string]interface{}{"config": wo.Config, "events": cfg.Events, "choices": best.Choices, "status": best.Status, "observation": best.Obs, "schedule": best.Trace})
			}
		}
		for _, v := range st.Violations {
			// every violation is replayed 5x from its choice list before it is printed
			var first *vs.Result
			for k := 0; k < 5; k++ {
				r := vs.RunOnce(factory(cfg), v.Choices, exploreOpts(nil, time.Time{}))
				if r.Obs != v.Obs || strings.Join(r.Violations, "\n") != strings.Join(v.Messages, "\n") {
					fmt.Fprintf(os.Stderr, "c20: MACHINERY FAILURE: replay %d of a violation in %s diverged:\n recorded %q %v\n replayed %q %v\n", k, cfg.Name, v.Obs, v.Messages, r.Obs, r.Violations)
					machinery = true
					break
				}
				if first == nil {
					first = r
				}
			}
			if machinery {
				continue
			}
			sigs := signatures(v.Messages)
			if family == "c10v" {
				// part of C10: no evidence file, no VIOLATION line (checks/C10 prints it), known findings are C10's business
				if reported[strings.Join(sigs, "+")+"@"+cfg.Name] {
					ndup++
					continue
				}
				nviol++
				rp := Replay{Property: "C10", Config: cfg.Name, Choices: v.Choices, Ns: v.Ns, Status: v.Status, Signatures: sigs, Messages: v.Messages, Obs: v.Obs, Schedule: first.Trace,
					How: "/verif/checks/C20 replay <this file>"}
				path := ""
				if !noEvid {
					path = filepath.Join(evlib.Root(), "replays", fmt.Sprintf("C10-v%d.json", nviol))
					raw, _ := json.MarshalIndent(rp, "", " ")
					if err := os.MkdirAll(filepath.Dir(path), 0o755); err == nil {
						err = os.WriteFile(path, append(raw, '\n'), 0o644)
						if err != nil {
							fmt.Fprintln(os.Stderr, "c20:", err)
							machinery = true
						}
					}
				}
				msg := strings.Join(v.Messages, " | ")
				reported[strings.Join(sigs, "+")+"@"+cfg.Name] = true
				c10viol = append(c10viol, map[string]interface{}{"signature": strings.Join(sigs, "+"), "message": msg, "replay": path, "config": cfg.Name, "events": cfg.Events, "choices": v.Choices, "observation": v.Obs})
				fmt.Printf("version-protocol violation: signature=%s config=%s events=%v replay=%s\n", strings.Join(sigs, "+"), cfg.Name, cfg.Events, path)
				for _, m := range v.Messages {
					fmt.Printf("  %s\n", m)
				}
				fmt.Printf("  observation: %s\n", v.Obs)
				continue
			}
			allKnown := len(sigs) > 0
			for _, s := range sigs {
				if _, ok := findings.Known("C20", s); !ok {
					allKnown = false
				}
			}
			if allKnown {
				nknown++
				key := strings.Join(sigs, "+")
				if !reported[key] {
					reported[key] = true
					fmt.Printf("KNOWN-FINDING: property=C20 %s (configuration %s, choices %v)\n", key, cfg.Name, v.Choices)
				}
				continue
			}
			nviol++
			rp := Replay{Property: "C20", Config: cfg.Name, Choices: v.Choices, Ns: v.Ns, Status: v.Status, Signatures: sigs, Messages: v.Messages, Obs: v.Obs, Schedule: first.Trace,
				How: "/verif/checks/C20 replay <this file>"}
			path := fmt.Sprintf("(not written) config=%s choices=%v", cfg.Name, v.Choices)
			if !noEvid {
				p, err := evlib.WriteReplay("C20", nviol, rp)
				if err != nil {
					fmt.Fprintln(os.Stderr, "c20:", err)
					machinery = true
				}
				path = p
			}
			replays = append(replays, path)
			fmt.Printf("VIOLATION property=C20 replay=%s\n", path)
			fmt.Printf("  signature=%s config=%s events=%v\n", strings.Join(sigs, "+"), cfg.Name, cfg.Events)
			for _, m := range v.Messages {
				fmt.Printf("  %s\n", m)
			}
			fmt.Printf("  observation: %s\n", v.Obs)
		}
	}
	wall := time.Since(start).Seconds()
	fmt.Printf("c20: tier=%s configurations=%d executions=%d states=%d transitions=%d outcomes=%d deadlocks=%d exhaustive=%v violations=%d known=%d wall=%.1fs\n",
		tier, ncfg, tot.Executions, tot.States, tot.Transitions, tot.DistinctOutcomes, tot.Deadlocks, exhaust && !machinery, nviol, nknown, wall)
	if len(info) > 0 {
		fmt.Printf("c20: statistics (not verdicts): %v\n", info)
	}
	if machinery {
		return 2
	}
	if family == "c10v" {
		var names []string
		for _, c := range c10vConfigs {
			if _, ok := budgetsOK[c.Name]; ok {
				names = append(names, c.Name)
			}
		}
		out := map[string]interface{}{
			"part": "version-protocol", "tier": tier, "executions": tot.Executions, "states": tot.States, "transitions": tot.Transitions,
			"distinct_outcomes": tot.DistinctOutcomes, "exhaustive": exhaust, "configurations": names, "budgets": budgetsOK, "per_configuration": perConfig,
			"samples": samples, "violations": c10viol, "further_violating_executions_not_listed": ndup, "statistics_not_verdicts": info, "wall_s": wall,
			"rule": "real provider/manifest service + manager (instrumented, gosched): every order and prefix of {lease won, update->vB, update2->vC, Submit of the manifests hashing to the initial version / vB / vC}, the deployment query answered by the environment at every moment, every schedule within the budgets; " +
				"an acceptance (nil reply) is legitimate iff the manifest's hash is a version the manager goroutine knew as current (last update event it had consumed, or the query's answer when that is newer or no update was consumed) at some moment between taking the request (with the query answered) and replying; rejections are never demanded",
		}
		raw, _ := json.MarshalIndent(out, "", " ")
		tmp := filepath.Join(evlib.Root(), "build", ".c10-version.json.tmp")
		if err := os.WriteFile(tmp, append(raw, '\n'), 0o644); err != nil {
			fmt.Fprintln(os.Stderr, "c20:", err)
			return 2
		}
		if err := os.Rename(tmp, filepath.Join(evlib.Root(), "build", "c10-version.json")); err != nil {
			fmt.Fprintln(os.Stderr, "c20:", err)
			return 2
		}
		if nviol > 0 {
			return 1
		}
		return 0
	}
	if !noEvid {
		traces := tot.Executions
		var names []string
		for _, c := range configs {
			if _, ok := budgetsOK[c.Name]; ok {
				names = append(names, c.Name)
			}
		}
		ev := evlib.Evidence{
			PropertyID: "C20", Tier: tier, Seed: evlib.Seed(), Level: "model_checking", WallS: wall, Violations: nviol,
			Coverage: evlib.Coverage{
				Evaluations:        tot.Executions,
				DistinctNontrivial: tot.DistinctOutcomes,
				Rule: "the real provider/manifest service.run + per-deployment manager + watchdog, pubsub bus, util/runner and go-lifecycle, instrumented from the current tree, under the gosched cooperative scheduler; " +
					"for each configuration (a menu of spontaneous events) the environment goroutine fires the events in EVERY order and may stop after EVERY prefix, answers every scripted call (deployment query ok/error, hostname check ok/taken, close-bid broadcast) at every possible moment, " +
					"and the scheduler explores every interleaving within the (preemption, early-injection) budgets listed per configuration (iterative deviation bounding; (0,0) = every event handled to quiescence before the next); " +
					"stateless DFS with history-hash pruning. evaluations = complete executions on which the oracle was evaluated; states = expanded choice-point states; " +
					"distinct_nontrivial = distinct observation logs (environment order + every Submit's result + every reply-channel send + per-manager input/output sequence), summed over configurations",
				Samples:         samples,
				States:          tot.States,
				Transitions:     tot.Transitions,
				TracesValidated: &traces,
				Exhaustive:      exhaust,
				Extra: map[string]interface{}{
					"configurations":          names,
					"per_configuration":       perConfig,
					"budgets_completed":       budgetsOK,
					"pruned_revisits":         tot.Pruned,
					"skipped_by_lookahead":    tot.Skipped,
					"deadlocks":               tot.Deadlocks,
					"panics":                  tot.Panics,
					"max_choice_depth":        tot.MaxChoiceDepth,
					"known_findings_hit":      nknown,
					"replays":                 append([]string{}, replays...),
					"statistics_not_verdicts": info,
					"workers":                 nworkers,
				},
			},
			Assumptions: []string{
				"interleaving granularity: one transition = the code between two channel/select/sync operations of one goroutine; unsynchronised shared-memory races are outside this check",
				"bounded: one deployment with two groups / at most two leases, at most 3 concurrent Submit calls, every spontaneous event at most once per execution, menus of 3-8 events, at most 1-2 failed deployment queries and 1 hostname rejection per execution",
				"'held lease', 'data fetched' and 'validated' are judged against what the announcing manager goroutine itself had consumed (leases won / removed, query answer, version updates, requests) before the announcement, in its own program order; an event published on the bus but not yet consumed by the manager does not count",
				"'announces the latest validated manifest' is checked as: an announcement never carries a manifest older than one already announced or accepted by the same manager, and when a submission is accepted (nil reply) the manager's latest announcement carries that submission's manifest",
				"'held a lease for that deployment' is demanded as the statement says (at least one lease of the deployment held); announcements naming a lease that is no longer held while another one is are only counted (statistics_not_verdicts)",
				"D11 (checkHostnamesForManifest consuming the shutdown request) is adjacent: executions in which shutdown was requested but the service never completes are counted in statistics_not_verdicts, not reported",
			},
		}
		if err := evlib.Write(ev); err != nil {
			fmt.Fprintln(os.Stderr, "c20: writing evidence:", err)
			return 2
		}
	}
	if nviol > 0 {
		return 1
	}
	return 0
}

func lastLines(s string, n int) string {
	l := strings.Split(strings.TrimSpace(s), "\n")
	if len(l) > n {
		l = l[len(l)-n:]
	}
	return strings.Join(l, "\n")
}
