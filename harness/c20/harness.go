package main

import (
	"bytes"
	"context"
	"encoding/hex"
	"errors"
	"fmt"
	"os"
	"reflect"
	"sort"
	"strings"
	"time"

	sdk "github.com/cosmos/cosmos-sdk/types"
	"github.com/tendermint/tendermint/libs/log"
	"google.golang.org/grpc"

	"github.com/ovrclk/akash/client"
	"github.com/ovrclk/akash/client/broadcaster"
	"github.com/ovrclk/akash/manifest"
	"github.com/ovrclk/akash/provider/event"
	pmanifest "github.com/ovrclk/akash/provider/manifest"
	"github.com/ovrclk/akash/provider/session"
	"github.com/ovrclk/akash/pubsub"
	"github.com/ovrclk/akash/sdl"
	atypes "github.com/ovrclk/akash/types"
	"github.com/ovrclk/akash/util/runner"
	"github.com/ovrclk/akash/validation"
	dtypes "github.com/ovrclk/akash/x/deployment/types"
	mtypes "github.com/ovrclk/akash/x/market/types"
	ptypes "github.com/ovrclk/akash/x/provider/types"

	"verif.local/gosched/vs"
)

// ---------------------------------------------------------------------------------------------
// Configuration of one closed harness

// spontaneous environment events (each at most once per execution)
const (
	evLease1   = "lease1"   // event.LeaseWon for lease 1 (group g1) of the deployment
	evLease2   = "lease2"   // event.LeaseWon for lease 2 (group g2) of the same deployment
	evSubA     = "subA"     // a client calls Submit(valid manifest A; hash = on-chain version vA)
	evSubA2    = "subA2"    // a second client submits the same manifest A
	evSubB     = "subB"     // Submit(manifest B: valid for version vB, i.e. only after the update)
	evSubI     = "subI"     // Submit(manifest I: resources do not match the deployment groups)
	evSubW     = "subW"     // Submit(manifest W: well-formed, but its hash is no version of the deployment)
	evUpdate   = "update"   // dtypes.EventDeploymentUpdated{Version: vB}
	evUpdate2  = "update2"  // a second, distinct update: dtypes.EventDeploymentUpdated{Version: vC} (C10 version protocol)
	evUpdateA  = "updateA"  // a later update that returns to the INITIAL version: dtypes.EventDeploymentUpdated{Version: vA}
	evUpdateB2 = "updateB2" // another update to vB (a version the deployment had before: rolled forward, back and forward again)
	evSubC     = "subC"     // Submit(manifest C: valid for version vC, i.e. only after update2)
	evClose1   = "close1"   // mtypes.EventLeaseClosed for lease 1 (offered after lease1)
	evClose2   = "close2"   // mtypes.EventLeaseClosed for lease 2 (offered after lease2)
	evDClosed  = "dclosed"  // dtypes.EventDeploymentClosed
	evShutdown = "shutdown" // the context given to NewService is cancelled
	evQuit     = "quit"     // the environment stops injecting spontaneous events (pending calls are still answered)
)

var submitKind = map[string]string{evSubA: "A", evSubA2: "A", evSubB: "B", evSubC: "C", evSubI: "I", evSubW: "W"}

// Config is one closed harness.
type Config struct {
	Name            string
	Tier            string   // "quick": both tiers; "thorough": thorough only
	Events          []string // menu of spontaneous events
	FetchErrs       int      // deployment queries the environment may fail per execution
	HostAsync       bool     // hostname-service answers are released by the environment (else: answered at once, ok)
	HostErrs        int      // hostname checks the environment may reject (HostAsync only)
	Watchdog        bool     // ServiceConfig.ManifestTimeout > 0: watchdog per new lease, virtual timer, scripted close-bid broadcast
	ChainInvalid    bool     // the on-chain version is the hash of manifest I (so that I passes the version check and fails the structural one)
	Mode            string   // "" = the C20 oracle; "c10v" = the version-protocol oracle of C10 (checkVersion) only
	UpperOwner      bool     // the provider record spells its owner address in upper case (legal bech32; Address() is the same account); all event ids stay canonical
	First           bool     // scheduling only: start this configuration's worker processes before all others (big sharded explorations)
	PreLease        bool     // lease 1 exists before the service starts (fetchExistingLeases / managePreExistingLease)
	NoQuit          bool     // the environment always fires the whole menu (default: it may stop after any prefix)
	Budgets         string   // "p,e;p,e;..." iterative deviation bounding
	ThoroughBudgets string
}

// ---------------------------------------------------------------------------------------------
// Fixtures (immutable, built once per process)

type fixtures struct {
	provider      *ptypes.Provider
	providerUpper *ptypes.Provider // same account, owner spelled in upper-case bech32
	provAddr      string
	owner         string
	did           dtypes.DeploymentID
	groups        []dtypes.Group
	leases        [2]mtypes.LeaseID
	won           [2]event.LeaseWon
	mani          map[string]manifest.Manifest // by kind A B I W
	ver           map[string][]byte            // hash per kind
	kindOf        map[string]string            // hex hash -> kind
	byArray       map[*manifest.Group]string   // first element of a fixture manifest's backing array -> kind
}

var fx fixtures

func resUnits(endpoints []atypes.Endpoint) atypes.ResourceUnits {
	return atypes.ResourceUnits{
		CPU:       &atypes.CPU{Units: atypes.NewResourceValue(100)},
		Memory:    &atypes.Memory{Quantity: atypes.NewResourceValue(128 << 20)},
		Storage:   &atypes.Storage{Quantity: atypes.NewResourceValue(1 << 30)},
		Endpoints: endpoints,
	}
}

var groupNames = []string{"g1", "g2"}

func mkManifest(tag string, count uint32) manifest.Manifest {
	var m manifest.Manifest
	for gi, gname := range groupNames {
		svc := manifest.Service{
			Name:      "web",
			Image:     "registry.test/app:" + tag,
			Resources: resUnits(nil),
			Count:     count,
			Expose: []manifest.ServiceExpose{{
				Port: 80, Proto: manifest.TCP, Global: true,
				Hosts: []string{fmt.Sprintf("%s%d.test", tag, gi+1)},
			}},
		}
		m = append(m, manifest.Group{Name: gname, Services: []manifest.Service{svc}})
	}
	return m
}

func initFixtures() error {
	prov := sdk.AccAddress(bytes.Repeat([]byte{0x11}, 20))
	own := sdk.AccAddress(bytes.Repeat([]byte{0x22}, 20))
	fx.provAddr, fx.owner = prov.String(), own.String()
	fx.provider = &ptypes.Provider{Owner: fx.provAddr}
	fx.providerUpper = &ptypes.Provider{Owner: strings.ToUpper(fx.provAddr)}
	if a, err := sdk.AccAddressFromBech32(fx.providerUpper.Owner); err != nil || !a.Equals(prov) || fx.providerUpper.Owner == fx.provAddr {
		return fmt.Errorf("fixture: upper-case spelling %q of the provider address does not decode to the same account: %v", fx.providerUpper.Owner, err)
	}
	fx.did = dtypes.DeploymentID{Owner: fx.owner, DSeq: 7}
	for gi, gname := range groupNames {
		fx.groups = append(fx.groups, dtypes.Group{
			GroupID: dtypes.GroupID{Owner: fx.owner, DSeq: 7, GSeq: uint32(gi + 1)},
			State:   dtypes.GroupOpen,
			GroupSpec: dtypes.GroupSpec{
				Name: gname,
				Resources: []dtypes.Resource{{
					Resources: resUnits([]atypes.Endpoint{{Kind: atypes.Endpoint_SHARED_HTTP}}),
					Count:     1,
					Price:     sdk.NewInt64Coin("uakt", 10),
				}},
			},
		})
	}
	for i := 0; i < 2; i++ {
		fx.leases[i] = mtypes.LeaseID{Owner: fx.owner, DSeq: 7, GSeq: uint32(i + 1), OSeq: 1, Provider: fx.provAddr}
		g := fx.groups[i]
		fx.won[i] = event.LeaseWon{LeaseID: fx.leases[i], Group: &g, Price: sdk.NewInt64Coin("uakt", 10)}
	}
	fx.mani = map[string]manifest.Manifest{
		"A": mkManifest("a", 1),
		"B": mkManifest("b", 1),
		"I": mkManifest("i", 2), // two instances against a deployment group that pays for one
		"W": mkManifest("w", 1),
		"C": mkManifest("c", 1),
	}
	if err := pmanifest.VerifC20Shape(); err != nil {
		return fmt.Errorf("provider/manifest no longer has the shape the in-package view relies on: %v", err)
	}
	fx.ver = map[string][]byte{}
	fx.kindOf = map[string]string{}
	fx.byArray = map[*manifest.Group]string{}
	for k, m := range fx.mani {
		fx.byArray[&m[0]] = k
	}
	for k, m := range fx.mani {
		v, err := sdl.ManifestVersion(m)
		if err != nil {
			return err
		}
		fx.ver[k] = v
		fx.kindOf[hex.EncodeToString(v)] = k
	}
	if len(fx.kindOf) != 5 {
		return fmt.Errorf("fixture manifests do not have 5 distinct versions")
	}
	// the labels must mean what they say, judged by the repository's own validation functions
	for k, m := range fx.mani {
		m := m
		e1 := validation.ValidateManifest(m)
		e2 := validation.ValidateManifestWithDeployment(&m, fx.groups)
		wantOK := k != "I"
		if (e1 == nil && e2 == nil) != wantOK {
			return fmt.Errorf("fixture manifest %s: ValidateManifest=%v ValidateManifestWithDeployment=%v, expected valid=%v", k, e1, e2, wantOK)
		}
	}
	return nil
}

func hexv(b []byte) string { return hex.EncodeToString(b) }

// ---------------------------------------------------------------------------------------------
// Per-execution state

type ctxKey struct{}

type clientRec struct {
	name     string // the event that started it
	kind     string
	started  bool
	returned bool
	err      error
}

// reqRec: one request as accepted by service.run from Submit (tap on the service's request channel)
type reqRec struct {
	client   string
	kind     string
	hash     string
	manifest *manifest.Manifest
	reply    uintptr
	sends    []string // completed sends on the reply channel, in order (tap)
	recvs    int
}

// per-goroutine log entry kinds
const (
	eLease  = 'L' // received event.LeaseWon on a chan event.LeaseWon (manager.leasech)
	eRm     = 'R' // received a lease id on a chan mtypes.LeaseID (manager.rmleasech)
	eUpdate = 'U' // received a version on a chan []byte (manager.updatech)
	eData   = 'D' // received a runner.Result (the deployment query's answer)
	eReq    = 'Q' // received a request on a chan manifestRequest other than the service's (manager.manifestch)
	ePub    = 'P' // called bus.Publish(event.ManifestReceived)
	eReply  = 'A' // completed a send on a request's reply channel
	eHost   = 'H' // called hostnameService.CanReserveHostnames
)

type entry struct {
	k     byte
	lease mtypes.LeaseID
	ver   string
	ok    bool
	data  *dtypes.QueryDeploymentResponse
	req   *reqRec
	pub   event.ManifestReceived
	err   error
	hosts string
	pubh  string // ePub: hash of the manifest the event carried WHEN it was published (identified by content)
	// eLease / eRm / eUpdate / eReq: who handed the value over (service.run) and the position of that
	// hand-over in the sender's own log slog[from]; -1 unknown
	from string
	seq  int
}

type handover struct {
	g   string
	seq int // index in slog[g]
}

// sitem: one step of the service-side log (see tap)
type sitem struct {
	k     byte // 'H' a hand-over to a manager, 'C' a lease-closed event received from the bus
	lease mtypes.LeaseID
}

type result struct {
	resp *dtypes.QueryDeploymentResponse
	err  error
}

type call struct {
	kind    string // fetch | host | bcast
	id      string
	release chan result // cap 1: the environment's answer never blocks
	hostch  chan error  // host: the channel handed to the manager
}

type inst struct {
	cfg       *Config
	freeState // free-running pass only (free.go)

	bus    pubsub.Bus
	svc    pmanifest.Service
	cancel context.CancelFunc

	submitChan uintptr
	reqs       map[uintptr]*reqRec
	reqOrder   []*reqRec
	glog       map[string][]entry
	respVer    map[*dtypes.QueryDeploymentResponse]string
	handoff    map[uintptr][]handover // per lease / lease-removal channel: the hand-overs, in send order
	slog       map[string][]sitem     // per goroutine: its hand-overs to managers and the lease-closed events it took from the bus, in program order
	nrecvd     map[uintptr]int

	// environment goroutine
	fired     map[string]bool
	quit      bool
	envLog    []string
	chain     [][]byte // versions of the update events fired so far, in order (the chain's history after the initial version)
	fetchErrs int
	hostErrs  int

	// written by system goroutines inside scripted calls, read by the environment at its turn
	pending []*call
	ncalls  map[string]int

	clients map[string]*clientRec

	serviceErr error
}

var (
	tLeaseWon = reflect.TypeOf(event.LeaseWon{})
	tLeaseID  = reflect.TypeOf(mtypes.LeaseID{})
	tBytes    = reflect.TypeOf([]byte(nil))
	tResult   = reflect.TypeOf((*runner.Result)(nil)).Elem()
)

func newInst(cfg *Config) *inst {
	in := &inst{
		cfg:     cfg,
		reqs:    map[uintptr]*reqRec{},
		glog:    map[string][]entry{},
		respVer: map[*dtypes.QueryDeploymentResponse]string{},
		handoff: map[uintptr][]handover{},
		slog:    map[string][]sitem{},
		nrecvd:  map[uintptr]int{},
		fired:   map[string]bool{},
		ncalls:  map[string]int{},
		clients: map[string]*clientRec{},
	}
	for _, e := range cfg.Events {
		if k, ok := submitKind[e]; ok {
			in.clients[e] = &clientRec{name: e, kind: k}
		}
	}
	return in
}

func (in *inst) logG(g string, e entry) {
	in.lock()
	in.glog[g] = append(in.glog[g], e)
	in.unlock()
}

func errName(err error) string {
	switch {
	case err == nil:
		return "accepted"
	case errors.Is(err, pmanifest.ErrNotRunning):
		return "not-running"
	case errors.Is(err, pmanifest.ErrNoLeaseForDeployment):
		return "no-lease"
	case errors.Is(err, pmanifest.ErrManifestVersion):
		return "bad-version"
	case errors.Is(err, errFetch):
		return "fetch-failed"
	case errors.Is(err, errHostTaken):
		return "host-taken"
	case errors.Is(err, context.Canceled):
		return "ctx-cancelled"
	case strings.Contains(err.Error(), "invalid manifest"), errors.Is(err, validation.ErrInvalidManifest):
		return "invalid-manifest"
	}
	return "err(" + err.Error() + ")"
}

// tap runs inside the scheduler on every completed channel operation (see vs.SetTap): it only
// appends to the log of the goroutine that performed the operation.
func (in *inst) tap(ev vs.TapEvent) {
	if rq := in.reqs[ev.Chan]; rq != nil {
		// a reply channel made by Submit
		if ev.Send {
			err, _ := ev.Val.(error)
			rq.sends = append(rq.sends, errName(err))
			in.logG(ev.G, entry{k: eReply, req: rq, err: err})
		} else {
			rq.recvs++
		}
		return
	}
	if ev.Send {
		isReq := false
		if ev.Elem != tLeaseWon && ev.Elem != tLeaseID && ev.Elem != tBytes {
			_, isReq = pmanifest.VerifC20RequestOf(ev.Val)
		}
		if ev.Elem == tLeaseWon || ev.Elem == tLeaseID || ev.Elem == tBytes || isReq {
			// a hand-over to a manager (lease, lease removal, version, request): service.run's own sequence
			// of such hand-overs and of the lease-closed events it took from the bus is kept in slog
			in.handoff[ev.Chan] = append(in.handoff[ev.Chan], handover{ev.G, len(in.slog[ev.G])})
			in.slog[ev.G] = append(in.slog[ev.G], sitem{k: 'H'})
		}
		return
	}
	if c, ok := ev.Val.(mtypes.EventLeaseClosed); ok {
		// somebody (the bus loops, and service.run) received a lease-closed event from the bus
		in.slog[ev.G] = append(in.slog[ev.G], sitem{k: 'C', lease: c.ID})
		return
	}
	origin := func() (string, int) {
		k := in.nrecvd[ev.Chan]
		in.nrecvd[ev.Chan]++
		if h := in.handoff[ev.Chan]; k < len(h) {
			return h[k].g, h[k].seq // channels are FIFO: the k-th value received is the k-th value sent
		}
		return "", -1
	}
	switch ev.Elem {
	case tLeaseWon:
		if v, ok := ev.Val.(event.LeaseWon); ok {
			g, n := origin()
			in.logG(ev.G, entry{k: eLease, lease: v.LeaseID, from: g, seq: n})
		}
	case tLeaseID:
		if v, ok := ev.Val.(mtypes.LeaseID); ok {
			g, n := origin()
			in.logG(ev.G, entry{k: eRm, lease: v, from: g, seq: n})
		}
	case tBytes:
		if v, ok := ev.Val.([]byte); ok {
			g, n := origin()
			in.logG(ev.G, entry{k: eUpdate, ver: hexv(v), from: g, seq: n})
		}
	case tResult:
		if v, ok := ev.Val.(runner.Result); ok {
			e := entry{k: eData, ok: v.Error() == nil, err: v.Error()}
			if e.ok {
				e.data, _ = v.Value().(*dtypes.QueryDeploymentResponse)
			}
			in.logG(ev.G, e)
		}
	default:
		r, ok := pmanifest.VerifC20RequestOf(ev.Val)
		if !ok {
			return
		}
		if ev.Chan == in.submitChan {
			// service.run took the request from Submit
			name, _ := r.Ctx.Value(ctxKey{}).(string)
			rq := &reqRec{client: name, manifest: r.Manifest, reply: r.Reply}
			rq.hash = hashOf(r.Manifest)
			rq.kind = in.kindName(rq.hash)
			in.reqs[r.Reply] = rq
			in.reqOrder = append(in.reqOrder, rq)
			return
		}
		if rq := in.reqs[r.Reply]; rq != nil {
			g, n := origin()
			in.logG(ev.G, entry{k: eReq, req: rq, from: g, seq: n})
		}
	}
}

// ---------------------------------------------------------------------------------------------
// Scripted collaborators

var (
	errFetch     = errors.New("scripted: deployment query failed")
	errHostTaken = errors.New("scripted: hostname in use")
	errBroadcast = errors.New("scripted: broadcast failed")
)

// tapBus is the real bus; Publish of a ManifestReceived is recorded in the log of the calling goroutine.
type tapBus struct {
	pubsub.Bus
	in *inst
}

func (b *tapBus) Publish(ev pubsub.Event) error {
	if mr, ok := ev.(event.ManifestReceived); ok {
		b.in.logG(vs.ID(), entry{k: ePub, pub: mr, pubh: hashOf(mr.Manifest)})
	}
	return b.Bus.Publish(ev)
}

type scriptedSession struct{ in *inst }

func (s *scriptedSession) Log() log.Logger       { return log.NewNopLogger() }
func (s *scriptedSession) Client() client.Client { return &scriptedClient{s.in} }
func (s *scriptedSession) Provider() *ptypes.Provider {
	if s.in.cfg.UpperOwner {
		return fx.providerUpper
	}
	return fx.provider
}
func (s *scriptedSession) ForModule(string) session.Session { return s }

type scriptedClient struct{ in *inst }

func (c *scriptedClient) Query() client.QueryClient { return &scriptedQuery{in: c.in} }
func (c *scriptedClient) Tx() broadcaster.Client    { return &scriptedTx{c.in} }

// scriptedQuery: only the three calls the manifest service makes are implemented; anything else
// dereferences the nil embedded interface (a harness error, not a verdict).
type scriptedQuery struct {
	client.QueryClient
	in *inst
}

// ActiveLeasesForProvider / Group are called by NewService itself (synchronously, before any goroutine
// of the service exists): with Config.PreLease lease 1 already exists when the provider starts.
func (q *scriptedQuery) ActiveLeasesForProvider(sdk.AccAddress) ([]mtypes.QueryLeaseResponse, error) {
	if !q.in.cfg.PreLease {
		return nil, nil
	}
	return []mtypes.QueryLeaseResponse{{Lease: mtypes.Lease{LeaseID: fx.leases[0], State: mtypes.LeaseActive, Price: sdk.NewInt64Coin("uakt", 10)}}}, nil
}

func (q *scriptedQuery) Group(_ context.Context, req *dtypes.QueryGroupRequest, _ ...grpc.CallOption) (*dtypes.QueryGroupResponse, error) {
	for _, g := range fx.groups {
		if g.GroupID.Equals(req.ID) {
			return &dtypes.QueryGroupResponse{Group: g}, nil
		}
	}
	return nil, errors.New("scripted: no such group")
}

func (in *inst) newCall(kind string, hostch ...chan error) *call {
	in.lock()
	defer in.unlock()
	g := vs.ID()
	key := kind + "@" + g
	n := in.ncalls[key]
	in.ncalls[key] = n + 1
	c := &call{kind: kind, id: fmt.Sprintf("%s.%d", key, n), release: make(chan result, 1)}
	if len(hostch) > 0 {
		c.hostch = hostch[0]
	}
	in.pending = append(in.pending, c)
	return c
}

func (in *inst) dropCall(c *call) {
	in.lock()
	defer in.unlock()
	for i, p := range in.pending {
		if p == c {
			in.pending = append(in.pending[:i:i], in.pending[i+1:]...)
			return
		}
	}
}

// await blocks the calling system goroutine until the environment answers or ctx is cancelled.
func (in *inst) await(ctx context.Context, c *call) result {
	rel := vs.RecvCase(c.release)
	done := vs.RecvCase(ctx.Done())
	switch vs.Select(false, rel, done) {
	case 0:
		return rel.V()
	default:
		in.dropCall(c)
		return result{err: ctx.Err()}
	}
}

func (q *scriptedQuery) Deployment(ctx context.Context, req *dtypes.QueryDeploymentRequest, _ ...grpc.CallOption) (*dtypes.QueryDeploymentResponse, error) {
	if !req.ID.Equals(fx.did) {
		vs.Fatalf("Deployment query for %v", req.ID)
	}
	r := q.in.await(ctx, q.in.newCall("fetch"))
	return r.resp, r.err
}

type scriptedTx struct{ in *inst }

func (t *scriptedTx) Broadcast(ctx context.Context, msgs ...sdk.Msg) error {
	return t.in.await(ctx, t.in.newCall("bcast")).err
}

type scriptedHostnames struct{ in *inst }

func (h *scriptedHostnames) ReserveHostnames([]string, dtypes.DeploymentID) <-chan error {
	vs.Fatalf("ReserveHostnames called by the manifest service")
	return nil
}
func (h *scriptedHostnames) ReleaseHostnames([]string) {
	vs.Fatalf("ReleaseHostnames called by the manifest service")
}
func (h *scriptedHostnames) CanReserveHostnames(hosts []string, did dtypes.DeploymentID) <-chan error {
	in := h.in
	in.logG(vs.ID(), entry{k: eHost, hosts: strings.Join(hosts, ",")})
	ch := make(chan error, 1)
	if !in.cfg.HostAsync {
		vs.Chan(ch).Send(nil)
		return ch
	}
	in.newCall("host", ch) // (hostch is set before the call becomes visible to the environment)
	return ch
}

// ---------------------------------------------------------------------------------------------
// Body, clients, environment

func (in *inst) body() {
	vs.SetTap(in.tap)
	in.bus = pubsub.NewBus()
	ctx, cancel := context.WithCancel(context.Background())
	in.cancel = cancel
	cfg := pmanifest.ServiceConfig{}
	if in.cfg.Watchdog {
		cfg.ManifestTimeout = 5 * time.Minute
		if in.free {
			cfg.ManifestTimeout = 300 * time.Microsecond // free-running: a real timer, let it fire
		}
	}
	svc, err := pmanifest.NewService(ctx, &scriptedSession{in}, &tapBus{Bus: in.bus, in: in}, &scriptedHostnames{in}, cfg)
	if err != nil {
		in.serviceErr = err
		vs.Fatalf("NewService: %v", err)
		return
	}
	in.svc = svc
	in.submitChan = pmanifest.VerifC20SubmitChan(svc)
	if in.free {
		return // runFree drives the environment itself (free.go)
	}
	vs.GoEnv(in.environment)
}

func (in *inst) client(c *clientRec) {
	vs.Label("client-" + c.name)
	ctx := context.WithValue(context.Background(), ctxKey{}, c.name)
	c.err = in.svc.Submit(ctx, fx.did, fx.mani[c.kind])
	c.returned = true
}

type action struct {
	id   string
	fire func()
}

// chainVersion is the version recorded on chain now: the one of the most recently fired update event,
// else the initial one.
func (in *inst) chainVersion() []byte {
	if n := len(in.chain); n > 0 {
		return in.chain[n-1]
	}
	if in.cfg.ChainInvalid {
		return fx.ver["I"]
	}
	return fx.ver["A"]
}

func (in *inst) update(kind string) {
	v := append([]byte(nil), fx.ver[kind]...)
	in.chain = append(in.chain, v)
	in.publish(dtypes.NewEventDeploymentUpdated(fx.did, append([]byte(nil), v...)))
}

func (in *inst) publish(ev pubsub.Event) {
	if err := in.bus.Publish(ev); err != nil {
		vs.Fatalf("environment: bus.Publish: %v", err)
	}
}

func (in *inst) menu() []action {
	var m []action
	if !in.quit {
		spont := 0
		for _, e := range in.cfg.Events {
			e := e
			if in.fired[e] {
				continue
			}
			if (e == evClose1 && !in.fired[evLease1] && !in.cfg.PreLease) || (e == evClose2 && !in.fired[evLease2]) {
				spont++ // still to come, not yet offered
				continue
			}
			spont++
			var f func()
			switch e {
			case evLease1:
				f = func() { in.publish(fx.won[0]) }
			case evLease2:
				f = func() { in.publish(fx.won[1]) }
			case evSubA, evSubA2, evSubB, evSubC, evSubI, evSubW:
				f = func() {
					c := in.clients[e]
					c.started = true
					in.goClient(func() { in.client(c) })
				}
			case evUpdate:
				f = func() { in.update("B") }
			case evUpdate2:
				f = func() { in.update("C") }
			case evUpdateA:
				f = func() { in.update("A") }
			case evUpdateB2:
				f = func() { in.update("B") }
			case evClose1:
				f = func() { in.publish(mtypes.NewEventLeaseClosed(fx.leases[0], sdk.NewInt64Coin("uakt", 10))) }
			case evClose2:
				f = func() { in.publish(mtypes.NewEventLeaseClosed(fx.leases[1], sdk.NewInt64Coin("uakt", 10))) }
			case evDClosed:
				f = func() { in.publish(dtypes.NewEventDeploymentClosed(fx.did)) }
			case evShutdown:
				f = func() { in.cancel() }
			default:
				vs.Fatalf("unknown event %q in configuration %s", e, in.cfg.Name)
			}
			m = append(m, action{id: e, fire: func() { in.fired[e] = true; f() }})
		}
		if spont > 0 && !in.cfg.NoQuit {
			m = append(m, action{id: evQuit, fire: func() { in.quit = true }})
		}
	}
	in.lock()
	calls := append([]*call(nil), in.pending...)
	in.unlock()
	sort.Slice(calls, func(i, j int) bool { return calls[i].id < calls[j].id })
	for _, c := range calls {
		c := c
		switch c.kind {
		case "fetch":
			m = append(m, action{id: c.id + "=ok", fire: func() {
				in.dropCall(c)
				resp := &dtypes.QueryDeploymentResponse{
					Deployment: dtypes.Deployment{DeploymentID: fx.did, State: dtypes.DeploymentActive, Version: append([]byte(nil), in.chainVersion()...)},
					Groups:     append([]dtypes.Group(nil), fx.groups...),
				}
				in.respVer[resp] = hexv(resp.Deployment.Version)
				vs.Chan(c.release).Send(result{resp: resp})
			}})
			if in.fetchErrs < in.cfg.FetchErrs {
				m = append(m, action{id: c.id + "=err", fire: func() {
					in.dropCall(c)
					in.fetchErrs++
					vs.Chan(c.release).Send(result{err: errFetch})
				}})
			}
		case "host":
			m = append(m, action{id: c.id + "=ok", fire: func() { in.dropCall(c); vs.Chan(c.hostch).Send(nil) }})
			if in.hostErrs < in.cfg.HostErrs {
				m = append(m, action{id: c.id + "=taken", fire: func() { in.dropCall(c); in.hostErrs++; vs.Chan(c.hostch).Send(errHostTaken) }})
			}
		case "bcast":
			m = append(m, action{id: c.id + "=ok", fire: func() { in.dropCall(c); vs.Chan(c.release).Send(result{}) }})
		}
	}
	return m
}

func (in *inst) environment() {
	vs.Label("environment")
	for {
		vs.EnvQuiesce() // with E=0: only when the system is quiescent (a back-to-back event is an early injection)
		m := in.menu()
		ids := make([]string, len(m))
		for i := range m {
			ids[i] = m[i].id
		}
		vs.Note(strings.Join(ids, " "))
		if len(m) == 0 {
			// nothing to do now: park until the system makes another scripted call (if it never does,
			// the execution ends with the environment parked here)
			vs.Op("env-wait", nil, vs.FoldNone, func() bool { return len(in.pending) > 0 }, nil)
			continue
		}
		a := m[vs.Choose(len(m))]
		in.envLog = append(in.envLog, a.id)
		a.fire()
	}
}

// ---------------------------------------------------------------------------------------------
// Oracle - written from the statement of C20, over per-goroutine logs only:
//
//  replies   every Submit returns (no client blocked once the environment has nothing left to do);
//            no reply channel ever sees a second send (completed or still being attempted);
//            a manifest that can never be valid (I, W) is never accepted.
//  announce  for every bus.Publish(ManifestReceived) made by a goroutine G (a manager's run loop), judged
//            against what G itself had consumed before, in G's program order:
//            - at least one lease of the deployment is held (won, not yet removed);
//            - the deployment query's answer had been received, and the event carries it;
//            - the manifest came from a request G had received and not rejected, the manifest is
//              well-formed for the deployment, and its hash was the expected version at some moment
//              between (request received, data present) and the announcement;
//            - it is not older than a manifest G announced or accepted before ("latest validated");
//            and for every acceptance (nil reply) G sends: the latest announcement G made carries that
//            request's manifest and was made after the request was received.

func sig(s, format string, a ...interface{}) string {
	return "[" + s + "] " + fmt.Sprintf(format, a...)
}

type verAt struct {
	pos int
	ver string
}

func (in *inst) checkG(g string, lg []entry, bad func(string), info map[string]int) {
	held := map[mtypes.LeaseID]int{}
	nheld := 0
	var lr []*entry // lease notifications consumed so far
	var data *dtypes.QueryDeploymentResponse
	dataPos := -1
	fetched := ""
	var ups []verAt
	type rq struct {
		pos, idx int
		r        *reqRec
	}
	var reqs []rq
	rejected := map[*reqRec]int{}
	noLeaseOrOther := map[*reqRec]error{}
	lastPub, lastPubPos := (*entry)(nil), -1
	maxIdx := -1
	// vexp(t): version the manager must expect at log position t (data present)
	vexp := func(t int) string {
		v := fetched
		for _, u := range ups {
			if u.pos <= t {
				v = u.ver
			}
		}
		return v
	}
	for pos := range lg {
		e := &lg[pos]
		switch e.k {
		case eLease, eRm:
			lr = append(lr, e)
			held, nheld = in.heldLeases(lr, lg[:pos+1])
		case eUpdate:
			ups = append(ups, verAt{pos, e.ver})
		case eData:
			if e.ok && data == nil {
				data, dataPos = e.data, pos
				fetched = in.respVer[e.data]
			}
		case eReq:
			reqs = append(reqs, rq{pos: pos, idx: len(reqs), r: e.req})
		case eReply:
			if e.err != nil {
				if _, dup := rejected[e.req]; !dup {
					rejected[e.req] = pos
					noLeaseOrOther[e.req] = e.err
				}
				continue
			}
			// acceptance
			var mine *rq
			for i := range reqs {
				if reqs[i].r == e.req {
					mine = &reqs[i]
				}
			}
			if mine == nil {
				bad(sig("accept-unknown-request", "%s accepted a request (%s) it never received on its request channel", g, e.req.client))
				continue
			}
			if e.req.kind == "I" || e.req.kind == "W" {
				bad(sig("accepted-invalid:"+e.req.kind, "%s accepted manifest %s of %s, which is valid for no version of the deployment", g, e.req.kind, e.req.client))
			}
			switch {
			case lastPub == nil || lastPubPos < mine.pos:
				bad(sig("accepted-without-announce", "%s accepted the manifest of %s without having announced anything since it received the request", g, e.req.client))
			case in.pubHash(lastPub) != e.req.hash:
				bad(sig("accepted-but-announced-other", "%s accepted manifest %s of %s, but its latest announcement carries manifest %s", g, e.req.kind, e.req.client, in.kindName(in.pubHash(lastPub))))
			}
			if mine.idx > maxIdx {
				maxIdx = mine.idx
			}
		case ePub:
			// (re-evaluated here: a lease-closed event that service.run had taken from the bus before its
			// latest hand-over to G counts, even if service.run never passed it on)
			held, nheld = in.heldLeases(lr, lg[:pos])
			lid := e.pub.LeaseID
			if !lid.DeploymentID().Equals(fx.did) {
				bad(sig("announce-foreign-lease", "%s announced a manifest for lease %v of another deployment", g, lid))
			}
			if nheld == 0 {
				bad(sig("announce-without-lease", "%s announced a manifest for lease %d while it held no lease of the deployment (%s)", g, lid.GSeq, in.heldStr(lr, lg[:pos])))
			} else if held[lid] == 0 {
				info["announce-for-lease-not-held(other lease held)"]++
			}
			if data == nil {
				bad(sig("announce-before-data", "%s announced a manifest before the deployment query had answered", g))
			} else if e.pub.Deployment != data {
				bad(sig("announce-wrong-data", "%s announced a manifest with deployment data %p that is not the query's answer %p", g, e.pub.Deployment, data))
			}
			h := in.pubHash(e)
			kind := in.kindName(h)
			// candidate requests: same manifest content, received before, not rejected before
			best := -1
			versionOK := false
			viaNoLease := false
			for i := range reqs {
				q := &reqs[i]
				if q.r.hash != h {
					continue
				}
				if rp, rej := rejected[q.r]; rej && rp < pos {
					// A rejection for any reason other than "no lease" means the manifest did not pass
					// validation. ErrNoLeaseForDeployment is also sent to submissions that HAD passed
					// validation (the manager keeps such a manifest and announces it when a lease arrives;
					// the statement does not forbid that), so it does not disqualify the request.
					if !errors.Is(noLeaseOrOther[q.r], pmanifest.ErrNoLeaseForDeployment) {
						continue
					}
					viaNoLease = true
				} else {
					viaNoLease = false
				}
				best = q.idx
				lo := q.pos
				if dataPos > lo {
					lo = dataPos
				}
				if data != nil {
					for t := lo; t <= pos; t++ {
						if vexp(t) == h {
							versionOK = true
							break
						}
					}
				}
			}
			switch {
			case best < 0:
				bad(sig("announce-unvalidated:no-live-request", "%s announced manifest %s, which no pending or accepted request it had received carries", g, kind))
			case kind == "I":
				bad(sig("announce-unvalidated:I", "%s announced manifest I, which does not match the deployment groups", g))
			case data != nil && !versionOK:
				bad(sig("announce-unvalidated:version", "%s announced manifest %s (hash %.8s) although that was never the expected version (%s) between its submission and the announcement", g, kind, h, vexp(pos)[:8]))
			}
			if best >= 0 && viaNoLease {
				info["announced-a-manifest-whose-submission-had-been-answered-no-lease"]++
			}
			if best >= 0 {
				if best < maxIdx {
					bad(sig("announce-stale", "%s announced manifest %s (request #%d) after it had already announced or accepted request #%d", g, kind, best, maxIdx))
				} else {
					maxIdx = best
				}
			}
			lastPub, lastPubPos = e, pos
		}
	}
}

// ---------------------------------------------------------------------------------------------
// C10, version clause ("the provider accepts a manifest only if its hash equals the version recorded on
// chain [latest update]"), decided on the real manager. Reference = what the manager goroutine G itself
// had consumed, in its own program order:
//
//	chain history  v0 (initial), then the versions of the update events in the order the environment fired
//	               them; idx(v) = position in that history
//	f              the version the deployment query returned to G (the chain's version when it answered)
//	c(t)           the version of the last update event G had consumed before log position t
//	known(t)       = { c(t) }            when G has consumed an update and idx(c(t)) >= idx(f)
//	               = { f }               when G has consumed no update
//	               = { c(t), f }         when idx(f) > idx(c(t)): the query already returned a newer version
//	                                     than the last update event consumed - that update is still in flight
//	                                     to G, and both answers are tolerated
//
// A request received at position p, with the query's answer received at position d, can be validated at
// any position in [max(p,d), q], q = the position of the reply. An ACCEPTANCE (nil reply) of manifest M is
// legitimate iff hash(M) is in known(t) for some t in that window. Nothing is demanded of rejections
// (counted only), and nothing at all while the query has not answered (an acceptance then is reported).
func (in *inst) checkVersion(g string, lg []entry, bad func(string), info map[string]int) {
	hist := []string{hexv(fx.ver["A"])}
	if in.cfg.ChainInvalid {
		hist[0] = hexv(fx.ver["I"])
	}
	for _, v := range in.chain {
		hist = append(hist, hexv(v))
	}
	idx := func(v string) int {
		for i := len(hist) - 1; i >= 0; i-- {
			if hist[i] == v {
				return i
			}
		}
		return -1
	}
	dataPos, fetched := -1, ""
	var ups []verAt
	recvPos := map[*reqRec]int{}
	var reqSeq []*reqRec
	rejectedAt := map[*reqRec]int{}
	rejectedBy := map[*reqRec]error{}
	known := func(t int) []string {
		c := ""
		for _, u := range ups {
			if u.pos <= t {
				c = u.ver
			}
		}
		switch {
		case c == "":
			return []string{fetched}
		case idx(fetched) > idx(c):
			return []string{c, fetched}
		}
		return []string{c}
	}
	for pos := range lg {
		e := &lg[pos]
		switch e.k {
		case eUpdate:
			ups = append(ups, verAt{pos, e.ver})
		case eData:
			if e.ok && dataPos < 0 {
				dataPos, fetched = pos, in.respVer[e.data]
			}
		case eReq:
			recvPos[e.req] = pos
			reqSeq = append(reqSeq, e.req)
		case ePub:
			// what the provider hands on FOR DEPLOYMENT must be a manifest it could legitimately accept: some
			// request G had received carries it (same content), was not refused for a reason other than "no
			// lease", and its hash was a version G knew as current at some moment between taking that request
			// (with the query answered) and this announcement. (Not: current at the announcement itself - an
			// accepted manifest is rightly announced again, e.g. for a second lease, after a later update.)
			h := in.pubHash(e)
			legit := false
			for _, rq := range reqSeq {
				if rq.hash != h || dataPos < 0 {
					continue
				}
				if rp, rej := rejectedAt[rq]; rej && rp < pos && !errors.Is(rejectedBy[rq], pmanifest.ErrNoLeaseForDeployment) {
					continue
				}
				lo := recvPos[rq]
				if dataPos > lo {
					lo = dataPos
				}
				for t := lo; t <= pos && !legit; t++ {
					for _, v := range known(t) {
						if v == h {
							legit = true
						}
					}
				}
			}
			if !legit {
				what := in.kindName(h)
				if i := idx(h); i >= 0 {
					what = fmt.Sprintf("%s(v%d)", what, i)
				} else {
					what += "(no version of the deployment)"
				}
				bad(sig("version/announced-unaccepted-manifest", "%s announced (ManifestReceived, lease %d) manifest %s, which it never legitimately accepted: no request it had received carries that manifest with a hash it knew as the current version, unrefused (consumed so far: %s)",
					g, e.pub.LeaseID.GSeq, what, in.versionTrail(lg[:pos])))
			}
		case eReply:
			p, ok := recvPos[e.req]
			if !ok {
				continue // answered by service.run on behalf of a stopping manager
			}
			name := func(h string) string {
				k := in.kindName(h)
				if i := idx(h); i >= 0 {
					return fmt.Sprintf("%s(v%d)", k, i)
				}
				return k + "(no version of the deployment)"
			}
			if e.err != nil {
				if _, dup := rejectedAt[e.req]; !dup {
					rejectedAt[e.req], rejectedBy[e.req] = pos, e.err
				}
				if errors.Is(e.err, pmanifest.ErrManifestVersion) && dataPos >= 0 {
					lo := p
					if dataPos > lo {
						lo = dataPos
					}
					always := true
					for t := lo; t <= pos; t++ {
						k := known(t)
						if !(len(k) == 1 && k[0] == e.req.hash) {
							always = false
						}
					}
					if always {
						info["refused-the-version-it-knew-as-current(not demanded)"]++
					}
				}
				continue
			}
			if dataPos < 0 || dataPos > pos {
				bad(sig("version/accepted-before-chain-data", "%s accepted manifest %s of %s before the deployment query had answered", g, e.req.kind, e.req.client))
				continue
			}
			lo := p
			if dataPos > lo {
				lo = dataPos
			}
			ok = false
			maxKnown := -1
			var last []string
			for t := lo; t <= pos; t++ {
				last = known(t)
				for _, v := range last {
					if v == e.req.hash {
						ok = true
					}
					if i := idx(v); i > maxKnown {
						maxKnown = i
					}
				}
			}
			if ok {
				continue
			}
			var ks []string
			for _, v := range last {
				ks = append(ks, name(v))
			}
			if i := idx(e.req.hash); i < 0 || i > maxKnown {
				bad(sig("version/accepted-unknown-version", "%s accepted manifest %s of %s, whose hash is %s; between taking the request and accepting it the provider knew the on-chain version as %s (consumed so far: %s)",
					g, e.req.kind, e.req.client, name(e.req.hash), strings.Join(ks, " or "), in.versionTrail(lg[:pos])))
			} else {
				bad(sig("version/accepted-superseded-version", "%s accepted manifest %s of %s, whose hash is the superseded version %s; between taking the request and accepting it the provider knew the on-chain version as %s (consumed so far: %s)",
					g, e.req.kind, e.req.client, name(e.req.hash), strings.Join(ks, " or "), in.versionTrail(lg[:pos])))
			}
		}
	}
}

// versionTrail renders what a manager had consumed, for messages.
func (in *inst) versionTrail(lg []entry) string {
	var b []string
	for _, e := range lg {
		switch e.k {
		case eUpdate:
			b = append(b, "update->"+in.kindName(e.ver))
		case eData:
			if e.ok {
				b = append(b, "query-answer="+in.kindName(in.respVer[e.data]))
			} else {
				b = append(b, "query-failed")
			}
		case eReq:
			b = append(b, "request("+e.req.client+":"+e.req.kind+")")
		case eReply:
			b = append(b, "reply("+e.req.client+")="+errName(e.err))
		}
	}
	return strings.Join(b, ", ")
}

// leaseSteps is the reference for "leases held" when a manager goroutine G is at the end of lg:
//   - the lease notifications G has consumed (lr), in the order in which service.run handed them over (the
//     order of the events on the bus) - not in the order in which G took them from its channels: with
//     unbuffered channels the two coincide, but a removal that overtakes the "lease won" it belongs to must
//     not resurrect the lease;
//   - plus every lease-closed event (our provider - compared as ACCOUNTS, not as strings -, this deployment)
//     that service.run had taken from the bus BEFORE its latest hand-over that G has consumed: the provider
//     knew of that closure before G got its latest input, whether or not service.run passed it on.
//
// Events that are merely published, or taken by service.run after its latest hand-over to G, are in flight
// and do not count.
type leaseStep struct {
	seq   int
	plus  bool
	lease mtypes.LeaseID
	bus   bool
}

func (in *inst) leaseSteps(lr []*entry, lg []entry) ([]leaseStep, bool) {
	from, last := "", -1
	sortable := true
	for i := range lg {
		e := &lg[i]
		switch e.k {
		case eLease, eRm, eUpdate, eReq:
			if e.seq < 0 || (from != "" && e.from != from) {
				sortable = false
			}
			from = e.from
			if e.seq > last {
				last = e.seq
			}
		}
	}
	var steps []leaseStep
	for _, x := range lr {
		steps = append(steps, leaseStep{seq: x.seq, plus: x.k == eLease, lease: x.lease})
	}
	if !sortable || from == "" {
		return steps, false // consumption order; nothing known about the service side
	}
	sl := in.slog[from]
	for i := 0; i <= last && i < len(sl); i++ {
		if sl[i].k != 'C' || !sl[i].lease.DeploymentID().Equals(fx.did) {
			continue
		}
		if a, err := sdk.AccAddressFromBech32(sl[i].lease.Provider); err != nil || !a.Equals(fx.provider.Address()) {
			continue
		}
		steps = append(steps, leaseStep{seq: i, lease: sl[i].lease, bus: true})
	}
	sort.SliceStable(steps, func(i, j int) bool { return steps[i].seq < steps[j].seq })
	return steps, true
}

func (in *inst) heldLeases(lr []*entry, lg []entry) (map[mtypes.LeaseID]int, int) {
	steps, _ := in.leaseSteps(lr, lg)
	held := map[mtypes.LeaseID]int{}
	n := 0
	for _, x := range steps {
		if x.plus {
			held[x.lease]++
			n++
		} else if k := held[x.lease]; k > 0 {
			n -= k
			held[x.lease] = 0
		}
	}
	return held, n
}

func (in *inst) heldStr(lr []*entry, lg []entry) string {
	var b, h []string
	for _, x := range lr {
		if x.k == eLease {
			b = append(b, fmt.Sprintf("+%d", x.lease.GSeq))
		} else {
			b = append(b, fmt.Sprintf("-%d", x.lease.GSeq))
		}
	}
	steps, ok := in.leaseSteps(lr, lg)
	for _, x := range steps {
		switch {
		case x.plus:
			h = append(h, fmt.Sprintf("+%d", x.lease.GSeq))
		case x.bus:
			h = append(h, fmt.Sprintf("closed%d", x.lease.GSeq))
		default:
			h = append(h, fmt.Sprintf("-%d", x.lease.GSeq))
		}
	}
	if !ok {
		return "leases won (+) and removed (-) as taken by the manager: " + strings.Join(b, " ")
	}
	return "in the order of service.run: " + strings.Join(h, " ") + " (+n lease n handed to the manager, -n its removal handed to the manager, closedn lease-closed event taken from the bus by service.run before its latest hand-over to the manager); taken by the manager as " + strings.Join(b, " ")
}

// hashOf identifies a manifest by CONTENT (never by the address of the manifest.Manifest value, which may be
// a loop variable or a copy): Submit passes the fixture's slice on, so the backing array tells which fixture it
// is; anything else is hashed.
func hashOf(m *manifest.Manifest) string {
	if m == nil {
		return "nil"
	}
	if len(*m) > 0 {
		if k, ok := fx.byArray[&(*m)[0]]; ok && len(*m) == len(fx.mani[k]) {
			return hexv(fx.ver[k])
		}
	}
	v, err := sdl.ManifestVersion(*m)
	if err != nil {
		return "unhashable"
	}
	return hexv(v)
}

func (in *inst) pubHash(e *entry) string {
	if e.pubh != "" {
		return e.pubh
	}
	return hashOf(e.pub.Manifest)
}

func (in *inst) kindName(h string) string {
	if k, ok := fx.kindOf[h]; ok {
		return k
	}
	return "?" + h
}

// counters kept over all executions of a worker process (statistics only, never part of a verdict)
var infoCounters = map[string]int{}

var debugFlagInfo = os.Getenv("C20_FLAG_INFO")

func (in *inst) check(r *vs.Result) (string, []string) {
	var viol []string
	seen := map[string]bool{}
	bad := func(m string) {
		if !seen[m] {
			seen[m] = true
			viol = append(viol, m)
		}
	}
	info := map[string]int{}
	names := make([]string, 0, len(in.clients))
	for n := range in.clients {
		names = append(names, n)
	}
	sort.Strings(names)
	gids := make([]string, 0, len(in.glog))
	for g := range in.glog {
		gids = append(gids, g)
	}
	sort.Strings(gids)
	if in.cfg.Mode == "c10v" {
		for _, g := range gids {
			in.checkVersion(g, in.glog[g], bad, info)
		}
	} else {
		in.checkC20(r, names, gids, bad, info)
	}
	svcDone := vs.Closed(in.svc.Done())
	if in.cfg.Mode == "" && in.fired[evShutdown] && r.Status == vs.StatusDone && !svcDone {
		// statistics (never a verdict): does the service finish once shutdown was requested? (D11)
		info["shutdown-requested-but-service-never-done"]++
	}
	for k, v := range info {
		infoCounters[k] += v
		// investigation aid: C20_FLAG_INFO=<substring> turns a statistic into a (non-verdict) violation so that a schedule is recorded
		if debugFlagInfo != "" && strings.Contains(k, debugFlagInfo) {
			bad(sig("info:"+k, "statistic flagged on request (C20_FLAG_INFO)"))
		}
	}
	return in.obs(r, names, gids, svcDone), viol
}

// checkC20 is the oracle of C20 (see the comment above checkG).
func (in *inst) checkC20(r *vs.Result, names, gids []string, bad func(string), info map[string]int) {
	// --- replies
	pend := vs.PendingChanOps()
	for _, rq := range in.reqOrder {
		attempts := append([]string(nil), rq.sends...)
		for _, p := range pend {
			if p.Send && p.Chan == rq.reply {
				err, _ := p.Val.(error)
				attempts = append(attempts, errName(err)+"(blocked:"+p.G+")")
			}
		}
		if len(attempts) > 1 {
			bad(sig("reply-twice", "the submission of %s (manifest %s) was answered %d times: %s", rq.client, rq.kind, len(attempts), strings.Join(attempts, ", ")))
		}
	}
	for _, n := range names {
		c := in.clients[n]
		if !c.started {
			continue
		}
		var rq *reqRec
		for _, q := range in.reqOrder {
			if q.client == n {
				rq = q
			}
		}
		if !c.returned && r.Status != vs.StatusPanic {
			switch {
			case rq == nil:
				bad(sig("submit-hangs:not-taken", "Submit of %s (manifest %s) is blocked handing its request to the service, and the environment has nothing left to do", n, c.kind))
			case len(rq.sends) == 0:
				bad(sig("submit-hangs:no-reply", "Submit of %s (manifest %s) is still waiting and nobody ever answered its request, while the environment has nothing left to do", n, c.kind))
			default:
				bad(sig("submit-hangs:reply-unread", "Submit of %s (manifest %s) is still blocked although %v was sent on its reply channel", n, c.kind, rq.sends))
			}
		}
		if c.returned && c.err != nil && rq != nil && len(rq.sends) == 1 && rq.sends[0] == "accepted" {
			// Submit's last select saw both the reply and the service's Done(): the client is told
			// "not running" although its manifest was accepted and announced (statistic only)
			info["submit-returned-"+errName(c.err)+"-although-accepted-was-sent"]++
		}
		if c.returned && c.err == nil && (c.kind == "I" || c.kind == "W") {
			bad(sig("accepted-invalid:"+c.kind, "Submit of %s returned nil for manifest %s, which is valid for no version of the deployment", n, c.kind))
		}
	}

	// --- announcements, per goroutine
	for _, g := range gids {
		in.checkG(g, in.glog[g], bad, info)
	}
}

// obs is the canonical observation log of an execution.
func (in *inst) obs(r *vs.Result, names, gids []string, svcDone bool) string {
	var b strings.Builder
	fmt.Fprintf(&b, "%s|env[%s] svcdone=%v", r.Status, strings.Join(in.envLog, " "), svcDone)
	for _, n := range names {
		c := in.clients[n]
		switch {
		case !c.started:
		case !c.returned:
			fmt.Fprintf(&b, " %s=BLOCKED", n)
		default:
			fmt.Fprintf(&b, " %s=%s", n, errName(c.err))
		}
	}
	for _, rq := range in.reqOrder {
		fmt.Fprintf(&b, " reply(%s)=%v", rq.client, rq.sends)
	}
	for _, g := range gids {
		var s []string
		for _, e := range in.glog[g] {
			switch e.k {
			case eLease:
				s = append(s, fmt.Sprintf("L%d", e.lease.GSeq))
			case eRm:
				s = append(s, fmt.Sprintf("R%d", e.lease.GSeq))
			case eUpdate:
				s = append(s, "U"+in.kindName(e.ver))
			case eData:
				if e.ok {
					s = append(s, "D"+in.kindName(in.respVer[e.data]))
				} else {
					s = append(s, "Derr")
				}
			case eReq:
				s = append(s, "Q"+e.req.kind+"("+e.req.client+")")
			case eReply:
				s = append(s, "A("+e.req.client+")="+errName(e.err))
			case ePub:
				s = append(s, fmt.Sprintf("P%d:%s", e.pub.LeaseID.GSeq, in.kindName(in.pubHash(&e))))
			case eHost:
				s = append(s, "H["+e.hosts+"]")
			}
		}
		// goroutines that only relay events (bus loops, service.run) are left out of the log
		relay := true
		for _, e := range in.glog[g] {
			if e.k != eLease && e.k != eRm && e.k != eUpdate {
				relay = false
			}
		}
		if !relay {
			fmt.Fprintf(&b, " G%s{%s}", g, strings.Join(s, " "))
		}
	}
	return b.String()
}

func factory(cfg *Config) vs.Factory {
	return func() vs.Exec {
		in := newInst(cfg)
		return vs.Exec{Body: in.body, Check: in.check}
	}
}

func goManagedClient(f func()) { vs.Go(f) }
