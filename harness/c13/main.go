// Command c13 decides property C13 (bid engine: at most one bounded bid per order, no leaked
// reservations or bids) with the gosched engine: the real order monitor (provider/bidengine/order.go),
// the real pubsub bus, util/runner and go-lifecycle, mechanically instrumented, run under the
// controlled scheduler against scripted query / tx / cluster / pricing / attribute-signature
// collaborators that block until an environment goroutine releases them. Every order in which the
// environment's events (call completions with every result variant, chain events, bid timeout,
// shutdown) can reach the monitor is enumerated, with iterative deviation bounding over preemptions
// and early injections, and the oracle of harness.go is evaluated on every execution.
//
//	c13 -tier quick|thorough [-workers N] [-deadline D]     parent: runs all configurations, writes evidence
//	c13 -config NAME -worker [-deadline D] [-budgets B]      worker: explores one configuration, prints JSON
//	c13 -replay FILE                                         re-executes a recorded violation
//	c13 -list
//
// exit 0: no violation (other than listed known findings); 1: VIOLATION printed; 2: machinery failure.
package main

import (
	"bytes"
	"context"
	"encoding/json"
	"flag"
	"fmt"
	"os"
	"os/exec"
	"runtime"
	"sort"
	"strings"
	"sync"
	"time"

	"verif.local/gosched/vs"
	"verif.local/verif/evlib"
)

const propID = "C13"

const (
	ladderBase = "0,0;1,0;0,1"
	ladder11   = "0,0;1,0;0,1;1,1"
	ladderSvc  = ladderBase
	ladder12   = "0,0;1,0;0,1;1,1;2,1;1,2"
	ladder22   = "0,0;1,0;0,1;1,1;2,1;1,2;2,2"
)

func buildConfigs() []*Config {
	var out []*Config
	seen := map[string]bool{}
	// shape: "new" | "catchup-notfound" | "catchup-found" | "catchup-queryfails"
	add := func(tier, ladder, shape string, sig, timeout bool, maxFaults int, evs ...string) {
		c := &Config{Tier: tier, Ladder: ladder, SigReq: sig, BidTimeout: timeout, Events: evs, MaxFaults: maxFaults}
		switch shape {
		case "catchup-notfound":
			c.ExistingBid, c.BidQ = true, "notfound"
		case "catchup-found", "catchup-found-active", "catchup-found-lost", "catchup-found-closed":
			c.ExistingBid, c.BidQ = true, "found-open"
			if shape != "catchup-found" {
				c.BidQ = strings.TrimPrefix(shape, "catchup-")
			}
		case "svc-none": // the real service; the order is only announced on the bus
			c.Service = true
		case "svc-catchup-notfound": // the real service; the order is open on chain at start-up, no own bid
			c.Service, c.InitOrder, c.BidQ = true, true, "notfound"
		case "svc-catchup-found": // the real service; the order is open on chain at start-up with the provider's own open bid
			c.Service, c.InitOrder, c.BidQ = true, true, "found-open"
		case "catchup-queryfails-bidonchain": // the query fails with a generic error while the provider's open bid exists on chain
			c.ExistingBid, c.Faults, c.ChainBid = true, []string{kBidQuery}, true
		case "catchup-queryfails":
			c.ExistingBid, c.Faults = true, []string{kBidQuery}
		}
		name := shape
		if !sig {
			name += "-nosig"
		}
		if timeout {
			name += "-timeout"
		}
		c.Name = name + "-" + strings.Join(evs, "+") + fmt.Sprintf("-f%d", maxFaults)
		if seen[tier+c.Name] {
			return
		}
		seen[tier+c.Name] = true
		out = append(out, c)
	}
	shapes := []string{"new", "catchup-notfound", "catchup-found", "catchup-queryfails"}
	// the two catch-up shapes in which group fetch and existing-bid query both proceed are by far the largest trees
	small := func(sh string) bool { return sh == "new" || sh == "catchup-queryfails" }

	// quick: one terminating event delivered at every point of the pipeline x at most one failure
	for _, sh := range shapes {
		l := ladderBase
		if small(sh) {
			l = ladder11
		}
		add("quick", l, sh, true, false, 1, evClosed)
		add("quick", l, sh, true, false, 1, evWon)
		add("quick", l, sh, true, false, 1, evLost)
		add("quick", l, sh, true, false, 1, evShutdown)
		// Config.BidTimeout is 0 (disabled) everywhere above and > 0 here: bid timeout (virtual timer) racing with a
		// shutdown, and - for the shapes that place a bid - with the order being closed
		add("quick", l, sh, true, true, 1, evShutdown)
		if sh == "new" {
			add("quick", l, sh, true, true, 1, evClosed)
		}
		if sh != "catchup-queryfails" {
			add("quick", l, sh, false, false, 1, evClosed) // no signature requirement: the eligibility check makes no call
		}
	}
	// a lease for ANOTHER group (won by this provider) must be ignored; the second event makes these large: no failures
	// (one event per id component in which the foreign lease differs from this order)
	for _, ev := range []string{evOtherGroup, evOtherOwner, evOtherDSeq} {
		add("quick", ladderBase, "new", true, false, 0, ev, evShutdown)
	}
	// Tier "probe" (run only by name, C13_CONFIG=...): a lease of this provider for ANOTHER ORDER (oseq) of the
	// same group. order.go compares the group only, so it takes that lease as this order's win (signature
	// foreign-lease-taken-as-win:oseq, reservation and bid left behind). Not part of the tiers because the chain
	// cannot emit it while this order is live: x/market/keeper CreateOrder refuses a new order for a group that
	// still has an open or matched one ("active order exists"), and the order's own closed / lease event comes
	// first on the in-order bus. See /verif/build/fix-C13-lease-of-another-order-taken-as-win.diff.
	add("probe", ladderBase, "new", true, false, 0, evOtherOSeq, evShutdown)
	// the provider's own earlier bid found in a state other than open: never a second bid
	for _, sh := range []string{"catchup-found-active", "catchup-found-lost", "catchup-found-closed"} {
		add("quick", ladderBase, sh, true, false, 1, evShutdown)
	}

	// the existing-bid query fails with an error other than "bid not found" while the provider DOES hold an open bid
	// on the order (chain model): the handler must not bid (order.go gives the order up; no close-bid can be demanded
	// for a bid it could not learn about)
	for _, ev := range []string{evClosed, evWon, evLost, evShutdown} {
		add("quick", ladder11, "catchup-queryfails-bidonchain", true, false, 1, ev)
		add("thorough", ladder22, "catchup-queryfails-bidonchain", true, false, 2, ev)
	}
	add("quick", ladder11, "catchup-queryfails-bidonchain", true, true, 1, evShutdown)

	// service level (real NewService / service.run / catch-up / de-duplication / drain; group without signature
	// requirement, so the real attribute-signature service is running but never asked): the order is open on chain
	// when the provider starts (without / with its own open bid) or is announced later; a (duplicate) announcement
	// of the same order must not start a second handler; shutdown waits for every handler's clean-up.
	add("quick", ladderSvc, "svc-catchup-notfound", false, false, 1, evOrderCreated, evShutdown)
	add("quick", ladderSvc, "svc-catchup-found", false, false, 1, evOrderCreated, evShutdown)
	add("quick", ladderSvc, "svc-none", false, false, 1, evOrderCreated, evOrderCreatedDup, evShutdown)
	for _, sh := range []string{"svc-catchup-notfound", "svc-catchup-found", "svc-none"} {
		evs := []string{evOrderCreated}
		if sh == "svc-none" {
			evs = append(evs, evOrderCreatedDup)
		}
		add("thorough", ladder11, sh, false, false, 2, append(append([]string{}, evs...), evShutdown)...)
		add("thorough", ladderBase, sh, false, false, 1, append(append([]string{}, evs...), evLost, evShutdown)...)
		add("thorough", ladderBase, sh, false, false, 1, append(append([]string{}, evs...), evClosed, evShutdown)...)
	}

	// thorough: two failures (subsumes the quick configurations with one), deeper budgets ...
	for _, sh := range shapes {
		l := ladder12
		if small(sh) {
			l = ladder22
		}
		add("thorough", l, sh, true, false, 2, evClosed)
		add("thorough", l, sh, true, false, 2, evWon)
		add("thorough", l, sh, true, false, 2, evLost)
		add("thorough", l, sh, true, false, 2, evShutdown)
		add("thorough", l, sh, true, true, 2, evShutdown)
		if sh == "new" || sh == "catchup-notfound" {
			add("thorough", l, sh, false, false, 2, evClosed)
		}
		add("thorough", ladderBase, sh, true, false, 0, evOtherGroup, evShutdown)
		if sh == "new" || sh == "catchup-notfound" {
			for _, ev := range []string{evOtherOwner, evOtherDSeq} {
				add("thorough", ladderBase, sh, true, false, 0, ev, evShutdown)
			}
		}
	}
	for _, sh := range []string{"catchup-found-active", "catchup-found-lost", "catchup-found-closed"} {
		for _, ev := range []string{evClosed, evWon, evShutdown} {
			add("thorough", ladder11, sh, true, false, 2, ev)
		}
	}
	// ... and two competing terminating events (one failure), for the small shapes
	for _, sh := range []string{"new", "catchup-queryfails"} {
		add("thorough", ladderBase, sh, true, false, 1, evClosed, evWon)
		add("thorough", ladderBase, sh, true, false, 1, evWon, evShutdown)
		add("thorough", ladderBase, sh, true, false, 1, evOtherGroup, evLost)
	}
	add("thorough", ladderBase, "new", true, false, 1, evWon, evLost)
	add("thorough", ladderBase, "new", true, false, 1, evClosed, evShutdown)
	add("thorough", ladderBase, "new", true, false, 1, evOtherGroup, evWon)
	add("thorough", ladderBase, "new", true, true, 1, evWon, evShutdown)
	return out
}

var configs = buildConfigs()

func findConfig(name string) *Config {
	for _, c := range configs {
		if c.Name == name {
			return c
		}
	}
	return nil
}

// Replay is the content of /verif/replays/C13-<n>.json.
type Replay struct {
	Property  string   `json:"property"`
	Signature string   `json:"signature"`
	Config    string   `json:"config"`
	Choices   []int    `json:"choices"`
	Ns        []int    `json:"ns"`
	Status    string   `json:"status"`
	Messages  []string `json:"messages"`
	Obs       string   `json:"obs"`
	Schedule  []string `json:"schedule"`
	How       string   `json:"how_to_replay"`
}

type workerOut struct {
	Config string    `json:"config"`
	Stats  *vs.Stats `json:"stats"`
}

func parseBudgets(spec string) ([]vs.Budget, error) {
	var out []vs.Budget
	for _, part := range strings.Split(spec, ";") {
		var p, e int
		if _, err := fmt.Sscanf(part, "%d,%d", &p, &e); err != nil {
			return nil, fmt.Errorf("bad budget %q", part)
		}
		if p < 0 {
			p = vs.Unbounded
		}
		if e < 0 {
			e = vs.Unbounded
		}
		out = append(out, vs.Budget{P: p, E: e})
	}
	return out, nil
}

// exploreOpts: service-level configurations (25+ goroutines with the real service, its attribute-signature service
// and their bus subscriptions) use delay bounding: P counts every deviation from the canonical run-to-block
// schedule, not only preemptions (gosched Options.DelayBounded); order-level configurations keep preemption bounding.
func exploreOpts(cfg *Config, b []vs.Budget, deadline time.Time) vs.Options {
	return vs.Options{Budgets: b, Prune: true, Deadline: deadline, MaxSteps: 20000, MaxViolations: 64, DelayBounded: cfg != nil && cfg.Service}
}

func main() {
	var (
		tier      = flag.String("tier", evlib.Tier(), "quick|thorough")
		workers   = flag.Int("workers", 0, "parallel worker processes (default: min(16, NumCPU))")
		config    = flag.String("config", "", "run one configuration only")
		worker    = flag.Bool("worker", false, "worker mode: print JSON stats on stdout")
		replay    = flag.String("replay", "", "replay file to re-execute")
		list      = flag.Bool("list", false, "list configurations")
		deadline  = flag.Duration("deadline", 0, "internal deadline for the exploration (0: tier default)")
		noEvid    = flag.Bool("no-evidence", false, "do not write evidence / replay files (mutant runs)")
		selftestN = flag.Int("selftest", 2, "determinism self-test: replays of one recorded schedule")
		budgets   = flag.String("budgets", "", "iterative deviation bounding, e.g. \"0,0;1,0;0,1;1,1\" (-1 = unbounded); default: by tier")
		choices   = flag.String("choices", "", "with -config: run one execution from this comma-separated choice list and print it")
		free      = flag.Int("free", 0, "supplementary pass: run every configuration of the tier N times FREE-RUNNING (real goroutines, shim in pass-through mode); build with -race")
	)
	flag.Parse()
	wb := *budgets
	if wb == "" {
		wb = ladder11
		if c := findConfig(*config); c != nil {
			wb = c.Ladder
		}
	}
	bs, err := parseBudgets(wb)
	if err != nil {
		fmt.Fprintln(os.Stderr, "c13:", err)
		os.Exit(2)
	}
	switch {
	case *list:
		for _, c := range configs {
			fmt.Printf("%-52s %-9s %s\n", c.Name, c.Tier, c.Ladder)
		}
	case *replay != "":
		os.Exit(doReplay(*replay))
	case *free > 0:
		os.Exit(doFree(*tier, *config, *free))
	case *choices != "" || (*config != "" && flag.NArg() > 0 && flag.Arg(0) == "run"):
		os.Exit(doRun(*config, *choices))
	case *worker:
		os.Exit(doWorker(*config, *deadline, bs))
	default:
		os.Exit(doParent(*tier, *workers, *config, *deadline, *noEvid, *selftestN, *budgets))
	}
}

func doWorker(name string, d time.Duration, bs []vs.Budget) int {
	cfg := findConfig(name)
	if cfg == nil {
		fmt.Fprintf(os.Stderr, "c13: unknown configuration %q\n", name)
		return 2
	}
	var dl time.Time
	if d > 0 {
		dl = time.Now().Add(d)
	}
	// one violation per distinct signature is reported by a worker; the exploration goes on
	st := vs.Explore(factory(cfg, map[string]bool{}), exploreOpts(cfg, bs, dl))
	json.NewEncoder(os.Stdout).Encode(workerOut{Config: name, Stats: st})
	if len(st.Errors) > 0 {
		return 2
	}
	return 0
}

func printResult(cfg *Config, r *vs.Result) int {
	fmt.Printf("configuration %s, %d choices, %d transitions, status %s\n", cfg.Name, len(r.Choices), r.Steps, r.Status)
	for _, l := range r.Trace {
		fmt.Println("  ", l)
	}
	fmt.Println("observation:", r.Obs)
	switch r.Status {
	case vs.StatusDone, vs.StatusDeadlock, vs.StatusPanic:
	default:
		fmt.Printf("replay failed: %s %s\n", r.Status, r.Msg)
		return 2
	}
	if r.Status == vs.StatusPanic {
		fmt.Println(r.PanicStack)
	}
	if len(r.Violations) == 0 {
		fmt.Println("no violation on this schedule")
		return 0
	}
	for _, v := range r.Violations {
		fmt.Println("VIOLATED:", v)
	}
	return 1
}

func doRun(name, choices string) int {
	cfg := findConfig(name)
	if cfg == nil {
		fmt.Fprintf(os.Stderr, "c13: unknown configuration %q\n", name)
		return 2
	}
	var cs []int
	for _, f := range strings.FieldsFunc(choices, func(r rune) bool { return r == ',' || r == ' ' }) {
		var n int
		fmt.Sscan(f, &n)
		cs = append(cs, n)
	}
	return printResult(cfg, vs.RunOnce(factory(cfg, nil), cs, exploreOpts(cfg, nil, time.Time{})))
}

func doReplay(path string) int {
	raw, err := os.ReadFile(path)
	if err != nil {
		fmt.Fprintln(os.Stderr, "c13:", err)
		return 2
	}
	var rp Replay
	if err := json.Unmarshal(raw, &rp); err != nil {
		fmt.Fprintln(os.Stderr, "c13:", err)
		return 2
	}
	cfg := findConfig(rp.Config)
	if cfg == nil {
		fmt.Fprintf(os.Stderr, "c13: unknown configuration %q\n", rp.Config)
		return 2
	}
	r := vs.RunOnce(factory(cfg, nil), rp.Choices, exploreOpts(cfg, nil, time.Time{}))
	if r.Status == vs.StatusDiverged {
		fmt.Printf("replay diverged: %s\n", r.Msg)
		return 2
	}
	return printResult(cfg, r)
}

// selfTest: (a) the fault-free default schedule of the plain configuration must walk the whole
// pipeline (a bid is broadcast at the group's maximum price after a reservation) - otherwise the
// harness does not exercise what it claims; (b) one recorded schedule replayed n times gives identical
// observation logs and traces.
func selfTest(n int) error {
	cfg := findConfig("new-order-closed-f1")
	if cfg == nil {
		return fmt.Errorf("self-test configuration missing")
	}
	opts := exploreOpts(cfg, nil, time.Time{})
	// budget (0,0) must contain the linear run: every call released with its first ok variant, the
	// terminating event last -> one bid at the maximum price after a reservation
	linear := false
	inner := factory(cfg, map[string]bool{})
	probe := func() vs.Exec {
		ex := inner()
		chk := ex.Check
		ex.Check = func(r *vs.Result) (string, []string) {
			obs, v := chk(r)
			// (only the walk is demanded, not a clean verdict: a defective clean-up must surface as a VIOLATION of
			// the exploration, not as a failed self-test)
			if strings.HasPrefix(obs, "done|env[group:ok attr:match reserve:ok price:ok createbid:ok event:order-closed") && strings.Contains(obs, "reserve=ok price=ok createbid=ok@46uakt") {
				linear = true
			}
			return obs, v
		}
		return ex
	}
	first := vs.Explore(probe, vs.Options{Budgets: []vs.Budget{{P: 0, E: 0}}, Prune: true, MaxSteps: 20000, Samples: -1, MaxViolations: 1 << 30, Deadline: time.Now().Add(20 * time.Second)})
	if len(first.Errors) > 0 {
		return fmt.Errorf("self-test exploration failed: %v", first.Errors)
	}
	if !linear {
		return fmt.Errorf("budget (0,0) of %s does not contain the linear run through the whole pipeline (%d executions)", cfg.Name, first.Executions)
	}
	rec := vs.Explore(factory(cfg, map[string]bool{}), vs.Options{Budgets: []vs.Budget{{P: 1, E: 1}}, MaxSteps: 20000, Samples: 4, MaxViolations: 1 << 30, Deadline: time.Now().Add(15 * time.Second)})
	if len(rec.Errors) > 0 {
		return fmt.Errorf("self-test exploration failed: %v", rec.Errors)
	}
	if len(rec.Samples) == 0 {
		return fmt.Errorf("self-test recorded no schedule")
	}
	s := rec.Samples[len(rec.Samples)-1]
	for i := 0; i < n; i++ {
		r := vs.RunOnce(factory(cfg, nil), s.Choices, opts)
		if r.Obs != s.Obs || r.Status.String() != s.Status {
			return fmt.Errorf("replay %d of schedule %v diverged:\n recorded %s %q\n replayed %s %q", i, s.Choices, s.Status, s.Obs, r.Status, r.Obs)
		}
		if strings.Join(r.Trace, "\n") != strings.Join(s.Trace, "\n") {
			return fmt.Errorf("replay %d of schedule %v produced a different schedule trace", i, s.Choices)
		}
	}
	return nil
}

type found struct {
	sig string
	cfg *Config
	v   vs.Violation
	msg string
	n   int // configurations in which the signature was seen
}

func doParent(tier string, nworkers int, only string, d time.Duration, noEvid bool, selftestN int, budgets string) int {
	ctx, cancel := context.WithCancel(context.Background())
	defer cancel()
	start := time.Now()
	if tier != "quick" && tier != "thorough" {
		fmt.Fprintf(os.Stderr, "c13: bad tier %q\n", tier)
		return 2
	}
	if nworkers <= 0 {
		nworkers = runtime.NumCPU()
		if nworkers > 16 {
			nworkers = 16
		}
	}
	if d == 0 {
		d = 150 * time.Second
		if tier == "thorough" {
			d = 25 * time.Minute
		}
	}
	findings, err := evlib.LoadFindings()
	if err != nil {
		fmt.Fprintln(os.Stderr, "c13: known_findings.json:", err)
		return 2
	}
	if err := selfTest(selftestN); err != nil {
		fmt.Fprintln(os.Stderr, "c13: self-test FAILED:", err)
		return 2
	}
	fmt.Printf("c13: self-test ok (default schedule walks the pipeline; %d deterministic replays)\n", selftestN)

	var todo []*Config
	for _, c := range configs {
		if only != "" {
			if c.Name == only && len(todo) == 0 { // by name: whatever its tier
				todo = append(todo, c)
			}
			continue
		}
		if c.Tier == tier {
			todo = append(todo, c)
		}
	}
	if len(todo) == 0 {
		fmt.Fprintln(os.Stderr, "c13: no configuration selected")
		return 2
	}
	// the big ones first (two failures, two events, catch-up)
	weight := func(c *Config) int {
		w := len(c.Events)*4 + c.MaxFaults*2
		if c.ExistingBid && len(c.Faults) == 0 {
			w += 3
		}
		if c.BidTimeout {
			w++
		}
		w += len(c.Ladder) / 4
		return w
	}
	sort.SliceStable(todo, func(i, j int) bool { return weight(todo[i]) > weight(todo[j]) })

	self, err := os.Executable()
	if err != nil {
		fmt.Fprintln(os.Stderr, "c13:", err)
		return 2
	}
	results := make([]*workerOut, len(todo))
	requested := make([]string, len(todo))
	errs := make([]string, len(todo))
	var wg sync.WaitGroup
	sem := make(chan struct{}, nworkers)
	for i, c := range todo {
		i, c := i, c
		wg.Add(1)
		go func() {
			defer wg.Done()
			sem <- struct{}{}
			defer func() { <-sem }()
			remaining := d - time.Since(start)
			if remaining < 5*time.Second {
				remaining = 5 * time.Second
			}
			wb := budgets
			if wb == "" {
				wb = c.Ladder
			}
			requested[i] = wb
			cmd := exec.CommandContext(ctx, self, "-worker", "-config", c.Name, "-deadline", remaining.String(), "-budgets", wb)
			cmd.Env = append(os.Environ(), "GOMAXPROCS=1")
			var out, stderr bytes.Buffer
			cmd.Stdout, cmd.Stderr = &out, &stderr
			err := cmd.Run()
			var wo workerOut
			if jerr := json.Unmarshal(out.Bytes(), &wo); jerr != nil || wo.Stats == nil {
				errs[i] = fmt.Sprintf("worker %s: %v: %s", c.Name, err, lastLines(stderr.String(), 15))
				return
			}
			if err != nil && len(wo.Stats.Errors) == 0 {
				errs[i] = fmt.Sprintf("worker %s: %v: %s", c.Name, err, lastLines(stderr.String(), 15))
			}
			results[i] = &wo
		}()
	}
	wg.Wait()

	machinery := false
	for _, e := range errs {
		if e != "" {
			fmt.Fprintln(os.Stderr, "c13: MACHINERY FAILURE:", e)
			machinery = true
		}
	}
	var (
		tot       vs.Stats
		perConfig = map[string]interface{}{}
		samples   []interface{}
		exhaust   = true
		bySig     = map[string]*found{}
		budgetsOK = map[string]int{}
	)
	fmt.Printf("%-44s %10s %9s %9s %11s %8s %7s %s\n", "configuration", "executions", "pruned", "states", "transitions", "outcomes", "wall_s", "budgets completed")
	for i, wo := range results {
		if wo == nil {
			exhaust = false
			continue
		}
		st := wo.Stats
		for _, e := range st.Errors {
			fmt.Fprintf(os.Stderr, "c13: MACHINERY FAILURE in %s: %s\n", wo.Config, e)
			machinery = true
		}
		fmt.Printf("%-44s %10d %9d %9d %11d %8d %7.1f %s\n", wo.Config, st.Executions, st.Pruned, st.States, st.Transitions, st.DistinctOutcomes, st.WallS, strings.Join(st.BudgetsCompleted, ""))
		tot.Executions += st.Executions
		tot.Pruned += st.Pruned
		tot.Skipped += st.Skipped
		tot.States += st.States
		tot.Transitions += st.Transitions
		tot.DistinctOutcomes += st.DistinctOutcomes
		tot.Deadlocks += st.Deadlocks
		tot.Panics += st.Panics
		if st.MaxChoiceDepth > tot.MaxChoiceDepth {
			tot.MaxChoiceDepth = st.MaxChoiceDepth
		}
		for _, b := range st.BudgetsCompleted {
			budgetsOK[b]++
		}
		// a worker that stopped at a violation limit or at the deadline is not exhaustive
		if !st.Exhaustive {
			exhaust = false
		}
		perConfig[wo.Config] = map[string]interface{}{
			"executions": st.Executions, "pruned_revisits": st.Pruned, "states": st.States, "transitions": st.Transitions,
			"distinct_outcomes": st.DistinctOutcomes, "exhaustive": st.Exhaustive, "budgets_completed": st.BudgetsCompleted, "wall_s": st.WallS, "deadlocks": st.Deadlocks,
		}
		if len(samples) < 4 && len(st.Samples) > 0 {
			s := st.Samples[len(st.Samples)-1]
			samples = append(samples, map[string]interface{}{"config": wo.Config, "choices": s.Choices, "status": s.Status, "observation": s.Obs, "schedule": s.Trace})
		}
		for _, v := range st.Violations {
			for _, m := range v.Messages {
				sig := sigOf(m)
				if sig == "" {
					continue
				}
				f := bySig[sig]
				if f == nil {
					bySig[sig] = &found{sig: sig, cfg: todo[i], v: v, msg: m, n: 1}
					continue
				}
				f.n++
				if len(v.Choices) < len(f.v.Choices) { // keep the shortest schedule
					f.cfg, f.v, f.msg = todo[i], v, m
				}
			}
		}
	}

	var sigs []string
	for s := range bySig {
		sigs = append(sigs, s)
	}
	// unknown signatures first, so that they get the low replay numbers
	isKnown := func(s string) bool { _, ok := findings.Known(propID, s); return ok }
	sort.Slice(sigs, func(i, j int) bool {
		if isKnown(sigs[i]) != isKnown(sigs[j]) {
			return !isKnown(sigs[i])
		}
		return sigs[i] < sigs[j]
	})
	nviol, nknown := 0, 0
	var replays []string
	var knownSeen []string
	for n, sig := range sigs {
		f := bySig[sig]
		// every violation is replayed 5x from its choice list before it is printed
		var first *vs.Result
		ok := true
		for k := 0; k < 5 && ok; k++ {
			r := vs.RunOnce(factory(f.cfg, nil), f.v.Choices, exploreOpts(f.cfg, nil, time.Time{}))
			has := false
			for _, m := range r.Violations {
				if m == f.msg {
					has = true
				}
			}
			if r.Obs != f.v.Obs || !has {
				fmt.Fprintf(os.Stderr, "c13: MACHINERY FAILURE: replay %d of a violation in %s diverged:\n recorded %q %v\n replayed %q %v\n", k, f.cfg.Name, f.v.Obs, f.v.Messages, r.Obs, r.Violations)
				machinery, ok = true, false
			}
			if first == nil {
				first = r
			}
		}
		if !ok {
			continue
		}
		rp := Replay{Property: propID, Signature: sig, Config: f.cfg.Name, Choices: f.v.Choices, Ns: f.v.Ns, Status: f.v.Status, Messages: first.Violations, Obs: f.v.Obs, Schedule: first.Trace,
			How: "/verif/checks/C13 replay <this file>"}
		path := fmt.Sprintf("(not written) config=%s choices=%v", f.cfg.Name, f.v.Choices)
		if !noEvid {
			p, err := evlib.WriteReplay(propID, n+1, rp)
			if err != nil {
				fmt.Fprintln(os.Stderr, "c13:", err)
				machinery = true
			}
			path = p
		}
		replays = append(replays, path)
		fmt.Printf("  [%s] seen in %d configuration(s); shortest schedule (%d choices) in %s: %s\n", sig, f.n, len(f.v.Choices), f.cfg.Name, strings.TrimPrefix(f.msg, "["+sig+"] "))
		fmt.Printf("      environment: %s\n", envOf(f.v.Obs))
		if kf, ok := findings.Known(propID, sig); ok {
			nknown++
			knownSeen = append(knownSeen, sig)
			fmt.Printf("KNOWN-FINDING: property=%s signature=%s replay=%s %s\n", propID, sig, path, kf.What)
		} else {
			nviol++
			fmt.Printf("VIOLATION property=%s replay=%s\n", propID, path)
			fmt.Printf("  signature=%s\n", sig)
		}
	}
	wall := time.Since(start).Seconds()
	ladder := budgets
	if ladder == "" {
		ladder = "per-configuration"
	}
	// budgets completed by EVERY configuration that was asked for them
	var completed []string
	for _, b := range strings.Split(ladder22, ";") {
		var p, e int
		fmt.Sscanf(b, "%d,%d", &p, &e)
		key := vs.Budget{P: p, E: e}.String()
		asked := 0
		for i := range todo {
			for _, rb := range strings.Split(requested[i], ";") {
				if rb == b {
					asked++
				}
			}
		}
		if asked > 0 && budgetsOK[key] == asked {
			completed = append(completed, fmt.Sprintf("%s completed in all %d configurations whose ladder includes it (of %d)", key, asked, len(todo)))
		} else if asked > 0 {
			completed = append(completed, fmt.Sprintf("%s completed in %d of the %d configurations whose ladder includes it (internal deadline)", key, budgetsOK[key], asked))
		}
	}
	fmt.Printf("c13: tier=%s configurations=%d budgets=%s executions=%d states=%d transitions=%d outcomes=%d deadlocks=%d exhaustive=%v violations=%d known_findings=%d wall=%.1fs\n",
		tier, len(todo), ladder, tot.Executions, tot.States, tot.Transitions, tot.DistinctOutcomes, tot.Deadlocks, exhaust && !machinery, nviol, nknown, wall)
	if machinery {
		return 2
	}
	if !noEvid {
		traces := tot.Executions
		var names []string
		for _, c := range todo {
			names = append(names, c.Name)
		}
		ev := evlib.Evidence{
			PropertyID: propID, Tier: tier, Seed: evlib.Seed(), Level: "model_checking", WallS: wall, Violations: nviol,
			Coverage: evlib.Coverage{
				Evaluations:        tot.Executions,
				DistinctNontrivial: tot.DistinctOutcomes,
				Rule: "the real order monitor (provider/bidengine/order.go: order.run started through newOrderInternal) with the real pubsub bus, util/runner and go-lifecycle, all mechanically instrumented from the current working tree, under the gosched cooperative scheduler; " +
					"scripted chain query client (group fetch, existing-bid query), attribute-signature service, cluster (Reserve/Unreserve), pricing strategy and tx broadcaster block until an environment goroutine releases them; the environment's menu = every pending call x every result variant (ok variants, plus an error while the failure budget lasts) + every remaining chain event / shutdown of the configuration; the bid-timeout timer is virtual and fires by explorer choice. " +
					"Stateless DFS with iterative deviation bounding (p preemptions among system goroutines, e environment actions taken while the system is not quiescent) and history-hash pruning; budget (0,0) already contains every order in which the menu's events can reach the monitor, including an event delivered while a call is in flight. " +
					"evaluations = complete executions on which the oracle was evaluated; states = expanded choice-point states; distinct_nontrivial = distinct observation logs (sequence of environment actions + result of every call + ended/won), summed over configurations",
				Samples:         samples,
				States:          tot.States,
				Transitions:     tot.Transitions,
				TracesValidated: &traces,
				Exhaustive:      exhaust,
				Extra: map[string]interface{}{
					"configurations":         names,
					"per_configuration":      perConfig,
					"budgets_requested":      ladder,
					"budgets_completed":      completed,
					"pruned_revisits":        tot.Pruned,
					"skipped_by_lookahead":   tot.Skipped,
					"deadlocks":              tot.Deadlocks,
					"panics":                 tot.Panics,
					"max_choice_depth":       tot.MaxChoiceDepth,
					"replays":                append([]string{}, replays...),
					"known_findings_seen":    append([]string{}, knownSeen...),
					"workers":                nworkers,
					"violation_signatures":   append([]string{}, sigs...),
					"failures_per_execution": map[string]int{"quick": 1, "thorough": 2}[tier],
					"configuration_count":    len(todo),
				},
			},
			Assumptions: []string{
				"interleaving granularity: one transition = the code between two channel/select/sync operations of one goroutine; unsynchronised shared-memory races are outside this check",
				"one order, one group; every environment event at most once per execution; at most 1 (quick) / 2 (thorough) injected failures per execution; every call the monitor makes eventually completes",
				"a query / pricing / broadcast call made with a context that is already done returns ctx.Err() and submits nothing (as client/broadcaster/serial.go may); contexts are real (not virtualised): only cancel() by the monitor and zero/negative timeouts are visible; Config.BidTimeout is 0 in all configurations except the '-timeout-' ones",
				"pricing.go (shell-script and random strategies) is not instrumented and is replaced by a scripted BidPricingStrategy returning the group maximum, maximum+1, or an error",
				"'without the provider having won the lease' = no EventLeaseCreated for this order and this provider was published before the monitor terminated; 'released' / 'close-bid submitted' = an Unreserve call made after the successful Reserve / a MsgCloseBid broadcast call, whatever they return",
				"an own bid found OPEN by the existing-bid query must also be closed when handling ends without a lease, provided its answer had reached the handler (the environment saw the system quiescent after releasing it, before anything ended the handler: order.go does not close a bid whose query result is still in flight when it gives up - not demanded); bids found active / lost / closed need no close; service-level configurations judge clean-up at service.Done() and allow a new MsgCreateBid only after the earlier broadcast failed or the earlier bid was closed",
				"the close-bid obligation for NEW bids is checked for bids created by a monitor of this run (a successful MsgCreateBid broadcast) (found in state open / active / lost / closed: in every state no MsgCreateBid may follow - 'at most one bid' across restarts)",
				"leases created for this provider that differ from the order in exactly one of owner / dseq / gseq are injected and must be ignored (LeaseWon only for the lease of this order and provider); a lease for ANOTHER ORDER (oseq) of the same group is not injected by the tiers: the chain never has two live orders in one group (x/market/keeper CreateOrder: 'active order exists') - order.go would take it as a win (configuration new-lease-otheroseq+shutdown-f0, tier 'probe')",
			},
		}
		if err := evlib.Write(ev); err != nil {
			fmt.Fprintln(os.Stderr, "c13: writing evidence:", err)
			return 2
		}
	}
	if nviol > 0 {
		return 1
	}
	return 0
}

// envOf extracts the environment's action sequence from an observation log.
func envOf(obs string) string {
	if i := strings.Index(obs, "env["); i >= 0 {
		if j := strings.Index(obs[i:], "]"); j > 0 {
			return obs[i+4 : i+j]
		}
	}
	return obs
}

func lastLines(s string, n int) string {
	l := strings.Split(strings.TrimSpace(s), "\n")
	if len(l) > n {
		l = l[len(l)-n:]
	}
	return strings.Join(l, "\n")
}
