package main

// Supplementary free-running pass (DESIGN 3.2; `checks/C13 race`): the SAME harness body, scripted collaborators
// and oracle run with real goroutines and real channels - no execution is active, so every vs.* call of the
// instrumented code falls through to the plain Go operation (shim in pass-through mode). Built with -race, this
// gives the race detector a chance on the engine's premise (shared state of provider/bidengine, pubsub, runner and
// go-lifecycle is only touched around channel/select/sync operations); under the cooperative scheduler every
// hand-off is a happens-before edge and the detector is blind. The pass DECIDES NOTHING about C13: it is not
// exhaustive, its environment picks menu entries pseudo-randomly and paces itself with the real clock, and a run
// that has not finished within a generous horizon is counted as inconclusive, never as a violation.

import (
	"fmt"
	"math/rand"
	"os"
	"runtime"
	"sync"
	"time"

	"verif.local/gosched/vs"
)

const freeHorizon = 5 * time.Second

// freeRun is the extra per-run state of a free-running instance. The harness's own bookkeeping (call log,
// ended flag ...) is shared between real goroutines here, so it is guarded by mu; in controlled executions
// inst.free is nil and lock/unlock do nothing (one goroutine runs at a time).
type freeRun struct {
	mu      sync.Mutex
	rng     *rand.Rand
	clients sync.WaitGroup
	envs    sync.WaitGroup
	gaveUp  bool // the environment saw nothing to do for freeHorizon while the monitor had not terminated
}

// C13_FREE_NOLOCK=1 drops the guard around the harness's own bookkeeping: the detector must then report races
// (in harness.go) - a liveness test of the pass itself, see `checks/C13 race-selftest`.
var freeNoLock = os.Getenv("C13_FREE_NOLOCK") != ""

func (h *inst) lock() {
	if h.free != nil && !freeNoLock {
		h.free.mu.Lock()
	}
}

func (h *inst) unlock() {
	if h.free != nil && !freeNoLock {
		h.free.mu.Unlock()
	}
}

func (f *freeRun) start(h *inst) {
	f.envs.Add(1)
	go func() { defer f.envs.Done(); h.environment() }()
	f.clients.Add(1)
	go func() { defer f.clients.Done(); h.waiter() }()
}

// environmentFree is the environment goroutine without a scheduler: it waits (real clock) until a call is pending
// or an event is left, sometimes lets the system run ahead and sometimes injects at once, and fires a
// pseudo-randomly chosen menu entry. Its own fields (events, faults, envLog ...) are touched by it alone.
func (h *inst) environmentFree() {
	f := h.free
	idleSince := time.Now()
	for {
		h.lock()
		ended, has := h.ended, h.hasMenu()
		h.unlock()
		if ended {
			return
		}
		if !has {
			if time.Since(idleSince) > freeHorizon {
				f.gaveUp = true
				return
			}
			time.Sleep(20 * time.Microsecond)
			continue
		}
		switch f.rng.Intn(4) {
		case 0: // at once (an event landing while the system is busy)
		case 1:
			runtime.Gosched()
		case 2:
			time.Sleep(time.Duration(f.rng.Intn(100)) * time.Microsecond)
		case 3:
			time.Sleep(400 * time.Microsecond) // usually long enough for the system to settle
		}
		h.lock()
		m := h.menu()
		h.unlock()
		if len(m) == 0 {
			continue
		}
		a := m[f.rng.Intn(len(m))]
		h.envLog = append(h.envLog, a.name)
		a.fire()
		idleSince = time.Now()
	}
}

func waitWG(wg *sync.WaitGroup, d time.Duration) bool {
	done := make(chan struct{})
	go func() { wg.Wait(); close(done) }()
	t := time.NewTimer(d)
	defer t.Stop()
	select {
	case <-done:
		return true
	case <-t.C:
		return false
	}
}

// runFree executes one configuration once, free-running. Result: "clean", "inconclusive", or the safety
// violations of the oracle (clauses 1-4; termination is not judged here).
func runFree(cfg *Config, seed int64) (status string, obs string, viol []string) {
	h := newInst(cfg, nil)
	h.free = &freeRun{rng: rand.New(rand.NewSource(seed))}
	h.body()
	finished := waitWG(&h.free.clients, 2*freeHorizon) && waitWG(&h.free.envs, freeHorizon)
	if !finished || h.free.gaveUp {
		// no verdict of any kind; the goroutines of this run are left behind
		return "inconclusive", "", nil
	}
	h.lock()
	obs, viol = h.check(&vs.Result{Status: vs.StatusDone})
	// let the calls that were still pending when the monitor terminated return, and stop the bus
	var pending []*call
	for _, c := range h.calls {
		if !c.released {
			c.released = true
			pending = append(pending, c)
		}
	}
	h.unlock()
	for _, c := range pending {
		c := c
		go func() { c.release <- "err" }()
	}
	h.bus.Close()
	if len(viol) > 0 {
		return "violation", obs, viol
	}
	return "clean", obs, nil
}

// doFree runs every configuration of the tier (or the one named) n times. Exit 0 clean, 1 safety violation seen;
// the race detector makes the process exit 66 by itself when it has reported a race.
func doFree(tier, only string, n int) int {
	start := time.Now()
	var nconf, runs, clean, inconclusive, bad int
	outcomes := map[string]bool{}
	for ci, c := range configs {
		if only != "" {
			if c.Name != only {
				continue
			}
		} else if c.Tier != tier {
			continue
		}
		nconf++
		cClean, cInc, cBad := 0, 0, 0
		for i := 0; i < n; i++ {
			runs++
			status, obs, viol := runFree(c, int64(ci)*1000003+int64(i))
			switch status {
			case "clean":
				clean++
				cClean++
				outcomes[c.Name+"|"+obs] = true
			case "inconclusive":
				inconclusive++
				cInc++
			default:
				bad++
				cBad++
				fmt.Printf("free-running %s run %d: %v\n    %s\n", c.Name, i, viol, obs)
			}
		}
		fmt.Printf("%-52s runs=%d clean=%d inconclusive=%d safety-violations=%d\n", c.Name, n, cClean, cInc, cBad)
		if only != "" {
			break
		}
	}
	fmt.Printf("c13: free-running pass (supplementary, decides nothing): tier=%s configurations=%d runs=%d clean=%d inconclusive=%d safety-violations=%d distinct-outcomes=%d goroutines-left=%d wall=%.1fs\n",
		tier, nconf, runs, clean, inconclusive, bad, len(outcomes), runtime.NumGoroutine(), time.Since(start).Seconds())
	fmt.Fprintln(os.Stderr, "c13: (races, if any, are printed above by the race detector; the process then exits 66 instead of 0)")
	if bad > 0 {
		return 1
	}
	return 0
}
