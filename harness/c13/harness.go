package main

import (
	"context"
	"errors"
	"fmt"
	"sort"
	"strings"
	"time"

	sdk "github.com/cosmos/cosmos-sdk/types"
	"github.com/tendermint/tendermint/libs/log"
	"google.golang.org/grpc"

	"github.com/ovrclk/akash/client"
	"github.com/ovrclk/akash/client/broadcaster"
	"github.com/ovrclk/akash/provider/bidengine"
	ctypes "github.com/ovrclk/akash/provider/cluster/types"
	"github.com/ovrclk/akash/provider/event"
	"github.com/ovrclk/akash/provider/session"
	"github.com/ovrclk/akash/pubsub"
	atypes "github.com/ovrclk/akash/types"
	audittypes "github.com/ovrclk/akash/x/audit/types"
	dtypes "github.com/ovrclk/akash/x/deployment/types"
	mtypes "github.com/ovrclk/akash/x/market/types"
	ptypes "github.com/ovrclk/akash/x/provider/types"

	"verif.local/gosched/vs"
)

// ---------------------------------------------------------------------------------------------
// Configuration of one closed harness

// environment events (each at most once per execution)
const (
	evClosed = "order-closed" // EventOrderClosed for our order
	evWon    = "lease-won"    // EventLeaseCreated, our order, our provider
	evLost   = "lease-lost"   // EventLeaseCreated, our order, another provider
	// EventLeaseCreated for OUR provider that differs from this order in exactly one id component: each must
	// be ignored (it is not a win of this order)
	evOtherGroup = "lease-othergroup" // another GSeq (another group of the deployment)
	evOtherOwner = "lease-otherowner" // another tenant, same dseq/gseq/oseq
	evOtherDSeq  = "lease-otherdseq"  // another deployment of the same tenant, same gseq/oseq
	evOtherOSeq  = "lease-otheroseq"  // another order of the same group
	evShutdown   = "shutdown"         // the parent service begins to shut down
	// service-level configurations (Config.Service): the announcement of the order on the bus; "-dup" is a second
	// announcement of the same order (for an order found open at start-up, the first one is already a duplicate)
	evOrderCreated    = "order-created"
	evOrderCreatedDup = "order-created-dup"
)

// scripted calls, in pipeline order
const (
	kGroup     = "group"     // Query().Group
	kBidQuery  = "bidquery"  // Query().Bid (only with checkForExistingBid)
	kAttr      = "attr"      // ProviderAttrSignatureService.GetAuditorAttributeSignatures (eligibility check)
	kReserve   = "reserve"   // cluster.Reserve
	kPrice     = "price"     // BidPricingStrategy.CalculatePrice
	kCreateBid = "createbid" // Tx().Broadcast(MsgCreateBid)
	kUnreserve = "unreserve" // cluster.Unreserve
	kCloseBid  = "closebid"  // Tx().Broadcast(MsgCloseBid)
	kOtherTx   = "othertx"   // Tx().Broadcast(anything else)
)

var kindOrder = map[string]int{kGroup: 0, kBidQuery: 1, kAttr: 2, kReserve: 3, kPrice: 4, kCreateBid: 5, kUnreserve: 6, kCloseBid: 7, kOtherTx: 8}

// result variants per call kind; the ones in faultVariants count against the failure budget
var okVariants = map[string][]string{
	kGroup:     {"ok"},
	kBidQuery:  {"notfound"},
	kAttr:      {"match", "nomatch"},
	kReserve:   {"ok"},
	kPrice:     {"ok", "above"},
	kCreateBid: {"ok"},
	kUnreserve: {"ok"},
	kCloseBid:  {"ok"},
	kOtherTx:   {"ok"},
}

// variants after which the order is expected to give up by itself
func exitVariant(kind, v string) bool {
	return v == "err" || (kind == kAttr && v == "nomatch") || (kind == kPrice && v == "above")
}

// Config is one closed harness.
type Config struct {
	Name        string
	Tier        string // "quick" | "thorough" (a thorough configuration with more failures subsumes its quick sibling)
	ExistingBid bool   // checkForExistingBid (catch-up order after a restart)
	BidQ        string // catch-up: what the existing-bid query answers ("notfound" | "found-open" | "found-active" | "found-lost" | "found-closed") unless it is in Faults
	SigReq      bool   // the group demands auditor-signed attributes (adds the attribute-signature call)
	BidTimeout  bool   // Config.BidTimeout > 0: a virtual timer may fire after the bid was placed
	Events      []string
	// Service: the system is the real bidengine service (NewService: queryExistingOrders, service.run, the real
	// attribute-signature service, catch-up handlers, de-duplication, drain) instead of one order monitor under a
	// hand-built parent; the shutdown event cancels the service's context and "ended" = service.Done().
	Service bool
	// InitOrder (Service only): the chain lists the order as open when the provider starts (catch-up handler with
	// existing-bid query, answered with BidQ); otherwise the order is only announced by an order-created event.
	InitOrder bool
	// MaxFaults: failures (error results) the environment may inject per execution, at any call it releases.
	MaxFaults int
	// Faults: call kinds that ALWAYS fail in this configuration (used to split the existing-bid query's
	// three answers over configurations); each such failure counts against MaxFaults.
	Faults []string
	// ChainBid: ground truth of the harness's chain model, independent of what the existing-bid query answers: the
	// provider holds an OPEN bid on this order on chain when the handler starts. (True by construction when the
	// query answers found-open, where clause 1b already applies; set for the shape whose query fails with a generic error.)
	ChainBid bool
	// Ladder: the iterative-deviation-bounding budgets "p,e;p,e;..." explored for this configuration
	// (p preemptions, e early injections); chosen per configuration so that every tier completes.
	Ladder string
}

func (c *Config) fails(kind string) bool {
	for _, k := range c.Faults {
		if k == kind {
			return true
		}
	}
	return false
}

const (
	maxPrice  = 46 // 2 x 23uakt
	denom     = "uakt"
	auditorID = "akash1auditor"
)

// ---------------------------------------------------------------------------------------------
// Per-execution state

type call struct {
	kind    string
	seq     int // index among the calls of this kind
	release chan string
	// written by the calling goroutine
	afterReserveOK bool // a Reserve had already returned successfully when this call began
	liveCreates    int  // MsgCreateBid only: earlier MsgCreateBid broadcasts in flight or successful when this one began
	closesBefore   int  // MsgCreateBid only: MsgCloseBid broadcasts begun before this one
	price          sdk.Coin
	result         string // "" while in flight
	// written by the environment goroutine
	released bool
}

func (c *call) id() string {
	if c.seq == 0 {
		return c.kind
	}
	return fmt.Sprintf("%s#%d", c.kind, c.seq+1)
}

type inst struct {
	cfg  *Config
	seen map[string]bool // explore mode: signatures already reported by this worker (nil: report everything)

	bus      pubsub.Bus
	vo       *bidengine.VerifOrder
	svc      bidengine.Service  // Config.Service
	cancel   context.CancelFunc // Config.Service: the context NewService watches
	orderID  mtypes.OrderID
	provAddr sdk.AccAddress
	other    sdk.AccAddress
	group    dtypes.Group

	calls      []*call
	nReserveOK int
	leaseWon   []mtypes.LeaseID // distinct leases for which event.LeaseWon was published
	refused    []string         // calls made with a context that was already done: nothing was submitted

	// environment-owned
	events       []string
	faults       int
	envLog       []string
	wonPublished bool
	exitCaused   bool // the environment has already delivered something that makes the order give up
	// A successful Reserve / MsgCreateBid result is "settled" once the environment has seen the system
	// quiescent after releasing it while nothing that ends the order had been delivered yet: the monitor's
	// loop has then necessarily consumed the result (a loop parked on a ready channel is not quiescent).
	reserveReleased, reserveSettled bool
	createReleased, createSettled   bool

	// the provider's own open bid, found by the catch-up query, is "settled" like reservations and new bids
	foundOpenReleased, foundOpenSettled bool

	// waiter-owned
	ended      bool
	drained    bool
	callsAtEnd int // len(calls) when handling ended: clean-up calls begun later do not count

	setupErr error

	// free-running mode (supplementary -race pass, free.go): real goroutines, shim in pass-through mode; nil in
	// controlled executions, where lock/unlock are no-ops
	free *freeRun
}

func newInst(cfg *Config, seen map[string]bool) *inst {
	return &inst{cfg: cfg, seen: seen, events: append([]string{}, cfg.Events...)}
}

func factory(cfg *Config, seen map[string]bool) vs.Factory {
	return func() vs.Exec {
		h := newInst(cfg, seen)
		return vs.Exec{Body: h.body, Check: h.check}
	}
}

func addr(b byte) sdk.AccAddress {
	raw := make([]byte, 20)
	for i := range raw {
		raw[i] = b
	}
	return sdk.AccAddress(raw)
}

func (h *inst) makeGroup() dtypes.Group {
	owner := addr(0x11)
	gid := dtypes.GroupID{Owner: owner.String(), DSeq: 7, GSeq: 2}
	h.orderID = mtypes.MakeOrderID(gid, 3)
	vc := dtypes.GetValidationConfig()
	units := atypes.ResourceUnits{
		CPU:     &atypes.CPU{Units: atypes.NewResourceValue(uint64(vc.MinUnitCPU))},
		Memory:  &atypes.Memory{Quantity: atypes.NewResourceValue(vc.MinUnitMemory)},
		Storage: &atypes.Storage{Quantity: atypes.NewResourceValue(vc.MinUnitStorage)},
	}
	g := dtypes.Group{GroupID: gid, State: dtypes.GroupOpen}
	g.GroupSpec.Name = "g"
	g.GroupSpec.Resources = []dtypes.Resource{{Resources: units, Count: 2, Price: sdk.NewInt64Coin(denom, maxPrice/2)}}
	g.GroupSpec.Requirements.Attributes = atypes.Attributes{{Key: "region", Value: "us"}}
	if h.cfg.SigReq {
		g.GroupSpec.Requirements.SignedBy.AnyOf = []string{auditorID}
	}
	return g
}

// body is the root goroutine of every execution.
func (h *inst) body() {
	h.provAddr, h.other = addr(0x22), addr(0x33)
	h.group = h.makeGroup()
	prov := &ptypes.Provider{Owner: h.provAddr.String(), Attributes: atypes.Attributes{{Key: "region", Value: "us"}}}
	sess := session.New(log.NewNopLogger(), &scriptedClient{h: h}, prov)
	h.bus = pubsub.NewBus()
	// LeaseWon events the monitor puts on the bus (seen as values sent over the bus channels; a per-sender
	// record, hence a function of the sender's history)
	vs.SetTap(func(e vs.TapEvent) {
		if lw, ok := e.Val.(event.LeaseWon); ok && e.Send {
			for _, id := range h.leaseWon {
				if id == lw.LeaseID {
					return
				}
			}
			h.leaseWon = append(h.leaseWon, lw.LeaseID)
		}
	})
	cfg := bidengine.Config{PricingStrategy: &scriptedPricing{h: h}, Deposit: mtypes.DefaultBidMinDeposit}
	if h.cfg.BidTimeout {
		cfg.BidTimeout = 5 * time.Minute
		if h.free != nil {
			cfg.BidTimeout = 3 * time.Millisecond // real clock in pass-through mode: let the timeout actually happen
		}
	}
	if h.cfg.Service {
		ctx, cancel := context.WithCancel(context.Background())
		svc, err := bidengine.NewService(ctx, sess, &scriptedCluster{h: h}, h.bus, cfg)
		if err != nil {
			h.setupErr = err
			cancel()
			vs.Fatalf("c13: NewService: %v", err)
			return
		}
		h.svc, h.cancel = svc, cancel
	} else {
		vo, err := bidengine.VerifNewOrder(sess, &scriptedCluster{h: h}, h.bus, cfg, &scriptedAttr{h: h}, h.orderID, h.cfg.ExistingBid)
		if err != nil {
			h.setupErr = err
			vs.Fatalf("c13: VerifNewOrder: %v", err)
			return
		}
		h.vo = vo
	}
	if h.free != nil {
		h.free.start(h)
		return
	}
	vs.GoEnv(h.environment)
	vs.Go(h.waiter)
}

// waiter is the liveness expectation: the order monitor terminates and is handed to the parent's drain loop.
func (h *inst) waiter() {
	vs.Label("waiter")
	if h.cfg.Service {
		// the service reports done: every handler it started (catch-up ones included) must have finished its clean-up
		vs.Recv(h.svc.Done())
		h.lock()
		h.ended, h.drained = true, true
		h.callsAtEnd = len(h.calls)
		vs.Note("calls-at-end", h.callsAtEnd)
		h.unlock()
		return
	}
	vs.Recv(h.vo.Done())
	h.lock()
	h.ended = true
	h.callsAtEnd = len(h.calls)
	vs.Note("calls-at-end", h.callsAtEnd)
	h.unlock()
	h.vo.WaitDrained()
	h.lock()
	h.drained = true
	h.unlock()
}

// ---------------------------------------------------------------------------------------------
// Scripted collaborators: every call registers itself and blocks until the environment releases it.

func (h *inst) call(kind string, price sdk.Coin) string {
	c := &call{kind: kind, release: make(chan string), price: price}
	if kind == kUnreserve || kind == kCloseBid {
		vs.Label("order.run") // the clean-up calls are made synchronously by the monitor's own goroutine
	} else {
		vs.Label("runner:" + kind)
	}
	h.lock()
	for _, o := range h.calls {
		if o.kind == kind {
			c.seq++
		}
	}
	// shared harness memory (written by the goroutine that ran Reserve) read here: fold it
	c.afterReserveOK = h.nReserveOK > 0
	if kind == kCreateBid {
		for _, o := range h.calls {
			switch {
			case o.kind == kCreateBid && (o.result == "" || o.result == "ok"):
				c.liveCreates++
			case o.kind == kCloseBid:
				c.closesBefore++
			}
		}
	}
	vs.Note("call", kind, c.seq, c.afterReserveOK, c.liveCreates, c.closesBefore)
	h.calls = append(h.calls, c)
	h.unlock()
	v := vs.Recv(c.release)
	h.lock()
	c.result = v
	if kind == kReserve && v == "ok" {
		h.nReserveOK++
	}
	h.unlock()
	return v
}

var errInjected = errors.New("injected failure")

// ctxDone models what the real clients do with a context that is ALREADY done when the call is made
// (client/broadcaster/serial.go: `select { case c.broadcastch <- request: ...; case <-ctx.Done(): return ctx.Err() }`,
// gRPC queries likewise): the call returns ctx.Err() at once and NOTHING is submitted - it is not registered as a
// call, only remembered as refused. The context package is not virtualised, but a zero/negative timeout is done
// immediately and a cancel() by the order's own goroutine is visible; the value read is folded into the history.
func (h *inst) ctxDone(ctx context.Context, kind string) error {
	err := ctx.Err()
	vs.Note("ctx", kind, err != nil)
	if err != nil {
		h.lock()
		h.refused = append(h.refused, kind)
		h.unlock()
	}
	return err
}

var bidStates = map[string]mtypes.Bid_State{
	"found-open": mtypes.BidOpen, "found-active": mtypes.BidActive, "found-lost": mtypes.BidLost, "found-closed": mtypes.BidClosed,
}

type scriptedClient struct{ h *inst }

func (c *scriptedClient) Query() client.QueryClient { return &scriptedQuery{h: c.h} }
func (c *scriptedClient) Tx() broadcaster.Client    { return &scriptedTx{h: c.h} }

// scriptedQuery: any method other than Group / Bid panics (nil embedded interface).
type scriptedQuery struct {
	client.QueryClient
	h *inst
}

func (q *scriptedQuery) Group(ctx context.Context, _ *dtypes.QueryGroupRequest, _ ...grpc.CallOption) (*dtypes.QueryGroupResponse, error) {
	if err := q.h.ctxDone(ctx, kGroup); err != nil {
		return nil, err
	}
	if q.h.call(kGroup, sdk.Coin{}) != "ok" {
		return nil, errInjected
	}
	return &dtypes.QueryGroupResponse{Group: q.h.group}, nil
}

// Orders is asked once, synchronously, by NewService (queryExistingOrders): the initial chain state is a parameter
// of the configuration, the answer is immediate.
func (q *scriptedQuery) Orders(_ context.Context, _ *mtypes.QueryOrdersRequest, _ ...grpc.CallOption) (*mtypes.QueryOrdersResponse, error) {
	res := &mtypes.QueryOrdersResponse{}
	if q.h.cfg.InitOrder {
		res.Orders = mtypes.Orders{{OrderID: q.h.orderID, State: mtypes.OrderOpen, Spec: q.h.group.GroupSpec}}
	}
	return res, nil
}

func (q *scriptedQuery) Bid(ctx context.Context, req *mtypes.QueryBidRequest, _ ...grpc.CallOption) (*mtypes.QueryBidResponse, error) {
	if err := q.h.ctxDone(ctx, kBidQuery); err != nil {
		return nil, err
	}
	v := q.h.call(kBidQuery, sdk.Coin{})
	switch v {
	case "found-open", "found-active", "found-lost", "found-closed":
		// the provider's own bid on this order, left by an earlier incarnation, in any of its states
		return &mtypes.QueryBidResponse{Bid: mtypes.Bid{BidID: req.ID, State: bidStates[v], Price: sdk.NewInt64Coin(denom, maxPrice)}}, nil
	case "notfound":
		// the shape of the gRPC error the chain returns (order.go matches "^.+bid not found.+$")
		return nil, errors.New("rpc error: code = Unknown desc = invalid request: bid not found: invalid request")
	}
	return nil, errInjected
}

type scriptedTx struct{ h *inst }

func (t *scriptedTx) Broadcast(ctx context.Context, msgs ...sdk.Msg) error {
	kind, price := kOtherTx, sdk.Coin{}
	if len(msgs) == 1 {
		switch m := msgs[0].(type) {
		case *mtypes.MsgCreateBid:
			kind, price = kCreateBid, m.Price
		case *mtypes.MsgCloseBid:
			kind = kCloseBid
		}
	}
	if err := t.h.ctxDone(ctx, kind); err != nil {
		return err
	}
	if t.h.call(kind, price) != "ok" {
		return errInjected
	}
	return nil
}

type scriptedCluster struct{ h *inst }

type reservation struct {
	oid mtypes.OrderID
	rg  atypes.ResourceGroup
}

func (r reservation) OrderID() mtypes.OrderID         { return r.oid }
func (r reservation) Resources() atypes.ResourceGroup { return r.rg }

func (c *scriptedCluster) Reserve(oid mtypes.OrderID, rg atypes.ResourceGroup) (ctypes.Reservation, error) {
	if c.h.call(kReserve, sdk.Coin{}) != "ok" {
		return nil, errInjected
	}
	return reservation{oid: oid, rg: rg}, nil
}

func (c *scriptedCluster) Unreserve(mtypes.OrderID) error {
	if c.h.call(kUnreserve, sdk.Coin{}) != "ok" {
		return errInjected
	}
	return nil
}

// scriptedPricing replaces the strategies of pricing.go (not instrumented: shell scripts, crypto/rand).
type scriptedPricing struct{ h *inst }

func (p *scriptedPricing) CalculatePrice(ctx context.Context, _ string, _ *dtypes.GroupSpec) (sdk.Coin, error) {
	if err := p.h.ctxDone(ctx, kPrice); err != nil {
		return sdk.Coin{}, err
	}
	switch p.h.call(kPrice, sdk.Coin{}) {
	case "ok":
		return sdk.NewInt64Coin(denom, maxPrice), nil // exactly the maximum: allowed
	case "above":
		return sdk.NewInt64Coin(denom, maxPrice+1), nil
	}
	return sdk.Coin{}, errInjected
}

type scriptedAttr struct{ h *inst }

func (a *scriptedAttr) GetAuditorAttributeSignatures(auditor string) ([]audittypes.Provider, error) {
	switch a.h.call(kAttr, sdk.Coin{}) {
	case "match":
		return []audittypes.Provider{{Owner: a.h.provAddr.String(), Auditor: auditor, Attributes: atypes.Attributes{{Key: "region", Value: "us"}}}}, nil
	case "nomatch":
		return nil, nil
	}
	return nil, errInjected
}

// ---------------------------------------------------------------------------------------------
// Environment goroutine (DESIGN 3.3)

type action struct {
	name string
	fire func()
}

func (h *inst) pendingCalls() []*call {
	var p []*call
	for _, c := range h.calls {
		if !c.released {
			p = append(p, c)
		}
	}
	// canonical order: a function of the SET of pending calls, not of the registration order
	sort.SliceStable(p, func(i, j int) bool {
		if p[i].kind != p[j].kind {
			return kindOrder[p[i].kind] < kindOrder[p[j].kind]
		}
		return p[i].seq < p[j].seq
	})
	return p
}

func (h *inst) hasMenu() bool {
	if len(h.events) > 0 {
		return true
	}
	for _, c := range h.calls {
		if !c.released {
			return true
		}
	}
	return false
}

func (h *inst) menu() []action {
	var m []action
	for _, c := range h.pendingCalls() {
		c := c
		vars := append([]string{}, okVariants[c.kind]...)
		if c.kind == kBidQuery {
			vars = []string{h.cfg.BidQ}
		}
		switch {
		case h.cfg.fails(c.kind):
			vars = []string{"err"}
		case h.faults < h.cfg.MaxFaults:
			vars = append(vars, "err")
		}
		for _, v := range vars {
			v := v
			m = append(m, action{name: c.id() + ":" + v, fire: func() { h.release(c, v) }})
		}
	}
	for i, ev := range h.events {
		i, ev := i, ev
		m = append(m, action{name: "event:" + ev, fire: func() {
			h.events = append(append([]string{}, h.events[:i]...), h.events[i+1:]...)
			h.inject(ev)
		}})
	}
	return m
}

func (h *inst) release(c *call, v string) {
	c.released = true
	if v == "err" {
		h.faults++
	}
	if v == "ok" {
		switch c.kind {
		case kReserve:
			h.reserveReleased = true
		case kCreateBid:
			h.createReleased = true
		}
	}
	if c.kind == kBidQuery && v == "found-open" {
		h.foundOpenReleased = true
	}
	if exitVariant(c.kind, v) {
		h.exitCaused = true
	}
	vs.Send(c.release, v)
}

func (h *inst) inject(ev string) {
	leaseFor := func(oid mtypes.OrderID, prov sdk.AccAddress) mtypes.EventLeaseCreated {
		return mtypes.NewEventLeaseCreated(mtypes.MakeLeaseID(mtypes.MakeBidID(oid, prov)), sdk.NewInt64Coin(denom, maxPrice))
	}
	var err error
	switch ev {
	case evClosed:
		h.exitCaused = true
		err = h.bus.Publish(mtypes.NewEventOrderClosed(h.orderID))
	case evWon:
		h.exitCaused = true
		h.wonPublished = true
		err = h.bus.Publish(leaseFor(h.orderID, h.provAddr))
	case evLost:
		h.exitCaused = true
		err = h.bus.Publish(leaseFor(h.orderID, h.other))
	case evOtherGroup, evOtherOwner, evOtherDSeq, evOtherOSeq:
		oid := h.orderID
		switch ev {
		case evOtherGroup:
			oid.GSeq++
		case evOtherOwner:
			oid.Owner = addr(0x44).String()
		case evOtherDSeq:
			oid.DSeq++
		case evOtherOSeq:
			oid.OSeq++
		}
		err = h.bus.Publish(leaseFor(oid, h.provAddr))
	case evShutdown:
		h.exitCaused = true
		if h.cfg.Service {
			vs.CallCancel(h.cancel) // NewService's `go s.lc.WatchContext(ctx)` turns it into a shutdown request
		} else {
			h.vo.ParentShutdown()
		}
	case evOrderCreated, evOrderCreatedDup:
		err = h.bus.Publish(mtypes.NewEventOrderCreated(h.orderID))
	default:
		vs.Fatalf("c13: unknown event %q", ev)
	}
	if err != nil {
		vs.Fatalf("c13: bus.Publish(%s): %v", ev, err)
	}
}

func (h *inst) environment() {
	if h.free != nil {
		h.environmentFree()
		return
	}
	vs.Label("env")
	for {
		// wait for my turn: passed (with early-injection budget 0) only when the system is quiescent,
		// and only when there is something to do or the order monitor has terminated
		vs.Op("env-turn", nil, vs.FoldNone, func() bool { return h.ended || h.hasMenu() }, nil)
		if h.cfg.Service && !h.ended {
			// service-level configurations are big-step: with early-injection budget 0 the environment acts only
			// when the system is quiescent, also when it still holds the token (no free bursts of events)
			vs.EnvQuiesce()
		}
		if h.ended {
			vs.Note("ended")
			return
		}
		if vs.Quiescent() && !h.exitCaused { // (folded into the history by Quiescent itself)
			h.reserveSettled = h.reserveReleased
			h.createSettled = h.createReleased
			h.foundOpenSettled = h.foundOpenReleased
		}
		m := h.menu()
		names := make([]string, len(m))
		for i := range m {
			names[i] = m[i].name
		}
		vs.Note("menu", strings.Join(names, ","))
		if len(m) == 0 {
			continue
		}
		a := m[vs.Choose(len(m))]
		h.envLog = append(h.envLog, a.name)
		a.fire()
	}
}

// ---------------------------------------------------------------------------------------------
// Oracle (from the statement of C13; evaluated on the call log at the end of every execution)

func sigOf(msg string) string {
	if strings.HasPrefix(msg, "[") {
		if i := strings.Index(msg, "]"); i > 0 {
			return msg[1:i]
		}
	}
	return ""
}

func (h *inst) check(r *vs.Result) (string, []string) {
	var viol []string
	bad := func(sig, f string, a ...interface{}) {
		if h.seen != nil {
			if h.seen[sig] {
				return
			}
			h.seen[sig] = true
		}
		viol = append(viol, "["+sig+"] "+fmt.Sprintf(f, a...))
	}
	byKind := map[string][]*call{}
	for _, c := range h.calls {
		byKind[c.kind] = append(byKind[c.kind], c)
	}
	max := h.group.GroupSpec.Price()

	// (1) at most one bid
	creates := byKind[kCreateBid]
	if !h.cfg.Service && len(creates) > 1 {
		bad("at-most-one-bid:second-create-bid", "%d MsgCreateBid broadcasts were submitted for one order", len(creates))
	}
	for _, c := range creates {
		// over the whole history of the service (catch-up handlers included): a MsgCreateBid while an earlier bid on
		// the order is in flight or placed and has not been closed. (A new handler may bid again after the earlier
		// broadcast failed or after the earlier bid was closed.)
		if h.cfg.Service && c.liveCreates > c.closesBefore {
			bad("at-most-one-bid:second-create-bid", "MsgCreateBid broadcast while %d earlier MsgCreateBid for the order was in flight or had succeeded and only %d MsgCloseBid had been submitted: two handlers are bidding on one order", c.liveCreates, c.closesBefore)
		}
	}
	for _, c := range creates {
		// (2) never above the order's maximum price
		if c.price.Denom != max.Denom || max.IsLT(c.price) {
			bad("bid-price-bound:price-above-group-max", "MsgCreateBid with price %s submitted; the group's maximum price is %s", c.price, max)
		}
		// (3) only after resources were reserved
		if !c.afterReserveOK {
			bad("bid-after-reserve:create-bid-without-successful-reserve", "MsgCreateBid submitted although no Reserve had returned successfully before")
		}
	}
	// (1b) "at most one bid" across restarts: the existing-bid query answered with this provider's own bid on
	// this order (in whatever state) - a MsgCreateBid in this run would be a second bid
	for _, q := range byKind[kBidQuery] {
		n := 0
		for _, c := range creates {
			if q.result != "found-open" || c.closesBefore == 0 { // (an open bid that was closed first may be followed by a new one)
				n++
			}
		}
		if h.cfg.Service && !h.foundOpenSettled {
			// the answer never reached a handler (it gave up while the query was in flight; order.go drops the
			// result): a handler started later by an announcement knows nothing of the old bid - not demanded
			n = 0
		}
		if strings.HasPrefix(q.result, "found-") && n > 0 {
			bad("second-bid:existing-bid-"+strings.TrimPrefix(q.result, "found-"), "MsgCreateBid broadcast although the existing-bid query had returned this provider's bid on the order (state %s)", strings.TrimPrefix(q.result, "found-"))
		}
	}
	// (1b') the same against the chain model, whatever the handler was told (e.g. the query failed with a transport
	// error): a MsgCreateBid while the provider's open bid on the order exists and has not been closed is a second bid
	if h.cfg.ChainBid {
		for _, c := range creates {
			if c.closesBefore == 0 {
				bad("second-bid:own-open-bid-on-chain", "MsgCreateBid broadcast for an order on which the provider already holds an open bid on chain (existing-bid query answered: %v)", func() []string {
					var r []string
					for _, q := range byKind[kBidQuery] {
						r = append(r, q.result)
					}
					return r
				}())
				break
			}
		}
	}
	// (1c) LeaseWon may only be announced for the lease of THIS order and THIS provider
	ours := mtypes.MakeLeaseID(mtypes.MakeBidID(h.orderID, h.provAddr))
	for _, id := range h.leaseWon {
		var diff []string
		if id.Owner != ours.Owner {
			diff = append(diff, "owner")
		}
		if id.DSeq != ours.DSeq {
			diff = append(diff, "dseq")
		}
		if id.GSeq != ours.GSeq {
			diff = append(diff, "gseq")
		}
		if id.OSeq != ours.OSeq {
			diff = append(diff, "oseq")
		}
		if id.Provider != ours.Provider {
			diff = append(diff, "provider")
		}
		if len(diff) > 0 {
			bad("foreign-lease-taken-as-win:"+strings.Join(diff, "+"), "LeaseWon was published for lease %v, which is not the lease of this order (%v) and provider", id, h.orderID)
		}
	}
	if len(byKind[kOtherTx]) > 0 {
		bad("unexpected-transaction", "a transaction other than MsgCreateBid / MsgCloseBid was broadcast")
	}

	// (4) handling ended without the provider having won the lease
	if h.ended && !h.wonPublished {
		reserved, unreserved := 0, 0
		for _, c := range byKind[kReserve] {
			if c.result == "ok" {
				reserved++
			}
		}
		atEnd := map[*call]bool{} // calls begun before handling ended
		for i, c := range h.calls {
			atEnd[c] = i < h.callsAtEnd
		}
		for _, c := range byKind[kUnreserve] {
			if c.afterReserveOK && atEnd[c] { // an Unreserve call that began after a Reserve had succeeded (whatever it returned)
				unreserved++
			}
		}
		if reserved > unreserved {
			if !h.reserveSettled && len(byKind[kUnreserve]) == 0 && !h.cfg.Service {
				bad("reservation-leaked:reserve-in-flight-at-exit", "the order monitor terminated (lease not won) with %d successful Reserve and no Unreserve: the Reserve call was still in flight (or its result not yet consumed) when the monitor decided to give up; the result was drained and dropped", reserved)
			} else {
				bad("reservation-leaked:completed-reserve-not-unreserved", "the order monitor terminated (lease not won) with %d successful Reserve but %d Unreserve after it", reserved, unreserved)
			}
		}
		placed := 0
		for _, c := range creates {
			if c.result == "ok" {
				placed++
			}
		}
		closes := 0
		for _, c := range byKind[kCloseBid] {
			if atEnd[c] {
				closes++
			}
		}
		// bids of this provider that are open and known to a handler: placed by this run, or found open on chain
		// by the catch-up query (and the answer consumed before anything ended the handler)
		need := placed
		if h.foundOpenSettled {
			need++
		}
		if placed == 0 && closes < need {
			bad("bid-not-closed:existing-open-bid-not-closed", "handling ended (lease not won) without a MsgCloseBid for the provider's own OPEN bid that the existing-bid query had returned to the handler")
		}
		if placed > 0 && closes < need {
			closeRefused := false
			for _, k := range h.refused {
				closeRefused = closeRefused || k == kCloseBid
			}
			if closeRefused {
				bad("bid-not-closed:close-bid-context-already-done", "the order monitor terminated (lease not won) after a successful MsgCreateBid; its MsgCloseBid broadcast was made with a context that was already cancelled / expired, so the client returned ctx.Err() without submitting anything")
			} else if !h.createSettled {
				bad("bid-not-closed:create-bid-in-flight-at-exit", "the order monitor terminated (lease not won) after a successful MsgCreateBid without broadcasting MsgCloseBid: the broadcast was still in flight (or its result not yet consumed) when the monitor decided to give up; the result was drained and dropped")
			} else {
				bad("bid-not-closed:completed-bid-not-closed", "the order monitor terminated (lease not won) after a successful MsgCreateBid without broadcasting MsgCloseBid")
			}
		}
	}

	// (5) the order goroutine terminates
	switch r.Status {
	case vs.StatusDeadlock:
		var inflight []string
		for _, c := range h.calls {
			if c.result == "" {
				inflight = append(inflight, c.id())
			}
		}
		what := "order-monitor-never-terminates"
		if h.cfg.Service {
			what = "service-never-done"
		}
		if h.ended && !h.drained {
			what = "order-never-drained"
		}
		bad("termination:"+what, "every environment event was delivered and every call completed, yet the order monitor did not terminate (calls in flight: %v)", inflight)
	case vs.StatusPanic:
		pv := r.PanicValue
		if i := strings.IndexByte(pv, '\n'); i >= 0 {
			pv = pv[:i]
		}
		bad("panic:"+pv, "panic in goroutine %s: %s", r.PanicG, pv)
	}

	// canonical observation log
	var b strings.Builder
	fmt.Fprintf(&b, "%s|env[%s]|calls[", r.Status, strings.Join(h.envLog, " "))
	cs := append([]*call{}, h.calls...)
	sort.SliceStable(cs, func(i, j int) bool {
		if cs[i].kind != cs[j].kind {
			return kindOrder[cs[i].kind] < kindOrder[cs[j].kind]
		}
		return cs[i].seq < cs[j].seq
	})
	for i, c := range cs {
		if i > 0 {
			b.WriteString(" ")
		}
		res := c.result
		if res == "" {
			res = "inflight"
		}
		fmt.Fprintf(&b, "%s=%s", c.id(), res)
		if c.kind == kCreateBid {
			fmt.Fprintf(&b, "@%s", c.price)
		}
		if (c.kind == kCreateBid || c.kind == kUnreserve) && !c.afterReserveOK {
			b.WriteString("(no-reserve-before)")
		}
	}
	fmt.Fprintf(&b, "]|ended=%v drained=%v won=%v leasewon=%d", h.ended, h.drained, h.wonPublished, len(h.leaseWon))
	if len(h.refused) > 0 {
		fmt.Fprintf(&b, " ctx-done%v", h.refused)
	}
	return b.String(), viol
}
