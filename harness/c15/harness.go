package main

import (
	"errors"
	"fmt"
	"sort"
	"strings"
	"sync"
	"sync/atomic"
	"time"

	"github.com/ovrclk/akash/pubsub"
	"verif.local/gosched/vs"
)

// SubSpec describes one subscriber of a configuration.
type SubSpec struct {
	Name   string
	Parent string // "" = bus.Subscribe(); otherwise Clone() of that subscriber
	// Read: -1 = reads until Done(); 0 = stalled forever (nobody ever reads Events()); k>0 = reads k events, then stops reading
	Read int
	// CloseAfterRead: the reader calls Close() on its subscriber after its k reads ("closes mid-stream")
	CloseAfterRead bool
}

// Config is one closed harness: who publishes what, who subscribes how, who closes what.
type Config struct {
	Name       string
	Tier       string  // "quick": run in both tiers; "thorough": thorough only
	Publishers [][]int // event ids per publisher; ids are unique over the configuration
	Subs       []SubSpec
	Closers    []string // "bus" or a subscriber name: a goroutine that calls Close() on it concurrently

	// Long-backlog family: Backlog=N>0 means one publisher publishing N events in a row. The
	// subscribers are created one after the other by the root goroutine BEFORE the publisher
	// starts (so every event is mandatory for every subscriber and the publisher needs no
	// scheduling point to sample who is subscribed). The executions are thousands of transitions
	// long and histories never merge (every select / map-order decision is part of a history), so
	// this family is explored with DEVIATION bounding: all schedules that differ from the canonical
	// run-until-blocked schedule in at most Bound decisions, sharded by the depth of the first one.
	// After orders the clients: actor -> gates it waits for before it acts. Actors are "sub:NAME"
	// (the creator of that subscriber), "close:TARGET" (that closer) and "pub" (every publisher);
	// gates are "sub:NAME" (Subscribe/Clone of NAME has returned), "closed:TARGET" (that closer's
	// Close() has returned) and "pub" (publisher 0 has finished). Without an entry the client acts
	// at once, concurrently with everybody else.
	After map[string][]string

	Backlog int
	Bound   int
	Shard   int
	NShards int
}

type pubRec struct {
	ev    int
	mask  uint32 // subscribers whose Subscribe/Clone had returned before this Publish was called
	began bool
	ended bool
	err   error
}

type subState struct {
	spec        SubSpec
	idx         int
	sub         pubsub.Subscriber
	ready       chan struct{} // closed (managed) once the creator is done
	attempted   bool
	returned    bool
	err         error
	n0, n1      int // clones: values handed out by the parent before Clone() was called / after it returned
	got         []int
	sawDone     bool
	closeBegun  bool
	closeEnded  bool
	readerEnded bool
}

type closerState struct {
	target string
	begun  bool
	ended  bool
}

// instance is the per-execution state.
type instance struct {
	cfg     *Config
	bus     pubsub.Bus
	subs    []*subState
	byName  map[string]*subState
	pubs    [][]*pubRec
	closers []*closerState
	gates   map[string]chan struct{} // "closed:X" and "pub" gates that somebody waits for
	subDone uint32                   // bit i: creator of subscriber i has returned successfully (shared harness memory; accessed atomically)

	// free-running mode (supplementary -race pass): real goroutines, tracked by wait groups
	free    bool
	clients sync.WaitGroup
	daemons sync.WaitGroup
}

func (in *instance) goClient(f func()) {
	if !in.free {
		vs.Go(f)
		return
	}
	in.clients.Add(1)
	go func() { defer in.clients.Done(); f() }()
}

func (in *instance) goDaemon(f func()) {
	if !in.free {
		vs.GoDaemon(f)
		return
	}
	in.daemons.Add(1)
	go func() { defer in.daemons.Done(); f() }()
}

// runFree executes the configuration once with real goroutines and real channels (shim in
// pass-through mode). Afterwards the bus is closed so that every loop and reader terminates, and
// the schedule-independent part of the oracle (exactly-once, order, no gaps, agreement) is evaluated.
func (in *instance) runFree() []string {
	in.free = true
	in.body()
	in.clients.Wait()
	time.Sleep(200 * time.Microsecond) // let deliveries drain; only affects how much the readers have seen
	in.bus.Close()
	in.daemons.Wait()
	// completeness is not decidable here (no quiescence): mark every subscriber as stalled for the oracle
	for _, st := range in.subs {
		st.spec.Read = 0
	}
	_, viol := in.check(&vs.Result{Status: vs.StatusDone})
	return viol
}

func newInstance(cfg *Config) *instance {
	in := &instance{cfg: cfg, byName: map[string]*subState{}}
	for i, sp := range cfg.Subs {
		st := &subState{spec: sp, idx: i, ready: make(chan struct{})}
		in.subs = append(in.subs, st)
		in.byName[sp.Name] = st
	}
	for _, evs := range cfg.Publishers {
		var recs []*pubRec
		for _, e := range evs {
			recs = append(recs, &pubRec{ev: e})
		}
		in.pubs = append(in.pubs, recs)
	}
	for _, c := range cfg.Closers {
		in.closers = append(in.closers, &closerState{target: c})
	}
	in.gates = map[string]chan struct{}{}
	for _, gs := range cfg.After {
		for _, g := range gs {
			if !strings.HasPrefix(g, "sub:") {
				in.gates[g] = make(chan struct{})
			}
		}
	}
	return in
}

// body is the root goroutine of every execution.
func (in *instance) body() {
	in.bus = pubsub.NewBus()
	for _, st := range in.subs {
		st := st
		if in.cfg.Backlog > 0 && !in.free {
			in.creator(st) // sequential set-up
			vs.Label("")
			continue
		}
		in.goClient(func() { in.creator(st) })
	}
	for p := range in.pubs {
		p := p
		in.goClient(func() { in.publisher(p) })
	}
	for _, c := range in.closers {
		c := c
		in.goClient(func() { in.closer(c) })
	}
}

// wait blocks the calling client until every gate of its After entry is open.
func (in *instance) wait(actor string) {
	for _, g := range in.cfg.After[actor] {
		if strings.HasPrefix(g, "sub:") {
			vs.Recv(in.byName[strings.TrimPrefix(g, "sub:")].ready)
		} else {
			vs.Recv(in.gates[g])
		}
	}
}

// open opens a gate if somebody waits for it.
func (in *instance) open(gate string) {
	if ch := in.gates[gate]; ch != nil {
		vs.Close(ch)
	}
}

func (in *instance) publisher(p int) {
	vs.Label(fmt.Sprintf("publisher%d", p))
	in.wait("pub")
	if p == 0 {
		defer in.open("pub")
	}
	for _, rec := range in.pubs[p] {
		// The read of the shared "who has subscribed" mask must be a scheduling point of its own:
		// "Publish began after Subscribe returned" has to be explorable independently of where the
		// previous Publish completed. The value read is folded into the history (pruning soundness).
		if in.cfg.Backlog == 0 || in.free {
			vs.Yield()
		}
		rec.mask = atomic.LoadUint32(&in.subDone)
		vs.Note("mask", rec.mask)
		rec.began = true
		rec.err = in.bus.Publish(rec.ev)
		rec.ended = true
	}
}

func (in *instance) creator(st *subState) {
	vs.Label("creator-" + st.spec.Name)
	defer func() {
		if st.returned && in.awaited(st.spec.Name) {
			vs.Close(st.ready)
		}
	}()
	in.wait("sub:" + st.spec.Name)
	if st.spec.Parent == "" {
		st.attempted = true
		sub, err := in.bus.Subscribe()
		st.sub, st.err, st.returned = sub, err, true
	} else {
		parent := in.byName[st.spec.Parent]
		vs.Recv(parent.ready)
		if parent.err != nil {
			st.err, st.returned = fmt.Errorf("parent not created: %w", parent.err), true
			return
		}
		st.n0 = vs.RecvCount(parent.sub.Events())
		st.attempted = true
		sub, err := parent.sub.Clone()
		st.n1 = vs.RecvCount(parent.sub.Events())
		st.sub, st.err, st.returned = sub, err, true
	}
	if st.err != nil {
		return
	}
	for {
		old := atomic.LoadUint32(&in.subDone)
		if atomic.CompareAndSwapUint32(&in.subDone, old, old|1<<uint(st.idx)) {
			break
		}
	}
	if st.spec.Read != 0 {
		in.goDaemon(func() { in.reader(st) })
	}
}

// awaited: somebody (a cloner or a closer) waits for this subscriber to exist.
func (in *instance) awaited(name string) bool {
	for _, s := range in.cfg.Subs {
		if s.Parent == name {
			return true
		}
	}
	for _, c := range in.cfg.Closers {
		if c == name {
			return true
		}
	}
	for _, gs := range in.cfg.After {
		for _, g := range gs {
			if g == "sub:"+name {
				return true
			}
		}
	}
	return false
}

func (in *instance) reader(st *subState) {
	vs.Label("reader-" + st.spec.Name)
	// A reader that "reads until Done()" stops after one event more than the configuration ever
	// publishes: receiving that many is already a violation (duplicate), and the bound keeps every
	// execution finite even when a broken bus re-delivers forever.
	limit := st.spec.Read
	if limit < 0 {
		limit = 1
		for _, evs := range in.cfg.Publishers {
			limit += len(evs)
		}
	}
	for n := 0; n < limit; n++ {
		ev := vs.RecvCase(st.sub.Events())
		done := vs.RecvCase(st.sub.Done())
		switch vs.Select(false, ev, done) {
		case 0:
			st.got = append(st.got, ev.V().(int))
		case 1:
			st.sawDone = true
			st.readerEnded = true
			return
		}
	}
	if st.spec.CloseAfterRead {
		st.closeBegun = true
		st.sub.Close()
		st.closeEnded = true
	}
	st.readerEnded = true
}

func (in *instance) closer(c *closerState) {
	vs.Label("closer-" + c.target)
	in.wait("close:" + c.target)
	defer in.open("closed:" + c.target)
	if c.target == "bus" {
		c.begun = true
		in.bus.Close()
		c.ended = true
		return
	}
	st := in.byName[c.target]
	vs.Recv(st.ready)
	if st.err != nil {
		return
	}
	c.begun = true
	st.sub.Close()
	c.ended = true
}

// ---------------------------------------------------------------------------------------------
// Oracle. It reads only the per-goroutine logs above (each a function of that goroutine's own
// history, cross-goroutine reads having been folded with vs.Note / vs.RecvCount), so that the
// verdict is a function of the final state key and history-hash pruning cannot hide a violation.

func errStr(err error) string {
	if err == nil {
		return "ok"
	}
	if errors.Is(err, pubsub.ErrNotRunning) {
		return "not-running"
	}
	return "err:" + err.Error()
}

// affected: completeness is not demanded from a subscriber when it, one of the subscribers it was
// cloned from, or the bus is closed by anybody in this configuration ("until it closed").
func (in *instance) affected(st *subState) bool {
	closed := map[string]bool{}
	for _, c := range in.cfg.Closers {
		closed[c] = true
	}
	for _, s := range in.cfg.Subs {
		if s.CloseAfterRead {
			closed[s.Name] = true
		}
	}
	if closed["bus"] {
		return true
	}
	for cur := st; cur != nil; cur = in.byName[cur.spec.Parent] {
		if closed[cur.spec.Name] {
			return true
		}
		if cur.spec.Parent == "" {
			break
		}
	}
	return false
}

func contains(xs []int, x int) bool {
	for _, y := range xs {
		if x == y {
			return true
		}
	}
	return false
}

func sum(xs []int) int {
	t := 0
	for i, x := range xs {
		t += (i + 1) * x // position-sensitive
	}
	return t
}

func indexOf(xs []int, x int) int {
	for i, y := range xs {
		if x == y {
			return i
		}
	}
	return -1
}

func (in *instance) check(r *vs.Result) (string, []string) {
	var viol []string
	bad := func(f string, a ...interface{}) { viol = append(viol, fmt.Sprintf(f, a...)) }

	// --- every call returns (also reported by the scheduler as a deadlock of client goroutines)
	for p, recs := range in.pubs {
		for _, rec := range recs {
			if rec.began && !rec.ended {
				bad("Publish(%d) by publisher %d never returned", rec.ev, p)
			}
		}
	}
	for _, st := range in.subs {
		if st.attempted && !st.returned {
			if st.spec.Parent == "" {
				bad("Subscribe() of %s never returned", st.spec.Name)
			} else {
				bad("Clone() of %s from %s never returned", st.spec.Name, st.spec.Parent)
			}
		}
		if st.closeBegun && !st.closeEnded {
			bad("Close() of %s by its reader never returned", st.spec.Name)
		}
	}
	for _, c := range in.closers {
		if c.begun && !c.ended {
			bad("Close() of %s never returned", c.target)
		}
	}

	// --- publication log per publisher
	status := map[int]*pubRec{}
	pubOf := map[int]int{}
	for p, recs := range in.pubs {
		for _, rec := range recs {
			status[rec.ev] = rec
			pubOf[rec.ev] = p
		}
	}
	// seq[p]: the events of p that were not refused, in publication order
	seq := make([][]int, len(in.pubs))
	for p, recs := range in.pubs {
		for _, rec := range recs {
			if rec.began && (!rec.ended || rec.err == nil) {
				seq[p] = append(seq[p], rec.ev)
			}
		}
	}

	for _, st := range in.subs {
		if !st.returned || st.err != nil {
			continue
		}
		name := st.spec.Name
		// exactly once
		seen := map[int]bool{}
		for _, e := range st.got {
			if seen[e] {
				bad("%s received event %d twice: %v", name, e, st.got)
			}
			seen[e] = true
			rec := status[e]
			if rec == nil || !rec.began {
				bad("%s received event %d that was never published", name, e)
			} else if rec.ended && rec.err != nil {
				bad("%s received event %d although its Publish returned %v", name, e, rec.err)
			}
		}
		// in order, no gaps: per publisher a contiguous run of its publication sequence
		for p := range in.pubs {
			var mine []int
			for _, e := range st.got {
				if pubOf[e] == p && status[e] != nil {
					mine = append(mine, e)
				}
			}
			if len(mine) == 0 {
				continue
			}
			start := indexOf(seq[p], mine[0])
			for i, e := range mine {
				if start < 0 || start+i >= len(seq[p]) || seq[p][start+i] != e {
					bad("%s: events of publisher %d are not a gap-free in-order run of %v: got %v", name, p, seq[p], mine)
					break
				}
			}
		}
		// clone: nothing the original had already handed out when Clone() was called
		var parent *subState
		if st.spec.Parent != "" {
			parent = in.byName[st.spec.Parent]
			for i := 0; i < st.n0 && i < len(parent.got); i++ {
				if contains(st.got, parent.got[i]) {
					bad("clone %s received event %d, which %s had already handed out before Clone() was called (%s handed out %v, %d of them before the call)",
						name, parent.got[i], parent.spec.Name, parent.spec.Name, parent.got, st.n0)
				}
			}
		}
		// completeness
		if in.affected(st) || st.spec.Read == 0 {
			continue
		}
		mandatory := map[int]string{}
		for _, recs := range in.pubs {
			for _, rec := range recs {
				if !(rec.ended && rec.err == nil) {
					continue
				}
				if rec.mask&(1<<uint(st.idx)) != 0 {
					mandatory[rec.ev] = fmt.Sprintf("its Publish began after %s was subscribed", name)
				}
				if parent != nil && rec.mask&(1<<uint(parent.idx)) != 0 && indexOf(parent.got, rec.ev) < 0 {
					mandatory[rec.ev] = fmt.Sprintf("it was published after %s was subscribed and %s never handed it out", parent.spec.Name, parent.spec.Name)
				}
			}
		}
		if parent != nil {
			for i := st.n1; i < len(parent.got); i++ {
				if rec := status[parent.got[i]]; rec != nil && rec.ended && rec.err == nil {
					mandatory[parent.got[i]] = fmt.Sprintf("%s handed it out only after Clone() had returned (%d handed out before)", parent.spec.Name, st.n1)
				}
			}
		}
		satisfied := st.spec.Read > 0 && len(st.got) >= st.spec.Read
		if !satisfied {
			var miss []string
			for e, why := range mandatory {
				if !seen[e] {
					miss = append(miss, fmt.Sprintf("%d (%s)", e, why))
				}
			}
			sort.Strings(miss)
			if len(miss) > 0 {
				bad("%s is still waiting at quiescence but never received event(s) %s; got %v", name, strings.Join(miss, ", "), st.got)
			}
		} else {
			// the reader stopped after k events: it must not have skipped a mandatory event of a
			// publisher from which it received later events
			for p := range in.pubs {
				last := -1
				for _, e := range st.got {
					if pubOf[e] == p {
						if i := indexOf(seq[p], e); i > last {
							last = i
						}
					}
				}
				for i := 0; i < last; i++ {
					e := seq[p][i]
					if why, ok := mandatory[e]; ok && !seen[e] {
						bad("%s skipped event %d (%s) but received later events of the same publisher: %v", name, e, why, st.got)
					}
				}
			}
		}
	}

	// --- all subscribers agree on the relative order of any two events
	for i, a := range in.subs {
		for _, b := range in.subs[i+1:] {
			for x := 0; x < len(a.got); x++ {
				for y := x + 1; y < len(a.got); y++ {
					bx, by := indexOf(b.got, a.got[x]), indexOf(b.got, a.got[y])
					if bx >= 0 && by >= 0 && bx > by {
						bad("%s and %s disagree on the order of events %d and %d: %v vs %v", a.spec.Name, b.spec.Name, a.got[x], a.got[y], a.got, b.got)
					}
				}
			}
		}
	}

	// --- canonical observation log
	var b strings.Builder
	fmt.Fprintf(&b, "%s|", r.Status)
	for p, recs := range in.pubs {
		fmt.Fprintf(&b, "P%d[", p)
		if in.cfg.Backlog > 0 {
			// summary (the full list would be N entries long): how many returned ok, first that did not
			nok, firstBad := 0, "none"
			for _, rec := range recs {
				if rec.ended && rec.err == nil {
					nok++
				} else if firstBad == "none" && rec.began {
					firstBad = fmt.Sprintf("%d:%s", rec.ev, map[bool]string{true: errStr(rec.err), false: "pending"}[rec.ended])
				}
			}
			fmt.Fprintf(&b, "published-ok=%d first-not-ok=%s]", nok, firstBad)
			continue
		}
		for _, rec := range recs {
			if !rec.began {
				continue
			}
			res := "pending"
			if rec.ended {
				res = errStr(rec.err)
			}
			fmt.Fprintf(&b, "%d:m%b:%s ", rec.ev, rec.mask, res)
		}
		b.WriteString("]")
	}
	for _, st := range in.subs {
		fmt.Fprintf(&b, " %s{", st.spec.Name)
		switch {
		case !st.returned:
			b.WriteString("pending")
		case st.err != nil:
			b.WriteString(errStr(st.err))
		default:
			if in.cfg.Backlog > 0 && len(st.got) > 8 {
				fmt.Fprintf(&b, "got[%d events %d..%d sum=%d]", len(st.got), st.got[0], st.got[len(st.got)-1], sum(st.got))
			} else {
				fmt.Fprintf(&b, "got%v", st.got)
			}
			if st.spec.Parent != "" {
				fmt.Fprintf(&b, " n0=%d n1=%d", st.n0, st.n1)
			}
			if st.sawDone {
				b.WriteString(" done")
			}
			if st.closeBegun {
				fmt.Fprintf(&b, " close=%v", st.closeEnded)
			}
		}
		b.WriteString("}")
	}
	for _, c := range in.closers {
		fmt.Fprintf(&b, " close(%s)=%v/%v", c.target, c.begun, c.ended)
	}
	return b.String(), viol
}

func factory(cfg *Config) vs.Factory {
	return func() vs.Exec {
		in := newInstance(cfg)
		return vs.Exec{Body: in.body, Check: in.check}
	}
}
