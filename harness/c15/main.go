// Command c15 decides property C15 (event bus) with the gosched engine: the real pubsub bus and
// go-lifecycle, mechanically instrumented, run under the controlled scheduler; all interleavings
// of a set of closed client configurations are enumerated (unbounded preemptions, history-hash
// pruning) and the oracle of harness.go is evaluated on every execution.
//
//	c15 -tier quick|thorough [-workers N] [-deadline D]     parent: runs all configurations, writes evidence
//	c15 -config NAME -worker [-deadline D]                   worker: explores one configuration, prints JSON
//	c15 -replay FILE                                         re-executes a recorded violation
//	c15 -list
//
// exit 0: no violation; 1: VIOLATION printed; 2: machinery failure.
package main

import (
	"bytes"
	"context"
	"encoding/json"
	"flag"
	"fmt"
	"os"
	"os/exec"
	"runtime"
	"runtime/pprof"
	"sort"
	"strings"
	"sync"
	"time"

	"verif.local/gosched/vs"
	"verif.local/verif/evlib"
)

func sub(name string, read int) SubSpec { return SubSpec{Name: name, Read: read} }
func clone(name, parent string, read int) SubSpec {
	return SubSpec{Name: name, Parent: parent, Read: read}
}

const inf = -1

var configs = []*Config{
	// one publisher, one subscriber that reads everything
	{Name: "p3-A", Tier: "quick", Publishers: [][]int{{1, 2, 3}}, Subs: []SubSpec{sub("A", inf)}},
	// a stalled subscriber must not hold back another one, nor the publisher
	{Name: "p3-Astall-C", Tier: "quick", Publishers: [][]int{{1, 2, 3}}, Subs: []SubSpec{sub("A", 0), sub("C", inf)}},
	// slow reader: reads one event and stops
	{Name: "p3-A1-C", Tier: "quick", Publishers: [][]int{{1, 2, 3}}, Subs: []SubSpec{sub("A", 1), sub("C", inf)}},
	// clone hand-over while events are in flight
	{Name: "p2-A-cloneB", Tier: "quick", Publishers: [][]int{{1, 2}}, Subs: []SubSpec{sub("A", inf), clone("B", "A", inf)}},
	{Name: "p3-A1-cloneB", Tier: "quick", Publishers: [][]int{{1, 2, 3}}, Subs: []SubSpec{sub("A", 1), clone("B", "A", inf)}},
	{Name: "p3-Astall-cloneB", Tier: "quick", Publishers: [][]int{{1, 2, 3}}, Subs: []SubSpec{sub("A", 0), clone("B", "A", inf)}},
	{Name: "p3-A-cloneB1", Tier: "quick", Publishers: [][]int{{1, 2, 3}}, Subs: []SubSpec{sub("A", inf), clone("B", "A", 1)}},
	// two publishers: all subscribers agree on the order
	{Name: "pp-A-C", Tier: "quick", Publishers: [][]int{{1}, {11}}, Subs: []SubSpec{sub("A", inf), sub("C", inf)}},
	{Name: "pp-A-cloneB", Tier: "quick", Publishers: [][]int{{1, 2}, {11}}, Subs: []SubSpec{sub("A", inf), clone("B", "A", inf)}},
	// closing
	{Name: "p2-A-C-closeA", Tier: "quick", Publishers: [][]int{{1, 2}}, Subs: []SubSpec{sub("A", inf), sub("C", inf)}, Closers: []string{"A"}},
	{Name: "p2-A-closeBus", Tier: "quick", Publishers: [][]int{{1, 2}}, Subs: []SubSpec{sub("A", inf)}, Closers: []string{"bus"}},
	{Name: "p2-Astall-closeBus", Tier: "quick", Publishers: [][]int{{1, 2}}, Subs: []SubSpec{sub("A", 0)}, Closers: []string{"bus"}},
	{Name: "p1-A-closeBus-closeA", Tier: "quick", Publishers: [][]int{{1}}, Subs: []SubSpec{sub("A", inf)}, Closers: []string{"bus", "A"}},
	{Name: "p2-A1close-C", Tier: "quick", Publishers: [][]int{{1, 2}}, Subs: []SubSpec{{Name: "A", Read: 1, CloseAfterRead: true}, sub("C", inf)}},
	{Name: "p2-A-cloneB-closeB", Tier: "quick", Publishers: [][]int{{1, 2}}, Subs: []SubSpec{sub("A", inf), clone("B", "A", inf)}, Closers: []string{"B"}},
	{Name: "p2-Astall-cloneB-closeA", Tier: "quick", Publishers: [][]int{{1, 2}}, Subs: []SubSpec{sub("A", 0), clone("B", "A", inf)}, Closers: []string{"A"}},

	// re-subscription after a close (seed C15-6: subscription table keyed by a recycled id). On one
	// parent: A then B subscribe, A is closed, C subscribes; everything published afterwards must
	// reach B and C. "seq": C subscribes after Close(A) returned; "conc": Close(A), the
	// subscription of C and the publications overlap (all interleavings); "anyorder": also A and B in either order. "R-" variants: the parent is a subscriber R and
	// A, B, C are clones of it. The last one also closes the bus at the end (termination only).
	{Name: "resub-seq", Tier: "quick", Publishers: [][]int{{1, 2}}, Subs: []SubSpec{sub("A", 0), sub("B", inf), sub("C", inf)}, Closers: []string{"A"},
		After: map[string][]string{"sub:B": {"sub:A"}, "close:A": {"sub:B"}, "sub:C": {"closed:A"}, "pub": {"sub:C"}}},
	{Name: "resub-conc", Tier: "quick", Publishers: [][]int{{1, 2}}, Subs: []SubSpec{sub("A", 0), sub("B", inf), sub("C", inf)}, Closers: []string{"A"},
		After: map[string][]string{"sub:B": {"sub:A"}, "close:A": {"sub:B"}, "sub:C": {"sub:B"}, "pub": {"sub:C"}}},
	{Name: "resub-anyorder", Tier: "quick", Publishers: [][]int{{1}}, Subs: []SubSpec{sub("A", 0), sub("B", inf), sub("C", inf)}, Closers: []string{"A"},
		After: map[string][]string{"sub:C": {"sub:A", "sub:B"}, "pub": {"sub:C"}}},
	{Name: "R-resub-seq", Tier: "quick", Publishers: [][]int{{1, 2}}, Subs: []SubSpec{sub("R", 0), clone("A", "R", 0), clone("B", "R", inf), clone("C", "R", inf)}, Closers: []string{"A"},
		After: map[string][]string{"sub:B": {"sub:A"}, "close:A": {"sub:B"}, "sub:C": {"closed:A"}, "pub": {"sub:C"}}},
	{Name: "R-resub-conc", Tier: "quick", Publishers: [][]int{{1, 2}}, Subs: []SubSpec{sub("R", 0), clone("A", "R", 0), clone("B", "R", inf), clone("C", "R", inf)}, Closers: []string{"A"},
		After: map[string][]string{"sub:B": {"sub:A"}, "close:A": {"sub:B"}, "sub:C": {"sub:B"}, "pub": {"sub:C"}}},
	{Name: "resub-seq-closeBus", Tier: "quick", Publishers: [][]int{{1, 2}}, Subs: []SubSpec{sub("A", 0), sub("B", inf), sub("C", inf)}, Closers: []string{"A", "bus"},
		After: map[string][]string{"sub:B": {"sub:A"}, "close:A": {"sub:B"}, "sub:C": {"closed:A"}, "pub": {"sub:C"}, "close:bus": {"pub"}}},

	// a parent closed while it has two or more live children (seed C15-8: the shutdown drain loop
	// stops collecting children early, depending on the order in which they finish versus the map's
	// iteration order). The parent's Close() is called once all children exist; each child's own
	// Close() is called after the parent's returned and must return (=> its Done() fired).
	// "-self": one child closes itself concurrently with the parent. "R-": parent is a subscriber.
	{Name: "closeBus-2kids", Tier: "quick", Publishers: [][]int{{1}}, Subs: []SubSpec{sub("A", 0), sub("B", 0)}, Closers: []string{"bus", "A", "B"},
		After: map[string][]string{"close:bus": {"sub:A", "sub:B"}, "close:A": {"closed:bus"}, "close:B": {"closed:bus"}}},
	{Name: "closeBus-2kids-readers", Tier: "quick", Publishers: [][]int{{1}}, Subs: []SubSpec{sub("A", inf), sub("B", inf)}, Closers: []string{"bus", "A", "B"},
		After: map[string][]string{"close:bus": {"sub:A", "sub:B"}, "close:A": {"closed:bus"}, "close:B": {"closed:bus"}}},
	{Name: "closeBus-3kids", Tier: "quick", Publishers: [][]int{}, Subs: []SubSpec{sub("A", 0), sub("B", 0), sub("C", 0)}, Closers: []string{"bus", "A", "B", "C"},
		After: map[string][]string{"close:bus": {"sub:A", "sub:B", "sub:C"}, "close:A": {"closed:bus"}, "close:B": {"closed:bus"}, "close:C": {"closed:bus"}}},
	{Name: "closeBus-2kids-self", Tier: "quick", Publishers: [][]int{{1}}, Subs: []SubSpec{sub("A", 0), sub("B", 0)}, Closers: []string{"bus", "A", "B"},
		After: map[string][]string{"close:bus": {"sub:A", "sub:B"}, "close:A": {"sub:A", "sub:B"}, "close:B": {"closed:bus"}}},
	{Name: "closeBus-3kids-self", Tier: "quick", Publishers: [][]int{}, Subs: []SubSpec{sub("A", 0), sub("B", 0), sub("C", 0)}, Closers: []string{"bus", "A", "B", "C"},
		After: map[string][]string{"close:bus": {"sub:A", "sub:B", "sub:C"}, "close:A": {"sub:A", "sub:B", "sub:C"}, "close:B": {"closed:bus"}, "close:C": {"closed:bus"}}},
	{Name: "R-close-2clones", Tier: "quick", Publishers: [][]int{{1}}, Subs: []SubSpec{sub("R", 0), clone("A", "R", 0), clone("B", "R", 0)}, Closers: []string{"R", "A", "B"},
		After: map[string][]string{"close:R": {"sub:A", "sub:B"}, "close:A": {"closed:R"}, "close:B": {"closed:R"}}},
	{Name: "R-close-2clones-self", Tier: "quick", Publishers: [][]int{{1}}, Subs: []SubSpec{sub("R", 0), clone("A", "R", 0), clone("B", "R", 0)}, Closers: []string{"R", "A", "B"},
		After: map[string][]string{"close:R": {"sub:A", "sub:B"}, "close:A": {"sub:A", "sub:B"}, "close:B": {"closed:R"}}},

	// three clients / longer streams (the "thorough" ones have 10^6..10^7 states)
	{Name: "p3-A-cloneB", Tier: "quick", Publishers: [][]int{{1, 2, 3}}, Subs: []SubSpec{sub("A", inf), clone("B", "A", inf)}},
	{Name: "p3-A2-cloneB-C", Tier: "thorough", Publishers: [][]int{{1, 2, 3}}, Subs: []SubSpec{sub("A", 2), clone("B", "A", inf), sub("C", inf)}},
	{Name: "pp22-A-cloneB", Tier: "thorough", Publishers: [][]int{{1, 2}, {11, 12}}, Subs: []SubSpec{sub("A", inf), clone("B", "A", inf)}},
	{Name: "pp21-A-C", Tier: "quick", Publishers: [][]int{{1, 2}, {11}}, Subs: []SubSpec{sub("A", inf), sub("C", inf)}},
	{Name: "p3-A-C-closeA", Tier: "thorough", Publishers: [][]int{{1, 2, 3}}, Subs: []SubSpec{sub("A", inf), sub("C", inf)}, Closers: []string{"A"}},
	{Name: "p3-A-cloneB-closeA", Tier: "quick", Publishers: [][]int{{1, 2, 3}}, Subs: []SubSpec{sub("A", inf), clone("B", "A", inf)}, Closers: []string{"A"}},
	{Name: "p3-A-cloneB-closeBus", Tier: "thorough", Publishers: [][]int{{1, 2, 3}}, Subs: []SubSpec{sub("A", inf), clone("B", "A", inf)}, Closers: []string{"bus"}},
	{Name: "p2-A-cloneB-cloneD", Tier: "quick", Publishers: [][]int{{1, 2}}, Subs: []SubSpec{sub("A", 1), clone("B", "A", inf), clone("D", "B", inf)}},
	{Name: "p2-A-C-closeA-closeBus", Tier: "thorough", Publishers: [][]int{{1, 2}}, Subs: []SubSpec{sub("A", inf), sub("C", 1)}, Closers: []string{"A", "bus"}},
}

func findConfig(name string) *Config {
	for _, c := range configs {
		if c.Name == name {
			return c
		}
	}
	return nil
}

// Replay is the content of /verif/replays/C15-<n>.json.
type Replay struct {
	Property string   `json:"property"`
	Config   string   `json:"config"`
	Choices  []int    `json:"choices"`
	Ns       []int    `json:"ns"`
	Status   string   `json:"status"`
	Messages []string `json:"messages"`
	Obs      string   `json:"obs"`
	Schedule []string `json:"schedule"`
	How      string   `json:"how_to_replay"`
}

type workerOut struct {
	Config string    `json:"config"`
	Stats  *vs.Stats `json:"stats"`
}

// budgets: C15 is explored with unbounded preemptions; -budgets "0,0;1,0;2,0" (worker mode) runs
// iterative deviation bounding instead (experiments).
var budgets = []vs.Budget{{P: vs.Unbounded, E: vs.Unbounded}}

func parseBudgets(spec string) error {
	if spec == "" {
		return nil
	}
	budgets = nil
	for _, part := range strings.Split(spec, ";") {
		var p, e int
		if _, err := fmt.Sscanf(part, "%d,%d", &p, &e); err != nil {
			return fmt.Errorf("bad budget %q", part)
		}
		if p < 0 {
			p = vs.Unbounded
		}
		if e < 0 {
			e = vs.Unbounded
		}
		budgets = append(budgets, vs.Budget{P: p, E: e})
	}
	return nil
}

func exploreOpts(cfg *Config, deadline time.Time) vs.Options {
	o := vs.Options{
		Budgets:  budgets,
		Prune:    true,
		Deadline: deadline,
		MaxSteps: 20000,
	}
	if cfg != nil && cfg.Backlog > 0 {
		// long-backlog family: iterative deviation bounding (0 deviations, then <= Bound), sharded
		o.Budgets = []vs.Budget{{P: 0, E: 0}}
		if cfg.Bound > 0 {
			o.Budgets = append(o.Budgets, vs.Budget{P: cfg.Bound, E: 0})
		}
		o.DeviationBounded = true
		// history-hash pruning is off for this family: every select / map-order decision is part of a
		// history, so two different schedules never reach equal keys here (measured with pruning on:
		// 0 revisits, 0 look-ahead skips for N = 1100, 1500, 5000) and the visited table would only
		// cost memory (about 1 GB per shard at N = 5000). Stats.ChoicePoints counts the expanded states.
		o.Prune = false
		o.Shard, o.NShards = cfg.Shard, cfg.NShards
		o.MaxSteps = 60*cfg.Backlog + 5000
		o.Samples = 1
	}
	return o
}

// Long-backlog family (seed C15-5: a bounded backlog wedges the bus loop once a stalled subscriber
// holds that many events). backlogQuick / backlogThorough are the N of the tiers; a backlog bound
// larger than the N explored is outside the check.
const (
	backlogQuick          = 1500
	backlogQuickShards    = 16
	backlogThorough       = 5000
	backlogThoroughShards = 64 // memory: the visited table of a shard holds (runs x length)/shards states
)

func backlogConfigs(n int, tier string, bound, backlogShards int) []*Config {
	evs := make([]int, n)
	for i := range evs {
		evs[i] = i + 1
	}
	var out []*Config
	for k := 0; k < backlogShards; k++ {
		out = append(out, &Config{
			Name: fmt.Sprintf("backlog%d-Astall-C.shard%02d", n, k), Tier: tier,
			Publishers: [][]int{evs}, Subs: []SubSpec{sub("A", 0), sub("C", inf)},
			Backlog: n, Bound: bound, Shard: k, NShards: backlogShards,
		})
	}
	return out
}

func init() {
	configs = append(configs, backlogConfigs(backlogQuick, "quick", 1, backlogQuickShards)...)
	configs = append(configs, backlogConfigs(backlogThorough, "thorough", 1, backlogThoroughShards)...)
}

func main() {
	var (
		tier      = flag.String("tier", evlib.Tier(), "quick|thorough")
		workers   = flag.Int("workers", 0, "parallel worker processes (default: min(16, NumCPU))")
		config    = flag.String("config", "", "run one configuration only")
		worker    = flag.Bool("worker", false, "worker mode: print JSON stats on stdout")
		replay    = flag.String("replay", "", "replay file to re-execute")
		list      = flag.Bool("list", false, "list configurations")
		deadline  = flag.Duration("deadline", 0, "internal deadline for the exploration (0: tier default)")
		noEvid    = flag.Bool("no-evidence", false, "do not write evidence / replay files (mutant runs)")
		selftestN = flag.Int("selftest", 2, "determinism self-test: replays of one recorded schedule")
		failFast  = flag.Bool("fail-fast", false, "stop the remaining workers as soon as one configuration reports a violation (mutant runs)")
	)
	free := flag.Int("free", 0, "supplementary pass: run every configuration of the tier N times FREE-RUNNING (real goroutines, shim in pass-through mode); build with -race")
	budgetSpec := flag.String("budgets", "", "worker mode: iterative deviation bounding, e.g. \"0,0;1,0;2,0\" (-1 = unbounded); default unbounded")
	cpuprof := flag.String("cpuprofile", "", "write a CPU profile (worker mode)")
	flag.Parse()
	if err := parseBudgets(*budgetSpec); err != nil {
		fmt.Fprintln(os.Stderr, "c15:", err)
		os.Exit(2)
	}
	if *cpuprof != "" {
		f, err := os.Create(*cpuprof)
		if err == nil {
			pprof.StartCPUProfile(f)
			defer pprof.StopCPUProfile()
		}
	}
	switch {
	case *list:
		for _, c := range configs {
			fmt.Printf("%-28s %s\n", c.Name, c.Tier)
		}
	case *replay != "":
		os.Exit(doReplay(*replay))
	case *free > 0:
		os.Exit(doFree(*tier, *config, *free))
	case *worker:
		rc := doWorker(*config, *deadline)
		pprof.StopCPUProfile()
		os.Exit(rc)
	default:
		os.Exit(doParent(*tier, *workers, *config, *deadline, *noEvid, *selftestN, *failFast))
	}
}

// doFree is the supplementary free-running pass (DESIGN §3.2): it decides nothing about C15; its
// purpose is to give the race detector a chance on the premise of the engine (shared state is only
// touched around channel/sync operations). Exit 0 clean, 1 safety violation seen, (66: race detector).
func doFree(tier, only string, n int) int {
	runs, bad := 0, 0
	for _, c := range configs {
		if (only != "" && c.Name != only) || (c.Tier != "quick" && tier != "thorough") {
			continue
		}
		for i := 0; i < n; i++ {
			runs++
			if v := newInstance(c).runFree(); len(v) > 0 {
				bad++
				fmt.Printf("free-running %s run %d: %v\n", c.Name, i, v)
			}
		}
	}
	fmt.Printf("c15: free-running pass: %d runs, %d with safety violations\n", runs, bad)
	if bad > 0 {
		return 1
	}
	return 0
}

func doWorker(name string, d time.Duration) int {
	cfg := findConfig(name)
	if cfg == nil {
		fmt.Fprintf(os.Stderr, "c15: unknown configuration %q\n", name)
		return 2
	}
	var dl time.Time
	if d > 0 {
		dl = time.Now().Add(d)
	}
	st := vs.Explore(factory(cfg), exploreOpts(cfg, dl))
	json.NewEncoder(os.Stdout).Encode(workerOut{Config: name, Stats: st})
	if len(st.Errors) > 0 {
		return 2
	}
	return 0
}

func doReplay(path string) int {
	raw, err := os.ReadFile(path)
	if err != nil {
		fmt.Fprintln(os.Stderr, "c15:", err)
		return 2
	}
	var rp Replay
	if err := json.Unmarshal(raw, &rp); err != nil {
		fmt.Fprintln(os.Stderr, "c15:", err)
		return 2
	}
	cfg := findConfig(rp.Config)
	if cfg == nil {
		fmt.Fprintf(os.Stderr, "c15: unknown configuration %q\n", rp.Config)
		return 2
	}
	r := vs.RunOnce(factory(cfg), rp.Choices, exploreOpts(cfg, time.Time{}))
	fmt.Printf("configuration %s, %d choices, %d transitions, status %s\n", cfg.Name, len(rp.Choices), r.Steps, r.Status)
	for _, l := range r.Trace {
		fmt.Println("  ", l)
	}
	fmt.Println("observation:", r.Obs)
	switch r.Status {
	case vs.StatusDone, vs.StatusDeadlock, vs.StatusPanic:
	default:
		fmt.Printf("replay failed: %s %s\n", r.Status, r.Msg)
		return 2
	}
	if r.Status == vs.StatusPanic {
		fmt.Println(r.PanicStack)
	}
	if len(r.Violations) == 0 {
		fmt.Println("no violation on this schedule")
		return 0
	}
	for _, v := range r.Violations {
		fmt.Println("VIOLATED:", v)
	}
	return 1
}

// selfTest replays one recorded schedule n times and compares the observation logs and traces.
func selfTest(n int) error {
	cfg := findConfig("p2-A-cloneB")
	opts := exploreOpts(cfg, time.Time{})
	// record: sample executions of a small bounded exploration (one preemption), pruning off
	rec := vs.Explore(factory(cfg), vs.Options{Budgets: []vs.Budget{{P: 1, E: 0}}, MaxSteps: 20000, Samples: 3, MaxViolations: 1 << 30, Deadline: time.Now().Add(20 * time.Second)})
	if len(rec.Errors) > 0 {
		return fmt.Errorf("self-test exploration failed: %v", rec.Errors)
	}
	if len(rec.Samples) == 0 {
		return fmt.Errorf("self-test recorded no schedule")
	}
	s := rec.Samples[len(rec.Samples)-1]
	for i := 0; i < n; i++ {
		r := vs.RunOnce(factory(cfg), s.Choices, opts)
		if r.Obs != s.Obs || r.Status.String() != s.Status {
			return fmt.Errorf("replay %d of schedule %v diverged:\n recorded %s %q\n replayed %s %q", i, s.Choices, s.Status, s.Obs, r.Status, r.Obs)
		}
		if strings.Join(r.Trace, "\n") != strings.Join(s.Trace, "\n") {
			return fmt.Errorf("replay %d of schedule %v produced a different schedule trace", i, s.Choices)
		}
	}
	return nil
}

func doParent(tier string, nworkers int, only string, d time.Duration, noEvid bool, selftestN int, failFast bool) int {
	ctx, cancel := context.WithCancel(context.Background())
	defer cancel()
	start := time.Now()
	if tier != "quick" && tier != "thorough" {
		fmt.Fprintf(os.Stderr, "c15: bad tier %q\n", tier)
		return 2
	}
	if nworkers <= 0 {
		nworkers = runtime.NumCPU()
		if nworkers > 16 {
			nworkers = 16
		}
	}
	if d == 0 {
		d = 100 * time.Second
		if tier == "thorough" {
			d = 25 * time.Minute
		}
	}
	if err := selfTest(selftestN); err != nil {
		fmt.Fprintln(os.Stderr, "c15: determinism self-test FAILED:", err)
		return 2
	}
	fmt.Printf("c15: determinism self-test ok (%d replays)\n", selftestN)

	var todo []*Config
	for _, c := range configs {
		if only != "" && c.Name != only {
			continue
		}
		if c.Tier == "quick" || tier == "thorough" {
			todo = append(todo, c)
		}
	}
	if len(todo) == 0 {
		fmt.Fprintln(os.Stderr, "c15: no configuration selected")
		return 2
	}
	// largest first would need sizes; keep the declared order but start thorough-only ones first
	sort.SliceStable(todo, func(i, j int) bool { return todo[i].Tier == "thorough" && todo[j].Tier != "thorough" })

	self, err := os.Executable()
	if err != nil {
		fmt.Fprintln(os.Stderr, "c15:", err)
		return 2
	}
	results := make([]*workerOut, len(todo))
	errs := make([]string, len(todo))
	var wg sync.WaitGroup
	sem := make(chan struct{}, nworkers)
	for i, c := range todo {
		i, c := i, c
		wg.Add(1)
		go func() {
			defer wg.Done()
			sem <- struct{}{}
			defer func() { <-sem }()
			remaining := d - time.Since(start)
			if remaining < 5*time.Second {
				remaining = 5 * time.Second
			}
			if ctx.Err() != nil {
				return
			}
			cmd := exec.CommandContext(ctx, self, "-worker", "-config", c.Name, "-deadline", remaining.String())
			cmd.Env = append(os.Environ(), "GOMAXPROCS=1")
			var out, stderr bytes.Buffer
			cmd.Stdout, cmd.Stderr = &out, &stderr
			err := cmd.Run()
			var wo workerOut
			if ctx.Err() != nil && err != nil {
				return // stopped by -fail-fast
			}
			if jerr := json.Unmarshal(out.Bytes(), &wo); jerr != nil {
				errs[i] = fmt.Sprintf("worker %s: %v: %s", c.Name, err, lastLines(stderr.String(), 15))
				return
			}
			if err != nil && len(wo.Stats.Errors) == 0 {
				errs[i] = fmt.Sprintf("worker %s: %v: %s", c.Name, err, lastLines(stderr.String(), 15))
			}
			results[i] = &wo
			if failFast && len(wo.Stats.Violations) > 0 {
				cancel()
			}
		}()
	}
	wg.Wait()

	machinery := false
	for _, e := range errs {
		if e != "" {
			fmt.Fprintln(os.Stderr, "c15: MACHINERY FAILURE:", e)
			machinery = true
		}
	}
	var (
		tot       vs.Stats
		perConfig = map[string]interface{}{}
		samples   []interface{}
		exhaust   = true
		nviol     = 0
		replays   []string
	)
	type familyStats struct {
		name                                  string
		n, bound, shards, depth               int
		executions, transitions, choicePoints int64
		outcomes                              int64
		wall                                  float64
		exhaustive                            bool
		budgets                               []string
	}
	var (
		families        = map[string]*familyStats{}
		famOrder        []string
		maxBacklog      = 0
		unboundedStates int64
		backlogSampled  = map[int]bool{}
		violSeen        = map[string]bool{}
	)
	_ = unboundedStates
	fmt.Printf("%-28s %10s %10s %10s %12s %9s %8s %s\n", "configuration", "executions", "pruned", "states", "transitions", "outcomes", "wall_s", "exhaustive")
	for i, wo := range results {
		if wo == nil {
			exhaust = false
			continue
		}
		st := wo.Stats
		for _, e := range st.Errors {
			fmt.Fprintf(os.Stderr, "c15: MACHINERY FAILURE in %s: %s\n", wo.Config, e)
			machinery = true
		}
		cfgI := todo[i]
		if cfgI.Backlog > 0 {
			// shards of one long-backlog family are reported as one line / one evidence entry
			fam := strings.SplitN(cfgI.Name, ".shard", 2)[0]
			f := families[fam]
			if f == nil {
				f = &familyStats{name: fam, n: cfgI.Backlog, bound: cfgI.Bound, exhaustive: true}
				families[fam] = f
				famOrder = append(famOrder, fam)
			}
			f.shards++
			f.executions += st.Executions
			f.transitions += st.Transitions
			f.choicePoints += st.ChoicePoints
			if st.DistinctOutcomes > f.outcomes {
				f.outcomes = st.DistinctOutcomes
			}
			if st.WallS > f.wall {
				f.wall = st.WallS
			}
			if st.MaxChoiceDepth > f.depth {
				f.depth = st.MaxChoiceDepth
			}
			f.exhaustive = f.exhaustive && st.Exhaustive
			f.budgets = st.BudgetsCompleted
			st.DistinctOutcomes = 0 // added once per family below (the shards' outcome sets overlap)
			if cfgI.Backlog > maxBacklog && st.Exhaustive {
				maxBacklog = cfgI.Backlog
			}
		} else {
			fmt.Printf("%-28s %10d %10d %10d %12d %9d %8.1f %v\n", wo.Config, st.Executions, st.Pruned, st.States, st.Transitions, st.DistinctOutcomes, st.WallS, st.Exhaustive)
		}
		tot.Executions += st.Executions
		tot.Pruned += st.Pruned
		tot.Skipped += st.Skipped
		tot.States += st.States
		tot.Transitions += st.Transitions
		tot.DistinctOutcomes += st.DistinctOutcomes
		tot.Deadlocks += st.Deadlocks
		tot.Panics += st.Panics
		if st.MaxChoiceDepth > tot.MaxChoiceDepth {
			tot.MaxChoiceDepth = st.MaxChoiceDepth
		}
		if !st.Exhaustive {
			exhaust = false
		}
		if cfgI.Backlog == 0 {
			unboundedStates += st.States
		}
		if cfgI.Backlog == 0 || !st.Exhaustive {
			perConfig[wo.Config] = map[string]interface{}{
				"executions": st.Executions, "pruned_revisits": st.Pruned, "states": st.States, "transitions": st.Transitions,
				"distinct_outcomes": st.DistinctOutcomes, "exhaustive": st.Exhaustive, "budgets_completed": st.BudgetsCompleted, "wall_s": st.WallS,
			}
		}
		if cfgI.Backlog > 0 && len(st.Samples) > 0 && !backlogSampled[cfgI.Backlog] {
			// one sample per family: the schedule is thousands of lines long, keep its head and tail
			backlogSampled[cfgI.Backlog] = true
			sm := st.Samples[len(st.Samples)-1]
			tr := sm.Trace
			if len(tr) > 60 {
				tr = append(append(append([]string{}, tr[:40]...), fmt.Sprintf("... %d transitions omitted ...", len(tr)-60)), tr[len(tr)-20:]...)
			}
			samples = append(samples, map[string]interface{}{"config": wo.Config, "choices": fmt.Sprintf("%d choice points, all default", len(sm.Choices)), "status": sm.Status, "observation": sm.Obs, "schedule": tr})
		} else if cfgI.Backlog == 0 && len(samples) < 4 && len(st.Samples) > 0 {
			s := st.Samples[len(st.Samples)-1]
			samples = append(samples, map[string]interface{}{"config": wo.Config, "choices": s.Choices, "status": s.Status, "observation": s.Obs, "schedule": s.Trace})
		}
		for _, v := range st.Violations {
			cfg := todo[i]
			if cfg.Backlog > 0 {
				// every shard runs the canonical schedule: report a violation found there once
				k := strings.SplitN(cfg.Name, ".shard", 2)[0] + "|" + v.Obs
				if violSeen[k] {
					continue
				}
				violSeen[k] = true
			}
			// every violation is replayed 5x from its choice list before it is printed
			var first *vs.Result
			for k := 0; k < 5; k++ {
				r := vs.RunOnce(factory(cfg), v.Choices, exploreOpts(cfg, time.Time{}))
				if r.Obs != v.Obs || strings.Join(r.Violations, "\n") != strings.Join(v.Messages, "\n") {
					fmt.Fprintf(os.Stderr, "c15: MACHINERY FAILURE: replay %d of a violation in %s diverged:\n recorded %q %v\n replayed %q %v\n", k, cfg.Name, v.Obs, v.Messages, r.Obs, r.Violations)
					machinery = true
					break
				}
				if first == nil {
					first = r
				}
			}
			if machinery {
				continue
			}
			nviol++
			rp := Replay{Property: "C15", Config: cfg.Name, Choices: v.Choices, Ns: v.Ns, Status: v.Status, Messages: v.Messages, Obs: v.Obs, Schedule: first.Trace,
				How: "/verif/checks/C15 replay <this file>"}
			path := fmt.Sprintf("(not written) config=%s choices=%v", cfg.Name, v.Choices)
			if len(v.Choices) > 200 {
				path = fmt.Sprintf("(not written) config=%s, %d choices", cfg.Name, len(v.Choices))
			}
			if !noEvid {
				p, err := evlib.WriteReplay("C15", nviol, rp)
				if err != nil {
					fmt.Fprintln(os.Stderr, "c15:", err)
					machinery = true
				}
				path = p
			}
			replays = append(replays, path)
			for _, m := range v.Messages {
				if len(m) > 400 {
					m = m[:400] + " ..."
				}
				fmt.Printf("  [%s] %s\n", cfg.Name, m)
			}
			fmt.Printf("VIOLATION property=C15 replay=%s\n", path)
		}
	}
	backlogInfo := map[string]interface{}{}
	for _, fam := range famOrder {
		f := families[fam]
		fmt.Printf("%-28s %10d %10s %10s %12d %9d %8.1f %v   (%d shards, <=%d deviations, %d choice points expanded, depth %d)\n",
			f.name, f.executions, "-", "-", f.transitions, f.outcomes, f.wall, f.exhaustive, f.shards, f.bound, f.choicePoints, f.depth)
		tot.DistinctOutcomes += f.outcomes
		backlogInfo[f.name] = map[string]interface{}{
			"backlog_N": f.n, "shards": f.shards, "executions": f.executions, "transitions": f.transitions, "choice_points_expanded": f.choicePoints,
			"max_choice_depth": f.depth, "distinct_outcomes": f.outcomes, "budgets_completed": f.budgets, "exhaustive_within_bound": f.exhaustive, "max_shard_wall_s": f.wall,
			"bound": fmt.Sprintf("deviation bounding: every schedule that differs from the canonical run-until-blocked schedule in at most %d decision(s) (any select alternative, map-iteration rotation, or switch of goroutine)", f.bound),
		}
	}
	wall := time.Since(start).Seconds()
	fmt.Printf("c15: tier=%s configurations=%d executions=%d states=%d transitions=%d outcomes=%d deadlocks=%d exhaustive=%v violations=%d wall=%.1fs\n",
		tier, len(todo), tot.Executions, tot.States, tot.Transitions, tot.DistinctOutcomes, tot.Deadlocks, exhaust && !machinery, nviol, wall)
	if machinery {
		return 2
	}
	if !noEvid {
		traces := tot.Executions
		var names []string
		for _, c := range todo {
			names = append(names, c.Name)
		}
		ev := evlib.Evidence{
			PropertyID: "C15", Tier: tier, Seed: evlib.Seed(), Level: "model_checking", WallS: wall, Violations: nviol,
			Coverage: evlib.Coverage{
				Evaluations:        tot.Executions,
				DistinctNontrivial: tot.DistinctOutcomes,
				Rule: "every interleaving (unbounded preemptions, select and map-iteration choices included) of the real, instrumented pubsub bus + go-lifecycle under the gosched cooperative scheduler, for each closed client configuration listed in 'configurations'; " +
					"stateless DFS with history-hash pruning (a state whose per-goroutine histories were already expanded is not expanded again; successor states are also recognised by look-ahead before they are run). " +
					"evaluations = complete executions on which the oracle was evaluated (every distinct end state at least once); states = expanded choice-point states; " +
					"distinct_nontrivial = number of distinct observation logs (publisher results + per-subscriber received sequences + clone hand-out counters), summed over configurations. " +
					"The long-backlog family (extras long_backlog_family / max_backlog_explored) is enumerated under deviation bounding instead and contributes executions and transitions but no deduplicated states",
				Samples:         samples,
				States:          tot.States,
				Transitions:     tot.Transitions,
				TracesValidated: &traces,
				Exhaustive:      exhaust,
				Extra: map[string]interface{}{
					"configurations":             names,
					"per_configuration":          perConfig,
					"preemption_bound_completed": map[bool]string{true: "unbounded for every small configuration; long-backlog family: all schedules with at most 1 deviation from the canonical schedule (see long_backlog_family)", false: "exploration cut by the internal deadline: see per_configuration[*].exhaustive"}[exhaust],
					"max_backlog_explored":       maxBacklog,
					"long_backlog_family":        backlogInfo,
					"pruned_revisits":            tot.Pruned,
					"skipped_by_lookahead":       tot.Skipped,
					"deadlocks":                  tot.Deadlocks,
					"panics":                     tot.Panics,
					"max_choice_depth":           tot.MaxChoiceDepth,
					"replays":                    append([]string{}, replays...),
					"workers":                    nworkers,
				},
			},
			Assumptions: []string{
				"interleaving granularity: one transition = the code between two channel/select/sync operations of one goroutine; unsynchronised shared-memory races are outside this check (supplementary -race pass)",
				"bounded: at most 2 publishers, 3 events per publisher, 3 subscribers (incl. clones), 2 closers per configuration (explored with unbounded preemptions)",
				fmt.Sprintf("long backlogs: one publisher publishing N=%d events in a row with one subscriber that never reads and one that reads everything, explored under deviation bounding (canonical schedule + every schedule with one deviating decision), not with unbounded preemptions; a backlog bound or any other behaviour that only shows with more than %d undelivered events is outside the check", maxBacklog, maxBacklog),
				"completeness ('every event published after Subscribe returned is received') is demanded only from subscribers that nobody closes (neither they, nor the subscriber they were cloned from, nor the bus) - 'until it closed' in the statement",
				"map iteration over b.subscriptions: all rotations of the bucket slot order (what the go1.23 runtime can produce for <= 8 entries) are explored",
			},
		}
		if err := evlib.Write(ev); err != nil {
			fmt.Fprintln(os.Stderr, "c15: writing evidence:", err)
			return 2
		}
	}
	if nviol > 0 {
		return 1
	}
	return 0
}

func lastLines(s string, n int) string {
	l := strings.Split(strings.TrimSpace(s), "\n")
	if len(l) > n {
		l = l[len(l)-n:]
	}
	return strings.Join(l, "\n")
}
