package main

// MC part of C12: the LIVE inventoryService (real run loop, instrumented) under the gosched
// scheduler in big-step mode. An environment goroutine issues one operation at a time from the
// alphabet {reserve(slot), unreserve(order), status, deployed(slot), not-deployed(slot),
// refresh -> node set j, refresh -> error}; with the budget (0,0) every operation is driven to
// quiescence before the next one is chosen, and the firing of the service's poll timer is a further
// choice at every quiescent point. The reference model is a plain list of outstanding reservations.

import (
	"context"
	"errors"
	"fmt"
	"hash/fnv"
	"sort"
	"strings"

	"github.com/ovrclk/akash/manifest"
	"github.com/ovrclk/akash/provider/cluster"
	ctypes "github.com/ovrclk/akash/provider/cluster/types"
	"github.com/ovrclk/akash/provider/event"
	"github.com/ovrclk/akash/pubsub"
	dtypes "github.com/ovrclk/akash/x/deployment/types"
	"verif.local/gosched/vs"
	"verif.local/gosched/vtime"
)

// Slot is one reservation target of a configuration: an order and the group it asks for.
type Slot struct {
	Order int
	Group GroupSpec
}

// MCConfig is one closed configuration of the MC part.
type MCConfig struct {
	Name     string
	Tier     string // "quick": both tiers; "thorough": thorough only
	Commit   [3]float64
	Ports    uint
	NodeSets [][]Vec // alternatives a refresh may report (node availabilities)
	Initial  int     // >= 0: the first inventory fetch is answered with NodeSets[Initial] before the enumerated part; -1: not
	Slots    []Slot
	Lookup   bool // lookup(slot) is part of the alphabet
	Depth    int  // enumerated operations (quick)
	DepthT   int  // enumerated operations (thorough); 0 = Depth
}

func (c *MCConfig) depth(tier string) int {
	if tier == "thorough" && c.DepthT > 0 {
		return c.DepthT
	}
	return c.Depth
}

const (
	opReserve = iota
	opUnreserve
	opStatus
	opDeployed
	opNotDeployed
	opRefresh
	opRefreshErr
	opLookup // lookup(slot): only in configurations with Lookup set
)

// Op is one letter of the alphabet. Arg: slot (reserve, deployed, not-deployed), order (unreserve), node set (refresh).
type Op struct {
	Kind int
	Arg  int
}

func (o Op) String() string {
	switch o.Kind {
	case opReserve:
		return fmt.Sprintf("reserve(s%d)", o.Arg)
	case opUnreserve:
		return fmt.Sprintf("unreserve(o%d)", o.Arg)
	case opStatus:
		return "status"
	case opDeployed:
		return fmt.Sprintf("deployed(s%d)", o.Arg)
	case opNotDeployed:
		return fmt.Sprintf("notdeployed(s%d)", o.Arg)
	case opRefresh:
		return fmt.Sprintf("refresh(N%d)", o.Arg)
	case opRefreshErr:
		return "refresh(err)"
	case opLookup:
		return fmt.Sprintf("lookup(s%d)", o.Arg)
	}
	return "?"
}

type statusObs struct {
	active, pending, available []string
	err                        string
}

func (s *statusObs) String() string {
	if s == nil {
		return "<none>"
	}
	if s.err != "" {
		return "err:" + s.err
	}
	return fmt.Sprintf("active=%v pending=%v available=%v", s.active, s.pending, s.available)
}

// opRec is the log entry of one operation; the result fields are written by the client goroutine
// that performs the call (or by the environment for refresh operations).
type opRec struct {
	op     Op
	forced bool // preamble refresh / final status probe (not enumerated)
	ncalls int  // Inventory() calls started when the operation was issued (environment's observation)

	done    bool
	err     string
	granted bool
	resv    ctypes.Reservation
	atGrant string // rendering of resv.Resources() when reserve() returned
	status  *statusObs

	seenDoneAt int // index of the operation after whose quiescence the completion was first observed; -1
	mutatedAt  int // index of the operation after whose quiescence resv.Resources() first rendered differently; -1
	mutatedNow string
}

type invResult struct {
	nodes []ctypes.Node
	err   error
}

type invCall struct {
	ch       chan struct{} // free-running pass only (free.go): closed when the answer is there
	answered bool
	id       string // which answer (folded into the history of the goroutine that made the call)
	res      invResult
}

var errScriptedInventory = errors.New("scripted inventory failure")

// scriptedClient is the cluster client of the service: Inventory() parks until the environment
// answers it with a node set or an error. Every other method is absent (nil embedded interface):
// the inventory service calls nothing else.
//
// The answer is handed over through plain memory, not through a channel: the environment writes it
// in the same atomic block in which it chose the operation, so that no transition (in particular no
// firing of the poll timer, which would make the service abandon this very call) can slip in between
// "the environment decides to answer the call the service is waiting for" and "the answer is there".
// Answers to abandoned calls are thereby never produced; they would be invisible to the service anyway
// (its result channel is no longer read).
type scriptedClient struct {
	cluster.Client
	h *state
}

func (c *scriptedClient) Inventory(ctx context.Context) ([]ctypes.Node, error) {
	call := &invCall{}
	if c.h.free != nil {
		call.ch = make(chan struct{})
	}
	c.h.lock() // (no-op in controlled executions, see free.go)
	c.h.calls = append(c.h.calls, call)
	c.h.unlock()
	if c.h.free != nil {
		<-call.ch
		return call.res.nodes, call.res.err
	}
	vs.Op("Inventory() waits for the cluster", nil, vs.FoldNone, func() bool { return call.answered }, nil)
	vs.Note("inventory-answer", call.id)
	return call.res.nodes, call.res.err
}

// state is the per-execution state.
type state struct {
	cfg   *MCConfig
	depth int
	bus   pubsub.Bus
	inv   *cluster.VerifInventory
	calls []*invCall
	log   []*opRec

	// The caller-owned request objects: ONE group specification object per group name, handed to every
	// reserve() of the execution that asks for that group (a bid engine retrying after a refusal, a
	// reserve / release / reserve cycle, two orders created from one specification all present the same
	// object again). specWant is its rendering taken at construction, before any call; the oracle itself
	// never reads these objects (it computes from the integer GroupSpec of the configuration).
	specs       map[string]*dtypes.GroupSpec
	specWant    map[string]string
	specMutAt   int // index of the operation after whose quiescence a spec first rendered differently; -1
	specMutName string
	specMutNow  string

	startErr string

	// supplementary free-running pass (free.go); nil in controlled executions
	free   *freeRun
	donech chan struct{}
}

func newState(cfg *MCConfig, depth int) *state {
	h := &state{cfg: cfg, depth: depth, specs: map[string]*dtypes.GroupSpec{}, specWant: map[string]string{}, specMutAt: -1}
	for _, sl := range cfg.Slots {
		if _, ok := h.specs[sl.Group.Name]; !ok {
			h.specs[sl.Group.Name] = realGroup(sl.Group)
			h.specWant[sl.Group.Name] = fmtGroup(realGroup(sl.Group))
		}
	}
	return h
}

func mcFactory(cfg *MCConfig, depth int) vs.Factory {
	return func() vs.Exec {
		h := newState(cfg, depth)
		return vs.Exec{Body: h.body, Check: h.check}
	}
}

func (h *state) clusterConfig() cluster.Config {
	poll := 5 * vtime.Second
	if h.free != nil {
		poll = freePollPeriod // real clock: short, so that the poll timer does fire during a run
	}
	return cluster.Config{
		InventoryResourcePollPeriod:     poll,
		InventoryResourceDebugFrequency: 10,
		InventoryExternalPortQuantity:   h.cfg.Ports,
		CPUCommitLevel:                  h.cfg.Commit[0],
		MemoryCommitLevel:               h.cfg.Commit[1],
		StorageCommitLevel:              h.cfg.Commit[2],
	}
}

func (h *state) body() {
	h.bus = pubsub.NewBus()
	sub, err := h.bus.Subscribe()
	if err != nil {
		h.startErr = "subscribe: " + err.Error()
		return
	}
	h.donech = make(chan struct{})
	inv, err := cluster.VerifNewInventory(h.clusterConfig(), h.donech, sub, &scriptedClient{h: h})
	if err != nil {
		h.startErr = "newInventoryService: " + err.Error()
		return
	}
	// The service reads its own clone, which is a CHILD of this subscriber (closing the parent would close
	// it). In the daemon the parent is read by cluster.service; here nobody reads it: its loop only buffers
	// and forwards to the clone, exactly like a slow parent reader.
	h.inv = inv
	if h.free != nil {
		h.free.startEnv(h)
		return
	}
	vs.GoEnv(h.environment)
}

func (h *state) latestCall() *invCall {
	if n := len(h.calls); n > 0 && !h.calls[n-1].answered {
		return h.calls[n-1]
	}
	return nil
}

func (h *state) reserveBlocked() bool {
	for _, rec := range h.log {
		if rec.op.Kind == opReserve && !rec.done {
			return true
		}
	}
	return false
}

func (h *state) orders() []int {
	seen := map[int]bool{}
	var out []int
	for _, s := range h.cfg.Slots {
		if !seen[s.Order] {
			seen[s.Order] = true
			out = append(out, s.Order)
		}
	}
	return out
}

// menu: the operations that may be issued now. A refresh answer exists only while the most recent
// Inventory() call is unanswered (an older unanswered call has been abandoned by the service: its
// result channel is no longer read); a second reserve is not issued while one is still waiting to be
// accepted by the service (the order in which two waiting requests are served would not be observable).
func (h *state) menu() []Op {
	var m []Op
	if !h.reserveBlocked() {
		for s := range h.cfg.Slots {
			m = append(m, Op{opReserve, s})
		}
	}
	for _, o := range h.orders() {
		m = append(m, Op{opUnreserve, o})
	}
	for s := range h.cfg.Slots {
		m = append(m, Op{opDeployed, s}, Op{opNotDeployed, s})
	}
	if h.cfg.Lookup {
		for s := range h.cfg.Slots {
			m = append(m, Op{opLookup, s})
		}
	}
	if h.latestCall() != nil {
		for j := range h.cfg.NodeSets {
			m = append(m, Op{opRefresh, j})
		}
		m = append(m, Op{opRefreshErr, 0})
	}
	m = append(m, Op{opStatus, 0})
	return m
}

// checkSpecs compares every caller-owned specification object with the copy taken before any call.
func (h *state) checkSpecs(idx int) {
	if h.specMutAt >= 0 {
		return
	}
	for _, sl := range h.cfg.Slots {
		name := sl.Group.Name
		if now := fmtGroup(h.specs[name]); now != h.specWant[name] {
			h.specMutAt, h.specMutName, h.specMutNow = idx, name, now
			return
		}
	}
}

// observe runs at a quiescent point (right after EnvTurn): what has completed, what has changed.
func (h *state) observe() {
	idx := len(h.log) - 1
	var sig []any
	for _, rec := range h.log {
		if rec.done && rec.seenDoneAt < 0 {
			rec.seenDoneAt = idx
		}
		if rec.granted && rec.mutatedAt < 0 {
			if now := fmtGroup(rec.resv.Resources()); now != rec.atGrant {
				rec.mutatedAt, rec.mutatedNow = idx, now
			}
		}
		sig = append(sig, rec.done, rec.mutatedAt)
	}
	h.checkSpecs(idx)
	sig = append(sig, len(h.calls), h.specMutAt)
	vs.Note(sig...)
}

func (h *state) environment() {
	vs.Label("env")
	chosen := 0
	for turn := 0; ; turn++ {
		vs.EnvQuiesce()
		h.observe()
		switch {
		case turn == 0 && h.cfg.Initial >= 0:
			if h.latestCall() == nil {
				vs.Fatalf("C12 harness: no Inventory() call pending at the first quiescent point")
			}
			h.fire(Op{opRefresh, h.cfg.Initial}, true)
		case chosen >= h.depth:
			h.fire(Op{opStatus, 0}, true) // final probe
			return
		default:
			m := h.menu()
			h.fire(m[vs.Choose(len(m))], false)
			chosen++
		}
	}
}

func errName(err error) string {
	switch {
	case err == nil:
		return ""
	case errors.Is(err, cluster.ErrInsufficientCapacity):
		return "insufficient-capacity"
	case errors.Is(err, cluster.ErrNotRunning):
		return "not-running"
	case errors.Is(err, pubsub.ErrNotRunning):
		return "bus-not-running"
	}
	return err.Error()
}

func (h *state) fire(op Op, forced bool) {
	rec := &opRec{op: op, forced: forced, ncalls: len(h.calls), seenDoneAt: -1, mutatedAt: -1}
	h.log = append(h.log, rec)
	switch op.Kind {
	case opReserve:
		slot := h.cfg.Slots[op.Arg]
		h.goDaemon(func() { // may stay blocked: the service accepts requests only after a successful refresh
			vs.Label(op.String())
			r, err := h.inv.Reserve(orderID(slot.Order), h.specs[slot.Group.Name])
			atGrant := ""
			if err == nil {
				atGrant = fmtGroup(r.Resources())
			}
			h.lock()
			if err == nil {
				rec.granted, rec.resv, rec.atGrant = true, r, atGrant
			}
			rec.err = errName(err)
			rec.done = true
			h.unlock()
		})
	case opUnreserve:
		h.goClient(func() {
			vs.Label(op.String())
			e := errName(h.inv.Unreserve(orderID(op.Arg)))
			h.lock()
			rec.err = e
			rec.done = true
			h.unlock()
		})
	case opStatus:
		h.goClient(func() {
			vs.Label(op.String())
			st, err := h.inv.Status(context.Background())
			so := &statusObs{err: errName(err)}
			if err == nil && st.Error != nil {
				so.err = "status.Error: " + st.Error.Error()
			}
			so.active, so.pending, so.available = fmtUnitsList(st.Active), fmtUnitsList(st.Pending), fmtUnitsList(st.Available)
			h.lock()
			rec.status = so
			rec.done = true
			h.unlock()
		})
	case opLookup:
		slot := h.cfg.Slots[op.Arg]
		h.goClient(func() {
			vs.Label(op.String())
			r, err := h.inv.Lookup(orderID(slot.Order), h.specs[slot.Group.Name])
			found := ""
			if err == nil {
				found = fmtGroup(r.Resources())
			}
			h.lock()
			rec.err = errName(err)
			rec.atGrant = found // (for a lookup: rendering of the reservation that was found)
			rec.done = true
			h.unlock()
		})
	case opDeployed, opNotDeployed:
		slot := h.cfg.Slots[op.Arg]
		status := event.ClusterDeploymentDeployed
		if op.Kind == opNotDeployed {
			status = event.ClusterDeploymentPending
		}
		h.goClient(func() {
			vs.Label(op.String())
			e := errName(h.bus.Publish(event.ClusterDeployment{
				LeaseID: leaseID(slot.Order),
				Group:   &manifest.Group{Name: slot.Group.Name},
				Status:  status,
			}))
			h.lock()
			rec.err = e
			rec.done = true
			h.unlock()
		})
	case opRefresh, opRefreshErr:
		call := h.latestCall()
		if call == nil {
			vs.Fatalf("C12 harness: refresh without a pending Inventory() call")
		}
		call.res = invResult{err: errScriptedInventory}
		if op.Kind == opRefresh {
			call.res = invResult{nodes: realNodes(h.cfg.NodeSets[op.Arg])}
		}
		call.id = op.String()
		call.answered = true
		rec.done = true
		if call.ch != nil {
			close(call.ch) // free-running pass: the parked Inventory() call returns
		}
	}
}

// ---------------------------------------------------------------------------------------------
// Reference model: a plain list of outstanding reservations. Where the statement does not say WHICH
// of several indistinguishable-by-name reservations an event or a release affects (two reservations of
// the same order), every possibility is kept as a candidate list; an observation that fits no
// candidate is a violation.

type mres struct {
	id       int // index of the reserve operation in the log
	slot     int
	deployed bool
	amount   string // as first reported by status ("" = not yet reported)
}

type cand struct{ res []mres }

func (c *cand) clone() *cand { return &cand{res: append([]mres(nil), c.res...)} }

func (c *cand) sig() string {
	var b strings.Builder
	for _, r := range c.res {
		fmt.Fprintf(&b, "%d:%v:%s;", r.id, r.deployed, r.amount)
	}
	return b.String()
}

func dedupe(cs []*cand) []*cand {
	seen := map[string]bool{}
	var out []*cand
	for _, c := range cs {
		if s := c.sig(); !seen[s] {
			seen[s] = true
			out = append(out, c)
		}
	}
	return out
}

type violations struct {
	list []string
	seen map[string]bool
}

func (v *violations) add(sig, format string, args ...any) {
	if v.seen == nil {
		v.seen = map[string]bool{}
	}
	if v.seen[sig] {
		return
	}
	v.seen[sig] = true
	v.list = append(v.list, sig+": "+fmt.Sprintf(format, args...))
}

func (h *state) sameTarget(a, b int) bool {
	sa, sb := h.cfg.Slots[a], h.cfg.Slots[b]
	return sa.Order == sb.Order && sa.Group.Name == sb.Group.Name
}

// committedRendering: how fmtGroup prints the reservation a reserve(slot) creates (oracle's own commit scaling).
func (h *state) committedRendering(slot int) string {
	g := h.cfg.Slots[slot].Group
	cg := GroupSpec{Name: g.Name}
	for _, u := range g.Units {
		cg.Units = append(cg.Units, UnitSpec{V: commitVec(h.cfg.Commit, u.V), Count: u.Count, Endpoints: u.Endpoints})
	}
	return fmtGroup(realGroup(cg))
}

func (h *state) opsUpTo(k int) string {
	var p []string
	for i := 0; i <= k && i < len(h.log); i++ {
		p = append(p, h.log[i].op.String())
	}
	return strings.Join(p, "; ")
}

// MCCoverage counts what the executions of one worker exercised (evidence only; decides nothing).
type MCCoverage struct {
	Reserves         int64    `json:"reserve_calls"`
	Granted          int64    `json:"granted"`
	Refused          int64    `json:"refused"`
	StillWaiting     int64    `json:"reserve_still_waiting_at_end"`
	GrantedLate      int64    `json:"granted_or_refused_after_waiting_for_a_refresh"`
	ReleasesOK       int64    `json:"releases_ok"`
	ReleasesNotFound int64    `json:"releases_not_found"`
	StatusCalls      int64    `json:"status_calls"`
	StatusWithTwoUp  int64    `json:"status_calls_reporting_2_or_more_entries"`
	Events           int64    `json:"deployment_events"`
	Refreshes        int64    `json:"refresh_answers"`
	RefreshErrors    int64    `json:"refresh_errors"`
	TimerRefetches   int64    `json:"inventory_calls_total"`
	MaxOutstanding   [8]int64 `json:"executions_by_max_outstanding_reservations"`
	ModelForks       int64    `json:"executions_with_ambiguous_model_candidates"`
}

func (c *MCCoverage) add(o *MCCoverage) {
	c.Reserves += o.Reserves
	c.Granted += o.Granted
	c.Refused += o.Refused
	c.StillWaiting += o.StillWaiting
	c.GrantedLate += o.GrantedLate
	c.ReleasesOK += o.ReleasesOK
	c.ReleasesNotFound += o.ReleasesNotFound
	c.StatusCalls += o.StatusCalls
	c.StatusWithTwoUp += o.StatusWithTwoUp
	c.Events += o.Events
	c.Refreshes += o.Refreshes
	c.RefreshErrors += o.RefreshErrors
	c.TimerRefetches += o.TimerRefetches
	c.ModelForks += o.ModelForks
	for i := range c.MaxOutstanding {
		c.MaxOutstanding[i] += o.MaxOutstanding[i]
	}
}

var mcCov MCCoverage

// twin table (cross-execution, per process): see checkTwins.
type twinEntry struct {
	val     string
	choices []uint8
	p       int
	depth   int
}

var twinTable = map[uint64]*twinEntry{}

func hash64(s string) uint64 {
	f := fnv.New64a()
	f.Write([]byte(s))
	return f.Sum64()
}

func (h *state) answer(rec *opRec, asOf int) string {
	switch rec.op.Kind {
	case opReserve:
		if !rec.done || rec.seenDoneAt >= asOf {
			return "waiting"
		}
		if rec.granted {
			return "granted"
		}
		return "refused:" + rec.err
	case opStatus:
		return rec.status.String()
	case opRefresh, opRefreshErr:
		return "-"
	case opLookup:
		if rec.err == "" {
			return "found:" + rec.atGrant
		}
		return "err:" + rec.err
	default:
		if rec.err == "" {
			return "ok"
		}
		return "err:" + rec.err
	}
}

func (h *state) check(r *vs.Result) (string, []string) {
	var v violations
	if h.startErr != "" {
		v.add("harness:start", "%s", h.startErr)
		return "start-error", v.list
	}
	n := len(h.log)
	for _, rec := range h.log {
		if rec.done && rec.seenDoneAt < 0 {
			rec.seenDoneAt = n - 1
		}
		if rec.granted && rec.mutatedAt < 0 {
			if now := fmtGroup(rec.resv.Resources()); now != rec.atGrant {
				rec.mutatedAt, rec.mutatedNow = n-1, now
			}
		}
	}
	h.checkSpecs(n - 1)
	if r.Status != vs.StatusDone {
		// deadlock / panic: reported by the engine itself; the model is not evaluated on a broken run
		return "status=" + r.Status.String(), nil
	}

	cfg := h.cfg
	slotItems := make([][]Vec, len(cfg.Slots))
	slotPorts := make([]int, len(cfg.Slots))
	for i, s := range cfg.Slots {
		slotItems[i], slotPorts[i] = s.Group.items(cfg.Commit)
	}
	cands := []*cand{{}}
	var inv []Vec
	reported := false

	grant := func(rec *opRec, id, k int) {
		slot := rec.op.Arg
		var keep []*cand
		reason := ""
		for _, c := range cands {
			items := append([]Vec(nil), slotItems[slot]...)
			ports := slotPorts[slot]
			free := int(cfg.Ports)
			for _, m := range c.res {
				if m.deployed {
					free -= slotPorts[m.slot]
				} else {
					items = append(items, slotItems[m.slot]...)
					ports += slotPorts[m.slot]
				}
			}
			c2 := c.clone()
			c2.res = append(c2.res, mres{id: id, slot: slot})
			switch {
			case ports > free:
				if reason == "" {
					reason = fmt.Sprintf("ports: not-yet-deployed reservations + the new one need %d external ports, %d are free", ports, free)
				}
			case !packable(inv, items):
				reason = fmt.Sprintf("capacity: instances %v cannot be placed on the last reported availability %v (reported=%v)", items, inv, reported)
			default:
				keep = append(keep, c2)
			}
		}
		if len(keep) == 0 {
			kind := "capacity"
			if strings.HasPrefix(reason, "ports") {
				kind = "ports"
			}
			v.add("granted-unpackable:"+kind, "after [%s] %s was GRANTED although %s", h.opsUpTo(k), rec.op, reason)
			for _, c := range cands {
				c.res = append(c.res, mres{id: id, slot: slot})
			}
			return
		}
		cands = dedupe(keep)
	}

	maxOut, forked := 0, false
	for k, rec := range h.log {
		switch rec.op.Kind {
		case opReserve:
			// evaluated below, at the operation during which it completed
			mcCov.Reserves++
			switch {
			case !rec.done:
				mcCov.StillWaiting++
			case rec.granted:
				mcCov.Granted++
			default:
				mcCov.Refused++
			}
			if rec.done && rec.seenDoneAt > k {
				mcCov.GrantedLate++
			}
		case opUnreserve:
			var keep []*cand
			ok := rec.err == ""
			if ok {
				mcCov.ReleasesOK++
			} else {
				mcCov.ReleasesNotFound++
			}
			for _, c := range cands {
				var idx []int
				for i, m := range c.res {
					if cfg.Slots[m.slot].Order == rec.op.Arg {
						idx = append(idx, i)
					}
				}
				if !ok {
					if len(idx) == 0 {
						keep = append(keep, c)
					}
					continue
				}
				for _, i := range idx {
					c2 := &cand{}
					c2.res = append(c2.res, c.res[:i]...)
					c2.res = append(c2.res, c.res[i+1:]...)
					keep = append(keep, c2)
				}
			}
			switch {
			case len(keep) > 0:
				cands = dedupe(keep)
			case ok:
				v.add("release-succeeded-without-reservation", "after [%s] the release returned success although no reservation of that order is outstanding", h.opsUpTo(k))
			case rec.err == "reservation not found":
				v.add("release-not-found-but-outstanding", "after [%s] the release returned %q although a granted, unreleased reservation of that order exists", h.opsUpTo(k), rec.err)
			default:
				v.add("release-failed", "after [%s] the release returned %q", h.opsUpTo(k), rec.err)
			}
		case opDeployed, opNotDeployed:
			mcCov.Events++
			if rec.err != "" {
				v.add("harness:publish-failed", "after [%s] bus.Publish returned %q", h.opsUpTo(k), rec.err)
			}
			var next []*cand
			for _, c := range cands {
				matched := false
				for i, m := range c.res {
					if h.sameTarget(m.slot, rec.op.Arg) {
						matched = true
						c2 := c.clone()
						c2.res[i].deployed = rec.op.Kind == opDeployed
						next = append(next, c2)
					}
				}
				if !matched {
					next = append(next, c)
				}
			}
			cands = dedupe(next)
		case opLookup:
			// found <=> a granted, unreleased reservation of exactly this order (full id) and group is outstanding;
			// what is found is that reservation (the committed amounts of the slot's group, oracle's scaling)
			var keep []*cand
			found := rec.err == ""
			for _, c := range cands {
				has := false
				for _, m := range c.res {
					if h.sameTarget(m.slot, rec.op.Arg) {
						has = true
					}
				}
				if has == found {
					keep = append(keep, c)
				}
			}
			switch {
			case !found && rec.err != "reservation not found":
				v.add("lookup-failed", "after [%s] %s returned %q", h.opsUpTo(k), rec.op, rec.err)
			case len(keep) == 0 && found:
				v.add("lookup-found-unknown-reservation", "after [%s] %s found %s although no granted, unreleased reservation of that order and group exists", h.opsUpTo(k), rec.op, rec.atGrant)
			case len(keep) == 0:
				v.add("lookup-missed-outstanding-reservation", "after [%s] %s returned %q although the reservation of that order and group was granted and not released", h.opsUpTo(k), rec.op, rec.err)
			default:
				cands = keep
				if want := h.committedRendering(rec.op.Arg); found && rec.atGrant != want {
					v.add("lookup-wrong-reservation", "after [%s] %s found %s; the reservation of that order holds %s", h.opsUpTo(k), rec.op, rec.atGrant, want)
				}
			}
		case opRefresh:
			inv = cfg.NodeSets[rec.op.Arg]
			reported = true
			mcCov.Refreshes++
		case opRefreshErr:
			mcCov.RefreshErrors++
		case opStatus:
			so := rec.status
			if so == nil {
				v.add("harness:status-missing", "status operation %d has no result", k)
				break
			}
			if so.err != "" {
				v.add("status-error", "after [%s] status failed: %s", h.opsUpTo(k), so.err)
				break
			}
			mcCov.StatusCalls++
			if len(so.active)+len(so.pending) >= 2 {
				mcCov.StatusWithTwoUp++
			}
			var want []string
			for _, a := range inv {
				want = append(want, a.String())
			}
			if fmt.Sprint(want) != fmt.Sprint(so.available) {
				v.add("harness:status-available-differs-from-last-report", "after [%s] status.Available=%v, last answered refresh=%v", h.opsUpTo(k), so.available, want)
			}
			var keep, countOK []*cand
			amountMsg := ""
			for _, c := range cands {
				c2 := c.clone()
				var act, pend []*mres
				for i := range c2.res {
					if c2.res[i].deployed {
						act = append(act, &c2.res[i])
					} else {
						pend = append(pend, &c2.res[i])
					}
				}
				if len(act) != len(so.active) || len(pend) != len(so.pending) {
					continue
				}
				good := true
				cmp := func(ms []*mres, got []string, what string) {
					for i, m := range ms {
						if m.amount != "" && m.amount != got[i] {
							good = false
							if amountMsg == "" {
								amountMsg = fmt.Sprintf("%s reservation #%d (%s, granted by operation %d) was reported as %s before and as %s now", what, i, cfg.Slots[m.slot].Group, m.id, m.amount, got[i])
							}
						}
						m.amount = got[i]
					}
				}
				cmp(act, so.active, "active")
				cmp(pend, so.pending, "pending")
				countOK = append(countOK, c2)
				if good {
					keep = append(keep, c2)
				}
			}
			switch {
			case len(keep) > 0:
				cands = dedupe(keep)
			case len(countOK) > 0:
				v.add("status-amounts-differ", "after [%s] %s", h.opsUpTo(k), amountMsg)
				cands = dedupe(countOK)
			default:
				c := cands[0]
				a, p := 0, 0
				for _, m := range c.res {
					if m.deployed {
						a++
					} else {
						p++
					}
				}
				v.add("status-entries-mismatch", "after [%s] status reports %d active + %d pending entries; granted and not released: %d deployed + %d not deployed", h.opsUpTo(k), len(so.active), len(so.pending), a, p)
			}
		}
		if len(cands) > 1 {
			forked = true
		}
		if n := len(cands[0].res); n > maxOut {
			maxOut = n
		}
		for id, rr := range h.log {
			if rr.op.Kind == opReserve && rr.done && rr.seenDoneAt == k {
				if rr.granted {
					grant(rr, id, k)
				} else if rr.err != "insufficient-capacity" {
					v.add("reserve-failed", "after [%s] %s returned %q", h.opsUpTo(k), rr.op, rr.err)
				}
			}
		}
	}

	if n := len(cands[0].res); n > maxOut {
		maxOut = n
	}
	if maxOut > 7 {
		maxOut = 7
	}
	mcCov.MaxOutstanding[maxOut]++
	if forked {
		mcCov.ModelForks++
	}
	// Inventory() calls beyond the first one and beyond one per answered refresh were started by the poll timer / an event
	mcCov.TimerRefetches += int64(len(h.calls))

	// a value handed out by reserve() must not change while the reservation is outstanding
	for id, rec := range h.log {
		if !rec.granted || rec.mutatedAt < 0 {
			continue
		}
		released := false
		for k := id + 1; k <= rec.mutatedAt && k < n; k++ {
			o := h.log[k]
			if o.op.Kind == opUnreserve && o.err == "" && o.op.Arg == cfg.Slots[rec.op.Arg].Order {
				released = true
			}
		}
		if !released {
			by := h.log[rec.mutatedAt].op.String()
			kind := "other"
			if h.log[rec.mutatedAt].op.Kind == opStatus {
				kind = "status"
			}
			v.add("reservation-amounts-mutated:by-"+kind, "the reservation granted by operation %d (%s) held %s when reserve() returned and holds %s after [%s] (changed during %s)", id, rec.op, rec.atGrant, rec.mutatedNow, h.opsUpTo(rec.mutatedAt), by)
		}
	}

	if h.specMutAt >= 0 {
		v.add("caller-spec-mutated", "the group specification %q handed to reserve() was %s before any call and is %s after [%s] (changed during %s): the service modified the caller's request object",
			h.specMutName, h.specWant[h.specMutName], h.specMutNow, h.opsUpTo(h.specMutAt), h.log[h.specMutAt].op)
	}

	h.checkTwins(r, &v)

	var obs []string
	for _, rec := range h.log {
		obs = append(obs, rec.op.String()+"="+h.answer(rec, n))
	}
	return strings.Join(obs, " | "), v.list
}

// checkTwins decides "read-only status queries never change them" as stated: two operation
// sequences that differ only in status queries must give the same answers to every other operation
// (and to a final status probe). Every prefix of every execution is reduced to its non-status
// operations (each with the number of Inventory() calls the service had started when it was issued,
// which pins the poll-timer firings); the answers known at that point are stored under that key, and a
// later execution with the same key must have the same answers.
func (h *state) checkTwins(r *vs.Result, v *violations) {
	n := len(h.log)
	for p := 0; p <= n; p++ {
		full := p == n
		if p < n && h.log[p].forced && h.log[p].op.Kind == opStatus {
			continue // the prefix that ends right before the final probe is covered by the full one
		}
		var key, val []string
		key = append(key, h.cfg.Name)
		for i := 0; i < p; i++ {
			rec := h.log[i]
			probe := rec.forced && rec.op.Kind == opStatus
			if rec.op.Kind == opStatus && !probe {
				continue
			}
			if probe {
				key = append(key, "probe")
				val = append(val, h.answer(rec, n))
				continue
			}
			key = append(key, fmt.Sprintf("%s@%d", rec.op, rec.ncalls))
			val = append(val, h.answer(rec, p))
		}
		if full {
			key = append(key, fmt.Sprintf("end@%d", len(h.calls)))
		}
		ks, vals := strings.Join(key, ";"), strings.Join(val, ";")
		hk := hash64(ks)
		if e, ok := twinTable[hk]; ok {
			if e.val != vals {
				var tc []string
				for _, c := range e.choices {
					tc = append(tc, fmt.Sprint(c))
				}
				v.add("status-changes-later-answers", "two operation sequences that differ only in status queries were answered differently: this one [%s] (first %d operations) => [%s]; the other => [%s] twin=%s twindepth=%d twinprefix=%d",
					h.opsUpTo(n-1), p, vals, e.val, strings.Join(tc, ","), e.depth, e.p)
				return
			}
			continue
		}
		ch := make([]uint8, len(r.Choices))
		for i, c := range r.Choices {
			ch[i] = uint8(c)
		}
		twinTable[hk] = &twinEntry{val: vals, choices: ch, p: p, depth: h.depth}
	}
}

// signatureOf extracts the stable signature of a violation message.
func signatureOf(msg string) string {
	switch {
	case strings.HasPrefix(msg, "panic in goroutine"):
		return "panic"
	case strings.HasPrefix(msg, "deadlock:"):
		return "deadlock"
	}
	if i := strings.Index(msg, ": "); i > 0 {
		return msg[:i]
	}
	return msg
}

func sortedKeys(m map[string]bool) []string {
	var out []string
	for k := range m {
		out = append(out, k)
	}
	sort.Strings(out)
	return out
}
