package main

// Supplementary free-running pass (DESIGN 3.2; `checks/C12 race`): the SAME harness body, scripted cluster
// client and operation alphabet run with real goroutines, real channels and the real clock - no execution is
// active, so every vs.* call of the instrumented code (inventory.go, bus.go, runner.go, go-lifecycle) falls
// through to the plain Go operation. Built with -race, this gives the race detector a chance on the engine's
// premise (shared state - reservations, ResourceUnits, the caller-owned group specifications, the inventory
// snapshot - is only touched around channel/select operations); under the cooperative scheduler every hand-off
// is a happens-before edge and the detector is blind. The pass DECIDES NOTHING about C12: it is not exhaustive,
// its environment picks operations pseudo-randomly, sometimes waits for an operation to finish and sometimes
// fires the next one at once, the poll timer is a real 300 microsecond timer, and a run that has not come to
// rest within a generous horizon is counted as inconclusive, never as a violation. Only the clauses that do
// not depend on the timing of event delivery are evaluated (see checkFree).

import (
	"fmt"
	"math/rand"
	"os"
	"runtime"
	"strings"
	"sync"
	"time"

	"verif.local/gosched/vs"
)

const (
	freeHorizon    = 5 * time.Second
	freePollPeriod = 300 * time.Microsecond
)

// freeRun is the extra per-run state of a free-running instance. The harness's own bookkeeping (operation log,
// list of Inventory() calls) is shared between real goroutines here, so it is guarded by mu; in controlled
// executions state.free is nil and lock/unlock do nothing (one goroutine runs at a time).
type freeRun struct {
	mu      sync.Mutex
	rng     *rand.Rand
	clients sync.WaitGroup // operations that must return
	daemons sync.WaitGroup // reserve calls (may wait for a refresh; return at the latest when the service stops)
	envs    sync.WaitGroup
	gaveUp  bool
}

// freeDepth: operations per free-running run (C12_FREE_DEPTH, default 12 - sequences are cheap here, and longer
// ones give the detector more to look at than the depth of the exhaustive tiers).
func freeDepth(cfgDepth int) int {
	d := 12
	if v := os.Getenv("C12_FREE_DEPTH"); v != "" {
		fmt.Sscanf(v, "%d", &d)
	}
	if d < cfgDepth {
		d = cfgDepth
	}
	return d
}

// what the free runs exercised (printed in the summary; decides nothing)
var freeCov struct{ ops, granted, refused, waiting, statuses, events, refreshes, invCalls int }

// C12_FREE_NOLOCK=1 drops the guard around the harness's own bookkeeping: the detector must then report races
// (in mc.go / free.go) - a liveness test of the pass itself, see `checks/C12 race-selftest`.
var freeNoLock = os.Getenv("C12_FREE_NOLOCK") != ""

func (h *state) lock() {
	if h.free != nil && !freeNoLock {
		h.free.mu.Lock()
	}
}

func (h *state) unlock() {
	if h.free != nil && !freeNoLock {
		h.free.mu.Unlock()
	}
}

// goClient / goDaemon: vs.Go / vs.GoDaemon in controlled executions, tracked real goroutines otherwise.
func (h *state) goClient(f func()) {
	if h.free == nil {
		vs.Go(f)
		return
	}
	h.free.clients.Add(1)
	go func() { defer h.free.clients.Done(); f() }()
}

func (h *state) goDaemon(f func()) {
	if h.free == nil {
		vs.GoDaemon(f)
		return
	}
	h.free.daemons.Add(1)
	go func() { defer h.free.daemons.Done(); f() }()
}

func (f *freeRun) startEnv(h *state) {
	f.envs.Add(1)
	go func() { defer f.envs.Done(); h.environmentFree() }()
}

// environmentFree is the environment goroutine without a scheduler: preamble refresh (if configured), `depth`
// pseudo-randomly chosen operations from the same menu, final status probe. Between operations it sometimes
// lets the system settle (waits for the previous operation to return) and sometimes does not.
func (h *state) environmentFree() {
	f := h.free
	// the service starts an inventory fetch at once: wait for that call
	start := time.Now()
	for {
		h.lock()
		n := len(h.calls)
		h.unlock()
		if n > 0 {
			break
		}
		if time.Since(start) > freeHorizon {
			f.gaveUp = true
			return
		}
		time.Sleep(20 * time.Microsecond)
	}
	chosen := 0
	for turn := 0; ; turn++ {
		switch f.rng.Intn(5) {
		case 0: // at once: the next operation lands while the system is still busy
		case 1:
			runtime.Gosched()
		case 2:
			time.Sleep(time.Duration(f.rng.Intn(150)) * time.Microsecond)
		default: // let the previous operation return (a reserve may legitimately keep waiting: bounded wait)
			deadline := time.Now().Add(2 * time.Millisecond)
			for time.Now().Before(deadline) {
				h.lock()
				done := len(h.log) == 0 || h.log[len(h.log)-1].done
				h.unlock()
				if done {
					break
				}
				time.Sleep(10 * time.Microsecond)
			}
		}
		h.lock()
		h.observe()
		switch {
		case turn == 0 && h.cfg.Initial >= 0 && h.latestCall() != nil:
			h.fire(Op{opRefresh, h.cfg.Initial}, true)
		case chosen >= h.depth:
			h.fire(Op{opStatus, 0}, true) // final probe
			h.unlock()
			return
		default:
			m := h.menu()
			h.fire(m[f.rng.Intn(len(m))], false)
			chosen++
		}
		h.unlock()
	}
}

func waitWG(wg *sync.WaitGroup, d time.Duration) bool {
	done := make(chan struct{})
	go func() { wg.Wait(); close(done) }()
	t := time.NewTimer(d)
	defer t.Stop()
	select {
	case <-done:
		return true
	case <-t.C:
		return false
	}
}

// checkFree evaluates the clauses of the oracle that hold whatever the timing of event delivery and refresh
// consumption was: a value handed out by reserve() never changes; the caller-owned group specifications never
// change; status never fails and every amount it reports is the committed amount of one of the configuration's
// groups (the oracle's own scaling). Grants, entry counts and the active/pending split are NOT judged here.
func (h *state) checkFree() (string, []string) {
	var v violations
	n := len(h.log)
	h.checkSpecs(n - 1)
	if h.specMutAt >= 0 {
		v.add("free:caller-spec-mutated", "the group specification %q handed to reserve() was %s before any call and is %s now", h.specMutName, h.specWant[h.specMutName], h.specMutNow)
	}
	legit := map[string]bool{}
	for _, sl := range h.cfg.Slots {
		var sum Vec
		for _, u := range sl.Group.Units {
			cv := commitVec(h.cfg.Commit, u.V)
			for k := 0; k < 3; k++ {
				sum[k] += cv[k]
			}
		}
		legit[sum.String()] = true
	}
	var obs []string
	for k, rec := range h.log {
		if rec.granted {
			if now := fmtGroup(rec.resv.Resources()); now != rec.atGrant {
				v.add("free:reservation-amounts-mutated", "the reservation granted by operation %d (%s) held %s when reserve() returned and holds %s at the end of [%s]", k, rec.op, rec.atGrant, now, h.opsUpTo(n-1))
			}
		}
		if rec.op.Kind == opStatus && rec.done && rec.status != nil {
			if rec.status.err != "" {
				v.add("free:status-error", "operation %d: status failed: %s", k, rec.status.err)
			}
			for _, a := range append(append([]string{}, rec.status.active...), rec.status.pending...) {
				if !legit[a] {
					v.add("free:status-amount-unknown", "operation %d: status reports the amount %s, which is the committed amount of no group of this configuration (%v)", k, a, legit)
				}
			}
		}
		obs = append(obs, rec.op.String()+"="+h.answer(rec, n))
		freeCov.ops++
		switch rec.op.Kind {
		case opReserve:
			switch {
			case !rec.done:
				freeCov.waiting++
			case rec.granted:
				freeCov.granted++
			default:
				freeCov.refused++
			}
		case opStatus:
			freeCov.statuses++
		case opDeployed, opNotDeployed:
			freeCov.events++
		case opRefresh, opRefreshErr:
			freeCov.refreshes++
		}
	}
	freeCov.invCalls += len(h.calls)
	return strings.Join(obs, " | "), v.list
}

// runFree executes one configuration once, free-running. Result: "clean", "inconclusive", or safety violations.
func runFree(cfg *MCConfig, depth int, seed int64) (status string, obs string, viol []string) {
	h := newState(cfg, depth)
	h.free = &freeRun{rng: rand.New(rand.NewSource(seed))}
	h.body()
	if h.startErr != "" {
		return "inconclusive", h.startErr, nil
	}
	finished := waitWG(&h.free.envs, 2*freeHorizon) && waitWG(&h.free.clients, freeHorizon)
	if finished && !h.free.gaveUp {
		time.Sleep(time.Duration(h.free.rng.Intn(300)) * time.Microsecond) // events still in flight, timer firings
		h.lock()
		obs, viol = h.checkFree()
		h.unlock()
	}
	// stop the service (reserve calls still waiting return ErrNotRunning), answer what is still pending, stop the bus
	close(h.donech)
	h.lock()
	for _, c := range h.calls {
		if !c.answered {
			c.res, c.id, c.answered = invResult{err: errScriptedInventory}, "shutdown", true
			close(c.ch)
		}
	}
	h.unlock()
	// (a fetch started between the snapshot above and the service's exit is answered here)
	stop := make(chan struct{})
	go func() {
		for {
			select {
			case <-stop:
				return
			default:
			}
			h.lock()
			for _, c := range h.calls {
				if !c.answered {
					c.res, c.id, c.answered = invResult{err: errScriptedInventory}, "shutdown", true
					close(c.ch)
				}
			}
			h.unlock()
			time.Sleep(50 * time.Microsecond)
		}
	}()
	drained := waitWG(&h.free.daemons, freeHorizon)
	h.bus.Close()
	time.Sleep(200 * time.Microsecond)
	close(stop)
	if !finished || h.free.gaveUp || !drained {
		return "inconclusive", "", nil
	}
	if len(viol) > 0 {
		return "violation", obs, viol
	}
	return "clean", obs, nil
}

// doFree runs every MC configuration of the tier (or the one named) n times. Exit 0 clean, 1 safety violation
// seen; the race detector makes the process exit 66 by itself when it has reported a race.
func doFree(tier, only string, n int) int {
	start := time.Now()
	var nconf, runs, clean, inconclusive, bad int
	outcomes := map[string]bool{}
	for ci, c := range mcConfigs {
		if only != "" {
			if "mc:"+c.Name != only && c.Name != only {
				continue
			}
		} else if !(c.Tier == "quick" || tier == "thorough") {
			continue
		}
		nconf++
		depth := freeDepth(c.depth(tier))
		cClean, cInc, cBad := 0, 0, 0
		for i := 0; i < n; i++ {
			runs++
			status, obs, viol := runFree(c, depth, int64(ci)*1000003+int64(i))
			switch status {
			case "clean":
				clean++
				cClean++
				outcomes[c.Name+"|"+obs] = true
			case "inconclusive":
				inconclusive++
				cInc++
			default:
				bad++
				cBad++
				fmt.Printf("free-running %s run %d: %v\n    %s\n", c.Name, i, viol, obs)
			}
		}
		fmt.Printf("%-28s depth=%d runs=%d clean=%d inconclusive=%d safety-violations=%d\n", c.Name, depth, n, cClean, cInc, cBad)
	}
	fmt.Printf("c12: free-running pass (supplementary, decides nothing): tier=%s configurations=%d runs=%d clean=%d inconclusive=%d safety-violations=%d distinct-outcomes=%d goroutines-left=%d wall=%.1fs\n",
		tier, nconf, runs, clean, inconclusive, bad, len(outcomes), runtime.NumGoroutine(), time.Since(start).Seconds())
	fmt.Printf("c12: free runs exercised: operations=%d reserve granted/refused/still-waiting=%d/%d/%d status=%d deployment-events=%d refresh-answers=%d Inventory()-calls=%d (the surplus over refresh answers was started by the poll timer or an event)\n",
		freeCov.ops, freeCov.granted, freeCov.refused, freeCov.waiting, freeCov.statuses, freeCov.events, freeCov.refreshes, freeCov.invCalls)
	fmt.Fprintln(os.Stderr, "c12: (races, if any, are printed above by the race detector; the process then exits 66 instead of 0)")
	if bad > 0 {
		return 1
	}
	return 0
}
