package main

import (
	"fmt"
	"sort"
	"strings"

	sdk "github.com/cosmos/cosmos-sdk/types"

	ctypes "github.com/ovrclk/akash/provider/cluster/types"
	atypes "github.com/ovrclk/akash/types"
	dtypes "github.com/ovrclk/akash/x/deployment/types"
	mtypes "github.com/ovrclk/akash/x/market/types"

	"github.com/ovrclk/akash/provider/cluster"
)

// ---------------------------------------------------------------------------------------------
// Oracle-side representation: plain integers. Nothing here calls the arithmetic under test.

// Vec is (cpu, memory, storage).
type Vec [3]uint64

func (v Vec) String() string { return fmt.Sprintf("%d/%d/%d", v[0], v[1], v[2]) }

func (v Vec) le(w Vec) bool { return v[0] <= w[0] && v[1] <= w[1] && v[2] <= w[2] }

// UnitSpec is one resource unit of a group: amounts per instance, instance count, endpoints.
type UnitSpec struct {
	V         Vec    `json:"v"`
	Count     uint32 `json:"count"`
	Endpoints int    `json:"endpoints"`
}

// GroupSpec is a resource group (what a reservation is asked for).
type GroupSpec struct {
	Name  string     `json:"name"`
	Units []UnitSpec `json:"units"`
}

func (g GroupSpec) String() string {
	var b strings.Builder
	b.WriteString(g.Name + "[")
	for i, u := range g.Units {
		if i > 0 {
			b.WriteString(" ")
		}
		fmt.Fprintf(&b, "%sx%d", u.V, u.Count)
		if u.Endpoints > 0 {
			fmt.Fprintf(&b, "+%dep", u.Endpoints)
		}
	}
	b.WriteString("]")
	return b.String()
}

// commitScale is the oracle's reading of "scaled by the provider's configured commit level": a level
// <= 1 leaves the amount unchanged (no under-commit); a level L > 1 divides by L, rounds to the nearest
// integer (half away from zero) and never yields 0. Integer levels only (the configurations use 1 and 2).
func commitScale(level float64, v uint64) uint64 {
	if level <= 1.0 {
		return v
	}
	l := uint64(level)
	if float64(l) != level {
		panic("commitScale: integer commit levels only")
	}
	c := (2*v + l) / (2 * l)
	if c == 0 {
		c = 1
	}
	return c
}

func commitVec(levels [3]float64, v Vec) Vec {
	return Vec{commitScale(levels[0], v[0]), commitScale(levels[1], v[1]), commitScale(levels[2], v[2])}
}

// items expands a group into one committed Vec per instance; ports = endpoints per unit (not per instance).
func (g GroupSpec) items(levels [3]float64) (items []Vec, ports int) {
	for _, u := range g.Units {
		cv := commitVec(levels, u.V)
		for i := uint32(0); i < u.Count; i++ {
			items = append(items, cv)
		}
		ports += u.Endpoints
	}
	return
}

// packable is the exact bin-packing oracle: can every item be assigned to a node such that, per node
// and per dimension, the assigned amounts do not exceed the node's capacity? Brute force over the number
// of copies of each distinct item placed on each node.
func packable(caps []Vec, items []Vec) bool {
	if len(items) == 0 {
		return true
	}
	type ty struct {
		v Vec
		m int
	}
	var tys []ty
	sorted := append([]Vec(nil), items...)
	sort.Slice(sorted, func(i, j int) bool {
		a, b := sorted[i], sorted[j]
		for k := 0; k < 3; k++ {
			if a[k] != b[k] {
				return a[k] > b[k]
			}
		}
		return false
	})
	for _, it := range sorted {
		if n := len(tys); n > 0 && tys[n-1].v == it {
			tys[n-1].m++
		} else {
			tys = append(tys, ty{it, 1})
		}
	}
	rem := append([]Vec(nil), caps...)
	var place func(ti, node, left int) bool
	place = func(ti, node, left int) bool {
		if left == 0 {
			if ti+1 == len(tys) {
				return true
			}
			return place(ti+1, 0, tys[ti+1].m)
		}
		if node == len(rem) {
			return false
		}
		v := tys[ti].v
		// how many copies fit on this node
		max := left
		for k := 0; k < 3; k++ {
			if v[k] > 0 {
				if f := int(rem[node][k] / v[k]); f < max {
					max = f
				}
			}
		}
		for n := max; n >= 0; n-- {
			for k := 0; k < 3; k++ {
				rem[node][k] -= uint64(n) * v[k]
			}
			ok := place(ti, node+1, left-n)
			for k := 0; k < 3; k++ {
				rem[node][k] += uint64(n) * v[k]
			}
			if ok {
				return true
			}
		}
		return false
	}
	return place(0, 0, tys[0].m)
}

// ---------------------------------------------------------------------------------------------
// Construction of the real values handed to the implementation (fresh objects on every call: the
// implementation may alias or mutate what it is given).

func rv(v uint64) atypes.ResourceValue { return atypes.ResourceValue{Val: sdk.NewIntFromUint64(v)} }

func realUnits(v Vec, endpoints int) atypes.ResourceUnits {
	ru := atypes.ResourceUnits{
		CPU:     &atypes.CPU{Units: rv(v[0])},
		Memory:  &atypes.Memory{Quantity: rv(v[1])},
		Storage: &atypes.Storage{Quantity: rv(v[2])},
	}
	if endpoints > 0 {
		ru.Endpoints = make([]atypes.Endpoint, endpoints)
	}
	return ru
}

func realGroup(g GroupSpec) *dtypes.GroupSpec {
	out := &dtypes.GroupSpec{Name: g.Name}
	for _, u := range g.Units {
		out.Resources = append(out.Resources, dtypes.Resource{Resources: realUnits(u.V, u.Endpoints), Count: u.Count})
	}
	return out
}

func realNodes(avail []Vec) []ctypes.Node {
	out := make([]ctypes.Node, 0, len(avail))
	for i, a := range avail {
		// "allocateable" (total capacity) is irrelevant to the placement decision; report twice the availability
		tot := Vec{2 * a[0], 2 * a[1], 2 * a[2]}
		out = append(out, cluster.NewNode(fmt.Sprintf("node%d", i), realUnits(tot, 0), realUnits(a, 0)))
	}
	return out
}

const ownerAddr = "akash1verifc12ownerxxxxxxxxxxxxxxxxxxxxxxxxxxx"
const providerAddr = "akash1verifc12providerxxxxxxxxxxxxxxxxxxxxxxxx"

// orderID: order i < 100 is <owner>/100+i/1/1; order 100*k+i is the order of the SAME deployment group with order
// sequence number 1+k (on chain: closing a lease creates order <group>/(n+1) while the reservation made for
// <group>/n is still held until teardown). The reference model is keyed by the full id (the integer).
func orderID(i int) mtypes.OrderID {
	return mtypes.OrderID{Owner: ownerAddr, DSeq: uint64(100 + i%100), GSeq: 1, OSeq: uint32(1 + i/100)}
}

func leaseID(i int) mtypes.LeaseID {
	o := orderID(i)
	return mtypes.LeaseID{Owner: o.Owner, DSeq: o.DSeq, GSeq: o.GSeq, OSeq: o.OSeq, Provider: providerAddr}
}

// ---------------------------------------------------------------------------------------------
// Rendering of real values into canonical strings (deep: nothing keeps a pointer into the value).

func fmtRV(v atypes.ResourceValue) string {
	if v.Val.IsNil() {
		return "nil"
	}
	return v.Val.String()
}

func fmtAttrs(as []atypes.Attribute) string {
	if len(as) == 0 {
		return ""
	}
	var p []string
	for _, a := range as {
		p = append(p, a.Key+"="+a.Value)
	}
	return "{" + strings.Join(p, ",") + "}"
}

func fmtUnits(u atypes.ResourceUnits) string {
	var b strings.Builder
	if u.CPU == nil {
		b.WriteString("-")
	} else {
		b.WriteString(fmtRV(u.CPU.Units) + fmtAttrs(u.CPU.Attributes))
	}
	b.WriteString("/")
	if u.Memory == nil {
		b.WriteString("-")
	} else {
		b.WriteString(fmtRV(u.Memory.Quantity) + fmtAttrs(u.Memory.Attributes))
	}
	b.WriteString("/")
	if u.Storage == nil {
		b.WriteString("-")
	} else {
		b.WriteString(fmtRV(u.Storage.Quantity) + fmtAttrs(u.Storage.Attributes))
	}
	if len(u.Endpoints) > 0 {
		fmt.Fprintf(&b, "+%dep", len(u.Endpoints))
	}
	return b.String()
}

func fmtUnitsList(us []atypes.ResourceUnits) []string {
	out := make([]string, 0, len(us))
	for _, u := range us {
		out = append(out, fmtUnits(u))
	}
	return out
}

func fmtGroup(g atypes.ResourceGroup) string {
	if g == nil {
		return "<nil>"
	}
	var p []string
	for _, r := range g.GetResources() {
		p = append(p, fmt.Sprintf("%sx%d", fmtUnits(r.Resources), r.Count))
	}
	return g.GetName() + "[" + strings.Join(p, " ") + "]"
}
