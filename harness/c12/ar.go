package main

// AR part of C12: the pure resource arithmetic (types/resource.go, types/resourcevalue.go),
// enumerated directly: for all small operands, Add/Sub must not modify their operands (deep copies
// are compared before/after), must compute the right value, and must be consistent (a+b-b == a).
// The accumulation pattern of inventoryService.getStatus (total := {}; total = total.Add(x) for each
// unit) is enumerated too: summing a list must leave every element of the list unchanged.
//
// Operand alphabet: fully populated ResourceUnits (CPU, memory, storage each in {0,1,2,3}, with or
// without an endpoint / an attribute) and, as left operand of Add only, the zero value (the empty
// accumulator). Units with nil CPU/memory/storage on the right-hand side are outside the alphabet: the
// inventory never builds them (committedResources always fills all three).

import (
	"fmt"
	"strings"

	"github.com/ovrclk/akash/provider/cluster"
	atypes "github.com/ovrclk/akash/types"
	dtypes "github.com/ovrclk/akash/x/deployment/types"
)

type arOperand struct {
	V     Vec  `json:"v"`
	Ep    int  `json:"endpoints"`
	Attr  bool `json:"attr"`
	Empty bool `json:"empty"` // the zero value ResourceUnits{}
}

func (o arOperand) String() string {
	if o.Empty {
		return "{}"
	}
	s := o.V.String()
	if o.Ep > 0 {
		s += fmt.Sprintf("+%dep", o.Ep)
	}
	if o.Attr {
		s += "+attr"
	}
	return s
}

func (o arOperand) build() atypes.ResourceUnits {
	if o.Empty {
		return atypes.ResourceUnits{}
	}
	u := realUnits(o.V, o.Ep)
	if o.Attr {
		u.CPU.Attributes = []atypes.Attribute{{Key: "arch", Value: "x"}}
		u.Storage.Attributes = []atypes.Attribute{{Key: "class", Value: "y"}}
	}
	return u
}

// render is what the oracle expects fmtUnits to print for this operand.
func (o arOperand) render() string { return fmtUnits(o.build()) }

// ArCase is one failed arithmetic case (replayable).
type ArCase struct {
	Check string      `json:"check"`
	Ops   []arOperand `json:"operands"`
	RV    []uint64    `json:"rv,omitempty"`
	// check "commit": the operands are the units of a request (Counts per unit), Commit the cpu/memory/storage levels
	Commit []float64 `json:"commit,omitempty"`
	Counts []uint32  `json:"counts,omitempty"`
}

type ArStats struct {
	Evaluations int64    `json:"evaluations"`
	Nontrivial  int64    `json:"nontrivial"`
	Failures    []ArCase `json:"failures,omitempty"`
	Messages    []string `json:"messages,omitempty"`
	NFailures   int64    `json:"n_failures"`
	WallS       float64  `json:"wall_s"`
}

func arOperands(tier string) []arOperand {
	vals := []uint64{0, 1, 2, 3}
	var out []arOperand
	for _, c := range vals {
		for _, m := range vals {
			for _, s := range vals {
				out = append(out, arOperand{V: Vec{c, m, s}})
				if tier == "thorough" || (c+m+s)%3 == 0 {
					out = append(out, arOperand{V: Vec{c, m, s}, Ep: 1})
					out = append(out, arOperand{V: Vec{c, m, s}, Attr: true})
				}
			}
		}
	}
	return out
}

func vecAdd(a, b Vec) Vec { return Vec{a[0] + b[0], a[1] + b[1], a[2] + b[2]} }

// want renders the expected result of an operation whose structure (endpoints, attributes) comes
// from `from` and whose amounts are v.
func wantUnits(from arOperand, v Vec) string {
	o := from
	o.V, o.Empty = v, false
	return o.render()
}

// runArCase evaluates one case; "" = passed. Signatures: arith-operand-mutated:<op>,
// arith-wrong-result:<op>, arith-inconsistent:add-sub, arith-sum-mutates-list, arith-error:<op>, arith-panic:<check>.
func runArCase(c ArCase) (msg string) {
	defer func() {
		if r := recover(); r != nil {
			msg = fmt.Sprintf("arith-panic:%s: %s on %v panicked: %v", c.Check, c.Check, c.Ops, r)
		}
	}()
	switch c.Check {
	case "add":
		a, b := c.Ops[0], c.Ops[1]
		ra, rb := a.build(), b.build()
		res, err := ra.Add(rb)
		if err != nil {
			return fmt.Sprintf("arith-error:ResourceUnits.Add: %v.Add(%v) failed: %v", a, b, err)
		}
		got := fmtUnits(res) // rendered before anything else can touch it
		if s := fmtUnits(ra); s != a.render() {
			return fmt.Sprintf("arith-operand-mutated:ResourceUnits.Add: x.Add(y) with x=%v y=%v changed x to %s", a, b, s)
		}
		if s := fmtUnits(rb); s != b.render() {
			return fmt.Sprintf("arith-operand-mutated:ResourceUnits.Add: x.Add(y) with x=%v y=%v changed y to %s", a, b, s)
		}
		from := a
		if a.Empty {
			from = b
			from.Ep = 0 // Add keeps the receiver's endpoints
		}
		var av Vec
		if !a.Empty {
			av = a.V
		}
		if want := wantUnits(from, vecAdd(av, b.V)); got != want {
			return fmt.Sprintf("arith-wrong-result:ResourceUnits.Add: %v.Add(%v) = %s, want %s", a, b, got, want)
		}
		// consistency: (a+b)-b == a, for a populated a
		if !a.Empty {
			back, err := res.Sub(rb)
			if err != nil {
				return fmt.Sprintf("arith-inconsistent:add-sub: (%v+%v)-%v failed: %v", a, b, b, err)
			}
			if s := fmtUnits(back); s != a.render() {
				return fmt.Sprintf("arith-inconsistent:add-sub: (%v+%v)-%v = %s, want %s", a, b, b, s, a.render())
			}
			if s := fmtUnits(res); s != got {
				return fmt.Sprintf("arith-operand-mutated:ResourceUnits.Sub: x.Sub(y) with x=%s y=%v changed x to %s", got, b, s)
			}
		}
	case "sub":
		a, b := c.Ops[0], c.Ops[1]
		ra, rb := a.build(), b.build()
		res, err := ra.Sub(rb)
		fits := b.V.le(a.V)
		if s := fmtUnits(ra); s != a.render() {
			return fmt.Sprintf("arith-operand-mutated:ResourceUnits.Sub: x.Sub(y) with x=%v y=%v changed x to %s", a, b, s)
		}
		if s := fmtUnits(rb); s != b.render() {
			return fmt.Sprintf("arith-operand-mutated:ResourceUnits.Sub: x.Sub(y) with x=%v y=%v changed y to %s", a, b, s)
		}
		if fits != (err == nil) {
			return fmt.Sprintf("arith-wrong-result:ResourceUnits.Sub: %v.Sub(%v): err=%v, want success=%v", a, b, err, fits)
		}
		if err == nil {
			want := wantUnits(a, Vec{a.V[0] - b.V[0], a.V[1] - b.V[1], a.V[2] - b.V[2]})
			got := fmtUnits(res)
			if got != want {
				return fmt.Sprintf("arith-wrong-result:ResourceUnits.Sub: %v.Sub(%v) = %s, want %s", a, b, got, want)
			}
			// consistency: (a-b)+b == a
			back, err := res.Add(rb)
			if err != nil {
				return fmt.Sprintf("arith-inconsistent:sub-add: (%v-%v)+%v failed: %v", a, b, b, err)
			}
			if s := fmtUnits(back); s != a.render() {
				return fmt.Sprintf("arith-inconsistent:sub-add: (%v-%v)+%v = %s, want %s", a, b, b, s, a.render())
			}
		}
	case "sum":
		// the accumulation of getStatus: total := {}; for each x: total = total.Add(x)
		real := make([]atypes.ResourceUnits, len(c.Ops))
		for i, o := range c.Ops {
			real[i] = o.build()
		}
		total := atypes.ResourceUnits{}
		var want Vec
		for i := range real {
			var err error
			if total, err = total.Add(real[i]); err != nil {
				return fmt.Sprintf("arith-error:ResourceUnits.Add: summing %v failed: %v", c.Ops, err)
			}
			want = vecAdd(want, c.Ops[i].V)
		}
		got := Vec{total.CPU.Units.Value(), total.Memory.Quantity.Value(), total.Storage.Quantity.Value()}
		if got != want {
			return fmt.Sprintf("arith-wrong-result:sum: sum of %v = %v, want %v", c.Ops, got, want)
		}
		for i, o := range c.Ops {
			if s := fmtUnits(real[i]); s != o.render() {
				return fmt.Sprintf("arith-sum-mutates-list: total := {}; total = total.Add(x) for x in %v changed element %d from %s to %s", c.Ops, i, o.render(), s)
			}
		}
	case "rv":
		a, b := rv(c.RV[0]), rv(c.RV[1])
		sum, err := atypes.VerifRVAdd(a, b)
		if err != nil || sum.Value() != c.RV[0]+c.RV[1] {
			return fmt.Sprintf("arith-wrong-result:ResourceValue.add: %d+%d = %s (err %v)", c.RV[0], c.RV[1], fmtRV(sum), err)
		}
		if a.Value() != c.RV[0] || b.Value() != c.RV[1] {
			return fmt.Sprintf("arith-operand-mutated:ResourceValue.add: %d+%d left operands %s, %s", c.RV[0], c.RV[1], fmtRV(a), fmtRV(b))
		}
		back, err := atypes.VerifRVSub(sum, b)
		if err != nil || back.Value() != c.RV[0] {
			return fmt.Sprintf("arith-inconsistent:add-sub: ResourceValue (%d+%d)-%d = %s (err %v)", c.RV[0], c.RV[1], c.RV[1], fmtRV(back), err)
		}
		if sum.Value() != c.RV[0]+c.RV[1] || b.Value() != c.RV[1] {
			return fmt.Sprintf("arith-operand-mutated:ResourceValue.sub: (%d+%d)-%d left operands %s, %s", c.RV[0], c.RV[1], c.RV[1], fmtRV(sum), fmtRV(b))
		}
		diff, err := atypes.VerifRVSub(a, b)
		if (err == nil) != (c.RV[0] >= c.RV[1]) {
			return fmt.Sprintf("arith-wrong-result:ResourceValue.sub: %d-%d: err=%v", c.RV[0], c.RV[1], err)
		}
		if err == nil && diff.Value() != c.RV[0]-c.RV[1] {
			return fmt.Sprintf("arith-wrong-result:ResourceValue.sub: %d-%d = %s", c.RV[0], c.RV[1], fmtRV(diff))
		}
		if a.Value() != c.RV[0] || b.Value() != c.RV[1] {
			return fmt.Sprintf("arith-operand-mutated:ResourceValue.sub: %d-%d left operands %s, %s", c.RV[0], c.RV[1], fmtRV(a), fmtRV(b))
		}
	case "commit":
		// committedResources(x) must leave the request x as it was, give the oracle's scaled amounts, keep
		// attributes / endpoints / counts, and give the same answer when asked again with the same x
		levels := [3]float64{c.Commit[0], c.Commit[1], c.Commit[2]}
		cfg := cluster.Config{CPUCommitLevel: levels[0], MemoryCommitLevel: levels[1], StorageCommitLevel: levels[2]}
		build := func() *dtypes.GroupSpec {
			g := &dtypes.GroupSpec{Name: "req"}
			for i, o := range c.Ops {
				g.Resources = append(g.Resources, dtypes.Resource{Resources: o.build(), Count: c.Counts[i]})
			}
			return g
		}
		x := build()
		before := fmtGroup(build())
		var wantParts []string
		for i, o := range c.Ops {
			wantParts = append(wantParts, fmt.Sprintf("%sx%d", wantUnits(o, commitVec(levels, o.V)), c.Counts[i]))
		}
		want := "req[" + strings.Join(wantParts, " ") + "]"
		for round := 1; round <= 2; round++ {
			got := fmtGroup(cluster.VerifCommitted(cfg, x))
			if s := fmtGroup(x); s != before {
				return fmt.Sprintf("commit-mutates-request: committedResources(x) at commit levels %v changed the request x from %s to %s (call %d)", c.Commit, before, s, round)
			}
			if got != want {
				return fmt.Sprintf("commit-wrong-amounts: committedResources(%s) at commit levels %v = %s, want %s (call %d with the same request object)", before, c.Commit, got, want, round)
			}
		}
	default:
		return "harness:unknown-ar-check: " + c.Check
	}
	return ""
}

func runAR(tier string) *ArStats {
	st := &ArStats{}
	seen := map[string]int{}   // signature -> index in st.Failures
	clear := map[string]bool{} // signature -> the stored example has no zero operand
	run := func(c ArCase, nontrivial bool) {
		st.Evaluations++
		if nontrivial {
			st.Nontrivial++
		}
		if msg := runArCase(c); msg != "" {
			st.NFailures++
			allNonZero := true
			for _, o := range c.Ops {
				if !o.Empty && (o.V[0] == 0 || o.V[1] == 0 || o.V[2] == 0) {
					allNonZero = false
				}
			}
			sig := signatureOf(msg)
			if i, ok := seen[sig]; !ok {
				seen[sig] = len(st.Failures)
				clear[sig] = allNonZero
				st.Failures = append(st.Failures, c)
				st.Messages = append(st.Messages, msg)
			} else if allNonZero && !clear[sig] {
				// keep one example per signature; prefer the first one without zero amounts (easier to read)
				clear[sig] = true
				st.Failures[i], st.Messages[i] = c, msg
			}
		}
	}
	ops := arOperands(tier)
	zero := Vec{}
	for _, a := range ops {
		for _, b := range ops {
			nt := a.V != zero && b.V != zero
			run(ArCase{Check: "add", Ops: []arOperand{a, b}}, nt)
			run(ArCase{Check: "sub", Ops: []arOperand{a, b}}, nt)
		}
	}
	for _, b := range ops {
		run(ArCase{Check: "add", Ops: []arOperand{{Empty: true}, b}}, b.V != zero)
	}
	// sums of lists of 1..3 units (plain operands only: 64 values)
	var plain []arOperand
	for _, o := range ops {
		if o.Ep == 0 && !o.Attr {
			plain = append(plain, o)
		}
	}
	for _, a := range plain {
		run(ArCase{Check: "sum", Ops: []arOperand{a}}, false)
		for _, b := range plain {
			run(ArCase{Check: "sum", Ops: []arOperand{a, b}}, b.V != zero)
			if tier == "thorough" || (a.V[0] == a.V[1] && a.V[1] == a.V[2]) {
				for _, c := range plain {
					run(ArCase{Check: "sum", Ops: []arOperand{a, b, c}}, b.V != zero || c.V != zero)
				}
			}
		}
	}
	// committedResources on every small request x commit levels {1,2,3}
	var allLevels [][]float64
	for _, a := range []float64{1, 2, 3} {
		for _, b := range []float64{1, 2, 3} {
			for _, c := range []float64{1, 2, 3} {
				allLevels = append(allLevels, []float64{a, b, c})
			}
		}
	}
	for _, a := range ops {
		for _, lv := range allLevels {
			for _, cnt := range []uint32{1, 2} {
				run(ArCase{Check: "commit", Ops: []arOperand{a}, Counts: []uint32{cnt}, Commit: lv}, lv[0] > 1 || lv[1] > 1 || lv[2] > 1)
			}
		}
	}
	pairLevels := [][]float64{{1, 1, 1}, {2, 2, 2}, {3, 3, 3}, {2, 1, 3}}
	if tier == "thorough" {
		pairLevels = allLevels
	}
	for _, a := range plain {
		for _, b := range plain {
			for _, lv := range pairLevels {
				run(ArCase{Check: "commit", Ops: []arOperand{a, b}, Counts: []uint32{2, 1}, Commit: lv}, lv[0] > 1 || lv[1] > 1 || lv[2] > 1)
			}
		}
	}
	rvs := []uint64{0, 1, 2, 3, 7, 1 << 40, 1<<62 - 1}
	for _, a := range rvs {
		for _, b := range rvs {
			run(ArCase{Check: "rv", RV: []uint64{a, b}}, a != 0 && b != 0)
		}
	}
	return st
}
