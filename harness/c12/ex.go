package main

// EX part of C12: small-scope exhaustive enumeration of the placement decision
// (committedResources -> reservationAllocateable, reached through the in-package overlay file)
// against the exact bin-packing oracle of res.go. One-directional, as the statement says:
// GRANTED => the not-yet-deployed reservations plus the new one, scaled by the commit levels, can be
// placed on the reported node availability and within the free external ports. First-fit may refuse
// packable instances; that is counted, not flagged.

import (
	"fmt"
	"time"

	"github.com/ovrclk/akash/provider/cluster"
)

type ExRes struct {
	Group     GroupSpec `json:"group"`
	Allocated bool      `json:"allocated"`
}

// ExInstance is one placement instance.
type ExInstance struct {
	Commit   [3]float64 `json:"commit"`
	Ports    uint       `json:"ports"`
	Nodes    []Vec      `json:"nodes"`
	Existing []ExRes    `json:"existing"`
	New      GroupSpec  `json:"new"`
}

func (in *ExInstance) String() string {
	return fmt.Sprintf("commit=%v ports=%d nodes=%v existing=%v new=%v", in.Commit, in.Ports, in.Nodes, in.Existing, in.New)
}

// evalImpl asks the implementation.
func (in *ExInstance) evalImpl() bool {
	cfg := cluster.Config{
		InventoryExternalPortQuantity: in.Ports,
		CPUCommitLevel:                in.Commit[0], MemoryCommitLevel: in.Commit[1], StorageCommitLevel: in.Commit[2],
	}
	ex := make([]cluster.VerifRes, 0, len(in.Existing))
	for _, e := range in.Existing {
		ex = append(ex, cluster.VerifRes{Group: realGroup(e.Group), Allocated: e.Allocated})
	}
	return cluster.VerifAllocateable(cfg, realNodes(in.Nodes), in.Ports, ex, orderID(0), realGroup(in.New))
}

// evalOracle: packable within capacity and ports? Also returns whether the aggregate demand fits
// the aggregate capacity (used only for the "non-trivial" statistic).
func (in *ExInstance) evalOracle() (ok bool, aggregateFits bool, pendingCount int) {
	items, ports := in.New.items(in.Commit)
	for _, e := range in.Existing {
		if e.Allocated {
			continue
		}
		pendingCount++
		it, p := e.Group.items(in.Commit)
		items = append(items, it...)
		ports += p
	}
	var dem, cap Vec
	for _, it := range items {
		for k := 0; k < 3; k++ {
			dem[k] += it[k]
		}
	}
	for _, n := range in.Nodes {
		for k := 0; k < 3; k++ {
			cap[k] += n[k]
		}
	}
	portsOK := ports <= int(in.Ports)
	aggregateFits = dem.le(cap) && portsOK
	return portsOK && packable(in.Nodes, items), aggregateFits, pendingCount
}

type ExStats struct {
	Evaluations       int64        `json:"evaluations"`
	Granted           int64        `json:"granted"`
	RefusedUnpackable int64        `json:"refused_unpackable"`
	RefusedPackable   int64        `json:"refused_although_packable"`
	Nontrivial        int64        `json:"nontrivial"`
	Violations        []ExInstance `json:"violations,omitempty"`
	NViolations       int64        `json:"n_violations"`
	Exhaustive        bool         `json:"exhaustive"`
	WallS             float64      `json:"wall_s"`
	Samples           []string     `json:"samples,omitempty"`
}

// exGrammar is the structural alphabet of a tier.
type exGrammar struct {
	Units       []Vec
	NewGroups   []GroupSpec
	ExistGroups []ExRes
	MaxExisting int
	NodeVecs    []Vec
	MaxNodes    int
	Ports       []uint
	Commits     [][3]float64
}

func (g *exGrammar) describe() map[string]interface{} {
	return map[string]interface{}{
		"new_request_catalogue":      len(g.NewGroups),
		"existing_reservation_kinds": len(g.ExistGroups),
		"max_existing_reservations":  g.MaxExisting,
		"node_availability_vectors":  fmt.Sprint(g.NodeVecs),
		"max_nodes":                  g.MaxNodes,
		"free_ports":                 g.Ports,
		"commit_levels":              fmt.Sprint(g.Commits),
		"unit_size_grid":             "cpu, memory, storage each in {1,2,3}; unit vectors " + fmt.Sprint(g.Units),
	}
}

func grammar(tier string) *exGrammar {
	g := &exGrammar{}
	// unit vectors over the size grid {1,2,3}^3 (a Latin-square spread plus the diagonal)
	g.Units = []Vec{{1, 1, 1}, {2, 2, 2}, {3, 3, 3}, {1, 2, 3}, {3, 1, 2}, {2, 3, 1}}
	pairUnits := g.Units
	counts2 := [][2]uint32{{1, 1}, {2, 1}, {1, 2}, {2, 2}}
	eps2 := [][2]int{{0, 0}, {1, 1}, {1, 0}}
	if tier != "thorough" {
		pairUnits = []Vec{{1, 1, 1}, {2, 2, 2}, {1, 2, 3}, {3, 1, 2}}
		counts2 = [][2]uint32{{2, 1}, {1, 2}, {2, 2}}
		eps2 = [][2]int{{0, 0}, {1, 1}}
	}
	for _, u := range g.Units {
		for _, c := range []uint32{1, 2} {
			for _, e := range []int{0, 1} {
				g.NewGroups = append(g.NewGroups, GroupSpec{Name: "new", Units: []UnitSpec{{u, c, e}}})
			}
		}
	}
	for _, u1 := range pairUnits {
		for _, u2 := range pairUnits {
			for _, c := range counts2 {
				for _, e := range eps2 {
					g.NewGroups = append(g.NewGroups, GroupSpec{Name: "new", Units: []UnitSpec{{u1, c[0], e[0]}, {u2, c[1], e[1]}}})
				}
			}
		}
	}
	ex := func(alloc bool, us ...UnitSpec) ExRes {
		return ExRes{Group: GroupSpec{Name: "old", Units: us}, Allocated: alloc}
	}
	g.ExistGroups = []ExRes{
		ex(false, UnitSpec{Vec{1, 1, 1}, 1, 0}),
		ex(false, UnitSpec{Vec{2, 2, 2}, 2, 1}),
		ex(false, UnitSpec{Vec{1, 2, 3}, 1, 1}),
		ex(false, UnitSpec{Vec{2, 2, 2}, 2, 1}, UnitSpec{Vec{1, 1, 1}, 1, 0}),
		ex(false, UnitSpec{Vec{3, 1, 2}, 1, 0}, UnitSpec{Vec{2, 3, 1}, 2, 1}),
		ex(true, UnitSpec{Vec{3, 3, 3}, 2, 1}),
	}
	g.MaxExisting = 3
	g.NodeVecs = []Vec{{2, 2, 2}, {4, 4, 4}, {6, 6, 6}, {3, 6, 4}, {9, 9, 9}}
	g.MaxNodes = 2
	g.Ports = []uint{0, 1, 2, 3}
	g.Commits = [][3]float64{{1, 1, 1}, {2, 2, 2}, {2, 1, 1}}
	if tier == "thorough" {
		g.ExistGroups = append(g.ExistGroups,
			ex(false, UnitSpec{Vec{3, 3, 3}, 1, 0}),
		)
		g.NodeVecs = append(g.NodeVecs, Vec{5, 2, 6})
		g.Commits = append(g.Commits, [3]float64{1, 2, 2})
	}
	return g
}

// nodeSets: all ordered sequences of 0..MaxNodes node vectors (first-fit depends on the order).
func (g *exGrammar) nodeSets() [][]Vec {
	out := [][]Vec{{}}
	level := [][]Vec{{}}
	for n := 1; n <= g.MaxNodes; n++ {
		var next [][]Vec
		for _, pre := range level {
			for _, v := range g.NodeVecs {
				s := append(append([]Vec(nil), pre...), v)
				next = append(next, s)
			}
		}
		out = append(out, next...)
		level = next
	}
	return out
}

// existingLists: all sequences of 0..MaxExisting existing reservations.
func (g *exGrammar) existingLists() [][]ExRes {
	out := [][]ExRes{{}}
	level := [][]ExRes{{}}
	for n := 1; n <= g.MaxExisting; n++ {
		var next [][]ExRes
		for _, pre := range level {
			for _, e := range g.ExistGroups {
				next = append(next, append(append([]ExRes(nil), pre...), e))
			}
		}
		out = append(out, next...)
		level = next
	}
	return out
}

func (g *exGrammar) size() int64 {
	return int64(len(g.nodeSets())) * int64(len(g.existingLists())) * int64(len(g.NewGroups)) * int64(len(g.Ports)) * int64(len(g.Commits))
}

// runEX enumerates shard `shard` of `nshards` (instances are dealt round-robin over (node set, existing list) pairs).
func runEX(tier string, shard, nshards int, deadline time.Time) *ExStats {
	start := time.Now()
	g := grammar(tier)
	st := &ExStats{Exhaustive: true}
	nodeSets, lists := g.nodeSets(), g.existingLists()
	pair := 0
	for _, nodes := range nodeSets {
		for _, existing := range lists {
			pair++
			if pair%nshards != shard {
				continue
			}
			if !deadline.IsZero() && time.Now().After(deadline) {
				st.Exhaustive = false
				st.WallS = time.Since(start).Seconds()
				return st
			}
			for _, commit := range g.Commits {
				for _, ports := range g.Ports {
					for _, ng := range g.NewGroups {
						in := ExInstance{Commit: commit, Ports: ports, Nodes: nodes, Existing: existing, New: ng}
						granted := in.evalImpl()
						ok, agg, pending := in.evalOracle()
						st.Evaluations++
						if agg && pending > 0 && len(nodes) > 1 {
							st.Nontrivial++
						}
						switch {
						case granted && ok:
							st.Granted++
							if len(st.Samples) < 2 && pending > 1 && len(nodes) > 1 {
								st.Samples = append(st.Samples, "granted: "+in.String())
							}
						case granted && !ok:
							st.NViolations++
							if len(st.Violations) < 3 {
								st.Violations = append(st.Violations, in)
							}
						case ok:
							st.RefusedPackable++
							if len(st.Samples) < 4 && st.RefusedPackable == 1 {
								st.Samples = append(st.Samples, "refused although packable (first-fit; allowed): "+in.String())
							}
						default:
							st.RefusedUnpackable++
						}
					}
				}
			}
		}
	}
	st.WallS = time.Since(start).Seconds()
	return st
}

func exViolationMessage(in *ExInstance) string {
	items, ports := in.New.items(in.Commit)
	for _, e := range in.Existing {
		if !e.Allocated {
			it, p := e.Group.items(in.Commit)
			items = append(items, it...)
			ports += p
		}
	}
	kind := "capacity"
	if ports > int(in.Ports) {
		kind = "ports"
	}
	return fmt.Sprintf("placement-granted-unpackable:%s: reservationAllocateable GRANTED %s: committed instances %v (external ports needed %d, free %d) cannot be placed on %v",
		kind, in.String(), items, ports, in.Ports, in.Nodes)
}
