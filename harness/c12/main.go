// Command c12 decides property C12 (inventory never over-commits and accounts exactly). Three parts,
// one check, one evidence file:
//
//	MC  the live inventoryService (real run loop, instrumented) under the gosched scheduler in big-step
//	    mode: all operation sequences up to a depth over {reserve, unreserve, status, deployed,
//	    not-deployed, refresh -> node set, refresh -> error} plus the poll-timer firings (mc.go)
//	EX  exhaustive small-scope enumeration of the placement decision against an exact bin-packing oracle (ex.go)
//	AR  exhaustive enumeration of the resource arithmetic on small operands (ar.go)
//
//	c12 -tier quick|thorough [-workers N] [-deadline D]      parent: runs every task, writes evidence
//	c12 -worker -task KIND:NAME [-deadline D]                worker: one task, prints JSON
//	c12 -replay FILE                                         re-executes a recorded violation
//	c12 -list
//
// exit 0: no violation (other than listed known findings); 1: VIOLATION printed; 2: machinery failure.
package main

import (
	"bytes"
	"context"
	"encoding/json"
	"flag"
	"fmt"
	"os"
	"os/exec"
	"regexp"
	"runtime"
	"runtime/pprof"
	"sort"
	"strconv"
	"strings"
	"sync"
	"time"

	"verif.local/gosched/vs"
	"verif.local/verif/evlib"
)

var (
	gWeb = GroupSpec{Name: "web", Units: []UnitSpec{{Vec{1, 1, 1}, 1, 1}}}
	gDb  = GroupSpec{Name: "db", Units: []UnitSpec{{Vec{2, 2, 2}, 2, 1}, {Vec{1, 1, 1}, 1, 0}}}
	gMix = GroupSpec{Name: "mix", Units: []UnitSpec{{Vec{1, 2, 1}, 2, 1}, {Vec{2, 1, 2}, 1, 1}}}
	gBig = GroupSpec{Name: "big", Units: []UnitSpec{{Vec{3, 3, 3}, 1, 0}, {Vec{3, 2, 3}, 2, 1}}}

	nA = []Vec{{3, 3, 3}, {3, 3, 3}}
	nB = []Vec{{3, 3, 3}}
	nC = []Vec{{6, 6, 6}}
	nD = []Vec{{2, 2, 2}, {4, 4, 4}}
	nE = []Vec{{5, 5, 5}, {5, 5, 5}}
	n0 = []Vec{}
)

var l1 = [3]float64{1, 1, 1}
var l2 = [3]float64{2, 2, 2}

var mcConfigs = []*MCConfig{
	{Name: "db+web/l1/AB", Tier: "quick", Commit: l1, Ports: 2, NodeSets: [][]Vec{nA, nB}, Initial: 0, Slots: []Slot{{1, gDb}, {2, gWeb}}, Depth: 4, DepthT: 5},
	{Name: "db+web/l2/AB", Tier: "quick", Commit: l2, Ports: 2, NodeSets: [][]Vec{nA, nB}, Initial: 0, Slots: []Slot{{1, gDb}, {2, gWeb}}, Depth: 4, DepthT: 4},
	{Name: "db+db/l1/EC", Tier: "quick", Commit: l1, Ports: 2, NodeSets: [][]Vec{nE, nC}, Initial: 0, Slots: []Slot{{1, gDb}, {2, gDb}}, Depth: 4, DepthT: 4},
	{Name: "mix+db/l211/ED", Tier: "quick", Commit: [3]float64{2, 1, 1}, Ports: 3, NodeSets: [][]Vec{nE, nD}, Initial: 0, Slots: []Slot{{1, gMix}, {2, gDb}}, Depth: 4, DepthT: 5},
	{Name: "db+web/l1/A0/cold", Tier: "quick", Commit: l1, Ports: 2, NodeSets: [][]Vec{nA, n0}, Initial: -1, Slots: []Slot{{1, gDb}, {2, gWeb}}, Depth: 4, DepthT: 5},
	{Name: "big+mix/l2/EB", Tier: "quick", Commit: l2, Ports: 3, NodeSets: [][]Vec{nE, nB}, Initial: 0, Slots: []Slot{{1, gBig}, {2, gMix}}, Depth: 4, DepthT: 5},
	{Name: "sameorder-db+web/l1/E", Tier: "quick", Commit: l1, Ports: 3, NodeSets: [][]Vec{nE}, Initial: 0, Slots: []Slot{{1, gDb}, {1, gWeb}}, Depth: 4, DepthT: 5},
	// two orders of ONE deployment group (o1 and o101 differ only in the order sequence number), different sizes
	{Name: "samegroup-db+web/l1/AB", Tier: "quick", Commit: l1, Ports: 2, NodeSets: [][]Vec{nA, nB}, Initial: 0, Slots: []Slot{{1, gDb}, {101, gWeb}}, Lookup: true, Depth: 4, DepthT: 4},
	{Name: "db/l1/EB/deep", Tier: "quick", Commit: l1, Ports: 2, NodeSets: [][]Vec{nE, nB}, Initial: 0, Slots: []Slot{{1, gDb}}, Depth: 4, DepthT: 5},
	{Name: "mix/l122/DC/deep", Tier: "quick", Commit: [3]float64{1, 2, 2}, Ports: 2, NodeSets: [][]Vec{nD, nC}, Initial: 0, Slots: []Slot{{1, gMix}}, Depth: 4, DepthT: 6},
	{Name: "db+web+mix/l1/EA", Tier: "thorough", Commit: l1, Ports: 3, NodeSets: [][]Vec{nE, nA}, Initial: 0, Slots: []Slot{{1, gDb}, {2, gWeb}, {3, gMix}}, Depth: 4, DepthT: 4},
	{Name: "db+web/l2/AB/cold", Tier: "thorough", Commit: l2, Ports: 2, NodeSets: [][]Vec{nA, nB}, Initial: -1, Slots: []Slot{{1, gDb}, {2, gWeb}}, Depth: 4, DepthT: 5},
	{Name: "big+db/l1/ECB", Tier: "thorough", Commit: l1, Ports: 2, NodeSets: [][]Vec{nE, nC, nB}, Initial: 0, Slots: []Slot{{1, gBig}, {2, gDb}}, Depth: 4, DepthT: 4},
}

func findMC(name string) *MCConfig {
	for _, c := range mcConfigs {
		if c.Name == name {
			return c
		}
	}
	return nil
}

// Replay is the content of /verif/replays/C12-<n>.json.
type Replay struct {
	Property    string      `json:"property"`
	Kind        string      `json:"kind"` // mc | ex | ar
	Signature   string      `json:"signature"`
	Config      string      `json:"config,omitempty"`
	Depth       int         `json:"depth,omitempty"`
	Choices     []int       `json:"choices,omitempty"`
	TwinChoices []int       `json:"twin_choices,omitempty"`
	TwinDepth   int         `json:"twin_depth,omitempty"`
	Instance    *ExInstance `json:"placement_instance,omitempty"`
	Case        *ArCase     `json:"arithmetic_case,omitempty"`
	Messages    []string    `json:"messages"`
	Obs         string      `json:"obs,omitempty"`
	Schedule    []string    `json:"schedule,omitempty"`
	How         string      `json:"how_to_replay"`
}

type workerOut struct {
	Kind      string      `json:"kind"`
	Name      string      `json:"name"`
	Depth     int         `json:"depth,omitempty"`
	DepthDone int         `json:"depth_completed"`
	MC        *vs.Stats   `json:"mc,omitempty"`
	Cov       *MCCoverage `json:"mc_coverage,omitempty"`
	EX        *ExStats    `json:"ex,omitempty"`
	AR        *ArStats    `json:"ar,omitempty"`
}

func exploreOpts(deadline time.Time) vs.Options {
	return vs.Options{
		// big-step mode: no preemption, no early injection - every operation is driven to quiescence
		Budgets:       []vs.Budget{{P: 0, E: 0}},
		Prune:         true,
		Deadline:      deadline,
		MaxSteps:      50000,
		MaxViolations: 12,
	}
}

var twinRe = regexp.MustCompile(`twin=([0-9,]*) twindepth=([0-9]+) twinprefix=`)

// twinOf extracts the choice list (and enumeration depth) of the other execution from a
// status-changes-later-answers message.
func twinOf(msgs []string) ([]int, int) {
	for _, m := range msgs {
		if g := twinRe.FindStringSubmatch(m); g != nil {
			out := []int{}
			for _, p := range strings.Split(g[1], ",") {
				if p == "" {
					continue
				}
				n, _ := strconv.Atoi(p)
				out = append(out, n)
			}
			d, _ := strconv.Atoi(g[2])
			return out, d
		}
	}
	return nil, 0
}

// runMC re-executes one execution in a fresh cross-execution table (after its twin, if it has one).
func runMC(cfg *MCConfig, depth int, choices, twin []int, twinDepth int) *vs.Result {
	twinTable = map[uint64]*twinEntry{}
	if twin != nil {
		vs.RunOnce(mcFactory(cfg, twinDepth), twin, exploreOpts(time.Time{}))
	}
	return vs.RunOnce(mcFactory(cfg, depth), choices, exploreOpts(time.Time{}))
}

func main() {
	var (
		tier      = flag.String("tier", evlib.Tier(), "quick|thorough")
		workers   = flag.Int("workers", 0, "parallel worker processes (default: min(16, NumCPU))")
		taskName  = flag.String("task", "", "run one task only (KIND:NAME)")
		worker    = flag.Bool("worker", false, "worker mode: print JSON on stdout")
		replay    = flag.String("replay", "", "replay file to re-execute")
		list      = flag.Bool("list", false, "list tasks")
		deadline  = flag.Duration("deadline", 0, "internal deadline (0: tier default)")
		noEvid    = flag.Bool("no-evidence", false, "do not write evidence / replay files (mutant runs)")
		selftestN = flag.Int("selftest", 2, "determinism self-test: replays of one recorded schedule")
		failFast  = flag.Bool("fail-fast", false, "stop the remaining workers as soon as one task reports a violation (mutant runs)")
		depthOv   = flag.Int("depth", 0, "override the enumeration depth of MC tasks (experiments)")
		cpuprof   = flag.String("cpuprofile", "", "write a CPU profile (worker mode)")
	)
	free := flag.Int("free", 0, "supplementary pass: run every MC configuration of the tier N times FREE-RUNNING (real goroutines, shim in pass-through mode); build with -race")
	flag.Parse()
	if *cpuprof != "" {
		if f, err := os.Create(*cpuprof); err == nil {
			pprof.StartCPUProfile(f)
			defer pprof.StopCPUProfile()
		}
	}
	switch {
	case *list:
		for _, t := range tasks("thorough") {
			fmt.Println(t)
		}
	case *replay != "":
		os.Exit(doReplay(*replay))
	case *free > 0:
		os.Exit(doFree(*tier, *taskName, *free))
	case *worker:
		rc := doWorker(*tier, *taskName, *deadline, *depthOv)
		pprof.StopCPUProfile()
		os.Exit(rc)
	default:
		os.Exit(doParent(*tier, *workers, *taskName, *deadline, *noEvid, *selftestN, *failFast, *depthOv))
	}
}

const exShards = 12

// weight estimates the number of operation sequences of a configuration (for scheduling only).
func (c *MCConfig) weight(tier string) float64 {
	orders := map[int]bool{}
	for _, s := range c.Slots {
		orders[s.Order] = true
	}
	alphabet := float64(3*len(c.Slots) + len(orders) + len(c.NodeSets) + 2)
	w := 1.0
	for i := 0; i < c.depth(tier); i++ {
		w *= alphabet
	}
	if c.Initial < 0 {
		w /= 3 // most sequences of a cold start block early
	}
	return w
}

// tasks of a tier, heaviest first (they are started in this order).
func tasks(tier string) []string {
	var mcs []*MCConfig
	for _, c := range mcConfigs {
		if c.Tier == "quick" || tier == "thorough" {
			mcs = append(mcs, c)
		}
	}
	sort.SliceStable(mcs, func(i, j int) bool { return mcs[i].weight(tier) > mcs[j].weight(tier) })
	var out []string
	for _, c := range mcs {
		out = append(out, "mc:"+c.Name)
	}
	for i := 0; i < exShards; i++ {
		out = append(out, fmt.Sprintf("ex:%d", i))
	}
	out = append(out, "ar:all")
	return out
}

func doWorker(tier, task string, d time.Duration, depthOv int) int {
	var dl time.Time
	if d > 0 {
		dl = time.Now().Add(d)
	}
	kind, name, _ := strings.Cut(task, ":")
	out := workerOut{Kind: kind, Name: name}
	rc := 0
	switch kind {
	case "mc":
		cfg := findMC(name)
		if cfg == nil {
			fmt.Fprintf(os.Stderr, "c12: unknown configuration %q\n", name)
			return 2
		}
		maxDepth := cfg.depth(tier)
		if depthOv > 0 {
			maxDepth = depthOv
		}
		// iterative deepening: depth 1, 2, ... so that the first counterexample found is a shortest one
		// (the cross-execution table of checkTwins is shared by all depths)
		for d := 1; d <= maxDepth; d++ {
			st := vs.Explore(mcFactory(cfg, d), exploreOpts(dl))
			out.Depth = d
			if out.MC == nil {
				out.MC = st
			} else {
				mergeStats(out.MC, st)
			}
			if len(st.Errors) > 0 {
				rc = 2
			}
			if len(st.Errors) > 0 || len(st.Violations) > 0 || !st.Exhaustive {
				if d < maxDepth {
					out.MC.Exhaustive = false // stopped before the configured depth
				}
				break
			}
			out.DepthDone = d
		}
		cov := mcCov
		out.Cov = &cov
	case "ex":
		shard, err := strconv.Atoi(name)
		if err != nil {
			return 2
		}
		out.EX = runEX(tier, shard, exShards, dl)
	case "ar":
		out.AR = runAR(tier)
	default:
		fmt.Fprintf(os.Stderr, "c12: unknown task %q\n", task)
		return 2
	}
	json.NewEncoder(os.Stdout).Encode(out)
	return rc
}

// mergeStats adds the statistics of the next depth to the running totals (samples: the deepest ones).
func mergeStats(tot, st *vs.Stats) {
	tot.Executions += st.Executions
	tot.Pruned += st.Pruned
	tot.Skipped += st.Skipped
	tot.Transitions += st.Transitions
	tot.States += st.States
	tot.ChoicePoints += st.ChoicePoints
	tot.DistinctOutcomes += st.DistinctOutcomes
	tot.Deadlocks += st.Deadlocks
	tot.Panics += st.Panics
	if st.MaxChoiceDepth > tot.MaxChoiceDepth {
		tot.MaxChoiceDepth = st.MaxChoiceDepth
	}
	tot.BudgetsCompleted = st.BudgetsCompleted
	tot.Exhaustive = tot.Exhaustive && st.Exhaustive
	tot.Violations = append(tot.Violations, st.Violations...)
	if len(st.Samples) > 0 {
		tot.Samples = st.Samples
	}
	tot.Errors = append(tot.Errors, st.Errors...)
	tot.WallS += st.WallS
}

func doReplay(path string) int {
	raw, err := os.ReadFile(path)
	if err != nil {
		fmt.Fprintln(os.Stderr, "c12:", err)
		return 2
	}
	var rp Replay
	if err := json.Unmarshal(raw, &rp); err != nil {
		fmt.Fprintln(os.Stderr, "c12:", err)
		return 2
	}
	switch rp.Kind {
	case "ex":
		in := rp.Instance
		granted := in.evalImpl()
		ok, _, _ := in.evalOracle()
		fmt.Printf("placement instance: %s\nimplementation: granted=%v   oracle: packable=%v\n", in, granted, ok)
		if granted && !ok {
			fmt.Println("VIOLATED:", exViolationMessage(in))
			return 1
		}
		fmt.Println("no violation on this instance")
		return 0
	case "ar":
		msg := runArCase(*rp.Case)
		fmt.Printf("arithmetic case: %s operands=%v rv=%v commit=%v counts=%v\n", rp.Case.Check, rp.Case.Ops, rp.Case.RV, rp.Case.Commit, rp.Case.Counts)
		if msg != "" {
			fmt.Println("VIOLATED:", msg)
			return 1
		}
		fmt.Println("no violation on this case")
		return 0
	case "mc":
		cfg := findMC(rp.Config)
		if cfg == nil {
			fmt.Fprintf(os.Stderr, "c12: unknown configuration %q\n", rp.Config)
			return 2
		}
		if rp.TwinChoices != nil {
			twinTable = map[uint64]*twinEntry{}
			t := vs.RunOnce(mcFactory(cfg, rp.TwinDepth), rp.TwinChoices, exploreOpts(time.Time{}))
			fmt.Printf("other execution (differs only in status queries), %d choices, status %s\nobservation: %s\n\n", len(rp.TwinChoices), t.Status, t.Obs)
		}
		r := runMC(cfg, rp.Depth, rp.Choices, rp.TwinChoices, rp.TwinDepth)
		fmt.Printf("configuration %s depth %d, %d choices, %d transitions, status %s\n", cfg.Name, rp.Depth, len(rp.Choices), r.Steps, r.Status)
		for _, l := range r.Trace {
			fmt.Println("  ", l)
		}
		fmt.Println("observation:", r.Obs)
		switch r.Status {
		case vs.StatusDone, vs.StatusDeadlock, vs.StatusPanic:
		default:
			fmt.Printf("replay failed: %s %s\n", r.Status, r.Msg)
			return 2
		}
		if r.Status == vs.StatusPanic {
			fmt.Println(r.PanicStack)
		}
		if len(r.Violations) == 0 {
			fmt.Println("no violation on this schedule")
			return 0
		}
		for _, v := range r.Violations {
			fmt.Println("VIOLATED:", v)
		}
		return 1
	}
	fmt.Fprintf(os.Stderr, "c12: unknown replay kind %q\n", rp.Kind)
	return 2
}

// selfTest replays one recorded schedule n times and compares observation logs and traces.
func selfTest(n int) error {
	cfg := mcConfigs[0]
	defer func() { twinTable = map[uint64]*twinEntry{} }()
	rec := vs.Explore(mcFactory(cfg, 3), vs.Options{Budgets: []vs.Budget{{P: 0, E: 0}}, MaxSteps: 50000, Samples: 4, MaxViolations: 1 << 30, Deadline: time.Now().Add(30 * time.Second)})
	if len(rec.Errors) > 0 {
		return fmt.Errorf("self-test exploration failed: %v", rec.Errors)
	}
	if len(rec.Samples) == 0 {
		return fmt.Errorf("self-test recorded no schedule")
	}
	s := rec.Samples[len(rec.Samples)-1]
	for i := 0; i < n; i++ {
		r := vs.RunOnce(mcFactory(cfg, 3), s.Choices, exploreOpts(time.Time{}))
		if r.Obs != s.Obs || r.Status.String() != s.Status {
			return fmt.Errorf("replay %d of schedule %v diverged:\n recorded %s %q\n replayed %s %q", i, s.Choices, s.Status, s.Obs, r.Status, r.Obs)
		}
		if strings.Join(r.Trace, "\n") != strings.Join(s.Trace, "\n") {
			return fmt.Errorf("replay %d of schedule %v produced a different schedule trace", i, s.Choices)
		}
	}
	return nil
}

type finding struct {
	sig    string
	replay Replay
	detail string
}

func doParent(tier string, nworkers int, only string, d time.Duration, noEvid bool, selftestN int, failFast bool, depthOv int) int {
	ctx, cancel := context.WithCancel(context.Background())
	defer cancel()
	start := time.Now()
	if tier != "quick" && tier != "thorough" {
		fmt.Fprintf(os.Stderr, "c12: bad tier %q\n", tier)
		return 2
	}
	if nworkers <= 0 {
		nworkers = runtime.NumCPU()
		if nworkers > 16 {
			nworkers = 16
		}
	}
	if d == 0 {
		d = 150 * time.Second
		if tier == "thorough" {
			d = 24 * time.Minute
		}
	}
	if err := selfTest(selftestN); err != nil {
		fmt.Fprintln(os.Stderr, "c12: determinism self-test FAILED:", err)
		return 2
	}
	fmt.Printf("c12: determinism self-test ok (%d replays)\n", selftestN)

	var todo []string
	for _, t := range tasks(tier) {
		if only == "" || t == only {
			todo = append(todo, t)
		}
	}
	if len(todo) == 0 {
		fmt.Fprintln(os.Stderr, "c12: no task selected")
		return 2
	}
	self, err := os.Executable()
	if err != nil {
		fmt.Fprintln(os.Stderr, "c12:", err)
		return 2
	}
	results := make([]*workerOut, len(todo))
	errs := make([]string, len(todo))
	var wg sync.WaitGroup
	sem := make(chan struct{}, nworkers)
	for i, t := range todo {
		i, t := i, t
		wg.Add(1)
		sem <- struct{}{} // tasks start in list order (heaviest first)
		go func() {
			defer wg.Done()
			defer func() { <-sem }()
			remaining := d - time.Since(start)
			if remaining < 5*time.Second {
				remaining = 5 * time.Second
			}
			if ctx.Err() != nil {
				return
			}
			args := []string{"-worker", "-tier", tier, "-task", t, "-deadline", remaining.String()}
			if depthOv > 0 {
				args = append(args, "-depth", strconv.Itoa(depthOv))
			}
			cmd := exec.CommandContext(ctx, self, args...)
			cmd.Env = append(os.Environ(), "GOMAXPROCS=1")
			var out, stderr bytes.Buffer
			cmd.Stdout, cmd.Stderr = &out, &stderr
			err := cmd.Run()
			if ctx.Err() != nil && err != nil {
				return // stopped by -fail-fast
			}
			var wo workerOut
			if jerr := json.Unmarshal(out.Bytes(), &wo); jerr != nil {
				errs[i] = fmt.Sprintf("worker %s: %v: %s", t, err, lastLines(stderr.String(), 15))
				return
			}
			if err != nil && (wo.MC == nil || len(wo.MC.Errors) == 0) {
				errs[i] = fmt.Sprintf("worker %s: %v: %s", t, err, lastLines(stderr.String(), 15))
			}
			results[i] = &wo
			if failFast {
				if (wo.MC != nil && len(wo.MC.Violations) > 0) || (wo.EX != nil && wo.EX.NViolations > 0) || (wo.AR != nil && wo.AR.NFailures > 0) {
					cancel()
				}
			}
		}()
	}
	wg.Wait()

	machinery := false
	for _, e := range errs {
		if e != "" {
			fmt.Fprintln(os.Stderr, "c12: MACHINERY FAILURE:", e)
			machinery = true
		}
	}
	var (
		tot        vs.Stats
		ex         ExStats
		ar         ArStats
		perTask    = map[string]interface{}{}
		samples    []interface{}
		exhaustive = true
		found      []finding
		seenSig    = map[string]bool{}
		budgetsOK  = true
		cov        MCCoverage
		mcNames    []string
	)
	ex.Exhaustive = true
	addFinding := func(f finding) {
		if seenSig[f.sig] {
			return
		}
		seenSig[f.sig] = true
		found = append(found, f)
	}
	fmt.Printf("%-28s %6s %10s %10s %10s %12s %9s %8s %s\n", "MC configuration", "depth", "executions", "pruned", "states", "transitions", "outcomes", "wall_s", "exhaustive")
	for i, wo := range results {
		if wo == nil {
			if !failFast {
				exhaustive = false
			}
			continue
		}
		switch wo.Kind {
		case "mc":
			st := wo.MC
			cfg := findMC(wo.Name)
			mcNames = append(mcNames, fmt.Sprintf("%s (depth %d)", wo.Name, wo.Depth))
			for _, e := range st.Errors {
				fmt.Fprintf(os.Stderr, "c12: MACHINERY FAILURE in %s: %s\n", todo[i], e)
				machinery = true
			}
			fmt.Printf("%-28s %6d %10d %10d %10d %12d %9d %8.1f %v\n", wo.Name, wo.Depth, st.Executions, st.Pruned, st.States, st.Transitions, st.DistinctOutcomes, st.WallS, st.Exhaustive)
			if wo.Cov != nil {
				cov.add(wo.Cov)
			}
			tot.Executions += st.Executions
			tot.Pruned += st.Pruned
			tot.Skipped += st.Skipped
			tot.States += st.States
			tot.Transitions += st.Transitions
			tot.DistinctOutcomes += st.DistinctOutcomes
			tot.Deadlocks += st.Deadlocks
			tot.Panics += st.Panics
			if st.MaxChoiceDepth > tot.MaxChoiceDepth {
				tot.MaxChoiceDepth = st.MaxChoiceDepth
			}
			if !st.Exhaustive {
				exhaustive = false
				if len(st.Violations) == 0 {
					budgetsOK = false
				}
			}
			perTask["mc:"+wo.Name] = map[string]interface{}{
				"depth": wo.Depth, "depth_completed": wo.DepthDone, "executions": st.Executions, "pruned_revisits": st.Pruned, "states": st.States, "transitions": st.Transitions,
				"distinct_outcomes": st.DistinctOutcomes, "exhaustive": st.Exhaustive, "budgets_completed": st.BudgetsCompleted, "wall_s": st.WallS,
			}
			if len(samples) < 4 && len(st.Samples) > 0 {
				s := st.Samples[len(st.Samples)-1]
				samples = append(samples, map[string]interface{}{"part": "MC", "config": wo.Name, "choices": s.Choices, "status": s.Status, "observation": s.Obs, "schedule": s.Trace})
			}
			for _, v := range st.Violations {
				twin, twinDepth := twinOf(v.Messages)
				// every violation is replayed 5x from its choice list before it is reported
				var first *vs.Result
				ok := true
				for k := 0; k < 5; k++ {
					r := runMC(cfg, wo.Depth, v.Choices, twin, twinDepth)
					if r.Obs != v.Obs || strings.Join(r.Violations, "\n") != strings.Join(v.Messages, "\n") {
						fmt.Fprintf(os.Stderr, "c12: MACHINERY FAILURE: replay %d of a violation in %s diverged:\n recorded %q %v\n replayed %q %v\n", k, wo.Name, v.Obs, v.Messages, r.Obs, r.Violations)
						machinery, ok = true, false
						break
					}
					if first == nil {
						first = r
					}
				}
				if !ok {
					continue
				}
				for _, m := range v.Messages {
					sig := signatureOf(m)
					rp := Replay{Property: "C12", Kind: "mc", Signature: sig, Config: wo.Name, Depth: wo.Depth, Choices: v.Choices, Messages: v.Messages, Obs: v.Obs, Schedule: first.Trace,
						How: "/verif/checks/C12 replay <this file>"}
					if sig == "status-changes-later-answers" {
						rp.TwinChoices, rp.TwinDepth = twin, twinDepth
					}
					addFinding(finding{sig: sig, replay: rp, detail: fmt.Sprintf("[%s] %s", wo.Name, m)})
				}
			}
		case "ex":
			st := wo.EX
			ex.Evaluations += st.Evaluations
			ex.Granted += st.Granted
			ex.RefusedPackable += st.RefusedPackable
			ex.RefusedUnpackable += st.RefusedUnpackable
			ex.Nontrivial += st.Nontrivial
			ex.NViolations += st.NViolations
			if st.WallS > ex.WallS {
				ex.WallS = st.WallS
			}
			if !st.Exhaustive {
				ex.Exhaustive = false
				exhaustive = false
			}
			if len(ex.Samples) < 3 {
				ex.Samples = append(ex.Samples, st.Samples...)
			}
			for k := range st.Violations {
				in := st.Violations[k]
				ok := true
				for j := 0; j < 5; j++ {
					g := in.evalImpl()
					o, _, _ := in.evalOracle()
					if !(g && !o) {
						fmt.Fprintf(os.Stderr, "c12: MACHINERY FAILURE: re-evaluation %d of placement instance %s did not reproduce the violation\n", j, in.String())
						machinery, ok = true, false
						break
					}
				}
				if !ok {
					continue
				}
				msg := exViolationMessage(&in)
				sig := signatureOf(msg)
				addFinding(finding{sig: sig, detail: "[EX] " + msg, replay: Replay{Property: "C12", Kind: "ex", Signature: sig, Instance: &in, Messages: []string{msg}, How: "/verif/checks/C12 replay <this file>"}})
			}
		case "ar":
			st := wo.AR
			ar = *st
			for k := range st.Failures {
				c := st.Failures[k]
				ok := true
				for j := 0; j < 5; j++ {
					if m := runArCase(c); m != st.Messages[k] {
						fmt.Fprintf(os.Stderr, "c12: MACHINERY FAILURE: re-evaluation %d of arithmetic case %v: %q, recorded %q\n", j, c, m, st.Messages[k])
						machinery, ok = true, false
						break
					}
				}
				if !ok {
					continue
				}
				sig := signatureOf(st.Messages[k])
				addFinding(finding{sig: sig, detail: "[AR] " + st.Messages[k], replay: Replay{Property: "C12", Kind: "ar", Signature: sig, Case: &c, Messages: []string{st.Messages[k]}, How: "/verif/checks/C12 replay <this file>"}})
			}
		}
	}
	fmt.Printf("EX placement instances: %d evaluated, %d granted (all packable: %v), %d refused+unpackable, %d refused although packable (first-fit), non-trivial %d, exhaustive=%v\n",
		ex.Evaluations, ex.Granted, ex.NViolations == 0, ex.RefusedUnpackable, ex.RefusedPackable, ex.Nontrivial, ex.Exhaustive)
	fmt.Printf("AR arithmetic cases: %d evaluated, %d failed\n", ar.Evaluations, ar.NFailures)

	// harness:* signatures mean that the harness' own picture of the run was wrong: machinery, never a verdict
	known, kerr := evlib.LoadFindings()
	if kerr != nil {
		fmt.Fprintln(os.Stderr, "c12: known_findings.json:", kerr)
		machinery = true
	}
	sort.SliceStable(found, func(i, j int) bool { return found[i].sig < found[j].sig })
	nviol, nknown := 0, 0
	var replays, knownSigs []string
	for _, f := range found {
		if strings.HasPrefix(f.sig, "harness:") {
			fmt.Fprintf(os.Stderr, "c12: MACHINERY FAILURE: %s\n", f.detail)
			machinery = true
			continue
		}
		if kf, ok := known.Known("C12", f.sig); ok {
			nknown++
			knownSigs = append(knownSigs, f.sig)
			fmt.Printf("KNOWN-FINDING: property=C12 signature=%s %s\n", f.sig, kf.What)
			continue
		}
		nviol++
		path := fmt.Sprintf("(not written) %s", f.sig)
		if !noEvid {
			p, err := evlib.WriteReplay("C12", nviol, f.replay)
			if err != nil {
				fmt.Fprintln(os.Stderr, "c12:", err)
				machinery = true
			}
			path = p
		}
		replays = append(replays, path)
		fmt.Printf("VIOLATION property=C12 replay=%s\n  signature=%s %s\n", path, f.sig, f.detail)
	}
	wall := time.Since(start).Seconds()
	fmt.Printf("c12: tier=%s mc_configurations=%d executions=%d states=%d transitions=%d outcomes=%d deadlocks=%d ex_instances=%d ar_cases=%d exhaustive=%v violations=%d known=%d wall=%.1fs\n",
		tier, len(mcNames), tot.Executions, tot.States, tot.Transitions, tot.DistinctOutcomes, tot.Deadlocks, ex.Evaluations, ar.Evaluations, exhaustive && !machinery, nviol, nknown, wall)
	if machinery {
		return 2
	}
	if !noEvid {
		traces := tot.Executions
		g := grammar(tier)
		for _, s := range ex.Samples {
			if len(samples) < 7 {
				samples = append(samples, map[string]interface{}{"part": "EX", "instance": s})
			}
		}
		completed := "(0,0) - big-step: every operation driven to quiescence, poll-timer firings enumerated at every quiescent point"
		if !budgetsOK {
			completed = "(0,0) cut by the internal deadline in some configuration: see per_task[*].exhaustive"
		}
		ev := evlib.Evidence{
			PropertyID: "C12", Tier: tier, Seed: evlib.Seed(), Level: "model_checking", WallS: wall, Violations: nviol,
			Coverage: evlib.Coverage{
				Evaluations:        tot.Executions + ex.Evaluations + ar.Evaluations,
				DistinctNontrivial: tot.DistinctOutcomes + ex.Nontrivial + ar.Nontrivial,
				Rule: "MC: every sequence of <depth> operations over {reserve(slot), unreserve(order), status, deployed(slot), not-deployed(slot), refresh->node set j, refresh->error} (plus a preamble refresh where the configuration says so and a final status probe), " +
					"with every firing position of the service's poll timer, executed on the real instrumented inventoryService + pubsub bus + go-lifecycle + runner under the gosched scheduler with budget (0,0) (each operation driven to quiescence; all orders in which blocked goroutines may resume are explored, history-hash pruned); " +
					"oracle = reference list model (grant => packable by exact bin packing with the oracle's own commit scaling on the last answered refresh and within the free ports; status = one entry per granted-unreleased reservation with the amounts first reported; release removes exactly one; " +
					"values returned by reserve() never change; executions that differ only in status queries give identical answers, compared across executions prefix by prefix). " +
					"EX: every placement instance of the grammar in 'ex_grammar' through committedResources+reservationAllocateable vs the exact packing oracle (granted => packable). " +
					"AR: Add/Sub of types.ResourceUnits / ResourceValue on every pair of small operands, the getStatus accumulation pattern on every list of <= 3 units: operands unchanged, value right, a+b-b == a. " +
					"evaluations = MC executions + EX instances + AR cases; distinct_nontrivial = distinct MC observation logs + EX instances in which placement matters (>= 2 nodes, >= 1 not-yet-deployed reservation, aggregate demand fits aggregate capacity and ports) + AR cases with non-zero operands",
				Samples:         samples,
				States:          tot.States,
				Transitions:     tot.Transitions,
				TracesValidated: &traces,
				Exhaustive:      exhaustive,
				Extra: map[string]interface{}{
					"configurations":    mcNames,
					"per_task":          perTask,
					"budgets_completed": completed,
					"mc": map[string]interface{}{"executions": tot.Executions, "states": tot.States, "transitions": tot.Transitions, "distinct_outcomes": tot.DistinctOutcomes,
						"pruned_revisits": tot.Pruned, "skipped_by_lookahead": tot.Skipped, "deadlocks": tot.Deadlocks, "panics": tot.Panics, "max_choice_depth": tot.MaxChoiceDepth},
					"ex": map[string]interface{}{"instances": ex.Evaluations, "granted_and_packable": ex.Granted, "granted_but_unpackable": ex.NViolations, "refused_and_unpackable": ex.RefusedUnpackable,
						"refused_although_packable_first_fit": ex.RefusedPackable, "nontrivial": ex.Nontrivial, "exhaustive": ex.Exhaustive, "grammar_size": g.size()},
					"mc_coverage":    cov,
					"ex_grammar":     g.describe(),
					"ar":             map[string]interface{}{"cases": ar.Evaluations, "failed": ar.NFailures, "nontrivial": ar.Nontrivial},
					"deadlocks":      tot.Deadlocks,
					"known_findings": append([]string{}, knownSigs...),
					"replays":        append([]string{}, replays...),
					"workers":        nworkers,
				},
			},
			Assumptions: []string{
				"big-step: operations reach the service one at a time, each handled to quiescence (budget (0,0)); overlapping requests are not explored by this check",
				"'last reported availability' = the node set of the most recent answered Inventory() call that the service was still waiting for (an older unanswered call has been abandoned by the service and is never answered by the harness)",
				"'not-yet-deployed' follows the latest deployment-status event of the reservation (a 'pending' event after 'deployed' makes it count again), free ports = configured quantity minus the ports of deployed, unreleased reservations; external ports are counted per resource unit, not per instance",
				"commit scaling as documented in util.ComputeCommittedResources: level <= 1 leaves the amount, otherwise amount/level rounded half away from zero, never 0; integer levels 1 and 2",
				"one-directional: a refusal is never flagged (first-fit refuses packable instances: counted in ex.refused_although_packable_first_fit); external ports of a deployed reservation that is released without a preceding not-deployed event are never returned by the implementation (conservative, not flagged)",
				"bounded: <= 3 reservation slots, <= 3 node sets of <= 2 nodes, depth <= 6 (MC); <= 2 nodes, <= 3 existing reservations, unit sizes in {1,2,3} (EX); amounts in {0..3} (AR)",
			},
		}
		if err := evlib.Write(ev); err != nil {
			fmt.Fprintln(os.Stderr, "c12: writing evidence:", err)
			return 2
		}
	}
	if nviol > 0 {
		return 1
	}
	return 0
}

func lastLines(s string, n int) string {
	l := strings.Split(strings.TrimSpace(s), "\n")
	if len(l) > n {
		l = l[len(l)-n:]
	}
	return strings.Join(l, "\n")
}
