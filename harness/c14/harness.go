package main

import (
	"context"
	"errors"
	"fmt"
	"sort"
	"strings"
	"time"

	sdk "github.com/cosmos/cosmos-sdk/types"
	"github.com/tendermint/tendermint/libs/log"

	"github.com/ovrclk/akash/client"
	"github.com/ovrclk/akash/client/broadcaster"
	"github.com/ovrclk/akash/manifest"
	"github.com/ovrclk/akash/provider/cluster"
	ctypes "github.com/ovrclk/akash/provider/cluster/types"
	"github.com/ovrclk/akash/provider/event"
	"github.com/ovrclk/akash/provider/session"
	"github.com/ovrclk/akash/pubsub"
	atypes "github.com/ovrclk/akash/types"
	dtypes "github.com/ovrclk/akash/x/deployment/types"
	mtypes "github.com/ovrclk/akash/x/market/types"
	ptypes "github.com/ovrclk/akash/x/provider/types"

	"verif.local/gosched/vs"
)

// Config is one closed harness: the environment menu and its budgets.
type Config struct {
	Name string
	// Manifests: number of EventManifestReceived (distinct manifests v1..vN, published in this order)
	Manifests int
	// Close: market EventLeaseClosed for the lease is in the menu (once)
	Close bool
	// DeployErrs / TeardownErrs: how many Deploy / TeardownLease calls may be answered with an error
	DeployErrs   int
	TeardownErrs int
	// EarlyShutdown: shutdown may be requested at every point (otherwise only when nothing else is left)
	EarlyShutdown bool
	// StatusCalls: LeaseStatus calls answered "healthy" at once; later ones stay in flight until the
	// monitor cancels them (keeps the horizon finite: every health-check tick re-arms the next one)
	StatusCalls int
	// SecondLease: "" = one lease. "free-first" / "shared-first": a second lease B (own order, own
	// reservation) whose single manifest lists a free hostname and lease A's www hostname, in that or
	// the mirrored order. B's manifest is published only while A is deployed and not yet closed, so
	// the hostname service refuses B's reservation; A's close is published only after B's request
	// has been answered. With Close, B closes too.
	SecondLease string
	// Shards: budget lists; every shard is explored by its own worker process
	Shards []Shard
}

// Shard is one budget ladder of a configuration; Tier "quick" shards run in both tiers.
type Shard struct {
	Tier    string
	Budgets []vs.Budget
}

const (
	kDeploy   = "deploy"
	kTeardown = "teardown"
	// hostnames vary across manifest versions (mixed case on purpose: the hostname service lower-cases):
	// v1 {www, api}, v2 drops api, v3 adds new. The unchanged manager reserves the list of the manifest it
	// was created with, once, and releases that same list when it ends.
	hostWWW   = "WWW.Example.COM"
	hostAPI   = "Api.Example.com"
	hostNew   = "new.example.com"
	hostB     = "Free-B.example.com" // asked for by the second lease only
	groupName = "g"
	svcName   = "web"
)

var errInjected = errors.New("injected cluster failure")

// call is one Deploy / TeardownLease invocation of the scripted cluster client. The fields of the
// first block are written by the calling goroutine (in its first, eagerly executed block: it is
// spawned by the deployment manager for exactly this call); released is owned by the environment.
type call struct {
	second  bool // a call for the second lease (kept in inst.callsB, only judged for overlap)
	kind    string
	seq     int // position in start order (= spawn order of the manager's operation goroutines)
	version int // Deploy: version of the manifest group passed in
	// activeAtStart: kinds of the cluster operations of this lease that had begun and not yet returned
	activeAtStart []string
	// tdAccepted: teardown requests the manager had already accepted (received from teardownch) when it issued this call
	tdAccepted int
	// intermediate obligation: while a cluster operation of the lease is in flight the lease's
	// capacity and hostnames must still be accounted as reserved ("released THEN", i.e. after
	// teardown). Read when the call starts and again when it returns, directly from the inventory
	// service's reservation counter and the hostname service's table (no channel round trip).
	resAtStart, resAtEnd   int64
	hostAtStart, hostAtEnd bool
	release                chan string
	result                 string // "" while in flight
	released               bool
}

func (c *call) id() string {
	if c.second {
		return fmt.Sprintf("B.%s#%d", c.kind, c.seq)
	}
	return fmt.Sprintf("%s#%d", c.kind, c.seq)
}

type probe struct {
	begun, ended bool
	leases       uint32
	pending      int
	active       int
	statusErr    string
	hostErr      string   // "" = every hostname of every manifest version can be reserved by another deployment
	stuck        []string // hostnames the hostname service still holds (its own table) when hostErr != ""
}

// inst is the per-execution state.
type inst struct {
	cfg *Config
	// free-running mode (supplementary -race pass, free.go): real goroutines, shim in pass-through
	// mode; nil in controlled executions
	free  *freeRun
	seen  map[string]bool // explore mode: signatures already reported by this worker (nil: report everything)
	known map[string]bool // signatures listed as known findings: tallied, not reported

	bus      pubsub.Bus
	svc      cluster.Service
	ctx      context.Context
	cancel   context.CancelFunc
	lease    mtypes.LeaseID
	leaseB   mtypes.LeaseID // second lease (Config.SecondLease)
	provider sdk.AccAddress

	// written by system goroutines inside the scripted client
	calls      []*call
	active     []*call
	nInventory int
	nStatus    int
	nBroadcast int

	callsB  []*call // cluster calls for the second lease (none on the unchanged tree: its hostnames are refused)
	activeB []*call

	// environment-owned
	publishedB      bool // the second lease's manifest was published
	closedB         bool
	published       int // manifests published so far
	closed          bool
	shutdown        bool
	settled         bool // shutdown was requested with the system quiescent and no cluster call in flight
	deployErrs      int
	teardownErrs    int
	envLog          []string
	due             []string // obligations found violated at the settled point ("[sig] message")
	notes           []string // observations (not violations)
	pr              probe
	svcDone         bool
	setupDone       bool
	reserved        []string        // hostnames the hostname service held for the deployment when the first cluster call started
	tdch            <-chan struct{} // teardownch of the lease's manager (identity only), set by the first cluster call
	tdAcceptedAtEnd int             // teardown requests the manager had accepted at the settled point
}

func newInst(cfg *Config) *inst {
	h := &inst{cfg: cfg}
	owner := sdk.AccAddress([]byte("tenant-address-00001"))
	h.provider = sdk.AccAddress([]byte("provider-address-001"))
	h.lease = mtypes.LeaseID{Owner: owner.String(), DSeq: 7, GSeq: 1, OSeq: 1, Provider: h.provider.String()}
	h.leaseB = mtypes.LeaseID{Owner: owner.String(), DSeq: 8, GSeq: 1, OSeq: 1, Provider: h.provider.String()}
	return h
}

// ---------------------------------------------------------------------------------------------
// data

func units() atypes.ResourceUnits {
	return atypes.ResourceUnits{
		CPU:     &atypes.CPU{Units: atypes.NewResourceValue(100)},
		Memory:  &atypes.Memory{Quantity: atypes.NewResourceValue(1 << 20)},
		Storage: &atypes.Storage{Quantity: atypes.NewResourceValue(1 << 20)},
	}
}

func nodeUnits() atypes.ResourceUnits {
	return atypes.ResourceUnits{
		CPU:     &atypes.CPU{Units: atypes.NewResourceValue(10000)},
		Memory:  &atypes.Memory{Quantity: atypes.NewResourceValue(1 << 30)},
		Storage: &atypes.Storage{Quantity: atypes.NewResourceValue(1 << 30)},
	}
}

var allHosts = []string{hostWWW, hostAPI, hostNew, hostB}

func hostsOf(v int) []string {
	switch v {
	case 1:
		return []string{hostWWW, hostAPI}
	case 2:
		return []string{hostWWW}
	default:
		return []string{hostWWW, hostNew}
	}
}

func inList(xs []string, x string) bool {
	for _, y := range xs {
		if strings.EqualFold(x, y) {
			return true
		}
	}
	return false
}

// mgroup builds manifest version v of the lease's group: same shape, distinct image, own hostname set.
func mgroup(v int) manifest.Group {
	return manifest.Group{
		Name: groupName,
		Services: []manifest.Service{{
			Name:      svcName,
			Image:     fmt.Sprintf("image:v%d", v),
			Resources: units(),
			Count:     1,
			Expose: []manifest.ServiceExpose{{
				Port: 80, Proto: manifest.TCP, Global: true, Hosts: hostsOf(v),
			}},
		}},
	}
}

func versionOf(g *manifest.Group) int {
	v := -1
	if g != nil && len(g.Services) > 0 {
		fmt.Sscanf(g.Services[0].Image, "image:v%d", &v)
	}
	return v
}

func (h *inst) groupSpec() dtypes.GroupSpec {
	return dtypes.GroupSpec{
		Name:      groupName,
		Resources: []dtypes.Resource{{Resources: units(), Count: 1, Price: sdk.NewInt64Coin("uakt", 1)}},
	}
}

// ---------------------------------------------------------------------------------------------
// scripted chain client (the session): only what the cluster service touches

type chainQuery struct {
	client.QueryClient // nil: any other query is a harness error (nil dereference -> panic)
}

func (chainQuery) ActiveLeasesForProvider(sdk.AccAddress) ([]mtypes.QueryLeaseResponse, error) {
	return nil, nil
}

type chainTx struct{ h *inst }

func (t chainTx) Broadcast(ctx context.Context, msgs ...sdk.Msg) error {
	t.h.lock()
	t.h.nBroadcast++
	t.h.unlock()
	return nil
}

type chainClient struct{ h *inst }

func (c chainClient) Query() client.QueryClient { return chainQuery{} }
func (c chainClient) Tx() broadcaster.Client    { return chainTx{c.h} }

// ---------------------------------------------------------------------------------------------
// scripted cluster.Client. Deploy / TeardownLease register themselves in the call log and block on
// a release channel that the environment goroutine answers; Inventory and LeaseStatus answer a
// bounded number of times and then stay in flight until their context is cancelled.

type sclient struct {
	cluster.Client // nil: methods the system under test must not call
	h              *inst
}

func (c *sclient) Deployments(context.Context) ([]ctypes.Deployment, error) { return nil, nil }

func (c *sclient) Inventory(ctx context.Context) ([]ctypes.Node, error) {
	h := c.h
	h.lock()
	h.nInventory++
	n := h.nInventory
	h.unlock()
	vs.Note("inventory", n)
	if n == 1 {
		return []ctypes.Node{cluster.NewNode("node-a", nodeUnits(), nodeUnits())}, nil
	}
	vs.Recv(ctx.Done())
	return nil, ctx.Err()
}

func (c *sclient) LeaseStatus(ctx context.Context, lid mtypes.LeaseID) (*ctypes.LeaseStatus, error) {
	h := c.h
	h.lock()
	h.nStatus++
	n := h.nStatus
	h.unlock()
	vs.Note("status", n)
	if n <= h.cfg.StatusCalls {
		return &ctypes.LeaseStatus{Services: map[string]*ctypes.ServiceStatus{svcName: {Name: svcName, Available: 1, Total: 1}}}, nil
	}
	vs.Recv(ctx.Done())
	return nil, ctx.Err()
}

func (h *inst) begin(kind string, lid mtypes.LeaseID, version int) *call {
	h.lock()
	defer h.unlock()
	c := &call{kind: kind, seq: len(h.calls), version: version, release: make(chan string)}
	if h.cfg.SecondLease != "" && lid.Equals(h.leaseB) {
		// second lease: recorded and released like any call, judged only for overlap
		c.second, c.seq = true, len(h.callsB)
		for _, a := range h.activeB {
			c.activeAtStart = append(c.activeAtStart, a.id())
		}
		c.resAtStart, c.hostAtStart = 1, true
		vs.Note("B", kind, c.seq, strings.Join(c.activeAtStart, ","))
		h.callsB = append(h.callsB, c)
		h.activeB = append(h.activeB, c)
		return c
	}
	if !lid.Equals(h.lease) {
		vs.Fatalf("c14: %s for a foreign lease %v", kind, lid)
	}
	for _, a := range h.active {
		c.activeAtStart = append(c.activeAtStart, a.id())
	}
	c.resAtStart = cluster.VerifC14ReservationCount(h.svc)
	if h.free != nil {
		// free-running: the accessors below read the service's manager map and the hostname table from
		// this goroutine - fine under the scheduler, a race of the harness with real goroutines
		c.hostAtStart = true
		h.calls = append(h.calls, c)
		h.active = append(h.active, c)
		return c
	}
	if ch := cluster.VerifC14TeardownChan(h.svc, lid); ch != nil {
		h.tdch = ch // kept: the service forgets the manager once it is done
	}
	c.tdAccepted = vs.RecvCountNow(h.tdch)
	if len(h.calls) == 0 {
		// what the hostname service itself holds for the deployment when the manager issues its first
		// operation: the set that must stay reserved while operations are in flight (hostnames of later
		// manifests are never reserved by the unchanged manager, so they are not demanded)
		h.reserved = cluster.VerifC14HostnamesInUse(h.svc)
		sort.Strings(h.reserved)
	}
	c.hostAtStart = h.reservedHeld()
	vs.Note(kind, c.seq, version, strings.Join(c.activeAtStart, ","), c.resAtStart, c.hostAtStart)
	h.calls = append(h.calls, c)
	h.active = append(h.active, c)
	return c
}

// reservedHeld: the hostname service still holds every hostname it held at the first operation (and
// it held at least one).
func (h *inst) reservedHeld() bool {
	if len(h.reserved) == 0 {
		return false
	}
	for _, x := range h.reserved {
		if !cluster.VerifC14HostnameInUse(h.svc, x) {
			return false
		}
	}
	return true
}

func (h *inst) end(c *call, res string) {
	h.lock()
	defer h.unlock()
	if c.second {
		for i, a := range h.activeB {
			if a == c {
				h.activeB = append(append([]*call{}, h.activeB[:i]...), h.activeB[i+1:]...)
				break
			}
		}
		c.resAtEnd, c.hostAtEnd = 1, true
		c.result = res
		return
	}
	for i, a := range h.active {
		if a == c {
			h.active = append(append([]*call{}, h.active[:i]...), h.active[i+1:]...)
			break
		}
	}
	c.resAtEnd = cluster.VerifC14ReservationCount(h.svc)
	c.hostAtEnd = h.free != nil || h.reservedHeld()
	vs.Note("end", c.seq, c.resAtEnd, c.hostAtEnd)
	c.result = res
}

func (c *sclient) Deploy(ctx context.Context, lid mtypes.LeaseID, g *manifest.Group) error {
	rec := c.h.begin(kDeploy, lid, versionOf(g))
	res := vs.Recv(rec.release)
	c.h.end(rec, res)
	if res != "ok" {
		return errInjected
	}
	return nil
}

func (c *sclient) TeardownLease(ctx context.Context, lid mtypes.LeaseID) error {
	rec := c.h.begin(kTeardown, lid, 0)
	res := vs.Recv(rec.release)
	c.h.end(rec, res)
	if res != "ok" {
		return errInjected
	}
	return nil
}

// ---------------------------------------------------------------------------------------------
// body: the real cluster service (service.run + inventoryService + hostnameService, and per lease
// deploymentManager + monitor + withdrawal as the service starts them) on a real bus.

// pollPeriod: virtual under the scheduler (the value is irrelevant, timers fire by choice); a few
// real milliseconds when free-running, so that the second inventory check also happens there.
func (h *inst) pollPeriod() time.Duration {
	if h.free != nil {
		return 2 * time.Millisecond
	}
	return 5 * time.Second
}

func (h *inst) body() {
	vs.Label("harness")
	h.bus = pubsub.NewBus()
	h.ctx, h.cancel = context.WithCancel(context.Background())
	sess := session.New(log.NewNopLogger(), chainClient{h}, &ptypes.Provider{Owner: h.provider.String()})
	cfg := cluster.Config{
		InventoryResourcePollPeriod:     h.pollPeriod(),
		InventoryResourceDebugFrequency: 10,
		InventoryExternalPortQuantity:   100,
	}
	svc, err := cluster.NewService(h.ctx, sess, h.bus, &sclient{h: h}, cfg)
	if err != nil {
		vs.Fatalf("c14: NewService: %v", err)
		return
	}
	h.svc = svc
	// the bid engine reserved the order's resources before the lease was won
	if _, err := svc.Reserve(h.lease.OrderID(), h.groupSpec()); err != nil {
		vs.Fatalf("c14: Reserve: %v", err)
		return
	}
	if h.cfg.SecondLease != "" {
		if _, err := svc.Reserve(h.leaseB.OrderID(), h.groupSpec()); err != nil {
			vs.Fatalf("c14: Reserve (second lease): %v", err)
			return
		}
	}
	// The inventory service re-arms its poll timer after every completed check. The periodic poll is
	// not part of C14's alphabet: let the first tick happen now; the check it starts stays in flight
	// (scripted Inventory, call 2), so the timer is never armed again and does not multiply the
	// schedules below. Reservations, lookups, status and unreserve are served regardless.
	if h.free != nil {
		h.setupDone = true
		h.free.start(h)
		return
	}
	vs.Op("await-second-inventory-check", nil, vs.FoldNone, func() bool { return h.nInventory >= 2 }, nil)
	h.setupDone = true
	vs.GoEnv(h.environment)
}

// ---------------------------------------------------------------------------------------------
// environment goroutine (DESIGN 3.3)

type action struct {
	name string
	fire func()
}

func (h *inst) pendingCalls() []*call {
	var p []*call
	for _, c := range h.calls {
		if !c.released {
			p = append(p, c)
		}
	}
	sort.SliceStable(p, func(i, j int) bool { return p[i].seq < p[j].seq })
	var pb []*call
	for _, c := range h.callsB {
		if !c.released {
			pb = append(pb, c)
		}
	}
	sort.SliceStable(pb, func(i, j int) bool { return pb[i].seq < pb[j].seq })
	return append(p, pb...)
}

// second lease: when may its events be published
func (h *inst) aDeployed() bool { return len(h.calls) > 0 }

// bAnswered: the second lease's hostname request has been answered - its manager ended on the
// refusal and the service released its inventory reservation (1 left: lease A's), or it went on to
// a cluster call.
func (h *inst) bAnswered() bool {
	return len(h.callsB) > 0 || cluster.VerifC14ReservationCount(h.svc) <= 1
}

func (h *inst) bEventsLeft() bool {
	if h.cfg.SecondLease == "" {
		return false
	}
	if !h.publishedB {
		return !h.closed // it can still be published (now, or once A is deployed)
	}
	return h.cfg.Close && !h.closedB
}

func (h *inst) eventsLeft() bool {
	return h.published < h.cfg.Manifests || (h.cfg.Close && !h.closed) || h.bEventsLeft()
}

func (h *inst) hasMenu() bool {
	return !h.shutdown || len(h.pendingCalls()) > 0
}

func (h *inst) menu() []action {
	var m []action
	pend := h.pendingCalls()
	for _, c := range pend {
		c := c
		m = append(m, action{c.id() + ":ok", func() { h.release(c, "ok") }})
		if (c.kind == kDeploy && h.deployErrs < h.cfg.DeployErrs) || (c.kind == kTeardown && h.teardownErrs < h.cfg.TeardownErrs) {
			m = append(m, action{c.id() + ":err", func() { h.release(c, "err") }})
		}
	}
	if h.shutdown {
		return m
	}
	if h.published < h.cfg.Manifests {
		m = append(m, action{fmt.Sprintf("manifest:v%d", h.published+1), h.publishManifest})
	}
	// (two leases: A's close waits until B's hostname request has been answered - observed through the
	// reservation counter, or, bounded by quiescence, because a quiescent system has answered it)
	if h.cfg.Close && !h.closed && (h.cfg.SecondLease == "" || !h.publishedB || h.bAnswered() || vs.Quiescent()) {
		m = append(m, action{"lease-closed", h.publishClosed})
	}
	if h.cfg.SecondLease != "" {
		if !h.publishedB && h.aDeployed() && !h.closed {
			m = append(m, action{"B.manifest", h.publishManifestB})
		}
		if h.publishedB && h.cfg.Close && !h.closedB {
			m = append(m, action{"B.lease-closed", h.publishClosedB})
		}
	}
	if h.cfg.EarlyShutdown || (!h.eventsLeft() && len(pend) == 0) {
		m = append(m, action{"shutdown", h.requestShutdown})
	}
	return m
}

func (h *inst) release(c *call, v string) {
	c.released = true
	if v == "err" {
		if c.kind == kDeploy {
			h.deployErrs++
		} else {
			h.teardownErrs++
		}
	}
	vs.Send(c.release, v)
}

func (h *inst) publishManifest() {
	h.published++
	g := mgroup(h.published)
	m := manifest.Manifest{g}
	ev := event.ManifestReceived{
		LeaseID:  h.lease,
		Manifest: &m,
		Group:    &dtypes.Group{GroupID: h.lease.GroupID(), GroupSpec: h.groupSpec()},
	}
	if err := h.bus.Publish(ev); err != nil {
		vs.Fatalf("c14: publish manifest: %v", err)
	}
}

func (h *inst) publishManifestB() {
	h.publishedB = true
	hosts := []string{hostB, hostWWW}
	if h.cfg.SecondLease == "shared-first" {
		hosts = []string{hostWWW, hostB}
	}
	g := mgroup(1)
	g.Services[0].Image = "image:b"
	g.Services[0].Expose[0].Hosts = hosts
	m := manifest.Manifest{g}
	ev := event.ManifestReceived{
		LeaseID:  h.leaseB,
		Manifest: &m,
		Group:    &dtypes.Group{GroupID: h.leaseB.GroupID(), GroupSpec: h.groupSpec()},
	}
	if err := h.bus.Publish(ev); err != nil {
		vs.Fatalf("c14: publish manifest (second lease): %v", err)
	}
}

func (h *inst) publishClosedB() {
	h.closedB = true
	if err := h.bus.Publish(mtypes.NewEventLeaseClosed(h.leaseB, sdk.NewInt64Coin("uakt", 1))); err != nil {
		vs.Fatalf("c14: publish lease-closed (second lease): %v", err)
	}
}

func (h *inst) publishClosed() {
	h.closed = true
	if err := h.bus.Publish(mtypes.NewEventLeaseClosed(h.lease, sdk.NewInt64Coin("uakt", 1))); err != nil {
		vs.Fatalf("c14: publish lease-closed: %v", err)
	}
}

// requestShutdown: if the system has handled everything it was given (quiescent, no cluster call in
// flight) the end-of-history obligations of the statement are evaluated first - through the
// service's own API, while it is still running. Then the provider's context is cancelled.
func (h *inst) requestShutdown() {
	if h.free != nil {
		h.requestShutdownFree()
		return
	}
	q := vs.Quiescent()
	h.settled = q && len(h.pendingCalls()) == 0
	if h.settled {
		h.obligations()
	}
	h.shutdown = true
	vs.Go(func() {
		vs.Label("await-service-done")
		vs.Recv(h.svc.Done())
		h.svcDone = true
	})
	vs.CallCancel(h.cancel)
}

func (h *inst) environment() {
	vs.Label("env")
	for {
		// my turn: with early-injection budget 0 only when the system is quiescent (or directly after
		// my previous event); blocks for good once shutdown was requested and no call is in flight
		vs.Op("env-wait", nil, vs.FoldNone, h.hasMenu, nil)
		// strict turn: one early injection is charged whenever the system is not quiescent, also
		// directly after my previous event (no free bursts of events)
		vs.EnvQuiesce()
		m := h.menu()
		names := make([]string, len(m))
		for i := range m {
			names[i] = m[i].name
		}
		vs.Note("menu", strings.Join(names, ","))
		if len(m) == 0 {
			continue
		}
		a := m[vs.Choose(len(m))]
		h.envLog = append(h.envLog, a.name)
		a.fire()
	}
}

// ---------------------------------------------------------------------------------------------
// Oracle, from the statement of C14.

// reservationsLegitimatelyLeft: the second lease's reservation stays when nothing ever told the
// service about that lease (neither its manifest nor its close was published).
func (h *inst) reservationsLegitimatelyLeft() int {
	if h.cfg.SecondLease != "" && !h.publishedB && !h.closedB {
		return 1
	}
	return 0
}

func (h *inst) deploys() (all []*call, failed bool) {
	for _, c := range h.calls {
		if c.kind == kDeploy {
			all = append(all, c)
			if c.result == "err" {
				failed = true
			}
		}
	}
	return
}

// obligations are the clauses of the statement that speak about the END of a history ("if a lease
// closes, teardown is invoked after the last deploy finishes and the reservation and hostnames are
// then released; absent a close or a failed deploy, the last deploy uses the most recent manifest").
// They are evaluated by the environment goroutine when it requests shutdown as the last event with
// the system quiescent and no cluster call in flight; histories cut short by an earlier shutdown
// are only checked for the safety clauses.
func (h *inst) obligations() {
	due := func(sig, f string, a ...interface{}) { h.due = append(h.due, "["+sig+"] "+fmt.Sprintf(f, a...)) }
	deploys, failed := h.deploys()
	var lastDeploy *call
	if len(deploys) > 0 {
		lastDeploy = deploys[len(deploys)-1]
	}
	// Had the manager accepted the teardown request (received from its teardownch)? It can only do so
	// from inside its loop: a deploy failure handled BEFORE that makes it leave the loop, and the
	// request is then refused (ErrNotRunning) - only those histories are exempt from the teardown
	// clause. A request accepted before or while a deploy is in flight obliges the manager to invoke
	// TeardownLease after that deploy finishes, ok or error.
	h.tdAcceptedAtEnd = vs.RecvCountNow(h.tdch)
	if failed && !(h.closed && h.tdAcceptedAtEnd > 0) {
		// the statement's exception: the manager ended on a failed deploy before any teardown request
		// reached it (or the lease never closed); recorded, not judged
		h.notes = append(h.notes, "failed-deploy:no-teardown-request-accepted")
		return
	}
	if h.closed {
		// teardown attempts issued after the last deploy (all of them when nothing was ever deployed)
		var tds []*call
		tdOK := false
		for _, c := range h.calls {
			if c.kind == kTeardown && (lastDeploy == nil || c.seq > lastDeploy.seq) {
				tds = append(tds, c)
				if c.result == "ok" {
					tdOK = true
				}
			}
		}
		if lastDeploy != nil && len(tds) == 0 {
			when := "after-deploy"
			switch {
			case lastDeploy.tdAccepted > 0:
				when = "deploy-issued-after-teardown-request"
			case lastDeploy.result == "err":
				when = "deploy-failed-after-teardown-request"
			}
			due("teardown-not-invoked-after-close:"+when, "the lease closed and the system is quiescent with no cluster call in flight, but TeardownLease was never invoked after the last Deploy (%s, manifest v%d, %s)", lastDeploy.id(), lastDeploy.version, lastDeploy.result)
		}
		// "... and the reservation and hostnames are then released": due once teardown has completed
		// (a failed attempt is retried after a sleep), or when there was nothing to tear down
		if tdOK || (lastDeploy == nil && len(tds) == 0) {
			h.probe()
			if h.pr.ended {
				if h.pr.statusErr != "" {
					due("probe-failed:status", "Status() failed at the settled point: %s", h.pr.statusErr)
				} else if want := h.reservationsLegitimatelyLeft(); h.pr.pending+h.pr.active != want {
					due("reservation-not-released-after-close", "the lease closed and teardown completed, but the inventory holds %d pending + %d active reservation(s), expected %d (managers: %d)", h.pr.pending, h.pr.active, want, h.pr.leases)
				}
				if h.pr.hostErr != "" {
					sig := "hostnames-not-released-after-close"
					if inList(h.pr.stuck, hostB) {
						// only the second lease ever asked for it, and its request was refused
						sig += ":left-by-refused-request"
					}
					for _, x := range h.pr.stuck {
						if strings.Contains(sig, ":left-by") {
							break
						}
						if !inList(hostsOf(h.published), x) {
							sig += ":dropped-by-later-manifest"
							break
						}
					}
					due(sig, "the lease closed and teardown completed, but hostname(s) %v are still registered to the deployment (reserved at the first operation: %v; hostnames of the last manifest v%d: %v): %s", h.pr.stuck, h.reserved, h.published, hostsOf(h.published), h.pr.hostErr)
				}
			}
		}
		return
	}
	// no close, no failed deploy
	if h.published > 0 {
		switch {
		case lastDeploy == nil:
			due("stale-manifest:no-deploy", "manifest v%d was received but no Deploy was ever issued", h.published)
		case lastDeploy.version != h.published:
			due("stale-manifest:last-deploy-older", "the last Deploy issued (%s) carried manifest v%d, the most recently received manifest is v%d", lastDeploy.id(), lastDeploy.version, h.published)
		}
	}
}

// probe asks the running service, through its own API, whether the lease's reservation is still in
// the inventory and whether its hostname can be reserved by another deployment.
func (h *inst) probe() {
	h.pr.begun = true
	st, err := h.svc.Status(context.Background())
	if err != nil {
		h.pr.statusErr = err.Error()
	} else {
		h.pr.leases = st.Leases
		h.pr.pending = len(st.Inventory.Pending)
		h.pr.active = len(st.Inventory.Active)
		if st.Inventory.Error != nil {
			h.pr.statusErr = st.Inventory.Error.Error()
		}
	}
	other := dtypes.DeploymentID{Owner: h.lease.Owner, DSeq: h.lease.DSeq + 2} // a third deployment
	if err := vs.Recv(h.svc.HostnameService().CanReserveHostnames(allHosts, other)); err != nil {
		h.pr.hostErr = err.Error()
		h.pr.stuck = cluster.VerifC14HostnamesInUse(h.svc)
		sort.Strings(h.pr.stuck)
	}
	h.pr.ended = true
}

func sigOf(msg string) string {
	if strings.HasPrefix(msg, "[") {
		if i := strings.Index(msg, "]"); i > 0 {
			return msg[1:i]
		}
	}
	switch {
	case strings.Contains(msg, "INVALID STATE"):
		return "panic:invalid-state"
	case strings.HasPrefix(msg, "panic"):
		return "panic:other"
	case strings.HasPrefix(msg, "deadlock"):
		return "no-termination-after-shutdown"
	}
	return "unclassified"
}

// tallies of a worker process (not per execution; they influence nothing)
var (
	knownHits   = map[string]int64{}
	knownSample = map[string][]int{}
	noteTally   = map[string]int64{}
)

func (h *inst) check(r *vs.Result) (string, []string) {
	if !h.setupDone && r.Status == vs.StatusDeadlock && h.nInventory >= 2 {
		// Artifact of "any armed timer may fire" during set-up, not a behaviour of the code: the
		// inventory service creates its poll timer with time.NewTimer(time.Hour) and stops it in the
		// next statement; an early injection lets that one-hour timer fire in between, the stale tick
		// replaces the first inventory check by the second (which this harness keeps in flight) and
		// the set-up Reserve never returns. Counted, not judged; the set-up itself is checked at E=0.
		noteTally["setup-artifact:hour-timer-fired-before-stop"]++
		r.Violations = nil
		return "setup-artifact", nil
	}
	var viol []string
	bad := func(sig, f string, a ...interface{}) { viol = append(viol, "["+sig+"] "+fmt.Sprintf(f, a...)) }

	// (1) never two cluster operations for the same lease concurrently
	for _, c := range h.calls {
		if len(c.activeAtStart) > 0 {
			other := kDeploy
			if strings.HasPrefix(c.activeAtStart[0], kTeardown) {
				other = kTeardown
			}
			bad("overlap:"+c.kind+"-during-"+other, "%s started while %s had not returned", c.id(), strings.Join(c.activeAtStart, ","))
		}
	}
	for _, c := range h.callsB {
		if len(c.activeAtStart) > 0 {
			bad("overlap:second-lease", "%s started while %s had not returned", c.id(), strings.Join(c.activeAtStart, ","))
		}
	}
	// (2) never starts a deploy after teardown was requested
	ndeploy := 0
	for _, c := range h.calls {
		if c.kind != kDeploy {
			continue
		}
		ndeploy++
		if c.tdAccepted > 0 {
			which := "redeploy"
			if ndeploy == 1 {
				which = "first-deploy"
			}
			bad("deploy-after-teardown-request:"+which, "%s (manifest v%d) was issued after the manager had accepted the teardown request (lease closed)", c.id(), c.version)
		}
	}
	// (2b) "... the reservation and hostnames are THEN released": not before - while a Deploy or a
	// TeardownLease of the lease is in flight its capacity and hostnames are still accounted for
	for _, c := range h.calls {
		what := "while-deploy-in-flight"
		if c.kind == kTeardown {
			what = "before-teardown-finished"
		}
		if c.resAtStart < 1 || (c.result != "" && c.resAtEnd < 1) {
			when := "returned"
			if c.resAtStart < 1 {
				when = "started"
			}
			bad("reservation-released-"+what, "when %s %s the inventory no longer held the lease's reservation (reservation count %d at start, %d at return)", c.id(), when, c.resAtStart, c.resAtEnd)
		}
		if !c.hostAtStart || (c.result != "" && !c.hostAtEnd) {
			bad("hostnames-released-"+what, "%s: the hostnames reserved for the deployment (%v) were not all held any more (held at start: %v, at return: %v)", c.id(), h.reserved, c.hostAtStart, c.hostAtEnd)
		}
	}
	viol = append(viol, h.due...)
	if h.pr.begun && !h.pr.ended {
		bad("probe-stuck", "Status()/CanReserveHostnames() did not return although the service was running and quiescent")
	}
	// (4) no INVALID STATE panic, no deadlock: reported by the scheduler (r.Violations); termination
	// of service + managers after shutdown = the await-service-done client goroutine finishes
	if h.shutdown && !h.svcDone && r.Status == vs.StatusDone {
		bad("no-termination-after-shutdown", "service.Done() never closed after shutdown")
	}

	// known findings are tallied, everything else is reported once per signature and worker
	filter := func(in []string) []string {
		var out []string
		for _, m := range in {
			sig := sigOf(m)
			if h.known[sig] {
				knownHits[sig]++
				if knownSample[sig] == nil {
					knownSample[sig] = append([]int{}, r.Choices...)
				}
				continue
			}
			if h.seen != nil {
				if h.seen[sig] {
					continue
				}
				h.seen[sig] = true
			}
			out = append(out, m)
		}
		return out
	}
	r.Violations = filter(r.Violations)
	viol = filter(viol)
	for _, n := range h.notes {
		noteTally[n]++
	}

	// canonical observation log
	var b strings.Builder
	fmt.Fprintf(&b, "%s|env[%s]|calls[", r.Status, strings.Join(h.envLog, " "))
	for i, c := range h.calls {
		if i > 0 {
			b.WriteString(" ")
		}
		res := c.result
		if res == "" {
			res = "inflight"
		}
		fmt.Fprintf(&b, "%s", c.kind[:1])
		if c.kind == kDeploy {
			fmt.Fprintf(&b, "v%d", c.version)
		}
		fmt.Fprintf(&b, ":%s", res)
		if len(c.activeAtStart) > 0 {
			fmt.Fprintf(&b, ":during(%s)", strings.Join(c.activeAtStart, ","))
		}
		if c.tdAccepted > 0 {
			fmt.Fprintf(&b, ":td%d", c.tdAccepted)
		}
		if c.resAtStart < 1 || !c.hostAtStart || (c.result != "" && (c.resAtEnd < 1 || !c.hostAtEnd)) {
			fmt.Fprintf(&b, ":res%d/%d:host%v/%v", c.resAtStart, c.resAtEnd, c.hostAtStart, c.hostAtEnd)
		}
	}
	b.WriteString("]")
	if len(h.callsB) > 0 {
		b.WriteString("|callsB[")
		for i, c := range h.callsB {
			if i > 0 {
				b.WriteString(" ")
			}
			fmt.Fprintf(&b, "%s:%s", c.kind[:1], c.result)
		}
		b.WriteString("]")
	}
	fmt.Fprintf(&b, "|settled=%v", h.settled)
	if h.settled {
		fmt.Fprintf(&b, " tdAccepted=%d", h.tdAcceptedAtEnd)
	}
	if h.pr.begun {
		fmt.Fprintf(&b, "|probe{leases=%d pending=%d active=%d host=%q err=%q}", h.pr.leases, h.pr.pending, h.pr.active, h.pr.hostErr, h.pr.statusErr)
	}
	if len(h.notes) > 0 {
		fmt.Fprintf(&b, "|%s", strings.Join(h.notes, ","))
	}
	fmt.Fprintf(&b, "|status=%d inventory=%d done=%v", h.nStatus, h.nInventory, h.svcDone)
	if h.svc != nil && r.Status == vs.StatusDone && h.svcDone {
		fmt.Fprintf(&b, " managers=%d hostnames=%d", cluster.VerifC14ManagerCount(h.svc), len(cluster.VerifC14HostnamesInUse(h.svc)))
	}
	return b.String(), viol
}

func factory(cfg *Config, seen, known map[string]bool) vs.Factory {
	return func() vs.Exec {
		h := newInst(cfg)
		h.seen, h.known = seen, known
		return vs.Exec{Body: h.body, Check: h.check}
	}
}
