// Command c14 decides property C14 (the deployment manager serializes cluster actions and always
// tears down) with the gosched engine: the real provider/cluster service.run + deploymentManager +
// hostnameService + inventoryService (+ monitor / lease-withdrawal goroutines as the service starts
// them), the real pubsub bus, go-lifecycle and retry-go, all mechanically instrumented, run under the
// controlled scheduler against a scripted cluster.Client. Every order in which the environment's
// events (manifest updates, lease closed, deploy / teardown completions and failures, shutdown) can
// reach the system, plus the scheduling deviations allowed by the (preemption, early-injection)
// budgets, is enumerated; the oracle of harness.go is evaluated on every execution.
//
//	c14 -tier quick|thorough [-workers N] [-deadline D]        parent: all configurations, evidence
//	c14 -worker -config NAME -shard K [-deadline D]            worker: one (configuration, budget shard)
//	c14 -replay FILE                                           re-executes a recorded violation
//	c14 -list
//
// exit 0: no violation (known findings are printed, not failed); 1: VIOLATION printed; 2: machinery failure.
package main

import (
	"bytes"
	"context"
	"encoding/json"
	"flag"
	"fmt"
	"os"
	"os/exec"
	"runtime"
	"sort"
	"strings"
	"sync"
	"time"

	"verif.local/gosched/vs"
	"verif.local/verif/evlib"
)

const prop = "C14"

func bs(pairs ...int) []vs.Budget {
	var out []vs.Budget
	for i := 0; i+1 < len(pairs); i += 2 {
		out = append(out, vs.Budget{P: pairs[i], E: pairs[i+1]})
	}
	return out
}

func q(pairs ...int) Shard { return Shard{Tier: "quick", Budgets: bs(pairs...)} }
func t(pairs ...int) Shard { return Shard{Tier: "thorough", Budgets: bs(pairs...)} }

// Every shard is explored to completion by its own worker process. A budget (p,e) covers every
// smaller one; the ladders (0,0);(1,0) are kept so that the evidence lists what was completed even
// if a deadline cuts the last rung. Sizes (transitions, measured): see the comments.
var configs = []*Config{
	// one manifest, the lease closes, every completion may fail once, shutdown may land anywhere,
	// the monitor's first health check succeeds (publishes the deployed status)
	{Name: "m1-close-faults-sd", Manifests: 1, Close: true, DeployErrs: 1, TeardownErrs: 1, EarlyShutdown: true, StatusCalls: 1,
		Shards: []Shard{q(0, 0, 1, 0, 0, 1) /*4M*/, t(1, 1) /*24M*/, t(2, 0) /*6M*/, t(0, 2) /*13M*/, t(2, 1) /*107M*/, t(1, 2)}},
	{Name: "m1-close-faults", Manifests: 1, Close: true, DeployErrs: 1, TeardownErrs: 1,
		Shards: []Shard{q(1, 1) /*6M*/}},
	{Name: "m1-close-sd", Manifests: 1, Close: true, EarlyShutdown: true,
		Shards: []Shard{q(1, 1) /*3M*/}},
	// the smallest closed menu, explored deepest
	{Name: "m1-close", Manifests: 1, Close: true,
		Shards: []Shard{q(2, 1) /*10M*/, q(1, 2) /*8M*/, t(2, 2) /*44M*/, t(3, 1) /*32M*/, t(1, 3) /*24M*/}},
	// an update while deploying / deployed, then the close; one failure per kind
	{Name: "m2-close-faults", Manifests: 2, Close: true, DeployErrs: 1, TeardownErrs: 1,
		Shards: []Shard{q(0, 0, 1, 0) /*13M*/, q(0, 1) /*16M*/, t(1, 1) /*238M*/}},
	{Name: "m2-close-sd", Manifests: 2, Close: true, EarlyShutdown: true,
		Shards: []Shard{q(0, 0, 1, 0) /*5M*/, q(0, 1) /*8M*/, t(1, 1) /*105M*/}},
	// three distinct manifests, no close: the last deploy carries the most recent manifest
	{Name: "m3-faults", Manifests: 3, DeployErrs: 1,
		Shards: []Shard{q(0, 0, 1, 0) /*8M*/, q(0, 1) /*4M*/, t(1, 1) /*87M*/, t(2, 0), t(0, 2)}},
	// three manifests and the close
	{Name: "m3-close", Manifests: 3, Close: true,
		Shards: []Shard{q(0, 0) /*2M*/, t(1, 0) /*92M*/, t(0, 1) /*95M*/}},
	// two leases colliding on a hostname: lease B's manifest lists [free-b, www] (resp. [www, free-b])
	// while lease A holds www - B's reservation is refused, B's manager ends, both leases close; at
	// the end every hostname anybody ever asked for must be reservable by a third deployment
	{Name: "m1-close-b-free-first", Manifests: 1, Close: true, SecondLease: "free-first",
		Shards: []Shard{q(0, 0, 1, 0), q(0, 1), t(1, 1)}},
	{Name: "m1-close-b-shared-first", Manifests: 1, Close: true, SecondLease: "shared-first",
		Shards: []Shard{q(0, 0, 1, 0), q(0, 1), t(1, 1)}},
	// thorough only
	{Name: "m2-close", Manifests: 2, Close: true,
		Shards: []Shard{t(1, 1) /*72M*/, t(2, 0) /*17M*/, t(0, 2) /*16M*/}},
	{Name: "m3-close-faults-sd", Manifests: 3, Close: true, DeployErrs: 1, TeardownErrs: 1, EarlyShutdown: true,
		Shards: []Shard{t(0, 0) /*27M*/}},
	{Name: "m2-close-faults2-sd", Manifests: 2, Close: true, DeployErrs: 2, TeardownErrs: 2, EarlyShutdown: true, StatusCalls: 1,
		Shards: []Shard{t(0, 0) /*8M*/, t(1, 0) /*133M*/, t(0, 1) /*222M*/}},
}

func findConfig(name string) *Config {
	for _, c := range configs {
		if c.Name == name {
			return c
		}
	}
	// ad-hoc configuration for experiments: "x:M,C,D,T,S,ST" = manifests, close, deploy errors,
	// teardown errors, early shutdown, status calls (replay files only ever name listed configurations)
	var m, c, d, t, sd, st int
	if n, _ := fmt.Sscanf(name, "x:%d,%d,%d,%d,%d,%d", &m, &c, &d, &t, &sd, &st); n == 6 {
		return &Config{Name: name, Manifests: m, Close: c != 0, DeployErrs: d, TeardownErrs: t, EarlyShutdown: sd != 0, StatusCalls: st, Shards: []Shard{q(0, 0)}}
	}
	return nil
}

// Replay is the content of /verif/replays/C14-<n>.json.
type Replay struct {
	Property  string   `json:"property"`
	Signature string   `json:"signature"`
	Config    string   `json:"config"`
	Choices   []int    `json:"choices"`
	Ns        []int    `json:"ns"`
	Status    string   `json:"status"`
	Messages  []string `json:"messages"`
	Obs       string   `json:"obs"`
	Schedule  []string `json:"schedule"`
	How       string   `json:"how_to_replay"`
}

type workerOut struct {
	Config      string           `json:"config"`
	Shard       int              `json:"shard"`
	Stats       *vs.Stats        `json:"stats"`
	KnownHits   map[string]int64 `json:"known_hits,omitempty"`
	KnownSample map[string][]int `json:"known_sample,omitempty"`
	Notes       map[string]int64 `json:"notes,omitempty"`
}

func exploreOpts(budgets []vs.Budget, deadline time.Time) vs.Options {
	return vs.Options{Budgets: budgets, Prune: true, Deadline: deadline, MaxSteps: 50000, MaxViolations: 16, DelayBounded: true, LazyTimers: true}
}

func knownSet() (map[string]bool, evlib.Findings, error) {
	f, err := evlib.LoadFindings()
	if err != nil {
		return nil, f, err
	}
	k := map[string]bool{}
	for _, x := range f.Findings {
		if x.Status == "known" && x.Property == prop {
			k[x.Signature] = true
		}
	}
	return k, f, nil
}

func main() {
	var (
		tier      = flag.String("tier", evlib.Tier(), "quick|thorough")
		workers   = flag.Int("workers", 0, "parallel worker processes (default: min(16, NumCPU))")
		config    = flag.String("config", "", "run one configuration only")
		shard     = flag.Int("shard", 0, "worker mode: index of the budget shard")
		worker    = flag.Bool("worker", false, "worker mode: print JSON stats on stdout")
		replay    = flag.String("replay", "", "replay file to re-execute")
		list      = flag.Bool("list", false, "list configurations")
		deadline  = flag.Duration("deadline", 0, "internal deadline for the exploration (0: tier default)")
		noEvid    = flag.Bool("no-evidence", false, "do not write evidence / replay files (mutant runs)")
		selftestN = flag.Int("selftest", 2, "determinism self-test: replays of one recorded schedule")
		failFast  = flag.Bool("fail-fast", false, "stop the remaining workers as soon as one reports a violation (mutant runs)")
		budgetStr = flag.String("budgets", "", "worker mode: override the shard's budgets, e.g. \"0,0;1,0\" (-1 = unbounded)")
		free      = flag.Int("free", 0, "supplementary pass: run every configuration of the tier N times FREE-RUNNING (real goroutines, shim in pass-through mode); build with -race")
		choices   = flag.String("choices", "-", "with -config: run this comma separated choice list (may be empty) once and print the schedule")
	)
	flag.Parse()
	switch {
	case *list:
		for _, c := range configs {
			fmt.Printf("%-28s shards=%v\n", c.Name, c.Shards)
		}
	case *replay != "":
		os.Exit(doReplay(*replay))
	case *choices != "-":
		os.Exit(doChoices(*config, *choices))
	case *free > 0:
		os.Exit(doFree(*tier, *config, *free))
	case *worker:
		os.Exit(doWorker(*config, *shard, *budgetStr, *deadline))
	default:
		os.Exit(doParent(*tier, *workers, *config, *deadline, *noEvid, *selftestN, *failFast))
	}
}

func parseBudgets(spec string) ([]vs.Budget, error) {
	var out []vs.Budget
	for _, part := range strings.Split(spec, ";") {
		var p, e int
		if _, err := fmt.Sscanf(part, "%d,%d", &p, &e); err != nil {
			return nil, fmt.Errorf("bad budget %q", part)
		}
		if p < 0 {
			p = vs.Unbounded
		}
		if e < 0 {
			e = vs.Unbounded
		}
		out = append(out, vs.Budget{P: p, E: e})
	}
	return out, nil
}

func doWorker(name string, shard int, budgetStr string, d time.Duration) int {
	cfg := findConfig(name)
	if cfg == nil || shard < 0 || shard >= len(cfg.Shards) {
		fmt.Fprintf(os.Stderr, "c14: unknown configuration/shard %q/%d\n", name, shard)
		return 2
	}
	budgets := cfg.Shards[shard].Budgets
	if budgetStr != "" {
		b, err := parseBudgets(budgetStr)
		if err != nil {
			fmt.Fprintln(os.Stderr, "c14:", err)
			return 2
		}
		budgets = b
	}
	known, _, err := knownSet()
	if err != nil {
		fmt.Fprintln(os.Stderr, "c14: known_findings.json:", err)
		return 2
	}
	var dl time.Time
	if d > 0 {
		dl = time.Now().Add(d)
	}
	st := vs.Explore(factory(cfg, map[string]bool{}, known), exploreOpts(budgets, dl))
	json.NewEncoder(os.Stdout).Encode(workerOut{Config: name, Shard: shard, Stats: st, KnownHits: knownHits, KnownSample: knownSample, Notes: noteTally})
	if len(st.Errors) > 0 {
		return 2
	}
	return 0
}

func printRun(cfg *Config, r *vs.Result, nchoices int) int {
	fmt.Printf("configuration %s, %d choices, %d transitions, status %s\n", cfg.Name, nchoices, r.Steps, r.Status)
	for _, l := range r.Trace {
		fmt.Println("  ", l)
	}
	fmt.Println("observation:", r.Obs)
	switch r.Status {
	case vs.StatusDone, vs.StatusDeadlock, vs.StatusPanic:
	default:
		fmt.Printf("replay failed: %s %s\n", r.Status, r.Msg)
		return 2
	}
	if r.Status == vs.StatusPanic {
		fmt.Println(r.PanicStack)
	}
	if len(r.Violations) == 0 {
		fmt.Println("no violation on this schedule")
		return 0
	}
	for _, v := range r.Violations {
		fmt.Println("VIOLATED:", v)
	}
	return 1
}

func doReplay(path string) int {
	raw, err := os.ReadFile(path)
	if err != nil {
		fmt.Fprintln(os.Stderr, "c14:", err)
		return 2
	}
	var rp Replay
	if err := json.Unmarshal(raw, &rp); err != nil {
		fmt.Fprintln(os.Stderr, "c14:", err)
		return 2
	}
	cfg := findConfig(rp.Config)
	if cfg == nil {
		fmt.Fprintf(os.Stderr, "c14: unknown configuration %q\n", rp.Config)
		return 2
	}
	r := vs.RunOnce(factory(cfg, nil, nil), rp.Choices, exploreOpts(nil, time.Time{}))
	return printRun(cfg, r, len(rp.Choices))
}

func doChoices(name, list string) int {
	cfg := findConfig(name)
	if cfg == nil {
		fmt.Fprintf(os.Stderr, "c14: unknown configuration %q\n", name)
		return 2
	}
	var ch []int
	for _, f := range strings.Split(list, ",") {
		f = strings.TrimSpace(f)
		if f == "" {
			continue
		}
		var n int
		if _, err := fmt.Sscanf(f, "%d", &n); err != nil {
			fmt.Fprintln(os.Stderr, "c14: bad choice list")
			return 2
		}
		ch = append(ch, n)
	}
	r := vs.RunOnce(factory(cfg, nil, nil), ch, exploreOpts(nil, time.Time{}))
	return printRun(cfg, r, len(ch))
}

// selfTest replays one recorded schedule n times and compares the observation logs and traces.
func selfTest(n int) error {
	cfg := findConfig("m2-close-faults")
	rec := vs.Explore(factory(cfg, nil, nil), vs.Options{Budgets: []vs.Budget{{P: 0, E: 0}}, DelayBounded: true, LazyTimers: true, MaxSteps: 50000, Samples: 3, MaxViolations: 1 << 30, Deadline: time.Now().Add(15 * time.Second)})
	if len(rec.Errors) > 0 {
		return fmt.Errorf("self-test exploration failed: %v", rec.Errors)
	}
	if len(rec.Samples) == 0 {
		return fmt.Errorf("self-test recorded no schedule")
	}
	s := rec.Samples[len(rec.Samples)-1]
	for i := 0; i < n; i++ {
		r := vs.RunOnce(factory(cfg, nil, nil), s.Choices, exploreOpts(nil, time.Time{}))
		if r.Obs != s.Obs || r.Status.String() != s.Status {
			return fmt.Errorf("replay %d of schedule %v diverged:\n recorded %s %q\n replayed %s %q", i, s.Choices, s.Status, s.Obs, r.Status, r.Obs)
		}
		if strings.Join(r.Trace, "\n") != strings.Join(s.Trace, "\n") {
			return fmt.Errorf("replay %d of schedule %v produced a different schedule trace", i, s.Choices)
		}
	}
	return nil
}

type job struct {
	cfg   *Config
	shard int
}

func doParent(tier string, nworkers int, only string, d time.Duration, noEvid bool, selftestN int, failFast bool) int {
	ctx, cancel := context.WithCancel(context.Background())
	defer cancel()
	start := time.Now()
	if tier != "quick" && tier != "thorough" {
		fmt.Fprintf(os.Stderr, "c14: bad tier %q\n", tier)
		return 2
	}
	if nworkers <= 0 {
		nworkers = runtime.NumCPU()
		if nworkers > 16 {
			nworkers = 16
		}
	}
	if d == 0 {
		d = 130 * time.Second
		if tier == "thorough" {
			d = 25 * time.Minute
		}
	}
	known, findings, err := knownSet()
	if err != nil {
		fmt.Fprintln(os.Stderr, "c14: known_findings.json:", err)
		return 2
	}
	if err := selfTest(selftestN); err != nil {
		fmt.Fprintln(os.Stderr, "c14: determinism self-test FAILED:", err)
		return 2
	}
	fmt.Printf("c14: determinism self-test ok (%d replays)\n", selftestN)

	var jobs []job
	var names []string
	for _, c := range configs {
		if only != "" && c.Name != only {
			continue
		}
		n := 0
		for k, sh := range c.Shards {
			if sh.Tier == "quick" || tier == "thorough" {
				jobs = append(jobs, job{c, k})
				n++
			}
		}
		if n > 0 {
			names = append(names, c.Name)
		}
	}
	if len(jobs) == 0 {
		fmt.Fprintln(os.Stderr, "c14: no configuration selected")
		return 2
	}
	// heaviest shards (highest budgets) first
	weight := func(j job) int {
		w := 0
		for _, b := range j.cfg.Shards[j.shard].Budgets {
			if x := 10*b.P + 11*b.E + j.cfg.Manifests; x > w {
				w = x
			}
		}
		return w
	}
	sort.SliceStable(jobs, func(i, k int) bool { return weight(jobs[i]) > weight(jobs[k]) })

	self, err := os.Executable()
	if err != nil {
		fmt.Fprintln(os.Stderr, "c14:", err)
		return 2
	}
	results := make([]*workerOut, len(jobs))
	errs := make([]string, len(jobs))
	var wg sync.WaitGroup
	sem := make(chan struct{}, nworkers)
	for i, j := range jobs {
		i, j := i, j
		wg.Add(1)
		go func() {
			defer wg.Done()
			sem <- struct{}{}
			defer func() { <-sem }()
			remaining := d - time.Since(start)
			if remaining < 5*time.Second {
				remaining = 5 * time.Second
			}
			if ctx.Err() != nil {
				return
			}
			cmd := exec.CommandContext(ctx, self, "-worker", "-config", j.cfg.Name, "-shard", fmt.Sprint(j.shard), "-deadline", remaining.String())
			cmd.Env = append(os.Environ(), "GOMAXPROCS=1")
			var out, stderr bytes.Buffer
			cmd.Stdout, cmd.Stderr = &out, &stderr
			err := cmd.Run()
			var wo workerOut
			if ctx.Err() != nil && err != nil {
				return // stopped by -fail-fast
			}
			if jerr := json.Unmarshal(out.Bytes(), &wo); jerr != nil || wo.Stats == nil {
				errs[i] = fmt.Sprintf("worker %s/%d: %v: %s", j.cfg.Name, j.shard, err, lastLines(stderr.String(), 25))
				return
			}
			if err != nil && len(wo.Stats.Errors) == 0 {
				errs[i] = fmt.Sprintf("worker %s/%d: %v: %s", j.cfg.Name, j.shard, err, lastLines(stderr.String(), 25))
			}
			results[i] = &wo
			if failFast && len(wo.Stats.Violations) > 0 {
				cancel()
			}
		}()
	}
	wg.Wait()

	machinery := false
	for _, e := range errs {
		if e != "" {
			fmt.Fprintln(os.Stderr, "c14: MACHINERY FAILURE:", e)
			machinery = true
		}
	}
	var (
		tot        vs.Stats
		perShard   = map[string]interface{}{}
		samples    []interface{}
		exhaust    = true
		nviol      = 0
		replays    []string
		sigsSeen   = map[string]bool{}
		knownTotal = map[string]int64{}
		knownEx    = map[string]string{}
		notes      = map[string]int64{}
		completed  = map[string][]string{}
	)
	fmt.Printf("%-34s %10s %10s %10s %12s %9s %8s %-5s %s\n", "configuration/shard", "executions", "pruned", "states", "transitions", "outcomes", "wall_s", "exh", "budgets completed")
	for i, wo := range results {
		if wo == nil {
			exhaust = false
			continue
		}
		cfg := jobs[i].cfg
		st := wo.Stats
		key := fmt.Sprintf("%s/%d", wo.Config, wo.Shard)
		for _, e := range st.Errors {
			fmt.Fprintf(os.Stderr, "c14: MACHINERY FAILURE in %s: %s\n", key, e)
			machinery = true
		}
		fmt.Printf("%-34s %10d %10d %10d %12d %9d %8.1f %-5v %s\n", key, st.Executions, st.Pruned, st.States, st.Transitions, st.DistinctOutcomes, st.WallS, st.Exhaustive, strings.Join(st.BudgetsCompleted, " "))
		tot.Executions += st.Executions
		tot.Pruned += st.Pruned
		tot.Skipped += st.Skipped
		tot.States += st.States
		tot.Transitions += st.Transitions
		tot.DistinctOutcomes += st.DistinctOutcomes
		tot.Deadlocks += st.Deadlocks
		tot.Panics += st.Panics
		if st.MaxChoiceDepth > tot.MaxChoiceDepth {
			tot.MaxChoiceDepth = st.MaxChoiceDepth
		}
		if !st.Exhaustive {
			exhaust = false
		}
		completed[wo.Config] = append(completed[wo.Config], st.BudgetsCompleted...)
		perShard[key] = map[string]interface{}{
			"budgets": fmt.Sprint(cfg.Shards[wo.Shard].Budgets), "executions": st.Executions, "pruned_revisits": st.Pruned, "skipped_by_lookahead": st.Skipped, "states": st.States,
			"transitions": st.Transitions, "distinct_outcomes": st.DistinctOutcomes, "exhaustive": st.Exhaustive, "budgets_completed": st.BudgetsCompleted,
			"deadlocks": st.Deadlocks, "panics": st.Panics, "max_choice_depth": st.MaxChoiceDepth, "wall_s": st.WallS,
		}
		for n, c := range wo.Notes {
			notes[n] += c
		}
		for sig, c := range wo.KnownHits {
			knownTotal[sig] += c
			if knownEx[sig] == "" {
				knownEx[sig] = fmt.Sprintf("config=%s choices=%v", wo.Config, wo.KnownSample[sig])
			}
		}
		if len(samples) < 4 && len(st.Samples) > 0 {
			s := st.Samples[len(st.Samples)-1]
			samples = append(samples, map[string]interface{}{"config": wo.Config, "budgets": fmt.Sprint(cfg.Shards[wo.Shard].Budgets), "choices": s.Choices, "status": s.Status, "observation": s.Obs, "schedule": s.Trace})
		}
		for _, v := range st.Violations {
			// one report per signature over the whole run
			var fresh []string
			for _, m := range v.Messages {
				if sig := sigOf(m); !sigsSeen[sig] {
					fresh = append(fresh, sig)
				}
			}
			if len(fresh) == 0 {
				continue
			}
			// every violation is replayed 5x from its choice list before it is printed
			var first *vs.Result
			for k := 0; k < 5; k++ {
				r := vs.RunOnce(factory(cfg, nil, known), v.Choices, exploreOpts(nil, time.Time{}))
				if r.Obs != v.Obs || !sameSigs(r.Violations, v.Messages) {
					fmt.Fprintf(os.Stderr, "c14: MACHINERY FAILURE: replay %d of a violation in %s diverged:\n recorded %q %v\n replayed %q %v\n", k, key, v.Obs, v.Messages, r.Obs, r.Violations)
					machinery = true
					break
				}
				if first == nil {
					first = r
				}
			}
			if machinery {
				continue
			}
			for _, sig := range fresh {
				sigsSeen[sig] = true
			}
			nviol++
			rp := Replay{Property: prop, Signature: strings.Join(fresh, " + "), Config: cfg.Name, Choices: v.Choices, Ns: v.Ns, Status: v.Status, Messages: first.Violations, Obs: v.Obs, Schedule: first.Trace,
				How: "/verif/checks/C14 replay <this file>"}
			path := fmt.Sprintf("(not written) config=%s choices=%v", cfg.Name, v.Choices)
			if !noEvid {
				p, err := evlib.WriteReplay(prop, nviol, rp)
				if err != nil {
					fmt.Fprintln(os.Stderr, "c14:", err)
					machinery = true
				}
				path = p
			}
			replays = append(replays, path)
			fmt.Printf("VIOLATION property=%s replay=%s\n", prop, path)
			for _, m := range first.Violations {
				fmt.Printf("  [%s] signature=%s : %s\n", cfg.Name, sigOf(m), m)
			}
			fmt.Printf("  environment: %s\n", envOf(v.Obs))
		}
	}
	var ksigs []string
	for sig := range knownTotal {
		ksigs = append(ksigs, sig)
	}
	sort.Strings(ksigs)
	for _, sig := range ksigs {
		what := ""
		if f, ok := findings.Known(prop, sig); ok {
			what = f.What
		}
		fmt.Printf("KNOWN-FINDING: property=%s signature=%s executions=%d example{%s} %s\n", prop, sig, knownTotal[sig], knownEx[sig], what)
	}
	wall := time.Since(start).Seconds()
	fmt.Printf("c14: tier=%s configurations=%d shards=%d executions=%d states=%d transitions=%d outcomes=%d deadlocks=%d panics=%d exhaustive=%v violations=%d wall=%.1fs\n",
		tier, len(names), len(jobs), tot.Executions, tot.States, tot.Transitions, tot.DistinctOutcomes, tot.Deadlocks, tot.Panics, exhaust && !machinery, nviol, wall)
	for n, c := range notes {
		fmt.Printf("c14: observation %s: %d executions\n", n, c)
	}
	if machinery {
		// a run that found a violation reports it (exit 1) even if other shards broke; exit 2 only
		// when nothing was found and something broke. No evidence is written in either case.
		if nviol > 0 {
			return 1
		}
		return 2
	}
	if !noEvid {
		traces := tot.Executions
		ev := evlib.Evidence{
			PropertyID: prop, Tier: tier, Seed: evlib.Seed(), Level: "model_checking", WallS: wall, Violations: nviol,
			Coverage: evlib.Coverage{
				Evaluations:        tot.Executions,
				DistinctNontrivial: tot.DistinctOutcomes,
				Rule: "the real, instrumented cluster service (service.run, deploymentManager, hostnameService, inventoryService, deployment monitor, lease withdrawal, pubsub bus, go-lifecycle, retry-go) under the gosched cooperative scheduler against a scripted cluster.Client; " +
					"for each configuration in 'configurations' every sequence of environment events (manifest v1..vN, lease-closed, each Deploy/TeardownLease completion ok or error within the fault budget, shutdown; virtual timers - monitor ticks, retry sleeps, inventory poll - fire by explorer choice) " +
					"and every scheduling deviation within the listed budgets (P,E) is enumerated by a stateless DFS with history-hash pruning; " +
					"P = deviations from the canonical run-to-block schedule (delay bounding: when the running goroutine blocks, the oldest enabled goroutine continues for free, any other choice and any preemption costs 1; select alternatives of the running goroutine are free), " +
					"E = early injections (an environment event or a timer firing while the system is not quiescent, also directly after the previous event); (0,0) = every order of the environment events, each handled to quiescence; " +
					"evaluations = complete executions on which the oracle was evaluated; states = expanded choice-point states; " +
					"distinct_nontrivial = distinct observation logs (event sequence + call log with results + probe of inventory/hostnames + termination), summed over shards",
				Samples:         samples,
				States:          tot.States,
				Transitions:     tot.Transitions,
				TracesValidated: &traces,
				Exhaustive:      exhaust,
				Extra: map[string]interface{}{
					"configurations":       names,
					"per_shard":            perShard,
					"budgets_completed":    completed,
					"pruned_revisits":      tot.Pruned,
					"skipped_by_lookahead": tot.Skipped,
					"deadlocks":            tot.Deadlocks,
					"panics":               tot.Panics,
					"max_choice_depth":     tot.MaxChoiceDepth,
					"replays":              append([]string{}, replays...),
					"known_findings_hit":   knownTotal,
					"observations":         notes,
					"workers":              nworkers,
				},
			},
			Assumptions: []string{
				"interleaving granularity: one transition = the code between two channel/select/sync/timer operations of one goroutine; unsynchronised shared-memory accesses (e.g. dm.mgroup read by the deploy goroutine) are outside this check",
				"bounded: one lease, <= 3 manifest updates, <= 2 failures per kind, budgets as listed per shard; LeaseStatus answers 'healthy' a bounded number of times and Inventory once, later calls stay in flight (finite horizon); the inventory poll timer is consumed during set-up (the periodic poll is not in C14's alphabet)",
				"virtual timers fire by explorer choice, but only while some goroutine waits on them (a tick nobody can observe commutes with everything: sound reduction); durations are treated as arbitrary. Artifact excluded and counted under observations: the inventory service's NewTimer(time.Hour) firing before the Stop() in the next statement during set-up",
				"'teardown was requested' = the manager received from its teardownch (observed through the channel model, vs.RecvCountNow, in the first block of the operation goroutine the manager spawned)",
				"intermediate clause ('released THEN', i.e. not before teardown has finished): at the start and at the return of every Deploy / TeardownLease call the lease's reservation (inventoryService.reservationCount) and hostname (hostnameService.inUse) must still be present; read in place through in-package accessors, no channel round trip",
				"hostnames: manifest v1 carries {www, api}, v2 drops api, v3 adds new; 'held while an operation is in flight' is demanded of the set the hostname service itself held at the manager's first operation (the unchanged manager never reserves hostnames of later manifests); after close + completed teardown EVERY hostname of every version must be reservable by another deployment",
				"two-lease configurations (m1-close-b-*): the second lease's manifest is published only while lease A is deployed and not yet closed, and A's close only after B's hostname request has been answered, so that B's reservation is refused; B's cluster calls (none on the unchanged tree) are only judged for overlap; at the end every hostname any manager asked for, including those of the refused request, must be reservable by a third deployment, and the inventory must hold no reservation of either lease",
				"end-of-history clauses (teardown invoked after the last deploy, reservation and hostnames released, last deploy carries the latest manifest) are evaluated when shutdown is requested last with the system quiescent and no cluster call in flight, through Service.Status() and HostnameService().CanReserveHostnames(); histories cut by an earlier shutdown are checked for the safety clauses and termination only",
				"scope: exempt from the teardown clause are ONLY histories in which a deploy failed before the manager accepted the teardown request (it has left its loop then and refuses the request; counted under coverage.observations as failed-deploy:no-teardown-request-accepted); a request accepted before or while a deploy is in flight must be followed by TeardownLease after that deploy finishes, ok or error",
				"the hostname reservation answer is produced by the real hostnameService goroutine; 'lease closed before the answer' is reached as a scheduling/select choice, not as a menu event",
			},
		}
		if err := evlib.Write(ev); err != nil {
			fmt.Fprintln(os.Stderr, "c14: writing evidence:", err)
			return 2
		}
	}
	if nviol > 0 {
		return 1
	}
	return 0
}

func sameSigs(a, b []string) bool {
	set := func(xs []string) string {
		m := map[string]bool{}
		for _, x := range xs {
			m[sigOf(x)] = true
		}
		var k []string
		for s := range m {
			k = append(k, s)
		}
		sort.Strings(k)
		return strings.Join(k, "|")
	}
	// the explorer reports a signature once per worker: the replay (which reports everything) must
	// contain at least the recorded ones
	sa, sb := set(a), set(b)
	if sa == sb {
		return true
	}
	for _, x := range strings.Split(sb, "|") {
		if !strings.Contains("|"+sa+"|", "|"+x+"|") {
			return false
		}
	}
	return true
}

func envOf(obs string) string {
	if i := strings.Index(obs, "env["); i >= 0 {
		if j := strings.Index(obs[i:], "]"); j > 0 {
			return obs[i+4 : i+j]
		}
	}
	return ""
}

func lastLines(s string, n int) string {
	l := strings.Split(strings.TrimSpace(s), "\n")
	if len(l) > n {
		l = l[len(l)-n:]
	}
	return strings.Join(l, "\n")
}
