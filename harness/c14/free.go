package main

// Supplementary free-running pass (DESIGN 3.2; `checks/C14 race`): the SAME harness body, scripted
// cluster / chain clients and environment menu run with real goroutines and real channels - no
// execution is active, so every vs.* call of the instrumented code falls through to the plain Go
// operation (shim in pass-through mode, vtime = package time). Built with -race, this gives the race
// detector a chance on the engine's premise (shared state of provider/cluster, pubsub, runner,
// go-lifecycle and retry-go is only touched around channel/select/sync operations); under the
// cooperative scheduler every hand-off is a happens-before edge and the detector is blind.
//
// The pass DECIDES NOTHING about C14: it is not exhaustive, its environment picks menu entries
// pseudo-randomly and paces itself with the real clock, only schedule-independent safety facts are
// judged (no two cluster operations of the lease overlap; the lease's reservation is still counted
// while an operation is in flight), and a run that has not come to rest within a generous horizon
// is "inconclusive", never a violation. The in-package accessors that read the service's manager
// map and the hostname service's table from a foreign goroutine are NOT used here (they would be
// races of the harness, not of the code).

import (
	"fmt"
	"math/rand"
	"os"
	"runtime"
	"strings"
	"sync"
	"time"
)

const freeHorizon = 6 * time.Second

// freeRun is the extra per-run state of a free-running instance. The harness's own bookkeeping (call
// log, counters, done flag) is shared between real goroutines here, so it is guarded by mu; in
// controlled executions inst.free is nil and lock/unlock do nothing (one goroutine runs at a time).
type freeRun struct {
	mu      sync.Mutex
	rng     *rand.Rand
	clients sync.WaitGroup
	envs    sync.WaitGroup
	gaveUp  bool // the service had not terminated freeHorizon after the last thing the environment did
}

// C14_FREE_NOLOCK=1 drops the guard around the harness's own bookkeeping: the detector must then
// report races (in harness.go) - a liveness test of the pass itself, see `checks/C14 race-selftest`.
var freeNoLock = os.Getenv("C14_FREE_NOLOCK") != ""

func (h *inst) lock() {
	if h.free != nil && !freeNoLock {
		h.free.mu.Lock()
	}
}

func (h *inst) unlock() {
	if h.free != nil && !freeNoLock {
		h.free.mu.Unlock()
	}
}

func (f *freeRun) start(h *inst) {
	f.envs.Add(1)
	go func() { defer f.envs.Done(); h.environmentFree() }()
}

// environmentFree is the environment goroutine without a scheduler: sometimes it lets the system run
// ahead and sometimes it injects at once, then fires a pseudo-randomly chosen menu entry; after the
// shutdown it keeps answering the cluster calls still in flight until the service has terminated.
// Its own fields (published, closed, shutdown, error budgets, envLog) are touched by it alone.
func (h *inst) environmentFree() {
	f := h.free
	idleSince := time.Now()
	for {
		h.lock()
		done, has := h.svcDone, h.hasMenu()
		h.unlock()
		if done && !has {
			return
		}
		if !has {
			if time.Since(idleSince) > freeHorizon {
				f.gaveUp = true
				return
			}
			time.Sleep(20 * time.Microsecond)
			continue
		}
		switch f.rng.Intn(4) {
		case 0: // at once (an event landing while the system is busy)
		case 1:
			runtime.Gosched()
		case 2:
			time.Sleep(time.Duration(f.rng.Intn(100)) * time.Microsecond)
		case 3:
			time.Sleep(400 * time.Microsecond) // usually long enough for the system to settle
		}
		h.lock()
		m := h.menu()
		h.unlock()
		if len(m) == 0 {
			continue
		}
		a := m[f.rng.Intn(len(m))]
		h.envLog = append(h.envLog, a.name)
		a.fire()
		idleSince = time.Now()
	}
}

// requestShutdownFree: no end-of-history obligations here (there is no quiescence to observe).
func (h *inst) requestShutdownFree() {
	h.shutdown = true
	h.free.clients.Add(1)
	go func() {
		defer h.free.clients.Done()
		<-h.svc.Done()
		h.lock()
		h.svcDone = true
		h.unlock()
	}()
	h.cancel()
}

func waitWG(wg *sync.WaitGroup, d time.Duration) bool {
	done := make(chan struct{})
	go func() { wg.Wait(); close(done) }()
	t := time.NewTimer(d)
	defer t.Stop()
	select {
	case <-done:
		return true
	case <-t.C:
		return false
	}
}

// checkFree judges the schedule-independent safety facts on the call log.
func (h *inst) checkFree() (string, []string) {
	var viol []string
	var b strings.Builder
	fmt.Fprintf(&b, "env[%s]|calls[", strings.Join(h.envLog, " "))
	for i, c := range h.calls {
		if i > 0 {
			b.WriteString(" ")
		}
		fmt.Fprintf(&b, "%s", c.kind[:1])
		if c.kind == kDeploy {
			fmt.Fprintf(&b, "v%d", c.version)
		}
		fmt.Fprintf(&b, ":%s", c.result)
		if len(c.activeAtStart) > 0 {
			viol = append(viol, fmt.Sprintf("[overlap] %s started while %s had not returned", c.id(), strings.Join(c.activeAtStart, ",")))
		}
		if c.resAtStart < 1 || (c.result != "" && c.resAtEnd < 1) {
			viol = append(viol, fmt.Sprintf("[reservation-released-while-operation-in-flight] %s: reservation count %d at start, %d at return", c.id(), c.resAtStart, c.resAtEnd))
		}
	}
	b.WriteString("]")
	return b.String(), viol
}

// runFree executes one configuration once, free-running. Result: "clean", "inconclusive", or the
// safety violations (termination and the end-of-history clauses are not judged here).
func runFree(cfg *Config, seed int64) (status string, obs string, viol []string) {
	h := newInst(cfg)
	h.free = &freeRun{rng: rand.New(rand.NewSource(seed))}
	h.body()
	finished := waitWG(&h.free.envs, 3*freeHorizon) && waitWG(&h.free.clients, freeHorizon)
	if !finished || h.free.gaveUp {
		// no verdict of any kind; make a best effort to let the goroutines of this run go away
		h.cancel()
		return "inconclusive", "", nil
	}
	h.lock()
	obs, viol = h.checkFree()
	h.unlock()
	h.bus.Close()
	if len(viol) > 0 {
		return "violation", obs, viol
	}
	return "clean", obs, nil
}

// doFree runs every configuration that has a shard in the tier (or the one named) n times. Exit 0
// clean, 1 safety violation seen; the race detector makes the process exit 66 by itself when it has
// reported a race.
func doFree(tier, only string, n int) int {
	start := time.Now()
	var nconf, runs, clean, inconclusive, bad int
	outcomes := map[string]bool{}
	for ci, c := range configs {
		if only != "" {
			if c.Name != only {
				continue
			}
		} else {
			in := false
			for _, sh := range c.Shards {
				if sh.Tier == "quick" || tier == "thorough" {
					in = true
				}
			}
			if !in {
				continue
			}
		}
		nconf++
		cClean, cInc, cBad := 0, 0, 0
		for i := 0; i < n; i++ {
			runs++
			status, obs, viol := runFree(c, int64(ci)*1000003+int64(i))
			switch status {
			case "clean":
				clean++
				cClean++
				outcomes[c.Name+"|"+obs] = true
			case "inconclusive":
				inconclusive++
				cInc++
			default:
				bad++
				cBad++
				fmt.Printf("free-running %s run %d: %v\n    %s\n", c.Name, i, viol, obs)
			}
		}
		fmt.Printf("%-28s runs=%d clean=%d inconclusive=%d safety-violations=%d\n", c.Name, n, cClean, cInc, cBad)
	}
	fmt.Printf("c14: free-running pass (supplementary, decides nothing): tier=%s configurations=%d runs=%d clean=%d inconclusive=%d safety-violations=%d distinct-outcomes=%d goroutines-left=%d wall=%.1fs\n",
		tier, nconf, runs, clean, inconclusive, bad, len(outcomes), runtime.NumGoroutine(), time.Since(start).Seconds())
	fmt.Fprintln(os.Stderr, "c14: (races, if any, are printed above by the race detector; the process then exits 66 instead of 0)")
	if bad > 0 {
		return 1
	}
	return 0
}
