# sourced by the inputmc check scripts (after /verif/bin/env.sh).
#
#   imc_overlay <out.json> [<target-in-repo>=<source-file> ...]
#
# writes a `go build -overlay` JSON file. Entries come from the arguments (in-package harness
# files that are ADDED to /repo packages; they carry `//go:build verif`) and from the environment
# variable VERIF_SUBST, a whitespace- or comma-separated list of <path>=<replacement> pairs that
# REPLACE files of the build (used to feed mutants / candidate repairs to a check without ever
# touching /repo), e.g.
#
#   VERIF_SUBST="/repo/sdl/v2.go=/verif/build/mut/v2.go" /verif/checks/C18 quick
#
# Relative <path>s are taken relative to $REPO. A later entry for the same path wins.
imc_overlay() {
	local out="$1"; shift
	local -A map=()
	local pair k v
	for pair in "$@" $(printf '%s' "${VERIF_SUBST:-}" | tr ',' ' '); do
		[ -n "$pair" ] || continue
		k="${pair%%=*}"; v="${pair#*=}"
		case "$k" in /*) ;; *) k="$REPO/$k" ;; esac
		case "$v" in /*) ;; *) v="$PWD/$v" ;; esac
		if [ ! -f "$v" ]; then
			echo "overlay: replacement file $v (for $k) does not exist" >&2
			return 2
		fi
		map["$k"]="$v"
	done
	mkdir -p "$(dirname "$out")"
	{
		printf '{\n "Replace": {'
		local first=1
		for k in "${!map[@]}"; do
			[ $first = 1 ] || printf ','
			first=0
			printf '\n  "%s": "%s"' "$k" "${map[$k]}"
		done
		printf '\n }\n}\n'
	} > "$out.tmp.$$" && mv "$out.tmp.$$" "$out"
}

# imc_build <ID> <package> <out-binary> [overlay entries...]
imc_build() {
	local id="$1" pkg="$2" bin="$3"; shift 3
	local ov="$VERIF_ROOT/build/inputmc/$id.overlay.json"
	imc_overlay "$ov" "$@" || return 2
	if [ ! -f "$VERIF_ROOT/go.sum" ]; then cp "$REPO/go.sum" "$VERIF_ROOT/go.sum"; fi
	( cd "$VERIF_ROOT" && go build -tags verif -overlay "$ov" -o "$bin" "$pkg" ) || return 2
}
