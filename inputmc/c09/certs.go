package main

// Certificate catalogue. Certificates are built the way testutil/cert.go and the akash CLI build
// client certificates (ECDSA P-256, self-signed, CN = Issuer CN = owner bech32 address, client-auth
// extended key usage, auth-version extra name), with one field at a time bent for each kind.
// Validity windows are relative to the run by whole years; nothing is close to a boundary.

import (
	"crypto/ecdsa"
	"crypto/elliptic"
	"crypto/rand"
	"crypto/tls"
	"crypto/x509"
	"crypto/x509/pkix"
	"encoding/asn1"
	"encoding/pem"
	"math/big"
	"time"

	ctypes "github.com/ovrclk/akash/x/cert/types"
)

var (
	authVersionOID = asn1.ObjectIdentifier{2, 23, 133, 2, 6}
	oidCN          = asn1.ObjectIdentifier{2, 5, 4, 3}
	oidO           = asn1.ObjectIdentifier{2, 5, 4, 10}
	oidOU          = asn1.ObjectIdentifier{2, 5, 4, 11}
)

const year = 365 * 24 * time.Hour

type certKind string

const (
	kProper       certKind = "proper"                 // well-formed client certificate
	kProperBoth   certKind = "proper-client+server"   // client-auth and server-auth usages
	kExpired      certKind = "expired"                // validity ended a year ago
	kNotYet       certKind = "not-yet-valid"          // validity starts in a year
	kServerOnly   certKind = "server-auth-only"       // wrong extended key usage
	kIssuerCA     certKind = "issuer-cn-mismatch"     // subject CN = tenant, issued by a CA named "akash-ca"
	kIssuerTenant certKind = "issuer-cn-other-tenant" // subject CN = tenant, issued by a CA named like the other tenant
	// self-signed with the subject's own key, subject CN = tenant, but the issuer field NAMES the other
	// tenant (the chain only checks the subject CN against the publishing account)
	kSelfIssuerTenant certKind = "self-signed-issuer-names-other-tenant"
	// MULTI-VALUED subjects. Go's parser reports the LAST common-name attribute as Subject.CommonName,
	// and so do x/cert and VerifyPeerCertificate; the publishing account is that last CN.
	kMultiCNOtherFirst  certKind = "subject-cn-other-tenant-then-self" // (CN=other tenant, CN=self): published by self
	kMultiCNTenantFirst certKind = "subject-cn-self-then-other-tenant" // (CN=self, CN=other tenant): self tries to publish it; the chain must refuse
	kExtraRDNBefore     certKind = "subject-o-ou-authversion-then-cn"  // (O, OU, auth-version, CN=self)
	kExtraRDNAfter      certKind = "subject-cn-then-o-ou-authversion"  // (CN=self, O, OU, auth-version)
	kCNNotBech32        certKind = "cn-not-bech32"                     // subject CN is not an address
	kCNOtherPrefix      certKind = "cn-cosmos-prefix"                  // bech32 but not an akash account address
)

type madeCert struct {
	DER    []byte
	PEM    []byte
	PubPEM []byte
	Key    *ecdsa.PrivateKey
	X509   *x509.Certificate
	// chain to send after the leaf (issuer certificates), DER
	Extra [][]byte
}

func (m *madeCert) tlsCert(extra ...[]byte) tls.Certificate {
	c := tls.Certificate{Certificate: [][]byte{m.DER}, PrivateKey: m.Key}
	c.Certificate = append(c.Certificate, extra...)
	return c
}

type certSpec struct {
	CN        string
	Serial    *big.Int
	NotBefore time.Time
	NotAfter  time.Time
	Usage     []x509.ExtKeyUsage
	IssuerCN  string // "" = self-signed; otherwise issued by a CA with this CN
	// FakeIssuerCN: signed with the certificate's OWN key (cryptographically self-signed) while the
	// issuer name says something else
	FakeIssuerCN string
	// Names, when set, is the complete subject as a sequence of single-attribute RDNs in this order
	Names []pkix.AttributeTypeAndValue
	DNS   []string
}

func mustKey() *ecdsa.PrivateKey {
	k, err := ecdsa.GenerateKey(elliptic.P256(), rand.Reader)
	if err != nil {
		panic(err)
	}
	return k
}

func makeCert(sp certSpec) *madeCert {
	key := mustKey()
	tpl := &x509.Certificate{
		SerialNumber: sp.Serial,
		Subject: pkix.Name{
			CommonName: sp.CN,
			ExtraNames: []pkix.AttributeTypeAndValue{{Type: authVersionOID, Value: "v0.0.1"}},
		},
		NotBefore:             sp.NotBefore,
		NotAfter:              sp.NotAfter,
		KeyUsage:              x509.KeyUsageDataEncipherment | x509.KeyUsageKeyEncipherment,
		ExtKeyUsage:           sp.Usage,
		BasicConstraintsValid: true,
		DNSNames:              sp.DNS,
	}
	if len(sp.Names) > 0 {
		tpl.Subject = pkix.Name{ExtraNames: sp.Names}
	}
	parent, signer := tpl, key
	var extra [][]byte
	if sp.IssuerCN != "" {
		caKey := mustKey()
		ca := &x509.Certificate{
			SerialNumber:          new(big.Int).Add(sp.Serial, big.NewInt(1000)),
			Subject:               pkix.Name{CommonName: sp.IssuerCN},
			NotBefore:             sp.NotBefore,
			NotAfter:              sp.NotAfter,
			KeyUsage:              x509.KeyUsageCertSign,
			IsCA:                  true,
			BasicConstraintsValid: true,
		}
		caDER, err := x509.CreateCertificate(rand.Reader, ca, ca, caKey.Public(), caKey)
		if err != nil {
			panic(err)
		}
		caParsed, err := x509.ParseCertificate(caDER)
		if err != nil {
			panic(err)
		}
		parent, signer = caParsed, caKey
		extra = append(extra, caDER)
	}
	if sp.FakeIssuerCN != "" {
		parent = &x509.Certificate{Subject: pkix.Name{CommonName: sp.FakeIssuerCN}}
	}
	der, err := x509.CreateCertificate(rand.Reader, tpl, parent, key.Public(), signer)
	if err != nil {
		panic(err)
	}
	parsed, err := x509.ParseCertificate(der)
	if err != nil {
		panic(err)
	}
	pub, err := x509.MarshalPKIXPublicKey(key.Public())
	if err != nil {
		panic(err)
	}
	return &madeCert{
		DER:    der,
		PEM:    pem.EncodeToMemory(&pem.Block{Type: ctypes.PemBlkTypeCertificate, Bytes: der}),
		PubPEM: pem.EncodeToMemory(&pem.Block{Type: ctypes.PemBlkTypeECPublicKey, Bytes: pub}),
		Key:    key,
		X509:   parsed,
		Extra:  extra,
	}
}

// specFor returns the certificate a client of the given kind presents for tenant address cn.
func specFor(kind certKind, cn, otherCN string, serial *big.Int, now time.Time) certSpec {
	sp := certSpec{CN: cn, Serial: serial, NotBefore: now.Add(-year), NotAfter: now.Add(year), Usage: []x509.ExtKeyUsage{x509.ExtKeyUsageClientAuth}}
	switch kind {
	case kProper:
	case kProperBoth:
		sp.Usage = []x509.ExtKeyUsage{x509.ExtKeyUsageClientAuth, x509.ExtKeyUsageServerAuth}
	case kExpired:
		sp.NotBefore, sp.NotAfter = now.Add(-3*year), now.Add(-year)
	case kNotYet:
		sp.NotBefore, sp.NotAfter = now.Add(year), now.Add(3*year)
	case kServerOnly:
		sp.Usage = []x509.ExtKeyUsage{x509.ExtKeyUsageServerAuth}
	case kIssuerCA:
		sp.IssuerCN = "akash-ca"
	case kIssuerTenant:
		sp.IssuerCN = otherCN
	case kSelfIssuerTenant:
		sp.FakeIssuerCN = otherCN
	case kMultiCNOtherFirst:
		sp.Names = []pkix.AttributeTypeAndValue{{Type: oidCN, Value: otherCN}, {Type: oidCN, Value: cn}, {Type: authVersionOID, Value: "v0.0.1"}}
	case kMultiCNTenantFirst:
		sp.Names = []pkix.AttributeTypeAndValue{{Type: oidCN, Value: cn}, {Type: oidCN, Value: otherCN}, {Type: authVersionOID, Value: "v0.0.1"}}
	case kExtraRDNBefore:
		sp.Names = []pkix.AttributeTypeAndValue{{Type: oidO, Value: "acme"}, {Type: oidOU, Value: "ops"}, {Type: authVersionOID, Value: "v0.0.1"}, {Type: oidCN, Value: cn}}
	case kExtraRDNAfter:
		sp.Names = []pkix.AttributeTypeAndValue{{Type: oidCN, Value: cn}, {Type: oidO, Value: "acme"}, {Type: oidOU, Value: "ops"}, {Type: authVersionOID, Value: "v0.0.1"}}
	case kCNNotBech32:
		sp.CN = "tenant-" + cn[len(cn)-6:]
	case kCNOtherPrefix:
		sp.CN = cosmosPrefixed(cn)
	default:
		panic("kind " + string(kind))
	}
	return sp
}

func timeValid(k certKind) bool   { return k != kExpired && k != kNotYet }
func clientUsage(k certKind) bool { return k != kServerOnly }

// selfIssued: the canonical form (one CN, issuer = subject) that the gateway must accept when genuine;
// everything else that is genuine is left to the implementation
func selfIssued(k certKind) bool {
	switch k {
	case kIssuerCA, kIssuerTenant, kSelfIssuerTenant, kMultiCNOtherFirst, kMultiCNTenantFirst:
		return false
	}
	return true
}
func cnIsAccount(k certKind) bool { return k != kCNNotBech32 && k != kCNOtherPrefix }
