package main

// SEQUENCES: several presentations against the SAME gateway instance (one rest.NewServer, one TLS
// configuration, one chain), optionally with a chain transaction in between. The statement has no
// "recently verified" exception, so every step is judged by the same oracle as in isolation, against
// the chain state at the moment of the step.
//
// The world of a sequence (roles X = the tenant the sequence is about, Y = the other tenant):
//   on chain, all written through the real msg server:
//     G    X's genuine certificate, serial 4242            (valid, may be revoked by an op)
//     G2   X's genuine certificate, serial 5151            (valid)
//     GO   Y's genuine certificate, serial 4242            (valid, may be revoked by an op)
//     RE   X's certificate serial 6001, expired            (valid on chain)
//     RS   X's certificate serial 6002, server-auth only   (valid on chain)
//     RN   X's certificate serial 6003, not yet valid      (valid on chain)
//     RI   X's certificate serial 6004, self-signed with X's key, issuer field names Y (valid on chain)
//     RM   X's certificate serial 6005, subject (CN=Y, CN=X): the parser's CommonName is X (valid on chain)
//   never registered: forgeries (new key) copying CN+serial of G, G2, GO in several kinds, a CA-issued
//   one, a self-signed one whose issuer names Y, an unknown serial, a CN that is no account.

import (
	"context"
	"crypto/tls"
	"fmt"
	"io"
	stdlog "log"
	"math/big"
	"net/http/httptest"
	"time"

	sdk "github.com/cosmos/cosmos-sdk/types"
	"github.com/tendermint/tendermint/libs/log"

	"github.com/ovrclk/akash/provider/gateway/rest"
)

type presentable string

const (
	pGenuine       presentable = "genuine"
	pGenuine2      presentable = "genuine-other-serial"
	pGenuineOther  presentable = "other-tenant-genuine"
	pRegExpired    presentable = "registered-expired"
	pRegServer     presentable = "registered-server-auth-only"
	pRegNotYet     presentable = "registered-not-yet-valid"
	pRegIssuer     presentable = "registered-self-signed-issuer-names-other-tenant"
	pRegMultiCN    presentable = "registered-subject-cn-other-tenant-then-self"
	pForged        presentable = "forged-same-cn-serial"
	pForgedExpired presentable = "forged-same-cn-serial-expired"
	pForgedServer  presentable = "forged-same-cn-serial-server-auth"
	pForgedCA      presentable = "ca-issued-same-cn-serial"
	pForgedIssuer  presentable = "forged-self-signed-issuer-names-other-tenant"
	pForged2       presentable = "forged-other-serial"
	pUnknown       presentable = "unknown-serial"
	pForgedOther   presentable = "forged-other-tenant"
	pNotAccount    presentable = "cn-not-an-account"
	pNone          presentable = "no-certificate"
)

var allPresentables = []presentable{pGenuine, pGenuine2, pGenuineOther, pRegExpired, pRegServer, pRegNotYet, pRegIssuer, pRegMultiCN,
	pForged, pForgedExpired, pForgedServer, pForgedCA, pForgedIssuer, pForged2, pUnknown, pForgedOther, pNotAccount, pNone}

type seqOp string

const (
	opNone        seqOp = ""
	opRevoke      seqOp = "revoke:genuine"
	opRevokeOther seqOp = "revoke:other-tenant-genuine"
)

type sequence struct {
	Role  int           `json:"role"` // X = cast.Tenants[Role]
	Steps []presentable `json:"steps"`
	Ops   []seqOp       `json:"ops_before_step"` // Ops[i] is executed before Steps[i] (Ops[0] is always "")
	// Sessions: every client keeps a tls.ClientSessionCache across the steps, as a long-running client
	// does; a certificate presented again then RESUMES its TLS 1.3 session on the new connection
	Sessions bool `json:"client_session_cache,omitempty"`
	// TimeFamily selects a TIME-CROSSING sequence instead of Steps/Ops: "expiring", "becoming-valid" or
	// "both" (see runTimeSequence)
	TimeFamily string `json:"time_family,omitempty"`
}

func (q sequence) String() string {
	if q.TimeFamily != "" {
		return fmt.Sprintf("seq[X=t%d,time-crossing:%s]", q.Role, q.TimeFamily)
	}
	s := fmt.Sprintf("seq[X=t%d]", q.Role)
	if q.Sessions {
		s = fmt.Sprintf("seq[X=t%d,clients resume TLS sessions]", q.Role)
	}
	for i, p := range q.Steps {
		if q.Ops[i] != opNone {
			s += " ; " + string(q.Ops[i])
		}
		s += " ; present " + string(p)
	}
	return s
}

type worldCert struct {
	cert       *madeCert
	kind       certKind
	publisher  string // subject CN
	registered bool
	revoked    bool
	shadow     presentable // for forgeries: the registered certificate whose (CN, serial) it copies
}

type world struct {
	ch    *chain
	certs map[presentable]*worldCert
}

func buildWorld(role int, now time.Time) (*world, error) {
	x, y := cast.Tenants[role], cast.Tenants[1-role]
	ch, err := newChain()
	if err != nil {
		return nil, machErr{"chain: " + err.Error()}
	}
	w := &world{ch: ch, certs: map[presentable]*worldCert{}}
	reg := func(p presentable, kind certKind, cn, other string, serial int64) error {
		c := makeCert(specFor(kind, cn, other, big.NewInt(serial), now))
		if err := ch.create(cn, c); err != nil {
			return machErr{fmt.Sprintf("registering %s: %v", p, err)}
		}
		w.certs[p] = &worldCert{cert: c, kind: kind, publisher: cn, registered: true}
		return nil
	}
	for _, r := range []struct {
		p      presentable
		k      certKind
		cn, o  string
		serial int64
	}{
		{pGenuine, kProper, x, y, 4242}, {pGenuine2, kProper, x, y, 5151}, {pGenuineOther, kProper, y, x, 4242},
		{pRegExpired, kExpired, x, y, 6001}, {pRegServer, kServerOnly, x, y, 6002}, {pRegNotYet, kNotYet, x, y, 6003},
		{pRegIssuer, kSelfIssuerTenant, x, y, 6004}, {pRegMultiCN, kMultiCNOtherFirst, x, y, 6005},
	} {
		if err := reg(r.p, r.k, r.cn, r.o, r.serial); err != nil {
			return nil, err
		}
	}
	forge := func(p presentable, kind certKind, cn, other string, serial int64, shadow presentable) {
		c := makeCert(specFor(kind, cn, other, big.NewInt(serial), now))
		w.certs[p] = &worldCert{cert: c, kind: kind, publisher: c.X509.Subject.CommonName, shadow: shadow}
	}
	forge(pForged, kProper, x, y, 4242, pGenuine)
	forge(pForgedExpired, kExpired, x, y, 4242, pGenuine)
	forge(pForgedServer, kServerOnly, x, y, 4242, pGenuine)
	forge(pForgedCA, kIssuerCA, x, y, 4242, pGenuine)
	forge(pForgedIssuer, kSelfIssuerTenant, x, y, 4242, pGenuine)
	forge(pForged2, kProper, x, y, 5151, pGenuine2)
	forge(pUnknown, kProper, x, y, 7777, "")
	forge(pForgedOther, kProper, y, x, 4242, pGenuineOther)
	forge(pNotAccount, kCNNotBech32, x, y, 4242, "")
	return w, nil
}

func (w *world) apply(op seqOp) error {
	var p presentable
	switch op {
	case opNone:
		return nil
	case opRevoke:
		p = pGenuine
	case opRevokeOther:
		p = pGenuineOther
	default:
		return machErr{"unknown op " + string(op)}
	}
	c := w.certs[p]
	if c.revoked {
		return nil
	}
	if err := w.ch.revoke(c.publisher, c.cert); err != nil {
		return machErr{fmt.Sprintf("%s: %v", op, err)}
	}
	c.revoked = true
	return nil
}

// oracle for presenting p NOW, from the statement, looking only at the world's chain state
func (w *world) oracle(p presentable) (sound, strict bool, sigKind, reason, publisher string) {
	if p == pNone {
		return false, false, "none", "no-certificate", ""
	}
	c := w.certs[p]
	publisher = c.publisher
	sigKind = string(p)
	switch {
	case !cnIsAccount(c.kind):
		reason = "cn-not-an-account"
	case !c.registered && c.shadow == "":
		reason = "not-on-chain"
	case !c.registered:
		reason = "der-differs-from-onchain"
	case c.revoked:
		reason = "revoked"
	case c.kind == kExpired:
		reason = "expired"
	case c.kind == kNotYet:
		reason = "not-yet-valid"
	case !clientUsage(c.kind):
		reason = "no-client-auth-usage"
	default:
		sound = true
	}
	strict = sound && selfIssued(c.kind)
	return
}

type stepResult struct {
	Step      int         `json:"step"`
	Present   presentable `json:"presented"`
	OpBefore  seqOp       `json:"op_before,omitempty"`
	Publisher string      `json:"certificate_subject_cn"`
	Sound     bool        `json:"oracle_sound"`
	Strict    bool        `json:"oracle_must_accept"`
	DirectOK  bool        `json:"verify_peer_certificate_accepts"`
	DirectErr string      `json:"verify_peer_certificate_error,omitempty"`
	Outcomes  []outcome   `json:"outcomes"`
	Resumed   int         `json:"connections_that_resumed_a_tls_session"`
	// time-crossing steps: the clock readings around the step and the validity boundary it is judged by
	Boundary  string `json:"validity_boundary,omitempty"`
	ClockFrom string `json:"clock_before,omitempty"`
	ClockTo   string `json:"clock_after,omitempty"`
	Unjudged  bool   `json:"too_close_to_boundary_left_unconstrained,omitempty"`
}

type sequenceResult struct {
	Sequence sequence     `json:"sequence"`
	ChainLog []string     `json:"chain_msgs"`
	Steps    []stepResult `json:"steps"`
}

func seqRequests(other string) []request {
	q := "owner=" + other + "&provider=" + cast.Provider2 + "&dseq=" + otherDSeq
	return []request{
		{Route: "GET /lease/{dseq}/{gseq}/{oseq}/status", DSeq: ownDSeq, GSeq: "1", OSeq: "1"},
		{Route: "PUT /deployment/{dseq}/manifest", DSeq: otherDSeq, GSeq: "1", OSeq: "1", Query: q},
		{Route: "* /lease/{dseq}/{gseq}/{oseq}/shell", DSeq: ownDSeq, GSeq: "1", OSeq: "1"},
	}
}

// runSequence executes a sequence on one gateway instance and judges every step.
func runSequence(q sequence) (*sequenceResult, []violation, error) {
	if q.TimeFamily != "" {
		return runTimeSequence(q)
	}
	now := time.Now()
	w, err := buildWorld(q.Role, now)
	if err != nil {
		return nil, nil, err
	}
	rec := &recorder{}
	pid, err := sdk.AccAddressFromBech32(cast.Provider)
	if err != nil {
		return nil, nil, machErr{err.Error()}
	}
	serverCert := makeCert(certSpec{CN: cast.Provider, Serial: big.NewInt(1), NotBefore: now.Add(-year), NotAfter: now.Add(year), DNS: []string{"localhost"}})
	srv, err := rest.NewServer(context.Background(), log.NewNopLogger(), &fakeProvider{rec}, w.ch, "127.0.0.1:0", pid, []tls.Certificate{serverCert.tlsCert()})
	if err != nil {
		return nil, nil, machErr{"rest.NewServer: " + err.Error()}
	}
	ts := httptest.NewUnstartedServer(srv.Handler)
	ts.TLS = srv.TLSConfig
	ts.Config.BaseContext = srv.BaseContext
	ts.Config.ErrorLog = stdlog.New(io.Discard, "", 0)
	ts.StartTLS()
	defer ts.Close()
	// httptest clones the TLS config; the verification callback (and whatever state it closes over)
	// is shared between srv.TLSConfig and the running server, which is what a daemon would have
	verify := ts.TLS.VerifyPeerCertificate
	if verify == nil {
		return nil, nil, machErr{"server TLS config has no VerifyPeerCertificate"}
	}

	res := &sequenceResult{Sequence: q}
	var viols []violation
	reqs := seqRequests(cast.Tenants[1-q.Role])
	caches := map[presentable]tls.ClientSessionCache{}
	shown := map[presentable]bool{}
	for i, p := range q.Steps {
		if err := w.apply(q.Ops[i]); err != nil {
			return nil, nil, err
		}
		sound, strict, sigKind, reason, publisher := w.oracle(p)
		st := stepResult{Step: i, Present: p, OpBefore: q.Ops[i], Publisher: publisher, Sound: sound, Strict: strict}
		ccfg := &tls.Config{InsecureSkipVerify: true, MinVersion: tls.VersionTLS13} // nolint: gosec
		var raw [][]byte
		if p != pNone {
			c := w.certs[p].cert
			raw = [][]byte{c.DER}
			tc := c.tlsCert()
			ccfg.GetClientCertificate = func(*tls.CertificateRequestInfo) (*tls.Certificate, error) { return &tc, nil }
		}
		if q.Sessions {
			if caches[p] == nil {
				caches[p] = tls.NewLRUClientSessionCache(8)
			}
			ccfg.ClientSessionCache = caches[p]
			if shown[p] && p != pNone {
				sigKind = "resumed-session" // same client, same certificate, new connection
			}
			shown[p] = true
		}
		// real TLS first (a completed genuine handshake is what a cache would remember), then the callback
		ocs, err := drive(q.String(), ts.URL, ccfg, rec, reqs)
		if err != nil {
			return nil, nil, err
		}
		st.Outcomes = ocs
		for _, oc := range ocs {
			if oc.Resumed {
				st.Resumed++
			}
		}
		verr := verify(raw, nil)
		st.DirectOK = verr == nil
		if verr != nil {
			st.DirectErr = verr.Error()
		}
		res.Steps = append(res.Steps, st)
		vs := judgeStep(verdictInput{
			Label: fmt.Sprintf("%s [step %d: %s]", q, i+1, p), Prefix: "seq-", Present: p != pNone, Sound: sound, Strict: strict,
			SigKind: sigKind, Reason: reason, Publisher: publisher, DirectOK: st.DirectOK, DirectErr: st.DirectErr, Outcomes: ocs,
		})
		viols = append(viols, vs...)
	}
	res.ChainLog = w.ch.log
	return res, viols, nil
}

// genSequences: every ordered pair of presentables x op in between x role; thorough adds every
// ordered triple (op only before the second step).
func genSequences(tier string) []sequence {
	var out []sequence
	// time-crossing sequences first: they mostly sleep, the rest of the grid runs meanwhile
	for role := 0; role < 2; role++ {
		for _, f := range []string{"expiring", "becoming-valid", "both"} {
			out = append(out, sequence{Role: role, TimeFamily: f})
		}
	}
	ops := []seqOp{opNone, opRevoke, opRevokeOther}
	for role := 0; role < 2; role++ {
		for _, a := range allPresentables {
			for _, b := range allPresentables {
				for _, op := range ops {
					out = append(out, sequence{Role: role, Steps: []presentable{a, b}, Ops: []seqOp{opNone, op}})
				}
			}
		}
	}
	// the same client coming back with a session cache: every presentable twice x op x role; thorough
	// also every ordered pair (a, b) continued by a again: a ; op ; b ; a
	for role := 0; role < 2; role++ {
		for _, a := range allPresentables {
			for _, op := range ops {
				out = append(out, sequence{Role: role, Steps: []presentable{a, a}, Ops: []seqOp{opNone, op}, Sessions: true})
			}
		}
	}
	if tier == "thorough" {
		for _, a := range allPresentables {
			for _, b := range allPresentables {
				for _, op := range []seqOp{opNone, opRevoke} {
					out = append(out, sequence{Role: 0, Steps: []presentable{a, b, a}, Ops: []seqOp{opNone, op, opNone}, Sessions: true})
				}
			}
		}
	}
	if tier == "thorough" {
		for _, a := range allPresentables {
			for _, b := range allPresentables {
				for _, c := range allPresentables {
					for _, op := range []seqOp{opNone, opRevoke} {
						out = append(out, sequence{Role: 0, Steps: []presentable{a, b, c}, Ops: []seqOp{opNone, op, opNone}})
					}
				}
			}
		}
	}
	return out
}

// ---- TIME-CROSSING family ----
//
// One gateway instance; X publishes (real msg server) certificate E whose NotAfter lies a few seconds
// after the gateway was built and/or certificate N whose NotBefore lies a few seconds after it. Each is
// presented at once and again, on new connections, after the boundary has passed. The oracle is the
// statement ("currently valid"): E must be accepted before NotAfter and refused after it, N the other
// way round. This is not a wall-clock oracle: the clock is read immediately before and after the step
// and the step is judged only if both readings are on the same side of the boundary with a margin of
// 0.5 s; otherwise the step is recorded as unconstrained.
const (
	timeLead   = 3 * time.Second        // boundary = gateway start + 3..4 s (x509 times have whole seconds)
	timeMargin = 500 * time.Millisecond // required distance of both clock readings from the boundary
	timeWait   = 1500 * time.Millisecond
)

func runTimeSequence(q sequence) (*sequenceResult, []violation, error) {
	x, y := cast.Tenants[q.Role], cast.Tenants[1-q.Role]
	ch, err := newChain()
	if err != nil {
		return nil, nil, machErr{"chain: " + err.Error()}
	}
	start := time.Now()
	boundary := start.Add(timeLead).Truncate(time.Second).Add(time.Second)
	type tc struct {
		name     presentable
		cert     *madeCert
		validAt  func(t time.Time) bool
		reasonNo string
	}
	var certs []tc
	if q.TimeFamily == "expiring" || q.TimeFamily == "both" {
		sp := specFor(kProper, x, y, big.NewInt(8001), start)
		sp.NotAfter = boundary
		c := makeCert(sp)
		if err := ch.create(x, c); err != nil {
			return nil, nil, machErr{"registering the expiring certificate: " + err.Error()}
		}
		b := c.X509.NotAfter
		certs = append(certs, tc{"registered-expiring-soon", c, func(t time.Time) bool { return !t.After(b) }, "expired"})
	}
	if q.TimeFamily == "becoming-valid" || q.TimeFamily == "both" {
		sp := specFor(kProper, x, y, big.NewInt(8002), start)
		sp.NotBefore = boundary
		c := makeCert(sp)
		if err := ch.create(x, c); err != nil {
			return nil, nil, machErr{"registering the not-yet-valid certificate: " + err.Error()}
		}
		b := c.X509.NotBefore
		certs = append(certs, tc{"registered-valid-soon", c, func(t time.Time) bool { return !t.Before(b) }, "not-yet-valid"})
	}
	if len(certs) == 0 {
		return nil, nil, machErr{"unknown time family " + q.TimeFamily}
	}

	rec := &recorder{}
	pid, err := sdk.AccAddressFromBech32(cast.Provider)
	if err != nil {
		return nil, nil, machErr{err.Error()}
	}
	serverCert := makeCert(certSpec{CN: cast.Provider, Serial: big.NewInt(1), NotBefore: start.Add(-year), NotAfter: start.Add(year), DNS: []string{"localhost"}})
	srv, err := rest.NewServer(context.Background(), log.NewNopLogger(), &fakeProvider{rec}, ch, "127.0.0.1:0", pid, []tls.Certificate{serverCert.tlsCert()})
	if err != nil {
		return nil, nil, machErr{"rest.NewServer: " + err.Error()}
	}
	ts := httptest.NewUnstartedServer(srv.Handler)
	ts.TLS = srv.TLSConfig
	ts.Config.BaseContext = srv.BaseContext
	ts.Config.ErrorLog = stdlog.New(io.Discard, "", 0)
	ts.StartTLS()
	defer ts.Close()
	verify := ts.TLS.VerifyPeerCertificate

	res := &sequenceResult{Sequence: q}
	var viols []violation
	reqs := seqRequests(y)
	step := 0
	for phase := 0; phase < 2; phase++ {
		if phase == 1 {
			if d := time.Until(boundary.Add(timeWait)); d > 0 {
				time.Sleep(d)
			}
		}
		for _, c := range certs {
			c := c
			tcert := c.cert.tlsCert()
			ccfg := &tls.Config{InsecureSkipVerify: true, MinVersion: tls.VersionTLS13, // nolint: gosec
				GetClientCertificate: func(*tls.CertificateRequestInfo) (*tls.Certificate, error) { return &tcert, nil }}
			t0 := time.Now()
			ocs, err := drive(q.String(), ts.URL, ccfg, rec, reqs)
			if err != nil {
				return nil, nil, err
			}
			verr := verify([][]byte{c.cert.DER}, nil)
			t1 := time.Now()
			v0, v1 := c.validAt(t0.Add(-timeMargin)) && c.validAt(t0.Add(timeMargin)), c.validAt(t1.Add(-timeMargin)) && c.validAt(t1.Add(timeMargin))
			n0, n1 := !c.validAt(t0.Add(-timeMargin)) && !c.validAt(t0.Add(timeMargin)), !c.validAt(t1.Add(-timeMargin)) && !c.validAt(t1.Add(timeMargin))
			st := stepResult{Step: step, Present: c.name, Publisher: x, DirectOK: verr == nil, Outcomes: ocs,
				Boundary: boundary.UTC().Format(time.RFC3339), ClockFrom: t0.UTC().Format(time.RFC3339Nano), ClockTo: t1.UTC().Format(time.RFC3339Nano)}
			if verr != nil {
				st.DirectErr = verr.Error()
			}
			switch {
			case v0 && v1:
				st.Sound, st.Strict = true, true
			case n0 && n1:
				st.Sound, st.Strict = false, false
			default:
				st.Unjudged = true
			}
			res.Steps = append(res.Steps, st)
			step++
			if st.Unjudged {
				continue
			}
			viols = append(viols, judgeStep(verdictInput{
				Label:  fmt.Sprintf("%s [step %d: %s, %s the boundary %s]", q, step, c.name, map[bool]string{true: "inside the validity window, before/after", false: "outside the validity window, before/after"}[st.Sound], st.Boundary),
				Prefix: "seq-", Present: true, Sound: st.Sound, Strict: st.Strict, SigKind: string(c.name), Reason: c.reasonNo, Publisher: x,
				DirectOK: st.DirectOK, DirectErr: st.DirectErr, Outcomes: ocs,
			})...)
		}
	}
	res.ChainLog = ch.log
	return res, viols, nil
}
