package main

// Recording fake of provider.Client (status, validate, manifest client, cluster client): every call
// is logged with the LeaseID / DeploymentID it carried.

import (
	"context"
	"errors"
	"io"
	"sync"

	"k8s.io/client-go/tools/remotecommand"

	"github.com/ovrclk/akash/manifest"
	"github.com/ovrclk/akash/provider"
	"github.com/ovrclk/akash/provider/cluster"
	cltypes "github.com/ovrclk/akash/provider/cluster/types"
	pmanifest "github.com/ovrclk/akash/provider/manifest"
	dtypes "github.com/ovrclk/akash/x/deployment/types"
	mtypes "github.com/ovrclk/akash/x/market/types"
)

type call struct {
	Method   string `json:"method"`
	Scoped   bool   `json:"scoped"` // carries a lease / deployment id
	Owner    string `json:"owner,omitempty"`
	Provider string `json:"provider,omitempty"` // "" for deployment ids
	DSeq     uint64 `json:"dseq,omitempty"`
	GSeq     uint32 `json:"gseq,omitempty"`
	OSeq     uint32 `json:"oseq,omitempty"`
	IsLease  bool   `json:"is_lease,omitempty"`
	Arg      string `json:"arg,omitempty"`
}

type recorder struct {
	mu    sync.Mutex
	calls []call
}

func (r *recorder) add(c call) {
	r.mu.Lock()
	r.calls = append(r.calls, c)
	r.mu.Unlock()
}

func (r *recorder) snapshot() []call {
	r.mu.Lock()
	defer r.mu.Unlock()
	return append([]call(nil), r.calls...)
}

func (r *recorder) lease(m string, id mtypes.LeaseID, arg string) {
	r.add(call{Method: m, Scoped: true, IsLease: true, Owner: id.Owner, Provider: id.Provider, DSeq: id.DSeq, GSeq: id.GSeq, OSeq: id.OSeq, Arg: arg})
}

func (r *recorder) deployment(m string, id dtypes.DeploymentID) {
	r.add(call{Method: m, Scoped: true, Owner: id.Owner, DSeq: id.DSeq})
}

var errRecorded = errors.New("recorded")

// provider.Client
type fakeProvider struct {
	rec *recorder
}

func (p *fakeProvider) Status(context.Context) (*provider.Status, error) {
	p.rec.add(call{Method: "Status"})
	return &provider.Status{}, nil
}

func (p *fakeProvider) Validate(context.Context, dtypes.GroupSpec) (provider.ValidateGroupSpecResult, error) {
	p.rec.add(call{Method: "Validate"})
	return provider.ValidateGroupSpecResult{}, nil
}

func (p *fakeProvider) Manifest() pmanifest.Client { return &fakeManifest{p.rec} }
func (p *fakeProvider) Cluster() cluster.Client    { return &fakeCluster{p.rec} }

var _ provider.Client = (*fakeProvider)(nil)

type fakeManifest struct{ rec *recorder }

func (m *fakeManifest) Submit(_ context.Context, id dtypes.DeploymentID, _ manifest.Manifest) error {
	m.rec.deployment("Manifest.Submit", id)
	return nil
}

func (m *fakeManifest) IsActive(_ context.Context, id dtypes.DeploymentID) (bool, error) {
	m.rec.deployment("Manifest.IsActive", id)
	return true, nil
}

type fakeCluster struct{ rec *recorder }

func (c *fakeCluster) LeaseStatus(_ context.Context, id mtypes.LeaseID) (*cltypes.LeaseStatus, error) {
	c.rec.lease("Cluster.LeaseStatus", id, "")
	return &cltypes.LeaseStatus{}, nil
}

func (c *fakeCluster) LeaseEvents(_ context.Context, id mtypes.LeaseID, services string, _ bool) (cltypes.EventsWatcher, error) {
	c.rec.lease("Cluster.LeaseEvents", id, services)
	return nil, errRecorded
}

func (c *fakeCluster) LeaseLogs(_ context.Context, id mtypes.LeaseID, services string, _ bool, _ *int64) ([]*cltypes.ServiceLog, error) {
	c.rec.lease("Cluster.LeaseLogs", id, services)
	return nil, errRecorded
}

func (c *fakeCluster) ServiceStatus(_ context.Context, id mtypes.LeaseID, name string) (*cltypes.ServiceStatus, error) {
	c.rec.lease("Cluster.ServiceStatus", id, name)
	return &cltypes.ServiceStatus{}, nil
}

func (c *fakeCluster) Deploy(_ context.Context, id mtypes.LeaseID, _ *manifest.Group) error {
	c.rec.lease("Cluster.Deploy", id, "")
	return errRecorded
}

func (c *fakeCluster) TeardownLease(_ context.Context, id mtypes.LeaseID) error {
	c.rec.lease("Cluster.TeardownLease", id, "")
	return errRecorded
}

func (c *fakeCluster) Deployments(context.Context) ([]cltypes.Deployment, error) {
	c.rec.add(call{Method: "Cluster.Deployments"})
	return nil, nil
}

func (c *fakeCluster) Inventory(context.Context) ([]cltypes.Node, error) {
	c.rec.add(call{Method: "Cluster.Inventory"})
	return nil, nil
}

func (c *fakeCluster) Exec(_ context.Context, id mtypes.LeaseID, service string, _ uint, _ []string, _ io.Reader, _ io.Writer, _ io.Writer, _ bool, _ remotecommand.TerminalSizeQueue) (cltypes.ExecResult, error) {
	c.rec.lease("Cluster.Exec", id, service)
	return nil, errRecorded
}

var _ cluster.Client = (*fakeCluster)(nil)
