package main

// The chain side: the REAL x/cert keeper over a real IAVL store on a MemDB, written to through the
// real msg server (MsgCreateCertificate / MsgRevokeCertificate) and read through the real gRPC
// querier (x/cert/keeper/grpc_query.go). chainQuery adapts the querier to ctypes.QueryClient, which is
// what the gateway's TLS configuration takes.

import (
	"context"
	"fmt"
	"sync"

	"github.com/cosmos/cosmos-sdk/store"
	sdk "github.com/cosmos/cosmos-sdk/types"
	"github.com/cosmos/cosmos-sdk/types/bech32"
	"github.com/tendermint/tendermint/libs/log"
	tmproto "github.com/tendermint/tendermint/proto/tendermint/types"
	dbm "github.com/tendermint/tm-db"
	"google.golang.org/grpc"

	chandler "github.com/ovrclk/akash/x/cert/handler"
	ckeeper "github.com/ovrclk/akash/x/cert/keeper"
	ctypes "github.com/ovrclk/akash/x/cert/types"
)

type chain struct {
	mu      sync.Mutex
	ctx     sdk.Context
	keeper  ckeeper.Keeper
	msgs    ctypes.MsgServer
	querier ctypes.QueryServer
	queries int
	log     []string
}

func newChain() (*chain, error) {
	db := dbm.NewMemDB()
	ms := store.NewCommitMultiStore(db)
	key := sdk.NewKVStoreKey(ctypes.StoreKey)
	ms.MountStoreWithDB(key, sdk.StoreTypeIAVL, db)
	if err := ms.LoadLatestVersion(); err != nil {
		return nil, err
	}
	c := &chain{}
	c.ctx = sdk.NewContext(ms, tmproto.Header{Height: 1}, false, log.NewNopLogger())
	c.keeper = ckeeper.NewKeeper(ctypes.ModuleCdc, key)
	c.msgs = chandler.NewMsgServerImpl(c.keeper)
	c.querier = c.keeper.Querier()
	return c, nil
}

func (c *chain) create(owner string, m *madeCert) error {
	c.log = append(c.log, fmt.Sprintf("MsgCreateCertificate{owner:%s serial:%s}", owner, m.X509.SerialNumber))
	_, err := c.msgs.CreateCertificate(sdk.WrapSDKContext(c.ctx), &ctypes.MsgCreateCertificate{Owner: owner, Cert: m.PEM, Pubkey: m.PubPEM})
	return err
}

func (c *chain) revoke(owner string, m *madeCert) error {
	c.log = append(c.log, fmt.Sprintf("MsgRevokeCertificate{owner:%s serial:%s}", owner, m.X509.SerialNumber))
	_, err := c.msgs.RevokeCertificate(sdk.WrapSDKContext(c.ctx), &ctypes.MsgRevokeCertificate{ID: ctypes.CertificateID{Owner: owner, Serial: m.X509.SerialNumber.String()}})
	return err
}

// Certificates implements ctypes.QueryClient on top of the real querier; the response takes a
// protobuf round trip as it would over gRPC.
func (c *chain) Certificates(_ context.Context, in *ctypes.QueryCertificatesRequest, _ ...grpc.CallOption) (*ctypes.QueryCertificatesResponse, error) {
	c.mu.Lock()
	defer c.mu.Unlock()
	c.queries++
	raw, err := in.Marshal()
	if err != nil {
		return nil, err
	}
	var req ctypes.QueryCertificatesRequest
	if err := req.Unmarshal(raw); err != nil {
		return nil, err
	}
	resp, err := c.querier.Certificates(sdk.WrapSDKContext(c.ctx), &req)
	if err != nil {
		return nil, err
	}
	raw, err = resp.Marshal()
	if err != nil {
		return nil, err
	}
	out := &ctypes.QueryCertificatesResponse{}
	if err := out.Unmarshal(raw); err != nil {
		return nil, err
	}
	return out, nil
}

var _ ctypes.QueryClient = (*chain)(nil)

func akashAddr(seed byte) string {
	raw := make([]byte, 20)
	for i := range raw {
		raw[i] = seed*3 + byte(i)*11
	}
	s, err := bech32.ConvertAndEncode("akash", raw)
	if err != nil {
		panic(err)
	}
	return s
}

func cosmosPrefixed(akash string) string {
	_, raw, err := bech32.DecodeAndConvert(akash)
	if err != nil {
		panic(err)
	}
	s, err := bech32.ConvertAndEncode("cosmos", raw)
	if err != nil {
		panic(err)
	}
	return s
}
