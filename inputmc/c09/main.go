// Command c09 is the inputmc (small-scope exhaustive enumeration) checker for property C09: the
// provider gateway authenticates only holders of on-chain certificates and scopes requests by tenant.
package main

import (
	"encoding/json"
	"flag"
	"fmt"
	"os"
	"path/filepath"
	"runtime"
	"sort"
	"strings"
	"sync"
	"sync/atomic"
	"time"

	"github.com/ovrclk/akash/sdkutil"
	dtypes "github.com/ovrclk/akash/x/deployment/types"

	"verif.local/verif/evlib"
)

const prop = "C09"

type replayFile struct {
	Property  string          `json:"property"`
	Tier      string          `json:"tier"`
	Signature string          `json:"signature"`
	Detail    string          `json:"detail"`
	Scenario  *scenario       `json:"scenario,omitempty"`
	Request   *request        `json:"request,omitempty"`
	Observed  *scenarioResult `json:"observed,omitempty"`
	// violations found in a sequence of presentations against one gateway instance
	// violations found while exploring the schedules of concurrent handshakes (gosched)
	Concurrent  *concConfig     `json:"concurrent,omitempty"`
	Schedule    []int           `json:"schedule_choices,omitempty"`
	Sequence    *sequence       `json:"sequence,omitempty"`
	ObservedSeq *sequenceResult `json:"observed_sequence,omitempty"`
}

func genScenarios(tier string) []scenario {
	kinds := []certKind{kProper, kProperBoth, kExpired, kNotYet, kServerOnly, kIssuerCA, kIssuerTenant, kSelfIssuerTenant, kMultiCNOtherFirst, kMultiCNTenantFirst, kExtraRDNBefore, kExtraRDNAfter, kCNNotBech32, kCNOtherPrefix}
	bgs := [][2]bool{{false, false}, {true, true}}
	serials := []string{"4242"}
	if tier == "thorough" {
		bgs = [][2]bool{{false, false}, {true, false}, {false, true}, {true, true}}
		serials = []string{"4242", "1", "18446744073709551621"} // the last one does not fit 64 bits
	}
	var out []scenario
	for _, k := range kinds {
		entries := []chainEntry{chAbsent, chSameValid, chSameRevoked, chOtherValid, chOtherRevoked}
		if !cnIsAccount(k) {
			entries = []chainEntry{chAbsent} // the chain refuses certificates whose CN is not the owner's address
		}
		if k == kMultiCNTenantFirst {
			entries = []chainEntry{chAbsent, chSameValid} // same-valid = the registration is ATTEMPTED through the real msg server
		}
		for t := 0; t < 2; t++ {
			for _, e := range entries {
				for _, bg := range bgs {
					for _, p := range []presentation{prSingle, prChain} {
						for _, sn := range serials {
							out = append(out, scenario{Kind: k, Tenant: t, Chain: e, BgOther: bg[0], BgOwn: bg[1], Present: p, Serial: sn})
						}
					}
				}
			}
		}
	}
	// chain-answer menu: every kind x chain entry x tenant, single presentation, no background, default
	// serial x every deviating answer of the query client
	for _, k := range kinds {
		entries := []chainEntry{chAbsent, chSameValid, chSameRevoked, chOtherValid, chOtherRevoked}
		if !cnIsAccount(k) {
			entries = []chainEntry{chAbsent}
		}
		if k == kMultiCNTenantFirst {
			entries = []chainEntry{chAbsent, chSameValid}
		}
		for t := 0; t < 2; t++ {
			for _, e := range entries {
				for _, a := range answerMenu {
					out = append(out, scenario{Kind: k, Tenant: t, Chain: e, Present: prSingle, Serial: "4242", Answer: a})
				}
			}
		}
	}
	// no client certificate at all
	for _, bg := range bgs {
		out = append(out, scenario{Kind: "none", Tenant: 0, Chain: chAbsent, BgOther: bg[0], BgOwn: bg[1], Present: prNone, Serial: "4242"})
	}
	return out
}

func main() {
	tier := flag.String("tier", evlib.Tier(), "quick|thorough")
	replay := flag.String("replay", "", "replay file")
	free := flag.Int("free", 0, "supplementary pass for a -race build: run the concurrent-handshake bodies free-running this many rounds per configuration")
	flag.Parse()
	sdkutil.InitSDKConfig() // bech32 prefix "akash", as the provider daemon does
	if raw, err := json.Marshal(dtypes.GroupSpec{Name: "g"}); err == nil {
		sp := routeTable["GET /validate"]
		sp.Body = string(raw)
		routeTable["GET /validate"] = sp
	}
	if *replay != "" {
		os.Exit(doReplay(*replay))
	}
	if *free > 0 {
		n, err := freeRunConcurrent(*tier, *free)
		if err != nil {
			fmt.Fprintln(os.Stderr, "machinery:", err)
			os.Exit(2)
		}
		fmt.Printf("C09 race pass: %d free-running rounds of overlapping VerifyPeerCertificate calls completed\n", n)
		return // a -race binary exits 66 by itself when the detector reported something
	}
	if *tier != "quick" && *tier != "thorough" {
		fmt.Fprintln(os.Stderr, "usage: c09 -tier quick|thorough | -replay file")
		os.Exit(2)
	}
	os.Exit(run(*tier))
}

func doReplay(path string) int {
	raw, err := os.ReadFile(path)
	if err != nil {
		fmt.Fprintln(os.Stderr, "machinery:", err)
		return 2
	}
	var rf replayFile
	if err := json.Unmarshal(raw, &rf); err != nil {
		fmt.Fprintln(os.Stderr, "machinery:", err)
		return 2
	}
	if rf.Concurrent != nil {
		_, found, _, err := runConcurrentConfigs([]concConfig{*rf.Concurrent}, time.Now().Add(10*time.Minute))
		if err != nil {
			fmt.Fprintln(os.Stderr, "machinery:", err)
			return 2
		}
		hit := false
		for sig, f := range found {
			fmt.Printf("replay: %s: %s\n", sig, f.detail)
			if sig == rf.Signature {
				hit = true
			}
		}
		if hit {
			fmt.Printf("VIOLATION property=%s replay=%s (reproduced %s)\n", prop, path, rf.Signature)
			return 1
		}
		fmt.Printf("replay: %s not reproduced on this tree (%d other violations)\n", rf.Signature, len(found))
		if len(found) > 0 {
			return 1
		}
		return 0
	}
	if rf.Sequence != nil {
		res, vs, err := runSequence(*rf.Sequence)
		if err != nil {
			fmt.Fprintln(os.Stderr, "machinery:", err)
			return 2
		}
		hit := false
		for _, st := range res.Steps {
			fmt.Printf("replay: step %d present %s (op before: %q): oracle sound=%v must-accept=%v; VerifyPeerCertificate accepts=%v err=%q\n",
				st.Step+1, st.Present, st.OpBefore, st.Sound, st.Strict, st.DirectOK, st.DirectErr)
			for _, oc := range st.Outcomes {
				fmt.Printf("replay:    %s -> status=%d err=%q calls=%v\n", oc.Request.url("", false), oc.Status, oc.Err, oc.Calls)
			}
		}
		for _, v := range vs {
			fmt.Printf("replay: %s: %s\n", v.Sig, v.Detail)
			if v.Sig == rf.Signature {
				hit = true
			}
		}
		if hit {
			fmt.Printf("VIOLATION property=%s replay=%s (reproduced %s)\n", prop, path, rf.Signature)
			return 1
		}
		fmt.Printf("replay: %s not reproduced on this tree (%d other violations)\n", rf.Signature, len(vs))
		if len(vs) > 0 {
			return 1
		}
		return 0
	}
	if rf.Scenario == nil {
		fmt.Fprintln(os.Stderr, "machinery: replay file has neither scenario nor sequence")
		return 2
	}
	res, err := runScenario(*rf.Scenario, rf.Tier, rf.Request)
	if err != nil {
		fmt.Fprintln(os.Stderr, "machinery:", err)
		return 2
	}
	vs := judge(res)
	hit := false
	for _, v := range vs {
		fmt.Printf("replay: %s: %s\n", v.Sig, v.Detail)
		if v.Sig == rf.Signature {
			hit = true
		}
	}
	fmt.Printf("replay: VerifyPeerCertificate accepts=%v err=%q\n", res.DirectOK, res.DirectErr)
	for _, oc := range res.Outcomes {
		fmt.Printf("replay: %s -> status=%d err=%q calls=%d\n", oc.Request.url("", false), oc.Status, oc.Err, len(oc.Calls))
	}
	if hit {
		fmt.Printf("VIOLATION property=%s replay=%s (reproduced %s)\n", prop, path, rf.Signature)
		return 1
	}
	fmt.Printf("replay: %s not reproduced on this tree (%d other violations)\n", rf.Signature, len(vs))
	if len(vs) > 0 {
		return 1
	}
	return 0
}

func seqCost(q sequence) int {
	c := 10 * len(q.Steps)
	if q.TimeFamily == "both" {
		c += 5
	}
	for _, o := range q.Ops {
		if o != opNone {
			c++
		}
	}
	return c + q.Role
}

func noEvidence() bool { return os.Getenv("VERIF_NO_EVIDENCE") != "" }

// writeReplay: /verif/replays/C09-<n>.json, or a scratch directory when evidence is suppressed
func writeReplay(n int, rf replayFile) (string, error) {
	if !noEvidence() {
		return evlib.WriteReplay(prop, n, rf)
	}
	dir := filepath.Join(evlib.Root(), "build", "scratch-replays")
	if err := os.MkdirAll(dir, 0o755); err != nil {
		return "", err
	}
	p := filepath.Join(dir, fmt.Sprintf("%s-%d-%d.json", prop, os.Getpid(), n))
	raw, err := json.MarshalIndent(rf, "", " ")
	if err != nil {
		return p, err
	}
	return p, os.WriteFile(p, append(raw, '\n'), 0o644)
}

type found struct {
	sig    string
	detail string
	sc     scenario
	rq     *request
	obs    *scenarioResult
	seq    *sequence
	obsSeq *sequenceResult
	conc   *concConfig
	sched  []int
	count  int64
}

func run(tier string) int {
	start := time.Now()
	budget := 90 * time.Second
	if tier == "thorough" {
		budget = 12 * time.Minute
	}
	deadline := start.Add(budget)
	seed := evlib.Seed()
	scs := genScenarios(tier)

	var mu sync.Mutex
	bySig := map[string]*found{}
	distinct := map[string]bool{} // canonical (scenario, request) strings that are non-trivial
	var evals, acceptExp, rejectExp, dontCare, acceptObs, rejectObs, directCalls, queries int64
	var sampleResults []*scenarioResult // one per (kind, chain entry, presentation)
	sampleSeen := map[string]bool{}
	var firstMach atomic.Value
	var machN, stopped, done int32
	var routes []string

	// concurrent handshakes first: the vs scheduler is process-global and wants the process to itself
	cstats, cfound, csamples, err := runConcurrent(tier, deadline)
	if err != nil {
		fmt.Fprintln(os.Stderr, "machinery:", err)
		return 2
	}
	for sig, f := range cfound {
		cc := f.cfg
		bySig[sig] = &found{sig: sig, detail: f.detail, conc: &cc, sched: f.choices, count: f.count}
	}
	evals += cstats.Executions
	tConc := time.Since(start)

	// result of the supplementary free-running -race pass, run by the check script before this binary
	racePass := os.Getenv("C09_RACE_PASS") // "", "clean <rounds>", "race <log>", "skipped <why>"
	if strings.HasPrefix(racePass, "race") {
		bySig["concurrent-handshake:data-race"] = &found{sig: "concurrent-handshake:data-race", count: 1,
			detail: "the race detector reports unsynchronised access to memory shared between overlapping VerifyPeerCertificate calls (free-running pass; log: " + strings.TrimPrefix(racePass, "race ") + ")",
			conc:   &concConfig{Present: []presentable{pGenuine, pForged}}}
	}

	seqs := genSequences(tier)
	ch := make(chan int, len(scs)+len(seqs))
	for i := 0; i < len(scs)+len(seqs); i++ {
		ch <- i
	}
	close(ch)
	var ansScenarios, nilPanics int64
	var seqDone, seqEvals, seqSteps, seqResumed, timeSteps, timeUnjudged int64
	var seqSample *sequenceResult
	workers := runtime.NumCPU()
	if workers > 8 {
		workers = 8
	}
	var wg sync.WaitGroup
	for w := 0; w < workers; w++ {
		wg.Add(1)
		go func() {
			defer wg.Done()
			for i := range ch {
				if atomic.LoadInt32(&stopped) != 0 || time.Now().After(deadline) {
					atomic.StoreInt32(&stopped, 1)
					continue
				}
				if i >= len(scs) {
					q := seqs[i-len(scs)]
					res, vs, err := runSequence(q)
					if err != nil {
						if atomic.AddInt32(&machN, 1) == 1 {
							firstMach.Store(err.Error())
						}
						continue
					}
					mu.Lock()
					seqDone++
					for _, st := range res.Steps {
						seqSteps++
						seqResumed += int64(st.Resumed)
						if q.TimeFamily != "" {
							timeSteps++
							if st.Unjudged {
								timeUnjudged++
							}
						}
						cases := len(st.Outcomes) + 1
						evals += int64(cases)
						seqEvals += int64(cases)
						if st.Present == pNone {
							continue
						}
						raw, _ := json.Marshal([]interface{}{q, st.Step, "VerifyPeerCertificate"})
						distinct[string(raw)] = true
						reachedAny := st.DirectOK
						for _, oc := range st.Outcomes {
							raw, _ := json.Marshal([]interface{}{q, st.Step, oc.Request})
							distinct[string(raw)] = true
							for _, c := range oc.Calls {
								if c.Scoped {
									reachedAny = true
								}
							}
						}
						switch {
						case st.Unjudged:
							dontCare += int64(cases)
						case st.Strict:
							acceptExp += int64(cases)
						case !st.Sound:
							rejectExp += int64(cases)
						default:
							dontCare += int64(cases)
						}
						if reachedAny {
							acceptObs += int64(cases)
						} else {
							rejectObs += int64(cases)
						}
					}
					if seqSample == nil && len(q.Steps) == 2 && q.Steps[0] == pGenuine && q.Steps[1] == pForged && q.Ops[1] == opNone {
						seqSample = res
					}
					for _, v := range vs {
						f := bySig[v.Sig]
						if f == nil || f.seq != nil && seqCost(q) < seqCost(*f.seq) { // keep the simplest counterexample
							qq := q
							var n int64
							if f != nil {
								n = f.count
							}
							f = &found{sig: v.Sig, detail: v.Detail, rq: v.Request, seq: &qq, obsSeq: res, count: n}
							bySig[v.Sig] = f
						}
						f.count++
					}
					mu.Unlock()
					continue
				}
				res, err := runScenario(scs[i], tier, nil)
				if err != nil {
					if atomic.AddInt32(&machN, 1) == 1 {
						firstMach.Store(err.Error())
					}
					continue
				}
				vs := judge(res)
				mu.Lock()
				atomic.AddInt32(&done, 1)
				routes = res.Routes
				sc := scs[i]
				if sc.Answer != ansReal {
					ansScenarios++
					if strings.HasPrefix(res.DirectErr, "panic:") {
						nilPanics++
					}
				}
				evals++ // the direct callback call
				directCalls++
				queries += int64(res.ChainQueries)
				for _, oc := range res.Outcomes {
					evals++
					sp := routeTable[oc.Request.Route]
					if sc.Present != prNone && sp.Scope != "" {
						raw, _ := json.Marshal([]interface{}{sc, oc.Request})
						distinct[string(raw)] = true
						switch {
						case res.Strict:
							acceptExp++
						case !res.Sound:
							rejectExp++
						default:
							dontCare++
						}
						reached := false
						for _, c := range oc.Calls {
							if c.Scoped {
								reached = true
							}
						}
						if reached {
							acceptObs++
						} else {
							rejectObs++
						}
					}
				}
				if sc.Present != prNone {
					raw, _ := json.Marshal([]interface{}{sc, "VerifyPeerCertificate"})
					distinct[string(raw)] = true
					if res.Strict {
						acceptExp++
					} else if !res.Sound {
						rejectExp++
					} else {
						dontCare++
					}
					if res.DirectOK {
						acceptObs++
					} else {
						rejectObs++
					}
				}
				skey := fmt.Sprintf("%s/%s/%s", sc.Kind, sc.Chain, sc.Present)
				if !sampleSeen[skey] {
					sampleSeen[skey] = true
					sampleResults = append(sampleResults, res)
				}
				for _, v := range vs {
					f := bySig[v.Sig]
					if f == nil {
						f = &found{sig: v.Sig, detail: v.Detail, sc: sc, rq: v.Request, obs: res}
						bySig[v.Sig] = f
					}
					f.count++
				}
				mu.Unlock()
			}
		}()
	}
	wg.Wait()
	// scenarios that could not be run are a machinery failure (exit 2) - but only when the run found no
	// violation at all: the oracles are evaluated first (see the end of run)
	// seqResumed == 0 is legitimate (a server that issues no session tickets); the count is reported
	exhaustive := machN == 0 && cstats.Exhaustive && stopped == 0 && int(done) == len(scs) && int(seqDone) == len(seqs)

	// samples
	var samples []interface{}
	sort.Slice(sampleResults, func(i, j int) bool { return sampleResults[i].Scenario.String() < sampleResults[j].Scenario.String() })
	mkSample := func(r *scenarioResult, pick func(outcome) bool, k int64) {
		var cands []outcome
		for _, oc := range r.Outcomes {
			if pick(oc) {
				cands = append(cands, oc)
			}
		}
		if len(cands) == 0 {
			return
		}
		oc := cands[int(uint64(seed*7+k*29)%uint64(len(cands)))]
		samples = append(samples, map[string]interface{}{
			"scenario": r.Scenario, "presented_cn": r.PresentedCN, "chain_msgs": r.ChainLog,
			"verify_peer_certificate_accepts": r.DirectOK, "verify_peer_certificate_error": r.DirectErr,
			"request": oc.Request, "url": oc.Request.url("", false), "status": oc.Status, "error": oc.Err, "calls_reaching_provider": oc.Calls,
			"oracle": map[string]bool{"sound": r.Sound, "must_accept": r.Strict},
		})
	}
	scoped := func(oc outcome) bool { return routeTable[oc.Request.Route].Scope != "" }
	for _, r := range sampleResults { // one genuine holder, one forgery, then a rotating one
		if r.Strict && r.Scenario.Kind == kProper {
			mkSample(r, scoped, 0)
			break
		}
	}
	for _, r := range sampleResults {
		if r.Scenario.Kind == kProper && r.Scenario.Chain == chOtherValid && r.Scenario.Present == prSingle {
			mkSample(r, scoped, 1)
			break
		}
	}
	if len(sampleResults) > 0 {
		mkSample(sampleResults[int(uint64(seed*13+5)%uint64(len(sampleResults)))], func(outcome) bool { return true }, 2)
	}

	samples = append(samples, csamples...)
	if seqSample != nil {
		samples = append(samples, map[string]interface{}{"sequence": seqSample.Sequence.String(), "chain_msgs": seqSample.ChainLog, "steps": seqSample.Steps})
	}

	known, err := evlib.LoadFindings()
	if err != nil {
		fmt.Fprintln(os.Stderr, "machinery: known_findings.json:", err)
		return 2
	}
	sigs := make([]string, 0, len(bySig))
	for s := range bySig {
		sigs = append(sigs, s)
	}
	sort.Strings(sigs)
	exit, n := 0, 0
	var sigSummary []map[string]interface{}
	for _, s := range sigs {
		f := bySig[s]
		sigSummary = append(sigSummary, map[string]interface{}{"signature": s, "cases": f.count, "example": f.detail})
		if kf, ok := known.Known(prop, s); ok {
			fmt.Printf("KNOWN-FINDING: property=%s %s (%s) cases=%d\n", prop, s, kf.What, f.count)
			continue
		}
		n++
		rf := replayFile{Property: prop, Tier: tier, Signature: s, Detail: f.detail, Request: f.rq}
		if f.conc != nil {
			rf.Concurrent, rf.Schedule = f.conc, f.sched
		} else if f.seq != nil {
			rf.Sequence, rf.ObservedSeq = f.seq, f.obsSeq
		} else {
			obs := *f.obs
			if f.rq != nil { // keep the replay file small: only the failing request's outcome
				var keep []outcome
				for _, oc := range obs.Outcomes {
					if oc.Request == *f.rq {
						keep = append(keep, oc)
					}
				}
				obs.Outcomes = keep
			} else {
				obs.Outcomes = nil
			}
			sc := f.sc
			rf.Scenario, rf.Observed = &sc, &obs
		}
		p, err := writeReplay(n, rf)
		if err != nil {
			fmt.Fprintln(os.Stderr, "machinery:", err)
			return 2
		}
		fmt.Printf("VIOLATION property=%s replay=%s signature=%s cases=%d :: %s\n", prop, p, s, f.count, f.detail)
		exit = 1
	}

	ev := evlib.Evidence{
		PropertyID: prop, Tier: tier, Seed: seed, Level: "exploration",
		Coverage: evlib.Coverage{
			Evaluations:        evals,
			DistinctNontrivial: int64(len(distinct)),
			Rule: fmt.Sprintf("Nested loops, no randomness deciding anything (key material is fresh per run; serials, names and validity windows are fixed): "+
				"%d scenarios = certificate kind x tenant{A,B} x chain entry under (CN,serial){absent, same DER valid, same DER revoked, other DER valid (=presented one is a forgery), other DER revoked} "+
				"x background{other tenant holds the same serial, same owner holds another serial} x presentation{single, leaf+extra} x serial%s + no-certificate scenarios; "+
				"each scenario = one direct VerifyPeerCertificate call + %d requests over real TLS 1.3 (every route of newRouter found by mux.Walk x dseq{own, other tenant's, non-numeric, uint64 overflow%s} x query{none, owner/provider/dseq naming the other tenant}). "+
				"SEQUENCES on one gateway instance (one rest.NewServer / TLS config / chain): %d = every ordered pair%s of %d presentables {genuine, genuine other serial, other tenant's genuine, registered-but-expired/server-auth/not-yet-valid, registered self-signed whose issuer field names the other tenant, forgeries copying CN+serial (proper, expired, server-auth, CA-issued, foreign issuer name), forged other serial, unknown serial, forged other tenant, CN no account, no certificate} x op before the second step{none, revoke genuine, revoke other tenant's genuine} x role{A,B}; plus 6 TIME-CROSSING sequences (a registered certificate whose NotAfter / NotBefore lies 3-4 s after the gateway was built is presented at once and again 1.5 s past the boundary; a step is judged only if the clock readings before and after it are on the same side of the boundary by 0.5 s, else counted unconstrained); plus every presentable shown twice by a client that keeps a TLS session cache (so the second connection RESUMES the session) x the same ops and roles; every step = 3 TLS requests + one callback call, judged by the same oracle as in isolation against the chain state at that moment. "+
				"CHAIN-ANSWER MENU: every kind x chain entry x tenant (single presentation) x the query client answering {error, empty list, two certificates, the right certificate marked revoked, same owner/serial with other bytes, nil response}: every deviating answer must lead to refusal and the server must serve the genuine holder again afterwards. CONCURRENT HANDSHAKES (gosched vs scheduler, unbounded preemptions, no pruning): every unordered pair%s of presentables x {genuine valid, genuine revoked} called concurrently on ONE NewServerTLSConfig instance with scheduling points at the start of each call and before/after the real querier answers; every schedule is explored, each verdict must equal the verdict of the same presentation alone. "+
				"The chain is the real x/cert keeper written through the real msg server and read through the real gRPC querier; scope is judged against the account that published the certificate (subject CN). "+
				"A case (scenario, request or callback) is non-trivial when a client certificate is presented and the route is lease/deployment-scoped (the authentication decision matters); distinct = set of canonical JSON encodings. "+
				"Oracle classes (non-trivial cases): must-accept=%d, must-reject=%d, left-to-implementation=%d; observed reached-provider=%d, refused=%d.",
				len(scs), map[string]string{"quick": "{4242}", "thorough": "{4242, 1, 2^64+5}"}[tier], len(genRequests(tier, routes, "x")), map[string]string{"quick": "", "thorough": ", -1, 07, 7.0; gseq/oseq{2, x, overflow}"}[tier],
				len(seqs), map[string]string{"quick": "", "thorough": " and every ordered triple (role A, op{none, revoke genuine} before the second step)"}[tier], len(allPresentables),
				map[string]string{"quick": "", "thorough": " (and every triple over 6 core presentables)"}[tier],
				acceptExp, rejectExp, dontCare, acceptObs, rejectObs),
			Samples:    samples,
			Exhaustive: exhaustive,
			Extra: map[string]interface{}{
				"scenarios":                              len(scs),
				"sequences":                              len(seqs),
				"concurrent_handshakes":                  cstats,
				"concurrent_wall_s":                      tConc.Seconds(),
				"race_pass":                              racePass,
				"chain_answer_scenarios":                 ansScenarios,
				"chain_answer_nil_panics_recovered":      nilPanics,
				"sequences_run":                          seqDone,
				"sequence_steps":                         seqSteps,
				"sequence_connections_resumed":           seqResumed,
				"time_crossing_steps":                    timeSteps,
				"time_crossing_steps_left_unconstrained": timeUnjudged,
				"sequence_evaluations":                   seqEvals,
				"scenarios_run":                          done,
				"routes":                                 routes,
				"oracle_must_accept":                     acceptExp,
				"oracle_must_reject":                     rejectExp,
				"oracle_unconstrained":                   dontCare,
				"observed_accept":                        acceptObs,
				"observed_reject":                        rejectObs,
				"direct_callback_calls":                  directCalls,
				"real_querier_calls":                     queries,
				"violation_signatures":                   sigSummary,
				"workers":                                workers,
			},
		},
		Assumptions: []string{
			"proof of possession of the private key is TLS 1.3's job (crypto/tls is trusted base); the check presents only certificates whose key it holds",
			"chain state is the real x/cert keeper on an IAVL store written through the real msg server without ValidateBasic/ante (so expired or odd certificates can be on chain, as they can be after time passes)",
			"cluster / manifest / provider clients are recording fakes; gorilla mux and websocket are trusted base",
			"sound-but-unusual presentations (leaf plus extra certificate, CA-issued certificate registered on chain) are left to the implementation: the statement only says 'only if'",
		},
		WallS:      time.Since(start).Seconds(),
		Violations: n,
	}
	if noEvidence() {
		// mutant runs must not overwrite the evidence of the real tree
	} else if err := evlib.Write(ev); err != nil {
		fmt.Fprintln(os.Stderr, "machinery: evidence:", err)
		return 2
	}
	fmt.Printf("C09 %s: concurrent handshakes: configurations=%d schedules=%d transitions=%d distinct outcomes=%d exhaustive=%v wall=%.1fs\n", tier, cstats.Configs, cstats.Executions, cstats.Transitions, cstats.Outcomes, cstats.Exhaustive, tConc.Seconds())
	fmt.Printf("C09 %s: sequences=%d (steps %d, evaluations %d, resumed TLS connections %d, time-crossing steps %d of which unconstrained %d); ", tier, len(seqs), seqSteps, seqEvals, seqResumed, timeSteps, timeUnjudged)
	fmt.Printf("scenarios=%[2]d evaluations=%[3]d distinct_nontrivial=%d must-accept=%d must-reject=%d unconstrained=%d observed accept=%d reject=%d exhaustive=%v signatures=%d wall=%.1fs\n",
		tier, len(scs), evals, len(distinct), acceptExp, rejectExp, dontCare, acceptObs, rejectObs, exhaustive, len(sigs), time.Since(start).Seconds())
	if machN > 0 {
		msg := fmt.Sprintf("%d scenarios / sequences could not be run; first: %v", machN, firstMach.Load())
		if exit == 1 {
			fmt.Fprintln(os.Stderr, "note:", msg, "- the violations above are the verdict")
			return 1
		}
		fmt.Fprintln(os.Stderr, "machinery:", msg)
		return 2
	}
	return exit
}
