package main

// CONCURRENT HANDSHAKES (engine B: the gosched `vs` scheduler + explorer). N goroutines each call the
// real tls.Config.VerifyPeerCertificate of ONE gwutils.NewServerTLSConfig instance with a presentation
// of the catalogue, all against the same chain state. provider/gateway/utils/utils.go has no channel
// or sync operation, so nothing needs instrumenting: the only scheduling points are the ones of the
// query-client stub - a vs.Yield() before and after the real querier answers - plus one at the start of
// every goroutine. With unbounded preemptions the explorer therefore enumerates EVERY interleaving of
// {parse, lookup, validate} of one handshake with those of the others at the lookup boundaries.
// Pruning is off on purpose: the code under test may (wrongly) communicate through shared memory,
// which per-goroutine history hashes do not see.
//
// Oracle: the verdict of every call equals the verdict the same presentation gets when it runs ALONE
// against the same chain state, and obeys the accept <=> "is the valid on-chain certificate" predicate.

import (
	"context"
	"fmt"
	"strings"
	"time"

	"google.golang.org/grpc"

	gwutils "github.com/ovrclk/akash/provider/gateway/utils"
	ctypes "github.com/ovrclk/akash/x/cert/types"

	"verif.local/gosched/vs"
)

// yieldingQuery: the real querier behind two scheduling points.
type yieldingQuery struct{ inner *chain }

func (y yieldingQuery) Certificates(ctx context.Context, in *ctypes.QueryCertificatesRequest, opts ...grpc.CallOption) (*ctypes.QueryCertificatesResponse, error) {
	vs.Yield() // the request is in flight
	resp, err := y.inner.Certificates(ctx, in, opts...)
	vs.Yield() // the answer arrives
	return resp, err
}

type concConfig struct {
	Role    int           `json:"role"`
	Present []presentable `json:"presented_concurrently"`
	Revoked bool          `json:"genuine_revoked_before"`
}

func (c concConfig) String() string {
	parts := make([]string, len(c.Present))
	for i, p := range c.Present {
		parts[i] = string(p)
	}
	s := "concurrent[" + strings.Join(parts, " || ") + "]"
	if c.Revoked {
		s += " after revoke:genuine"
	}
	return s
}

type concStats struct {
	Configs      int   `json:"configurations"`
	Executions   int64 `json:"schedules_explored"`
	Transitions  int64 `json:"transitions"`
	Outcomes     int64 `json:"distinct_outcomes_summed"`
	MaxSchedules int64 `json:"max_schedules_per_configuration"`
	Exhaustive   bool  `json:"exhaustive"`
}

type concWorld struct {
	w     *world
	alone map[presentable]bool // verdict when presented alone
}

func newConcWorld(role int, revoked bool) (*concWorld, error) {
	w, err := buildWorld(role, time.Now())
	if err != nil {
		return nil, err
	}
	if revoked {
		if err := w.apply(opRevoke); err != nil {
			return nil, err
		}
	}
	cw := &concWorld{w: w, alone: map[presentable]bool{}}
	for _, p := range allPresentables {
		cfg, err := gwutils.NewServerTLSConfig(context.Background(), nil, yieldingQuery{w.ch}) // vs is not active: Yield falls through
		if err != nil {
			return nil, machErr{"NewServerTLSConfig: " + err.Error()}
		}
		cw.alone[p] = callVerify(cfg.VerifyPeerCertificate, cw.raw(p)) == nil
	}
	return cw, nil
}

func (cw *concWorld) raw(p presentable) [][]byte {
	if p == pNone {
		return nil
	}
	return [][]byte{cw.w.certs[p].cert.DER}
}

// exploreConc enumerates every schedule of one configuration.
func exploreConc(cw *concWorld, cc concConfig, deadline time.Time) (*vs.Stats, error) {
	factory := func() vs.Exec {
		n := len(cc.Present)
		verdict := make([]string, n)
		return vs.Exec{
			Body: func() {
				cfg, err := gwutils.NewServerTLSConfig(context.Background(), nil, yieldingQuery{cw.w.ch})
				if err != nil {
					vs.Fatalf("NewServerTLSConfig: %v", err)
				}
				for i := 0; i < n; i++ {
					i := i
					vs.Go(func() {
						vs.Yield() // the connections arrive in any order
						if err := callVerify(cfg.VerifyPeerCertificate, cw.raw(cc.Present[i])); err == nil {
							verdict[i] = "accept"
						} else if strings.HasPrefix(err.Error(), "panic:") {
							verdict[i] = err.Error()
						} else {
							verdict[i] = "refuse"
						}
					})
				}
			},
			Check: func(r *vs.Result) (string, []string) {
				var viols []string
				for i, p := range cc.Present {
					sound, strict, _, reason, _ := cw.w.oracle(p)
					acc := verdict[i] == "accept"
					switch {
					case strings.HasPrefix(verdict[i], "panic:"):
						viols = append(viols, fmt.Sprintf("concurrent-handshake:panic:%s|call %d (%s) %s", p, i+1, p, verdict[i]))
					case p != pNone && acc && !sound:
						viols = append(viols, fmt.Sprintf("concurrent-handshake:unauthorized-accept:%s:%s|call %d presenting %s was ACCEPTED while overlapping with the others; alone it is refused (%s)", p, reason, i+1, p, reason))
					case !acc && strict:
						viols = append(viols, fmt.Sprintf("concurrent-handshake:false-reject:%s|call %d presenting the genuine %s was refused while overlapping with the others", p, i+1, p))
					case acc != cw.alone[p]:
						viols = append(viols, fmt.Sprintf("concurrent-handshake:verdict-differs-from-alone:%s|call %d presenting %s: %s, alone: accept=%v", p, i+1, p, verdict[i], cw.alone[p]))
					}
				}
				return strings.Join(verdict, ","), viols
			},
		}
	}
	opt := vs.Options{Budgets: []vs.Budget{{P: vs.Unbounded, E: vs.Unbounded}}, Prune: false, Deadline: deadline, MaxSteps: 10000, MaxViolations: 100000, Samples: 1}
	st := vs.Explore(factory, opt)
	if len(st.Errors) > 0 {
		return st, machErr{"gosched: " + strings.Join(st.Errors, "; ")}
	}
	return st, nil
}

func genConcConfigs(tier string) []concConfig {
	var out []concConfig
	ps := allPresentables
	for _, rev := range []bool{false, true} {
		for i := range ps {
			for j := i; j < len(ps); j++ {
				out = append(out, concConfig{Present: []presentable{ps[i], ps[j]}, Revoked: rev})
			}
		}
	}
	if tier == "thorough" {
		// triples over the presentations that share or shadow an (owner, serial): everything a mix-up could confuse
		core := []presentable{pGenuine, pForged, pGenuine2, pForged2, pGenuineOther, pForgedOther}
		for _, rev := range []bool{false, true} {
			for i := range core {
				for j := i; j < len(core); j++ {
					for k := j; k < len(core); k++ {
						out = append(out, concConfig{Present: []presentable{core[i], core[j], core[k]}, Revoked: rev})
					}
				}
			}
		}
	}
	return out
}

type concFound struct {
	sig, detail string
	cfg         concConfig
	choices     []int
	count       int64
}

// runConcurrent explores every configuration; violations are returned by signature.
func runConcurrent(tier string, deadline time.Time) (*concStats, map[string]*concFound, []interface{}, error) {
	return runConcurrentConfigs(genConcConfigs(tier), deadline)
}

func runConcurrentConfigs(cfgs []concConfig, deadline time.Time) (*concStats, map[string]*concFound, []interface{}, error) {
	stats := &concStats{Exhaustive: true}
	found := map[string]*concFound{}
	var samples []interface{}
	worlds := map[bool]*concWorld{}
	for _, cc := range cfgs {
		cw := worlds[cc.Revoked]
		if cw == nil {
			var err error
			if cw, err = newConcWorld(cc.Role, cc.Revoked); err != nil {
				return nil, nil, nil, err
			}
			worlds[cc.Revoked] = cw
		}
		st, err := exploreConc(cw, cc, deadline)
		if err != nil {
			return nil, nil, nil, err
		}
		stats.Configs++
		stats.Executions += st.Executions
		stats.Transitions += st.Transitions
		stats.Outcomes += st.DistinctOutcomes
		if st.Executions > stats.MaxSchedules {
			stats.MaxSchedules = st.Executions
		}
		if !st.Exhaustive && len(st.Violations) == 0 {
			stats.Exhaustive = false
		}
		if st.Deadlocks > 0 || st.Panics > 0 {
			return nil, nil, nil, machErr{fmt.Sprintf("%s: %d deadlocks, %d panics in the harness", cc, st.Deadlocks, st.Panics)}
		}
		for _, v := range st.Violations {
			for _, m := range v.Messages {
				sig, detail := m, ""
				if k := strings.Index(m, "|"); k >= 0 {
					sig, detail = m[:k], m[k+1:]
				}
				f := found[sig]
				if f == nil || len(cc.Present) < len(f.cfg.Present) {
					var n int64
					if f != nil {
						n = f.count
					}
					f = &concFound{sig: sig, detail: cc.String() + ": " + detail + fmt.Sprintf(" [schedule %v]", v.Choices), cfg: cc, choices: v.Choices, count: n}
					found[sig] = f
				}
				f.count++
			}
		}
		if len(samples) == 0 && len(cc.Present) == 2 && cc.Present[0] == pGenuine && cc.Present[1] == pForged && len(st.Samples) > 0 {
			samples = append(samples, map[string]interface{}{"concurrent": cc.String(), "one_schedule": st.Samples[0], "schedules": st.Executions, "distinct_outcomes": st.DistinctOutcomes})
		}
	}
	return stats, found, samples, nil
}

// freeRunConcurrent: supplementary pass for a `-race` build. The same bodies run free (the vs scheduler
// is not active, its calls fall through) on real goroutines released together; the race detector
// reports unsynchronised access to state shared between handshakes. It decides nothing about verdicts.
func freeRunConcurrent(tier string, rounds int) (int, error) {
	n := 0
	worlds := map[bool]*concWorld{}
	for _, cc := range genConcConfigs(tier) {
		cw := worlds[cc.Revoked]
		if cw == nil {
			var err error
			if cw, err = newConcWorld(cc.Role, cc.Revoked); err != nil {
				return n, err
			}
			worlds[cc.Revoked] = cw
		}
		for r := 0; r < rounds; r++ {
			cfg, err := gwutils.NewServerTLSConfig(context.Background(), nil, yieldingQuery{cw.w.ch})
			if err != nil {
				return n, machErr{"NewServerTLSConfig: " + err.Error()}
			}
			start := make(chan struct{})
			done := make(chan struct{}, len(cc.Present))
			for i := range cc.Present {
				raw := cw.raw(cc.Present[i])
				go func() {
					<-start
					_ = callVerify(cfg.VerifyPeerCertificate, raw)
					done <- struct{}{}
				}()
			}
			close(start)
			for range cc.Present {
				<-done
			}
			n++
		}
	}
	return n, nil
}
