package main

// One scenario = (presented certificate kind, tenant, chain entry under (CN, serial), background
// chain content, presentation). Running it: build the chain through the real msg server, build the
// gateway server through the real rest.NewServer, call VerifyPeerCertificate directly, then drive
// every request of the route grammar over real TLS 1.3 connections.

import (
	"bytes"
	"context"
	"crypto/tls"
	"crypto/x509"
	"fmt"
	"io"
	stdlog "log"
	"math/big"
	"net/http"
	"net/http/httptest"
	"strconv"
	"strings"
	"time"

	sdk "github.com/cosmos/cosmos-sdk/types"
	"github.com/gorilla/mux"
	"github.com/gorilla/websocket"
	"github.com/tendermint/tendermint/libs/log"

	"github.com/ovrclk/akash/provider/gateway/rest"
	ctypes "github.com/ovrclk/akash/x/cert/types"
)

type chainEntry string

const (
	chAbsent       chainEntry = "absent"
	chSameValid    chainEntry = "same-der-valid"
	chSameRevoked  chainEntry = "same-der-revoked"
	chOtherValid   chainEntry = "other-der-valid" // the owner's genuine certificate with this serial; the presented one is a forgery
	chOtherRevoked chainEntry = "other-der-revoked"
)

type presentation string

const (
	prSingle presentation = "single"
	prChain  presentation = "leaf+extra"
	prNone   presentation = "none"
)

type scenario struct {
	Kind    certKind     `json:"kind"`
	Tenant  int          `json:"tenant"` // index into cast.Tenants
	Chain   chainEntry   `json:"chain_entry"`
	BgOther bool         `json:"bg_other_tenant_same_serial_valid"`
	BgOwn   bool         `json:"bg_same_owner_other_serial_valid"`
	Present presentation `json:"presentation"`
	Serial  string       `json:"serial"` // decimal; "" = 4242
	// Answer: what the query client answers instead of the real querier's answer (answers.go); "" = real
	Answer answerMode `json:"chain_answer,omitempty"`
}

func (s scenario) String() string {
	d := fmt.Sprintf("%s/t%d/%s/bg(%v,%v)/%s/serial=%s", s.Kind, s.Tenant, s.Chain, s.BgOther, s.BgOwn, s.Present, s.serial())
	if s.Answer != ansReal {
		d += "/query-client-answers:" + string(s.Answer)
	}
	return d
}

type castT struct {
	Tenants   [2]string
	Provider  string
	Provider2 string
}

var cast = castT{Tenants: [2]string{akashAddr(1), akashAddr(2)}, Provider: akashAddr(50), Provider2: akashAddr(51)}

const serialOther = 5151

func (s scenario) serial() *big.Int {
	if s.Serial == "" {
		return big.NewInt(4242)
	}
	n, ok := new(big.Int).SetString(s.Serial, 10)
	if !ok {
		panic("serial " + s.Serial)
	}
	return n
}

// ---- oracle on the scenario level (from the property statement) ----

// sound: the presented leaf IS the currently valid, unrevoked certificate published under its
// (CN, serial), now lies within its validity and it carries the client-auth usage.
func (s scenario) sound() bool {
	return s.Present != prNone && s.Chain == chSameValid && timeValid(s.Kind) && clientUsage(s.Kind) && cnIsAccount(s.Kind)
}

// strict: additionally presented the canonical way (a single self-issued certificate), so the
// gateway must accept; sound-but-not-strict cases are left to the implementation.
func (s scenario) strict() bool {
	return s.sound() && s.Present == prSingle && selfIssued(s.Kind)
}

// kinds that differ only in detail share a signature family
func (s scenario) sigKind() string {
	switch s.Kind {
	case kProperBoth:
		return string(kProper)
	case kIssuerTenant:
		return string(kIssuerCA)
	case kCNOtherPrefix:
		return string(kCNNotBech32)
	}
	return string(s.Kind)
}

func (s scenario) rejectReason() string {
	switch {
	case !cnIsAccount(s.Kind):
		return "cn-not-an-account"
	case s.Chain == chAbsent:
		return "not-on-chain"
	case s.Chain == chOtherValid, s.Chain == chOtherRevoked:
		return "der-differs-from-onchain"
	case s.Chain == chSameRevoked:
		return "revoked"
	case s.Kind == kExpired:
		return "expired"
	case s.Kind == kNotYet:
		return "not-yet-valid"
	case !clientUsage(s.Kind):
		return "no-client-auth-usage"
	}
	return "?"
}

// ---- requests ----

type routeSpec struct {
	Template string
	Method   string
	WS       bool
	Scope    string // "", "deployment", "lease"
	Query    string // parameters the handler needs
	Body     string
}

// what this checker knows how to drive; newRouter's routes are enumerated with mux.Walk and must
// all be in this table (otherwise the run fails as a machinery error)
var routeTable = map[string]routeSpec{
	"GET /status":                                                  {Template: "/status", Method: "GET"},
	"GET /validate":                                                {Template: "/validate", Method: "GET", Body: `{"name":"g","requirements":{"signed_by":{"all_of":[],"any_of":[]},"attributes":[]},"resources":[]}`},
	"PUT /deployment/{dseq}/manifest":                              {Template: "/deployment/{dseq}/manifest", Method: "PUT", Scope: "deployment", Body: `[]`},
	"GET /lease/{dseq}/{gseq}/{oseq}/status":                       {Template: "/lease/{dseq}/{gseq}/{oseq}/status", Method: "GET", Scope: "lease"},
	"GET /lease/{dseq}/{gseq}/{oseq}/kubeevents":                   {Template: "/lease/{dseq}/{gseq}/{oseq}/kubeevents", Method: "GET", WS: true, Scope: "lease"},
	"GET /lease/{dseq}/{gseq}/{oseq}/logs":                         {Template: "/lease/{dseq}/{gseq}/{oseq}/logs", Method: "GET", WS: true, Scope: "lease"},
	"GET /lease/{dseq}/{gseq}/{oseq}/service/{serviceName}/status": {Template: "/lease/{dseq}/{gseq}/{oseq}/service/{serviceName}/status", Method: "GET", Scope: "lease"},
	"* /lease/{dseq}/{gseq}/{oseq}/shell":                          {Template: "/lease/{dseq}/{gseq}/{oseq}/shell", Method: "GET", WS: true, Scope: "lease", Query: "cmd0=ls&tty=0&service=web&stdin=0&podIndex=0"},
}

func walkRoutes(h http.Handler) ([]string, error) {
	r, ok := h.(*mux.Router)
	if !ok {
		return nil, fmt.Errorf("gateway handler is %T, not *mux.Router", h)
	}
	var out []string
	err := r.Walk(func(route *mux.Route, _ *mux.Router, _ []*mux.Route) error {
		if route.GetHandler() == nil {
			return nil
		}
		tpl, err := route.GetPathTemplate()
		if err != nil {
			return err
		}
		methods, err := route.GetMethods()
		if err != nil || len(methods) == 0 {
			methods = []string{"*"}
		}
		for _, m := range methods {
			out = append(out, m+" "+tpl)
		}
		return nil
	})
	return out, err
}

type request struct {
	Route string `json:"route"`
	DSeq  string `json:"dseq,omitempty"`
	GSeq  string `json:"gseq,omitempty"`
	OSeq  string `json:"oseq,omitempty"`
	Query string `json:"query,omitempty"` // extra parameters trying to name someone else
}

const (
	ownDSeq   = "7"
	otherDSeq = "9" // a deployment of the other tenant
)

func (r request) wellFormed() bool {
	sp := routeTable[r.Route]
	if sp.Scope == "" {
		return true
	}
	if _, err := strconv.ParseUint(r.DSeq, 10, 64); err != nil {
		return false
	}
	if sp.Scope == "lease" {
		if _, err := strconv.ParseUint(r.GSeq, 10, 32); err != nil {
			return false
		}
		if _, err := strconv.ParseUint(r.OSeq, 10, 32); err != nil {
			return false
		}
	}
	return true
}

func genRequests(tier string, routes []string, other string) []request {
	dseqs := []string{ownDSeq, otherDSeq, "abc", "18446744073709551616"}
	queries := []string{"", "owner=" + other + "&provider=" + cast.Provider2 + "&dseq=" + otherDSeq}
	if tier == "thorough" {
		dseqs = append(dseqs, "-1", "07", "7.0")
		queries = append(queries, "owner="+other)
	}
	var out []request
	for _, rt := range routes {
		sp := routeTable[rt]
		if sp.Scope == "" {
			for _, q := range queries {
				out = append(out, request{Route: rt, Query: q})
			}
			continue
		}
		for _, d := range dseqs {
			for _, q := range queries {
				out = append(out, request{Route: rt, DSeq: d, GSeq: "1", OSeq: "1", Query: q})
			}
		}
		if sp.Scope == "lease" && tier == "thorough" {
			for _, x := range []string{"2", "x", "4294967296"} {
				out = append(out, request{Route: rt, DSeq: ownDSeq, GSeq: x, OSeq: "1"}, request{Route: rt, DSeq: ownDSeq, GSeq: "1", OSeq: x})
			}
		}
	}
	return out
}

func (r request) url(base string, ws bool) string {
	sp := routeTable[r.Route]
	p := sp.Template
	p = strings.Replace(p, "{dseq}", r.DSeq, 1)
	p = strings.Replace(p, "{gseq}", r.GSeq, 1)
	p = strings.Replace(p, "{oseq}", r.OSeq, 1)
	p = strings.Replace(p, "{serviceName}", "web", 1)
	q := sp.Query
	if r.Query != "" {
		if q != "" {
			q += "&"
		}
		q += r.Query
	}
	if q != "" {
		p += "?" + q
	}
	if ws {
		base = "wss" + strings.TrimPrefix(base, "https")
	}
	return base + p
}

// ---- running ----

type outcome struct {
	Request request `json:"request"`
	Status  int     `json:"status"`
	Err     string  `json:"error,omitempty"`
	Calls   []call  `json:"calls,omitempty"`
	Resumed bool    `json:"tls_session_resumed,omitempty"` // the connection that carried the request resumed an earlier TLS session
}

type scenarioResult struct {
	Scenario        scenario  `json:"scenario"`
	PresentedCN     string    `json:"presented_cn"` // the account that published / would have to publish the certificate
	ParsedCN        string    `json:"presented_subject_common_name_as_parsed,omitempty"`
	ChainRefused    string    `json:"chain_refused_registration,omitempty"`
	DeviatedAnswers int       `json:"deviating_query_answers,omitempty"`
	AfterDeviation  []outcome `json:"request_after_the_deviation,omitempty"`
	Sound           bool      `json:"oracle_sound"`
	Strict          bool      `json:"oracle_must_accept"`
	PresentedPEM    string    `json:"presented_pem,omitempty"`
	OnChainPEM      string    `json:"onchain_pem,omitempty"`
	ChainLog        []string  `json:"chain_msgs"`
	DirectErr       string    `json:"verify_peer_certificate_error"`
	DirectOK        bool      `json:"verify_peer_certificate_accepts"`
	Outcomes        []outcome `json:"outcomes"`
	ChainQueries    int       `json:"chain_queries"`
	Routes          []string  `json:"-"`
}

type machErr struct{ msg string }

func (e machErr) Error() string { return e.msg }

func runScenario(sc scenario, tier string, only *request) (*scenarioResult, error) {
	now := time.Now()
	tenant := cast.Tenants[sc.Tenant]
	other := cast.Tenants[1-sc.Tenant]
	res := &scenarioResult{Scenario: sc}

	ch, err := newChain()
	if err != nil {
		return nil, machErr{"chain: " + err.Error()}
	}
	var presented *madeCert
	var extra [][]byte
	otherGenuine := makeCert(specFor(kProper, other, tenant, sc.serial(), now))
	if sc.Present != prNone {
		presented = makeCert(specFor(sc.Kind, tenant, other, sc.serial(), now))
		res.PresentedCN = presented.X509.Subject.CommonName
		res.ParsedCN = presented.X509.Subject.CommonName
		if sc.Kind == kMultiCNTenantFirst {
			res.PresentedCN = tenant // the account holding the key and trying to publish it
		}
		res.PresentedPEM = string(presented.PEM)
		switch sc.Chain {
		case chSameValid, chSameRevoked:
			if err := ch.create(tenant, presented); err != nil {
				if sc.Kind != kMultiCNTenantFirst {
					return nil, machErr{fmt.Sprintf("%s: registering the presented certificate: %v", sc, err)}
				}
				// expected: the chain sees CommonName = the other tenant and refuses; nothing is on chain
				res.ChainRefused = err.Error()
				break
			}
			res.OnChainPEM = string(presented.PEM)
			if sc.Chain == chSameRevoked {
				if err := ch.revoke(tenant, presented); err != nil {
					return nil, machErr{fmt.Sprintf("%s: revoke: %v", sc, err)}
				}
			}
		case chOtherValid, chOtherRevoked:
			genuine := makeCert(specFor(kProper, tenant, other, sc.serial(), now))
			if err := ch.create(tenant, genuine); err != nil {
				return nil, machErr{fmt.Sprintf("%s: registering the genuine certificate: %v", sc, err)}
			}
			res.OnChainPEM = string(genuine.PEM)
			if sc.Chain == chOtherRevoked {
				if err := ch.revoke(tenant, genuine); err != nil {
					return nil, machErr{fmt.Sprintf("%s: revoke: %v", sc, err)}
				}
			}
		}
		if sc.Present == prChain {
			if len(presented.Extra) > 0 {
				extra = presented.Extra // the issuing CA
			} else {
				extra = [][]byte{otherGenuine.DER} // somebody else's genuine certificate
			}
		}
	}
	if sc.BgOther {
		if err := ch.create(other, otherGenuine); err != nil {
			return nil, machErr{fmt.Sprintf("%s: background: %v", sc, err)}
		}
	}
	if sc.BgOwn {
		if err := ch.create(tenant, makeCert(specFor(kProper, tenant, other, big.NewInt(serialOther), now))); err != nil {
			return nil, machErr{fmt.Sprintf("%s: background: %v", sc, err)}
		}
	}
	res.ChainLog = ch.log
	res.Sound = sc.sound() && res.ChainRefused == "" && sc.Answer == ansReal
	res.Strict = sc.strict() && res.ChainRefused == "" && sc.Answer == ansReal
	var cquery ctypes.QueryClient = ch
	var ans *answerClient
	if sc.Answer != ansReal && presented != nil {
		twin := makeCert(specFor(kProper, tenant, other, sc.serial(), now)) // same owner and serial, other key
		ans = &answerClient{inner: ch, mode: sc.Answer, presentedPEM: presented.PEM, presentedPub: presented.PubPEM,
			otherPEM: twin.PEM, otherPub: twin.PubPEM, strangerPEM: otherGenuine.PEM, strangerPub: otherGenuine.PubPEM, serial: sc.serial().String()}
		cquery = ans
	}

	// the gateway, built by the real constructor
	rec := &recorder{}
	pid, err := sdk.AccAddressFromBech32(cast.Provider)
	if err != nil {
		return nil, machErr{err.Error()}
	}
	serverCert := makeCert(certSpec{CN: cast.Provider, Serial: big.NewInt(1), NotBefore: now.Add(-year), NotAfter: now.Add(year),
		Usage: nil, DNS: []string{"localhost"}})
	srv, err := rest.NewServer(context.Background(), log.NewNopLogger(), &fakeProvider{rec}, cquery, "127.0.0.1:0", pid, []tls.Certificate{serverCert.tlsCert()})
	if err != nil {
		return nil, machErr{"rest.NewServer: " + err.Error()}
	}
	routes, err := walkRoutes(srv.Handler)
	if err != nil {
		return nil, machErr{"walking the router: " + err.Error()}
	}
	for _, rt := range routes {
		if _, ok := routeTable[rt]; !ok {
			return nil, machErr{fmt.Sprintf("newRouter has a route this checker does not know how to drive: %q", rt)}
		}
	}
	if len(routes) != len(routeTable) {
		return nil, machErr{fmt.Sprintf("newRouter has %d routes, the checker's table has %d", len(routes), len(routeTable))}
	}
	res.Routes = routes

	// direct call of the verification callback
	if sc.Present != prNone {
		raw := append([][]byte{presented.DER}, extra...)
		if srv.TLSConfig.VerifyPeerCertificate == nil {
			return nil, machErr{"server TLS config has no VerifyPeerCertificate"}
		}
		verr := callVerify(srv.TLSConfig.VerifyPeerCertificate, raw)
		res.DirectOK = verr == nil
		if verr != nil {
			res.DirectErr = verr.Error()
		}
	} else {
		verr := srv.TLSConfig.VerifyPeerCertificate(nil, nil)
		res.DirectOK = verr == nil
		if verr != nil {
			res.DirectErr = verr.Error()
		}
	}

	ts := httptest.NewUnstartedServer(srv.Handler)
	ts.TLS = srv.TLSConfig
	ts.Config.BaseContext = srv.BaseContext
	ts.Config.ErrorLog = stdlog.New(io.Discard, "", 0) // refused handshakes are expected by the thousand
	ts.StartTLS()
	defer ts.Close()

	ccfg := &tls.Config{InsecureSkipVerify: true, MinVersion: tls.VersionTLS13} // nolint: gosec — server authentication is not the property
	if presented != nil {
		tc := presented.tlsCert(extra...)
		ccfg.GetClientCertificate = func(*tls.CertificateRequestInfo) (*tls.Certificate, error) { return &tc, nil }
	}
	reqs := genRequests(tier, routes, other)
	if only != nil {
		reqs = []request{*only}
	}
	ocs, err := drive(sc.String(), ts.URL, ccfg, rec, reqs)
	if err != nil {
		return nil, err
	}
	res.Outcomes = ocs
	if ans != nil {
		res.DeviatedAnswers = ans.deviated
		// the deviation is over: the server must still serve the genuine holder
		ans.set(ansReal)
		after, err := drive(sc.String()+" (after the deviation)", ts.URL, ccfg, rec, []request{{Route: "GET /lease/{dseq}/{gseq}/{oseq}/status", DSeq: ownDSeq, GSeq: "1", OSeq: "1"}})
		if err != nil {
			return nil, err
		}
		res.AfterDeviation = after
	}
	res.ChainQueries = ch.queries
	return res, nil
}

// drive sends the requests over fresh TLS connections made with ccfg (one transport per call, so the
// first request always performs a new handshake) and returns what came back and what reached the
// recording provider clients.
func drive(label, tsURL string, ccfg *tls.Config, rec *recorder, reqs []request) ([]outcome, error) {
	var out []outcome
	ts := struct{ URL string }{tsURL}
	tr := &http.Transport{TLSClientConfig: ccfg, ForceAttemptHTTP2: false}
	defer tr.CloseIdleConnections()
	hc := &http.Client{Transport: tr, Timeout: 30 * time.Second}
	wsd := &websocket.Dialer{TLSClientConfig: ccfg, HandshakeTimeout: 30 * time.Second}

	for _, rq := range reqs {
		sp := routeTable[rq.Route]
		before := len(rec.snapshot())
		oc := outcome{Request: rq}
		if sp.WS {
			conn, resp, err := wsd.Dial(rq.url(ts.URL, true), nil)
			if resp != nil {
				oc.Status = resp.StatusCode
			}
			if conn != nil {
				if tc, ok := conn.UnderlyingConn().(*tls.Conn); ok {
					oc.Resumed = tc.ConnectionState().DidResume
				}
			}
			if err != nil {
				oc.Err = err.Error()
			} else {
				_ = conn.SetReadDeadline(time.Now().Add(30 * time.Second))
				for {
					if _, _, err := conn.ReadMessage(); err != nil {
						if ne, ok := err.(interface{ Timeout() bool }); ok && ne.Timeout() {
							_ = conn.Close()
							return nil, machErr{fmt.Sprintf("%s %v: websocket did not finish", label, rq)}
						}
						break
					}
				}
				_ = conn.Close()
			}
		} else {
			var body io.Reader
			if sp.Body != "" {
				body = bytes.NewBufferString(sp.Body)
			}
			hr, err := http.NewRequest(sp.Method, rq.url(ts.URL, false), body)
			if err != nil {
				return nil, machErr{err.Error()}
			}
			resp, err := hc.Do(hr)
			if err != nil {
				oc.Err = err.Error()
				if strings.Contains(oc.Err, "Client.Timeout") {
					return nil, machErr{fmt.Sprintf("%s %v: request did not finish", label, rq)}
				}
			} else {
				_, _ = io.Copy(io.Discard, resp.Body)
				_ = resp.Body.Close()
				oc.Status = resp.StatusCode
				if resp.TLS != nil {
					oc.Resumed = resp.TLS.DidResume
				}
			}
		}
		// handlers record before they answer; the answer has been read completely at this point
		all := rec.snapshot()
		oc.Calls = all[before:]
		out = append(out, oc)
	}
	return out, nil
}

// ---- oracle on results ----

type violation struct {
	Sig     string   `json:"signature"`
	Detail  string   `json:"detail"`
	Request *request `json:"request,omitempty"`
}

// callVerify calls the verification callback; a panic (e.g. on a nil query response) is turned into an
// error: in a server the handshake goroutine is recovered by net/http and the connection fails.
func callVerify(f func([][]byte, [][]*x509.Certificate) error, raw [][]byte) (err error) {
	defer func() {
		if r := recover(); r != nil {
			err = fmt.Errorf("panic: %v", r)
		}
	}()
	return f(raw, nil)
}

func sigRoute(r string) string { return strings.ReplaceAll(r, " ", "") }

// verdictInput is one presentation (a certificate shown to one server instance, plus the requests made
// with it) together with what the oracle says about it. Isolated scenarios and every step of a
// sequence are judged by the same function: the statement knows no "recently verified" exception.
type verdictInput struct {
	Label     string // scenario / sequence description
	Prefix    string // "" for isolated scenarios, "seq-" for steps of a sequence
	Present   bool   // a client certificate was presented
	Sound     bool   // the leaf is the currently valid on-chain certificate of Publisher, in time, client-auth
	Strict    bool   // sound and presented canonically: must be accepted
	SigKind   string
	Reason    string // why it is not sound
	Publisher string // the account that published (or would have to have published) the certificate: its subject CN
	DirectOK  bool
	DirectErr string
	Outcomes  []outcome
}

func judgeStep(in verdictInput) []violation {
	var out []violation
	add := func(rq *request, sig, f string, a ...interface{}) {
		out = append(out, violation{Sig: in.Prefix + sig, Detail: in.Label + ": " + fmt.Sprintf(f, a...), Request: rq})
	}
	if in.Present {
		if in.DirectOK && !in.Sound {
			add(nil, fmt.Sprintf("unauthorized-accept:%s:%s", in.SigKind, in.Reason),
				"VerifyPeerCertificate accepted a certificate with CN %s that is not the valid on-chain certificate (%s)", in.Publisher, in.Reason)
		}
		if !in.DirectOK && in.Strict {
			add(nil, "false-reject:verify-callback:"+in.SigKind, "VerifyPeerCertificate rejected the genuine on-chain certificate: %s", in.DirectErr)
		}
	} else if !in.DirectOK {
		add(nil, "false-reject:verify-callback:no-certificate", "VerifyPeerCertificate rejected a connection without client certificate: %s", in.DirectErr)
	}
	for i := range in.Outcomes {
		oc := &in.Outcomes[i]
		rq := &oc.Request
		sp := routeTable[rq.Route]
		scoped := 0
		for _, c := range oc.Calls {
			if !c.Scoped {
				continue
			}
			scoped++
			switch {
			case !in.Present:
				add(rq, "scope:unauthenticated:"+sigRoute(rq.Route), "%s reached %s(owner %s) without any client certificate", rq.url("", false), c.Method, c.Owner)
			case !in.Sound:
				add(rq, fmt.Sprintf("unauthorized-accept:%s:%s", in.SigKind, in.Reason),
					"%s reached %s as owner %s over TLS although the certificate is not the valid on-chain one (%s)", rq.url("", false), c.Method, c.Owner, in.Reason)
			}
			// scope is judged against the account that PUBLISHED the certificate (its subject CN, the
			// signer of MsgCreateCertificate), never against whatever the middleware extracted
			if in.Present && c.Owner != in.Publisher {
				add(rq, "scope:owner:"+sigRoute(rq.Route), "%s reached %s with owner %s, but the certificate was published by / names account %s", rq.url("", false), c.Method, c.Owner, in.Publisher)
			}
			if c.IsLease && c.Provider != cast.Provider {
				add(rq, "scope:provider:"+sigRoute(rq.Route), "%s reached %s with provider %s, this provider is %s", rq.url("", false), c.Method, c.Provider, cast.Provider)
			}
		}
		if sp.Scope != "" && in.Strict && rq.wellFormed() && scoped == 0 {
			add(rq, "false-reject:"+sigRoute(rq.Route), "%s did not reach the provider for the genuine certificate holder (status %d, error %q)", rq.url("", false), oc.Status, oc.Err)
		}
		if sp.Scope == "" && !in.Present && len(oc.Calls) == 0 {
			add(rq, "false-reject:public:"+sigRoute(rq.Route), "%s without client certificate did not reach the provider (status %d, error %q)", rq.url("", false), oc.Status, oc.Err)
		}
	}
	return out
}

func judge(res *scenarioResult) []violation {
	sc := res.Scenario
	reason := sc.rejectReason()
	if res.ChainRefused != "" {
		reason = "not-on-chain"
	}
	if sc.Answer != ansReal {
		// judged like every other presentation, with "the query client deviated" as the reason to refuse
		vs := judgeStep(verdictInput{
			Label: sc.String(), Prefix: "chain-answer:", Present: sc.Present != prNone, Sound: false, Strict: false,
			SigKind: sc.sigKind(), Reason: string(sc.Answer), Publisher: res.PresentedCN,
			DirectOK: res.DirectOK, DirectErr: res.DirectErr, Outcomes: res.Outcomes,
		})
		if sc.strict() && res.ChainRefused == "" {
			reached := false
			for _, oc := range res.AfterDeviation {
				for _, c := range oc.Calls {
					if c.Scoped && c.Owner == res.PresentedCN {
						reached = true
					}
				}
			}
			if !reached {
				st, e := 0, ""
				if len(res.AfterDeviation) > 0 {
					st, e = res.AfterDeviation[0].Status, res.AfterDeviation[0].Err
				}
				vs = append(vs, violation{Sig: "chain-answer:server-does-not-recover:" + string(sc.Answer),
					Detail: fmt.Sprintf("%s: after the deviating answers the genuine holder is no longer served (status %d, error %q)", sc, st, e)})
			}
		}
		return vs
	}
	return judgeStep(verdictInput{
		Label: sc.String(), Present: sc.Present != prNone, Sound: res.Sound, Strict: res.Strict,
		SigKind: sc.sigKind(), Reason: reason, Publisher: res.PresentedCN,
		DirectOK: res.DirectOK, DirectErr: res.DirectErr, Outcomes: res.Outcomes,
	})
}
