package main

// CHAIN-ANSWER MENU (environment deviations of the query path): the gateway asks a remote node; besides
// the real answer of the real querier the query client is made to answer
//   error          a gRPC error
//   empty          an empty list
//   two            two certificates: the right one (the real answer, or the presented certificate dressed
//                  up as valid when the real answer is empty) plus somebody else's
//   revoked-state  the right certificate but state=revoked although the filter said "valid"
//   other-bytes    a valid certificate of the same owner/serial whose bytes differ from the presented one
//   nil            a nil response with a nil error
// Oracle: the chain model (the real keeper state) is the truth; a handshake may be accepted only on the
// real answer. Under every deviation the presentation must be REFUSED; "nil" additionally must not kill
// the server (a recovered panic that fails the handshake is fine).

import (
	"context"
	"errors"
	"sync"

	"google.golang.org/grpc"

	ctypes "github.com/ovrclk/akash/x/cert/types"
)

type answerMode string

const (
	ansReal    answerMode = ""
	ansError   answerMode = "error"
	ansEmpty   answerMode = "empty"
	ansTwo     answerMode = "two"
	ansRevoked answerMode = "revoked-state"
	ansOther   answerMode = "other-bytes"
	ansNil     answerMode = "nil"
)

var answerMenu = []answerMode{ansError, ansEmpty, ansTwo, ansRevoked, ansOther, ansNil}

type answerClient struct {
	inner *chain
	mu    sync.Mutex
	mode  answerMode
	// material for fabricated answers
	presentedPEM, presentedPub []byte
	otherPEM, otherPub         []byte // same owner/serial, different bytes
	strangerPEM, strangerPub   []byte // somebody else's certificate
	serial                     string
	deviated                   int
}

func (a *answerClient) set(m answerMode) {
	a.mu.Lock()
	a.mode = m
	a.mu.Unlock()
}

func (a *answerClient) Certificates(ctx context.Context, in *ctypes.QueryCertificatesRequest, opts ...grpc.CallOption) (*ctypes.QueryCertificatesResponse, error) {
	a.mu.Lock()
	mode := a.mode
	if mode != ansReal {
		a.deviated++
	}
	a.mu.Unlock()
	if mode == ansReal {
		return a.inner.Certificates(ctx, in, opts...)
	}
	real, _ := a.inner.Certificates(ctx, in, opts...)
	mk := func(pem, pub []byte, st ctypes.Certificate_State) ctypes.CertificateResponse {
		return ctypes.CertificateResponse{Certificate: ctypes.Certificate{State: st, Cert: pem, Pubkey: pub}, Serial: a.serial}
	}
	right := mk(a.presentedPEM, a.presentedPub, ctypes.CertificateValid)
	if real != nil && len(real.Certificates) == 1 {
		right = real.Certificates[0]
	}
	switch mode {
	case ansError:
		return nil, errors.New("rpc error: code = Unavailable desc = injected")
	case ansEmpty:
		return &ctypes.QueryCertificatesResponse{}, nil
	case ansTwo:
		return &ctypes.QueryCertificatesResponse{Certificates: ctypes.CertificatesResponse{right, mk(a.strangerPEM, a.strangerPub, ctypes.CertificateValid)}}, nil
	case ansRevoked:
		right.Certificate.State = ctypes.CertificateRevoked
		return &ctypes.QueryCertificatesResponse{Certificates: ctypes.CertificatesResponse{right}}, nil
	case ansOther:
		return &ctypes.QueryCertificatesResponse{Certificates: ctypes.CertificatesResponse{mk(a.otherPEM, a.otherPub, ctypes.CertificateValid)}}, nil
	case ansNil:
		return nil, nil
	}
	return nil, errors.New("unknown answer mode")
}

var _ ctypes.QueryClient = (*answerClient)(nil)
