// Package imc holds what every inputmc check shares: sharded exhaustive enumeration with an
// internal deadline, violation bookkeeping (one replay per distinct signature, known-findings
// lookup), sample rotation and the evidence file.
//
// Nothing in here decides a verdict; verdicts come from the per-property oracles.
package imc

import (
	"encoding/json"
	"fmt"
	"os"
	"path/filepath"
	"runtime"
	"sort"
	"strconv"
	"sync"
	"sync/atomic"
	"time"

	"verif.local/verif/evlib"
)

// ---------------------------------------------------------------------------------------------
// enumeration

// Deadline is an internal budget. When it expires the enumeration stops early, the run still
// exits 0 (if nothing was violated) and the evidence says exhaustive:false.
type Deadline struct {
	at      time.Time
	expired int32
}

func NewDeadline(d time.Duration) *Deadline { return &Deadline{at: time.Now().Add(d)} }

func (d *Deadline) Expired() bool {
	if d == nil {
		return false
	}
	if atomic.LoadInt32(&d.expired) == 1 {
		return true
	}
	if time.Now().After(d.at) {
		atomic.StoreInt32(&d.expired, 1)
		return true
	}
	return false
}

// Workers returns the number of goroutines to shard over (VERIF_WORKERS overrides).
func Workers() int {
	if s := os.Getenv("VERIF_WORKERS"); s != "" {
		if n, err := strconv.Atoi(s); err == nil && n > 0 {
			return n
		}
	}
	n := runtime.NumCPU()
	if n > 16 {
		n = 16
	}
	if n < 1 {
		n = 1
	}
	return n
}

// ForEach calls fn(worker, i) for every i in [0,n), sharded over Workers() goroutines in chunks.
// It returns how many indices were completed; completed == n means the range was enumerated
// completely. The deadline is polled between chunks.
func ForEach(n int64, chunk int64, dl *Deadline, fn func(worker int, i int64)) (completed int64) {
	if chunk < 1 {
		chunk = 1
	}
	var next int64
	var done int64
	w := Workers()
	var wg sync.WaitGroup
	for k := 0; k < w; k++ {
		wg.Add(1)
		go func(k int) {
			defer wg.Done()
			for {
				if dl.Expired() {
					return
				}
				lo := atomic.AddInt64(&next, chunk) - chunk
				if lo >= n {
					return
				}
				hi := lo + chunk
				if hi > n {
					hi = n
				}
				for i := lo; i < hi; i++ {
					fn(k, i)
				}
				atomic.AddInt64(&done, hi-lo)
			}
		}(k)
	}
	wg.Wait()
	return atomic.LoadInt64(&done)
}

// ---------------------------------------------------------------------------------------------
// violations

type sigInfo struct {
	Sig    string
	What   string
	Count  int64
	Replay string
	Known  bool
	KnownW string
}

// Reporter collects violations. The first occurrence of each signature stores a replay file; all
// occurrences are counted. Signatures listed as "known" in known_findings.json do not fail the run.
type Reporter struct {
	Prop     string
	mu       sync.Mutex
	sigs     map[string]*sigInfo
	order    []string
	findings evlib.Findings
	nReplay  int
	Broken   error // machinery failure (exit 2)
	// ReplayOf is set in replay mode: no replay files are written, violations point at this file.
	ReplayOf string
}

// NoEvidence: VERIF_NO_EVIDENCE=1 (set by bin/mutant) keeps a run from touching evidence/ and replays/.
func NoEvidence() bool { return os.Getenv("VERIF_NO_EVIDENCE") != "" }

func NewReporter(prop string) *Reporter {
	r := &Reporter{Prop: prop, sigs: map[string]*sigInfo{}}
	f, err := evlib.LoadFindings()
	if err != nil {
		r.Broken = fmt.Errorf("known_findings.json unreadable: %w", err)
	}
	r.findings = f
	return r
}

// Seen reports whether a signature was already recorded (cheap pre-check to avoid building
// replay payloads for the 10^5th occurrence of the same defect).
func (r *Reporter) Seen(sig string) bool {
	r.mu.Lock()
	defer r.mu.Unlock()
	s, ok := r.sigs[sig]
	if ok {
		s.Count++
	}
	return ok
}

// Violation records one violation. replay is only marshalled for the first occurrence of sig.
func (r *Reporter) Violation(sig, what string, replay func() interface{}) {
	r.mu.Lock()
	defer r.mu.Unlock()
	if s, ok := r.sigs[sig]; ok {
		s.Count++
		return
	}
	s := &sigInfo{Sig: sig, What: what, Count: 1}
	if kf, ok := r.findings.Known(r.Prop, sig); ok {
		s.Known = true
		s.KnownW = kf.What
	}
	r.nReplay++
	payload := map[string]interface{}{
		"property":  r.Prop,
		"signature": sig,
		"what":      what,
		"input":     replay(),
	}
	if r.ReplayOf != "" {
		s.Replay = r.ReplayOf
	} else if NoEvidence() {
		// mutant / candidate-fix runs: keep /verif/replays for runs on the real tree
		dir := filepath.Join(evlib.Root(), "build", "scratch-replays", fmt.Sprint(os.Getpid()))
		_ = os.MkdirAll(dir, 0o755)
		s.Replay = filepath.Join(dir, fmt.Sprintf("%s-%d.json", r.Prop, r.nReplay))
		raw, _ := json.MarshalIndent(payload, "", " ")
		if err := os.WriteFile(s.Replay, append(raw, '\n'), 0o644); err != nil {
			r.Broken = fmt.Errorf("cannot write replay: %w", err)
		}
	} else {
		p, err := evlib.WriteReplay(r.Prop, r.nReplay, payload)
		if err != nil {
			r.Broken = fmt.Errorf("cannot write replay: %w", err)
		}
		s.Replay = p
	}
	r.sigs[sig] = s
	r.order = append(r.order, sig)
}

// ViolationAt records a violation found by another engine whose replay file already exists
// (same known-findings lookup, same VIOLATION / KNOWN-FINDING lines).
func (r *Reporter) ViolationAt(sig, what, replayPath string) {
	r.mu.Lock()
	defer r.mu.Unlock()
	if s, ok := r.sigs[sig]; ok {
		s.Count++
		return
	}
	s := &sigInfo{Sig: sig, What: what, Count: 1, Replay: replayPath}
	if kf, ok := r.findings.Known(r.Prop, sig); ok {
		s.Known = true
		s.KnownW = kf.What
	}
	r.sigs[sig] = s
	r.order = append(r.order, sig)
}

// Machinery records a failure of the checking machinery itself (exit 2, never a verdict).
func (r *Reporter) Machinery(err error) {
	r.mu.Lock()
	defer r.mu.Unlock()
	if r.Broken == nil {
		r.Broken = err
	}
}

// Unknown returns the number of distinct violation signatures that are not known findings.
func (r *Reporter) Unknown() int {
	r.mu.Lock()
	defer r.mu.Unlock()
	n := 0
	for _, s := range r.sigs {
		if !s.Known {
			n++
		}
	}
	return n
}

// Summary returns a serialisable summary of everything recorded (goes into the evidence extras).
func (r *Reporter) Summary() []map[string]interface{} {
	r.mu.Lock()
	defer r.mu.Unlock()
	out := []map[string]interface{}{}
	for _, k := range r.order {
		s := r.sigs[k]
		out = append(out, map[string]interface{}{
			"signature": s.Sig, "what": s.What, "occurrences": s.Count, "replay": s.Replay, "known": s.Known,
		})
	}
	return out
}

// Print writes the VIOLATION / KNOWN-FINDING lines and returns the exit code (0, 1 or 2).
func (r *Reporter) Print() int {
	r.mu.Lock()
	defer r.mu.Unlock()
	code := 0
	for _, k := range r.order {
		s := r.sigs[k]
		if s.Known {
			fmt.Printf("KNOWN-FINDING: property=%s signature=%q occurrences=%d replay=%s (%s)\n", r.Prop, s.Sig, s.Count, s.Replay, s.KnownW)
			continue
		}
		fmt.Printf("VIOLATION property=%s replay=%s\n", r.Prop, s.Replay)
		fmt.Printf("  signature=%q occurrences=%d\n  %s\n", s.Sig, s.Count, s.What)
		code = 1
	}
	if r.Broken != nil {
		fmt.Printf("MACHINERY-FAILURE property=%s: %v\n", r.Prop, r.Broken)
		return 2
	}
	return code
}

// ---------------------------------------------------------------------------------------------
// samples and counters

// Sampler keeps a few concrete cases per class for the evidence file. Which ones are kept is a
// pure function of (class, ordinal within class, VERIF_SEED): the seed rotates the window, it never
// influences what is checked.
type Sampler struct {
	mu    sync.Mutex
	seed  int64
	per   int
	seen  map[string]int64
	kept  map[string][]interface{}
	order []string
}

func NewSampler(perClass int) *Sampler {
	return &Sampler{seed: evlib.Seed(), per: perClass, seen: map[string]int64{}, kept: map[string][]interface{}{}}
}

// Offer is called with a class label and a constructor of the sample; the constructor runs only if
// the sample is kept. Ordinals are per class in arrival order (arrival order may vary with the
// scheduling of workers: samples are illustrations, not verdicts).
func (s *Sampler) Offer(class string, mk func() interface{}) {
	s.mu.Lock()
	defer s.mu.Unlock()
	n := s.seen[class]
	s.seen[class] = n + 1
	if _, ok := s.kept[class]; !ok {
		s.order = append(s.order, class)
		s.kept[class] = nil
	}
	// ordinal 0 of every class is always kept; further ones are taken every `stride` cases,
	// starting at an offset chosen by the seed.
	stride := int64(97)
	off := s.seed % stride
	if off < 0 {
		off += stride
	}
	if len(s.kept[class]) < s.per && (n == 0 || n%stride == off) {
		s.kept[class] = append(s.kept[class], map[string]interface{}{"class": class, "ordinal": n, "case": mk()})
	}
}

func (s *Sampler) Samples() []interface{} {
	s.mu.Lock()
	defer s.mu.Unlock()
	out := []interface{}{}
	cl := append([]string(nil), s.order...)
	sort.Strings(cl)
	for _, c := range cl {
		out = append(out, s.kept[c]...)
	}
	return out
}

// Counters is a concurrent map of named int64 counters (class populations in the evidence).
type Counters struct {
	mu sync.Mutex
	m  map[string]int64
}

func NewCounters() *Counters { return &Counters{m: map[string]int64{}} }

func (c *Counters) Add(k string, n int64) {
	c.mu.Lock()
	c.m[k] += n
	c.mu.Unlock()
}

func (c *Counters) Get(k string) int64 {
	c.mu.Lock()
	defer c.mu.Unlock()
	return c.m[k]
}

func (c *Counters) Map() map[string]int64 {
	c.mu.Lock()
	defer c.mu.Unlock()
	out := map[string]int64{}
	for k, v := range c.m {
		out[k] = v
	}
	return out
}

// Local is a per-worker counter block merged at the end (no lock in the hot loop).
type Local map[string]int64

func (c *Counters) Merge(l Local) {
	c.mu.Lock()
	for k, v := range l {
		c.m[k] += v
	}
	c.mu.Unlock()
}

// ---------------------------------------------------------------------------------------------
// evidence

// Finish writes the evidence file, prints the verdict lines and returns the exit code.
func Finish(r *Reporter, tier string, start time.Time, cov evlib.Coverage, assumptions []string) int {
	if cov.Extra == nil {
		cov.Extra = map[string]interface{}{}
	}
	cov.Extra["violation_signatures"] = r.Summary()
	ev := evlib.Evidence{
		PropertyID:  r.Prop,
		Tier:        tier,
		Seed:        evlib.Seed(),
		Level:       "exploration",
		Coverage:    cov,
		Assumptions: assumptions,
		WallS:       time.Since(start).Seconds(),
		Violations:  r.Unknown(),
	}
	if !NoEvidence() {
		if err := evlib.Write(ev); err != nil {
			r.Machinery(fmt.Errorf("cannot write evidence: %w", err))
		}
	}
	code := r.Print()
	fmt.Printf("%s tier=%s evaluations=%d distinct_nontrivial=%d exhaustive=%v wall=%.1fs exit=%d\n",
		r.Prop, tier, cov.Evaluations, cov.DistinctNontrivial, cov.Exhaustive, time.Since(start).Seconds(), code)
	return code
}

// JSON is a helper for replay payloads.
func JSON(v interface{}) json.RawMessage {
	b, err := json.Marshal(v)
	if err != nil {
		return json.RawMessage(strconv.Quote("unmarshalable: " + err.Error()))
	}
	return b
}

// Perms returns all permutations of [0..n) in lexicographic order, at most limit of them
// (limit <= 0: no bound). The first one is always the identity.
func Perms(n, limit int) [][]int {
	idx := make([]int, n)
	for i := range idx {
		idx[i] = i
	}
	var out [][]int
	for {
		out = append(out, append([]int(nil), idx...))
		if limit > 0 && len(out) >= limit {
			return out
		}
		// next lexicographic permutation
		i := n - 2
		for i >= 0 && idx[i] >= idx[i+1] {
			i--
		}
		if i < 0 {
			return out
		}
		j := n - 1
		for idx[j] <= idx[i] {
			j--
		}
		idx[i], idx[j] = idx[j], idx[i]
		for a, b := i+1, n-1; a < b; a, b = a+1, b-1 {
			idx[a], idx[b] = idx[b], idx[a]
		}
	}
}
