// Command c11 is the inputmc (small-scope exhaustive enumeration) checker for property C11:
// tenant workloads are sandboxed and capped to leased resources.
//
// It must be built with `-tags verif -overlay <json>` so that the in-package harness
// (overlay/kube_verif_harness.go.in) is part of provider/cluster/kube.
package main

import (
	"encoding/json"
	"flag"
	"fmt"
	"hash/fnv"
	"math/bits"
	"os"
	"path/filepath"
	"runtime"
	"runtime/pprof"
	"sort"
	"sync"
	"sync/atomic"
	"time"

	"github.com/ovrclk/akash/manifest"
	"github.com/ovrclk/akash/provider/cluster/kube"
	mtypes "github.com/ovrclk/akash/x/market/types"

	"verif.local/verif/evlib"
)

const prop = "C11"

type replayFile struct {
	Property  string    `json:"property"`
	Tier      string    `json:"tier"`
	Signature string    `json:"signature"`
	Detail    string    `json:"detail"`
	Input     caseInput `json:"input"`
}

type found struct {
	sig    string
	detail string
	input  caseInput
	count  int64
}

type collector struct {
	mu    sync.Mutex
	bySig map[string]*found
}

func (c *collector) add(vs []violation, in *caseInput) {
	if len(vs) == 0 {
		return
	}
	c.mu.Lock()
	defer c.mu.Unlock()
	for _, v := range vs {
		f := c.bySig[v.Sig]
		if f == nil {
			raw, _ := json.Marshal(in)
			var cpy caseInput
			_ = json.Unmarshal(raw, &cpy)
			f = &found{sig: v.Sig, detail: v.Detail, input: cpy}
			c.bySig[v.Sig] = f
		}
		f.count++
	}
}

func noEvidence() bool { return os.Getenv("VERIF_NO_EVIDENCE") != "" }

// writeReplay: /verif/replays/C11-<n>.json, or a scratch directory when evidence is suppressed
func writeReplay(n int, rf replayFile) (string, error) {
	if !noEvidence() {
		return evlib.WriteReplay(prop, n, rf)
	}
	dir := filepath.Join(evlib.Root(), "build", "scratch-replays")
	if err := os.MkdirAll(dir, 0o755); err != nil {
		return "", err
	}
	p := filepath.Join(dir, fmt.Sprintf("%s-%d-%d.json", prop, os.Getpid(), n))
	raw, err := json.MarshalIndent(rf, "", " ")
	if err != nil {
		return p, err
	}
	return p, os.WriteFile(p, append(raw, '\n'), 0o644)
}

type bitset struct{ w []uint64 }

func newBitset(n int) *bitset { return &bitset{w: make([]uint64, (n+63)/64)} }
func (b *bitset) set(i int) bool {
	m := uint64(1) << (uint(i) % 64)
	for {
		old := atomic.LoadUint64(&b.w[i/64])
		if old&m != 0 {
			return true
		}
		if atomic.CompareAndSwapUint64(&b.w[i/64], old, old|m) {
			return false
		}
	}
}
func (b *bitset) count() int64 {
	var n int64
	for _, x := range b.w {
		n += int64(bits.OnesCount64(x))
	}
	return n
}

func mustDistinct(what string, n int, enc func(i int) interface{}) {
	seen := map[uint64]int{}
	for i := 0; i < n; i++ {
		raw, err := json.Marshal(enc(i))
		if err != nil {
			fmt.Fprintln(os.Stderr, "machinery:", err)
			os.Exit(2)
		}
		h := fnv.New64a()
		h.Write(raw)
		if j, dup := seen[h.Sum64()]; dup {
			fmt.Fprintf(os.Stderr, "machinery: grammar produced duplicate %s (%d and %d)\n", what, j, i)
			os.Exit(2)
		}
		seen[h.Sum64()] = i
	}
}

// foreign leases used by the network-policy model for lease i: same everything but the owner, and
// same everything but dseq.
func foreignFor(leases []mtypes.LeaseID, i int) []mtypes.LeaseID {
	l := leases[i]
	var out []mtypes.LeaseID
	for _, x := range leases {
		if x.Owner != l.Owner && x.Provider == l.Provider && x.DSeq == l.DSeq && x.GSeq == l.GSeq && x.OSeq == l.OSeq {
			out = append(out, x)
			break
		}
	}
	for _, x := range leases {
		if x.Owner == l.Owner && x.Provider == l.Provider && x.DSeq != l.DSeq && x.GSeq == l.GSeq && x.OSeq == l.OSeq {
			out = append(out, x)
			break
		}
	}
	return out
}

func main() {
	tier := flag.String("tier", evlib.Tier(), "quick|thorough")
	replay := flag.String("replay", "", "replay file")
	prof := flag.String("cpuprofile", "", "write a CPU profile")
	flag.Parse()
	if *prof != "" {
		f, err := os.Create(*prof)
		if err == nil {
			_ = pprof.StartCPUProfile(f)
			defer pprof.StopCPUProfile()
		}
	}
	if *replay != "" {
		os.Exit(doReplay(*replay))
	}
	if *tier != "quick" && *tier != "thorough" {
		fmt.Fprintln(os.Stderr, "usage: c11 -tier quick|thorough | -replay file")
		os.Exit(2)
	}
	code := run(*tier)
	pprof.StopCPUProfile()
	os.Exit(code)
}

func doReplay(path string) int {
	raw, err := os.ReadFile(path)
	if err != nil {
		fmt.Fprintln(os.Stderr, "machinery:", err)
		return 2
	}
	var rf replayFile
	if err := json.Unmarshal(raw, &rf); err != nil {
		fmt.Fprintln(os.Stderr, "machinery:", err)
		return 2
	}
	var vs []violation
	switch rf.Input.Path {
	case "builders":
		vs, _ = evalBuilders(&rf.Input, nil, nil)
	case "deploy":
		vs, _, err = evalDeploy(&rf.Input)
		if err != nil && len(vs) == 0 {
			fmt.Fprintln(os.Stderr, "machinery:", err)
			return 2
		}
	case "fault":
		if rf.Input.Fault == nil {
			fmt.Fprintln(os.Stderr, "machinery: fault replay without a fault")
			return 2
		}
		if err := evalFault(&rf.Input, false, &faultStats{}, func(v []violation, _ *caseInput) { vs = append(vs, v...) }); err != nil {
			fmt.Fprintln(os.Stderr, "machinery:", err)
			return 2
		}
	case "lidns":
		vs = checkLidNS([]mtypes.LeaseID{rf.Input.Lease, *rf.Input.Sibling})
	default:
		fmt.Fprintln(os.Stderr, "machinery: unknown path", rf.Input.Path)
		return 2
	}
	hit := false
	for _, v := range vs {
		fmt.Printf("replay: %s: %s\n", v.Sig, v.Detail)
		if v.Sig == rf.Signature {
			hit = true
		}
	}
	if hit {
		fmt.Printf("VIOLATION property=%s replay=%s (reproduced %s)\n", prop, path, rf.Signature)
		return 1
	}
	fmt.Printf("replay: %s not reproduced on this tree (%d other violations)\n", rf.Signature, len(vs))
	if len(vs) > 0 {
		return 1
	}
	return 0
}

// lidNS must be injective on the lease-id set and always a DNS-1123 label.
func checkLidNS(leases []mtypes.LeaseID) []violation {
	var out []violation
	seen := map[string]mtypes.LeaseID{}
	for _, l := range leases {
		n := kube.VerifLidNS(l)
		if !validDNS1123Label(n) {
			out = append(out, violation{"lidns:dns1123", fmt.Sprintf("lidNS(%s) = %q is not a DNS-1123 label", l, n)})
		}
		if prev, dup := seen[n]; dup && prev != l {
			out = append(out, violation{"lidns:collision", fmt.Sprintf("leases %s and %s share namespace %q", prev, l, n)})
		}
		seen[n] = l
	}
	return out
}

func run(tier string) int {
	start := time.Now()
	budget := 110 * time.Second
	if tier == "thorough" {
		budget = 750 * time.Second
	}
	if v := os.Getenv("VERIF_BUDGET_S"); v != "" { // debugging aid only
		var n int
		fmt.Sscan(v, &n)
		budget = time.Duration(n) * time.Second
	}
	deadline := start.Add(budget)
	seed := evlib.Seed()

	leases := genLeases()
	nBase := len(leases)
	leases = append(leases, genExtremeLeases()...)
	extreme := func(li int) bool { return li >= nBase }
	settings := genSettings(tier)
	groups := genGroups(tier)
	mustDistinct("lease", len(leases), func(i int) interface{} { return leases[i] })
	mustDistinct("settings", len(settings), func(i int) interface{} { return settings[i] })
	mustDistinct("group", len(groups), func(i int) interface{} { return groups[i] })
	L, S, G := len(leases), len(settings), len(groups)

	col := &collector{bySig: map[string]*found{}}
	var evalsA, evalsB, evalsN, dupBits, machErrs, deployErrs int64
	var stopped int32
	var firstMachErr atomic.Value

	// ---- lidNS over the id grid: every name a DNS-1123 label, no two ids share a name ----
	grid := genLidNSGrid()
	mustDistinct("lidns id", len(grid), func(i int) interface{} { return grid[i] })
	{
		seen := map[string]int{}
		for i, l := range grid {
			evalsN++
			n := kube.VerifLidNS(l)
			if j, dup := seen[n]; dup {
				sib := l
				col.add(checkLidNS([]mtypes.LeaseID{grid[j], l}), &caseInput{Path: "lidns", Lease: grid[j], Sibling: &sib})
			} else {
				seen[n] = i
			}
			if vs := checkLidNS([]mtypes.LeaseID{l}); len(vs) > 0 {
				sib := l
				col.add(vs, &caseInput{Path: "lidns", Lease: l, Sibling: &sib})
			}
		}
	}

	// ---- path (a): builders, full product L x G x S ----
	quickSettings := map[int]bool{}
	if tier == "thorough" {
		qs := genSettings("quick")
		idx := map[string]int{}
		for i, s := range settings {
			raw, _ := json.Marshal(s)
			idx[string(raw)] = i
		}
		for _, s := range qs {
			raw, _ := json.Marshal(s)
			if i, ok := idx[string(raw)]; ok {
				quickSettings[i] = true
			}
		}
	}
	// thorough: every lease x every group x the quick settings list, plus 4 leases (each owner x
	// provider at dseq 257, gseq 1, oseq 1) x every one-service group x ALL settings.
	fullLease := func(li int) bool {
		return tier != "thorough" || leases[li].DSeq == 257 && leases[li].GSeq == 1 && leases[li].OSeq == 1
	}
	pairLease := func(li int) bool { return leases[li].DSeq == 257 && leases[li].GSeq == leases[li].OSeq }
	include := func(l, g, s int) bool {
		if extreme(l) {
			// extreme ids: every group x the settings with network policies on and one commit level
			// for all resources (thorough: every setting of the quick list)
			st := settings[s]
			uniform := st.CPUCommitLevel == st.MemoryCommitLevel && st.MemoryCommitLevel == st.StorageCommitLevel
			if tier != "thorough" {
				return st.NetworkPoliciesEnabled && uniform
			}
			return quickSettings[s]
		}
		if tier != "thorough" {
			// quick: every lease x one-service groups, 8 leases x two-service groups
			return len(groups[g].Services) == 1 || pairLease(l)
		}
		if quickSettings[s] {
			return true
		}
		return fullLease(l) && len(groups[g].Services) == 1
	}
	ntA := newBitset(L * G * S)
	type itemA struct{ l, g int }
	chA := make(chan itemA, 1024)
	var wg sync.WaitGroup
	workers := runtime.NumCPU()
	if workers > 14 {
		workers = 14
	}
	var plannedA int64
	for l := 0; l < L; l++ {
		for g := 0; g < G; g++ {
			for s := 0; s < S; s++ {
				if include(l, g, s) {
					plannedA++
				}
			}
		}
	}
	for w := 0; w < workers; w++ {
		wg.Add(1)
		go func() {
			defer wg.Done()
			memo, memoU := &npMemo{}, &npMemo{}
			for it := range chA {
				if atomic.LoadInt32(&stopped) != 0 {
					continue
				}
				if time.Now().After(deadline) {
					atomic.StoreInt32(&stopped, 1)
					continue
				}
				foreign := foreignFor(leases, it.l)
				for s := 0; s < S; s++ {
					if !include(it.l, it.g, s) {
						continue
					}
					in := &caseInput{Path: "builders", Lease: leases[it.l], Foreign: foreign, Settings: settings[s], Group: groups[it.g], gkey: it.g + 1}
					vs, nt := evalBuilders(in, memo, memoU)
					atomic.AddInt64(&evalsA, 1)
					if nt {
						if ntA.set((it.l*G+it.g)*S + s) {
							atomic.AddInt64(&dupBits, 1)
						}
					}
					col.add(vs, in)
				}
			}
		}()
	}
	skipA := os.Getenv("VERIF_C11_ONLY") == "deploy" // debugging aid: evidence then says exhaustive=false
	for l := 0; l < L && !skipA; l++ {
		for g := 0; g < G; g++ {
			chA <- itemA{l, g}
		}
	}
	close(chA)
	wg.Wait()
	tA := time.Since(start)

	// ---- path (b): Deploy / update / sibling / teardown on fake API servers ----
	// settings subset: uniform commit levels only; group pairs (g, g') with g' at two fixed strides.
	var setB []int
	for i, s := range settings {
		if s.CPUCommitLevel == s.MemoryCommitLevel && s.MemoryCommitLevel == s.StorageCommitLevel {
			if (s.CPUCommitLevel == 1 || s.CPUCommitLevel == 1.5) && (s.DeploymentRuntimeClass == "" || tier == "thorough" && s.DeploymentRuntimeClass == "gvisor") {
				setB = append(setB, i)
			}
		}
	}
	var leaseB []int
	for i, l := range leases {
		if l.DSeq == 257 && l.GSeq == l.OSeq || extreme(i) && l.Owner == leases[0].Owner && (l.DSeq == dseqMax || l.DSeq == dseq1e17) {
			leaseB = append(leaseB, i)
		}
	}
	strides := []int{1, G/2 + 1}
	type itemB struct{ l, s, g, k int }
	chB := make(chan itemB, 1024)
	ntB := newBitset(L * S * G * len(strides))
	plannedB := int64(len(leaseB) * len(setB) * G * len(strides))
	for w := 0; w < workers; w++ {
		wg.Add(1)
		go func() {
			defer wg.Done()
			for it := range chB {
				if atomic.LoadInt32(&stopped) != 0 {
					continue
				}
				if time.Now().After(deadline) {
					atomic.StoreInt32(&stopped, 1)
					continue
				}
				g2 := groups[(it.g+strides[it.k])%G]
				sib := leases[(it.l+1+it.k*7)%L]
				in := &caseInput{Path: "deploy", Lease: leases[it.l], Sibling: &sib, Foreign: foreignFor(leases, it.l),
					Settings: settings[it.s], Group: groups[it.g], Group2: &g2}
				vs, nt, err := evalDeploy(in)
				if err != nil {
					// a failing Deploy is a machinery problem unless what it did before failing
					// already violates the property
					if len(vs) == 0 {
						if atomic.AddInt64(&machErrs, 1) == 1 {
							raw, _ := json.Marshal(in)
							firstMachErr.Store(err.Error() + " on " + string(raw))
						}
						continue
					}
					atomic.AddInt64(&deployErrs, 1)
				}
				atomic.AddInt64(&evalsB, 1)
				if nt {
					if ntB.set(((it.l*S+it.s)*G+it.g)*len(strides) + it.k) {
						atomic.AddInt64(&dupBits, 1)
					}
				}
				col.add(vs, in)
			}
		}()
	}
	for _, l := range leaseB {
		for _, s := range setB {
			for g := 0; g < G; g++ {
				for k := range strides {
					chB <- itemB{l, s, g, k}
				}
			}
		}
	}
	close(chB)
	wg.Wait()

	// ---- path (b'): update sequences across a provider restart that switches network policies ----
	// and ---- path (c): environment faults (see fault.go) ----
	find := func(np bool) int {
		for i, s := range settings {
			if s.NetworkPoliciesEnabled == np && s.CPUCommitLevel == 1.5 && s.MemoryCommitLevel == 1.5 && s.StorageCommitLevel == 1.5 &&
				s.DeploymentRuntimeClass == "" && s.DeploymentIngressDomain == "example.com" {
				return i
			}
		}
		return -1
	}
	sOn, sOff := find(true), find(false)
	if sOn < 0 || sOff < 0 {
		fmt.Fprintln(os.Stderr, "machinery: settings grammar lacks the (commit 1.5, static hosts) pair used by the toggle and fault paths")
		return 2
	}
	toggles := [][]int{{sOff, sOn}, {sOn, sOff}, {sOn, sOff, sOn}, {sOff, sOn, sOff}}
	leaseT := leaseB[:2]
	leaseF := []int{leaseB[0]}
	if tier == "thorough" {
		leaseF = append(leaseF, leaseB[len(leaseB)-1]) // an extreme id
	}
	faultSeqs := [][]int{{sOn, sOn}, {sOff, sOff}}
	if tier == "thorough" {
		faultSeqs = append(faultSeqs, []int{sOff, sOn}, []int{sOn, sOff})
	}
	type itemC struct {
		fault   bool
		l, g, v int
	}
	chC := make(chan itemC, 1024)
	var evalsT, ntT, plannedT, plannedF, doneF int64
	plannedT = int64(len(leaseT) * G * len(toggles))
	plannedF = int64(len(leaseF) * G * len(faultSeqs))
	fstats := &faultStats{}
	var fmu sync.Mutex
	for w := 0; w < workers; w++ {
		wg.Add(1)
		go func() {
			defer wg.Done()
			local := &faultStats{}
			defer func() { fmu.Lock(); fstats.merge(local); fmu.Unlock() }()
			for it := range chC {
				if atomic.LoadInt32(&stopped) != 0 {
					continue
				}
				if time.Now().After(deadline) {
					atomic.StoreInt32(&stopped, 1)
					continue
				}
				g2 := groups[(it.g+1)%G]
				g3 := groups[(it.g+strides[1])%G]
				if !it.fault {
					tg := toggles[it.v]
					sib := leases[(it.l+1)%L]
					in := &caseInput{Path: "deploy", Lease: leases[it.l], Sibling: &sib, Foreign: foreignFor(leases, it.l),
						Settings: settings[tg[0]], Group: groups[it.g], Group2: &g2, Settings2: &settings[tg[1]]}
					if len(tg) > 2 {
						in.Group3, in.Settings3 = &g3, &settings[tg[2]]
					}
					vs, nt, err := evalDeploy(in)
					if err != nil && len(vs) == 0 {
						if atomic.AddInt64(&machErrs, 1) == 1 {
							raw, _ := json.Marshal(in)
							firstMachErr.Store(err.Error() + " on " + string(raw))
						}
						continue
					}
					atomic.AddInt64(&evalsT, 1)
					if nt {
						atomic.AddInt64(&ntT, 1)
					}
					col.add(vs, in)
					continue
				}
				fs := faultSeqs[it.v]
				in := &caseInput{Path: "fault", Lease: leases[it.l], Foreign: foreignFor(leases, it.l),
					Settings: settings[fs[0]], Group: groups[it.g], Group2: &g2, Settings2: &settings[fs[1]]}
				reported := 0
				err := evalFault(in, tier == "thorough", local, func(vs []violation, c *caseInput) { reported += len(vs); col.add(vs, c) })
				if err != nil && reported > 0 {
					// the failing Deploy left a violation behind: that is the verdict, not a machinery problem
					atomic.AddInt64(&deployErrs, 1)
					atomic.AddInt64(&doneF, 1)
					continue
				}
				if err != nil {
					if atomic.AddInt64(&machErrs, 1) == 1 {
						raw, _ := json.Marshal(in)
						firstMachErr.Store(err.Error() + " on " + string(raw))
					}
					continue
				}
				atomic.AddInt64(&doneF, 1)
			}
		}()
	}
	for _, l := range leaseT {
		for g := 0; g < G; g++ {
			for v := range toggles {
				chC <- itemC{false, l, g, v}
			}
		}
	}
	for _, l := range leaseF {
		for g := 0; g < G; g++ {
			for v := range faultSeqs {
				chC <- itemC{true, l, g, v}
			}
		}
	}
	close(chC)
	wg.Wait()

	// Deploy/Teardown calls that failed WITHOUT leaving a violation are a machinery failure (exit 2) - but
	// only if the run found no violation at all: the oracles are evaluated first (see the end of run)
	if dupBits > 0 {
		fmt.Fprintf(os.Stderr, "machinery: %d inputs were generated twice\n", dupBits)
		return 2
	}

	exhaustive := machErrs == 0 && atomic.LoadInt32(&stopped) == 0 && evalsA == plannedA && evalsB == plannedB && evalsT == plannedT && doneF == plannedF
	evals := evalsA + evalsB + evalsN + evalsT + fstats.runs
	distinct := ntA.count() + ntB.count() + ntT + fstats.objectsAfter

	// ---- samples (VERIF_SEED only rotates which ones are printed) ----
	var samples []interface{}
	for k := 0; k < 3; k++ {
		i := int((seed*7919 + int64(k)*104729) % int64(L*G*S))
		if i < 0 {
			i = -i
		}
		s := i % S
		g := (i / S) % G
		l := (i / S / G) % L
		samples = append(samples, map[string]interface{}{"path": "builders", "lease": leases[l], "settings": settings[s], "group": groups[g]})
	}
	{
		i := int((seed*31 + 5) % int64(len(leaseB)*G))
		if i < 0 {
			i = -i
		}
		g := i % G
		l := leaseB[(i/G)%len(leaseB)]
		samples = append(samples, map[string]interface{}{"path": "deploy", "lease": leases[l], "sibling_lease": leases[(l+1)%L], "settings": settings[setB[0]],
			"group": groups[g], "group_after_update": groups[(g+strides[0])%G]})
	}

	// ---- verdicts ----
	known, err := evlib.LoadFindings()
	if err != nil {
		fmt.Fprintln(os.Stderr, "machinery: known_findings.json:", err)
		return 2
	}
	sigs := make([]string, 0, len(col.bySig))
	for s := range col.bySig {
		sigs = append(sigs, s)
	}
	sort.Strings(sigs)
	exit := 0
	nViol := 0
	n := 0
	var sigSummary []map[string]interface{}
	for _, s := range sigs {
		f := col.bySig[s]
		sigSummary = append(sigSummary, map[string]interface{}{"signature": s, "cases": f.count, "example": f.detail})
		if kf, ok := known.Known(prop, s); ok {
			fmt.Printf("KNOWN-FINDING: property=%s %s (%s) cases=%d\n", prop, s, kf.What, f.count)
			continue
		}
		n++
		nViol++
		p, err := writeReplay(n, replayFile{Property: prop, Tier: tier, Signature: s, Detail: f.detail, Input: f.input})
		if err != nil {
			fmt.Fprintln(os.Stderr, "machinery:", err)
			return 2
		}
		fmt.Printf("VIOLATION property=%s replay=%s signature=%s cases=%d :: %s\n", prop, p, s, f.count, f.detail)
		exit = 1
	}

	ev := evlib.Evidence{
		PropertyID: prop, Tier: tier, Seed: seed, Level: "exploration",
		Coverage: evlib.Coverage{
			Evaluations:        evals,
			DistinctNontrivial: distinct,
			Rule: "Inputs are enumerated by nested loops over finite lists (no randomness): " + describeGrammar(tier, L, S, G) +
				". Path builders = product leases x groups x settings" + map[string]string{"quick": " (two-service groups only for the 8 leases with dseq 257 and gseq=oseq; the 10 extreme ids x every group x the settings with network policies on and a uniform commit level)", "thorough": " restricted to the quick tier's settings list (extreme ids included), plus (4 leases: owners x providers at dseq 257,gseq 1,oseq 1) x one-service groups x ALL settings"}[tier] +
				", each evaluated through every builder's create() and update(); path deploy = leases' x uniform-commit settings' x groups x 2 successor groups, each run through client.Deploy, Deploy(changed manifest), Deploy(second lease), TeardownLease on client-go/akash fake clientsets; path toggle = 2 leases x groups x network-policy switch sequences {off->on, on->off, on->off->on, off->on->off} across provider restarts, each step a Deploy of the next manifest; path fault = (leases x groups x {policies on, policies off}" + map[string]string{"quick": "", "thorough": ", off->on, on->off; 2 leases"}[tier] + ") x update (g -> g') x EVERY API call position of Deploy#1 and of Deploy#2 x error kinds {internal; get: +forbidden; create: +already-exists; update: +conflict}" + map[string]string{"quick": "", "thorough": " and every ordered pair of positions (internal errors)"}[tier] + ": the call answers the error without effect, the oracle is evaluated on the API server content when Deploy returns (whatever it returns), then an undisturbed Deploy must heal the state completely; path lidns = lidNS over a 640-id grid (2 owners x 2 providers x dseq{1,11,12,111,256,257,65536,10^17,2^63,2^64-1} x gseq,oseq{1,2,12,2^32-1}): every name a DNS-1123 label, no two ids share one. " +
				"A case is counted non-trivial when the real code produced, besides Namespace and Deployments, at least one Service, Ingress or NetworkPolicy, or a container whose request is below its limit; distinctness is measured with a bitset over the input index space (list elements are verified pairwise distinct by hash at start-up).",
			Samples:    samples,
			Exhaustive: exhaustive,
			Extra: map[string]interface{}{
				"evaluations_builders":                           evalsA,
				"evaluations_deploy":                             evalsB,
				"evaluations_lidns_ids":                          evalsN,
				"planned_builders":                               plannedA,
				"planned_deploy":                                 plannedB,
				"nontrivial_builders":                            ntA.count(),
				"nontrivial_deploy":                              ntB.count(),
				"grammar":                                        map[string]int{"leases": L, "settings": S, "groups": G, "deploy_leases": len(leaseB), "deploy_settings": len(setB), "deploy_successors": len(strides)},
				"evaluations_toggle_sequences":                   evalsT,
				"planned_toggle_sequences":                       plannedT,
				"fault_samples":                                  fstats.samples,
				"fault_planned_samples":                          plannedF,
				"fault_call_positions":                           fstats.positions,
				"fault_injected_runs":                            fstats.runs,
				"fault_injected_pair_runs":                       fstats.pairRuns,
				"fault_runs_leaving_objects":                     fstats.objectsAfter,
				"fault_deploy_returned_nil_after_injected_error": fstats.nilAfterError,
				"fault_distinct_outcome_classes":                 len(fstats.outcomes),
				"fault_outcome_classes":                          fstats.outcomes,
				"violation_signatures":                           sigSummary,
				"wall_builders_s":                                tA.Seconds(),
				"workers":                                        workers,
				"stopped_by_internal_deadline":                   atomic.LoadInt32(&stopped) != 0,
			},
		},
		Assumptions: []string{
			"Kubernetes itself enforces the generated objects (security context, limits, NetworkPolicy); the NetworkPolicy verdict comes from a direct model of the documented semantics (netpol.go)",
			"client-go's fake object tracker stands in for the API server; DeleteCollection is added to it by the harness (label-selected delete)",
			"environment faults: one (thorough: two) failing API call per Deploy, answered without side effect (a call that takes effect and still reports an error is not modelled); on a state left by a disturbed Deploy completeness clauses are not demanded and objects may belong to the asked-for or the previous manifest",
			"lidNS(lease) as computed by the real code names the lease namespace; lidNS itself is judged by injectivity and DNS-1123 validity over the id set",
		},
		WallS:      time.Since(start).Seconds(),
		Violations: nViol,
	}
	if noEvidence() {
		// mutant runs must not overwrite the evidence of the real tree
	} else if err := evlib.Write(ev); err != nil {
		fmt.Fprintln(os.Stderr, "machinery: evidence:", err)
		return 2
	}
	fmt.Printf("C11 %s: toggle sequences %d/%d; fault samples %d/%d, call positions %d, injected runs %d (pairs %d), Deploy returned nil after an injected error %d, outcome classes %d\n",
		tier, evalsT, plannedT, doneF, plannedF, fstats.positions, fstats.runs, fstats.pairRuns, fstats.nilAfterError, len(fstats.outcomes))
	fmt.Printf("C11 %s: evaluations=%d (builders %d/%d, deploy %d/%d, lidns %d) distinct_nontrivial=%d exhaustive=%v signatures=%d wall=%.1fs\n",
		tier, evals, evalsA, plannedA, evalsB, plannedB, evalsN, distinct, exhaustive, len(sigs), time.Since(start).Seconds())
	if machErrs > 0 {
		// a Deploy/Teardown that fails without an injected fault and without leaving any violation behind
		msg := fmt.Sprintf("%d Deploy/Teardown calls failed on the fake API server without an injected fault and without a violation to report (unexplained-deploy-failure); first: %v", machErrs, firstMachErr.Load())
		if exit == 1 {
			fmt.Fprintln(os.Stderr, "note:", msg, "- the violations above are the verdict")
			return 1
		}
		fmt.Fprintln(os.Stderr, "machinery:", msg)
		return 2
	}
	return exit
}

var _ = manifest.Group{}
