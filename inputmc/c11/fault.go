package main

// Path (c): ENVIRONMENT FAULTS. For one sample (lease, settings, manifest group [, update]) the
// fault-free run fixes how many API calls every Deploy makes; then, for every call position k (and in
// thorough every pair of positions), the run is repeated on fresh fake API servers with call k answered
// by an API error, and the SAME oracle is evaluated on whatever the API server holds when Deploy
// returns - whatever Deploy returns. The oracle is state based: if pods may run (an apps/v1 Deployment
// exists in the lease namespace) and network policies are enabled, the namespace must carry policies
// that admit no more than the statement allows; namespace confinement, container security context,
// limits, selectors hold on partial states as they do on complete ones.
//
// Clauses NOT demanded of a state left by a disturbed Deploy, and why:
//   - deployment:count / namespace:missing (the object set is complete): an aborted Deploy is allowed
//     to be incomplete; the clause is about what exists, not about progress;
//   - "object belongs to the current manifest" (…:stale) and "limits == leased of the current
//     manifest": after an aborted UPDATE the API server legitimately still holds objects of the
//     previous manifest; every object must satisfy the clauses under the asked-for OR the previous
//     manifest (checkCtx.prev), and ports exposed globally by either manifest count as exposed.
// After every faulted run Deploy is called once more without faults (the cluster manager retries);
// the complete oracle must hold then.

import (
	"context"
	"errors"
	"fmt"
	"strings"
	"sync/atomic"

	kerrors "k8s.io/apimachinery/pkg/api/errors"
	"k8s.io/apimachinery/pkg/runtime"
	k8stesting "k8s.io/client-go/testing"

	"github.com/ovrclk/akash/manifest"
	akashfake "github.com/ovrclk/akash/pkg/client/clientset/versioned/fake"
	"github.com/ovrclk/akash/provider/cluster/kube"
	mtypes "github.com/ovrclk/akash/x/market/types"
	k8sfake "k8s.io/client-go/kubernetes/fake"
)

type faultSpec struct {
	Step  int    `json:"deploy_step"` // 1-based Deploy call of the sequence that is disturbed
	Call  int    `json:"api_call"`    // 1-based position among the API calls of that Deploy
	Kind  string `json:"error"`       // internal | forbidden | conflict | already-exists
	Call2 int    `json:"second_api_call,omitempty"`
	Kind2 string `json:"second_error,omitempty"`
	What  string `json:"api_call_was,omitempty"` // filled in by the run: verb resource
}

func faultKinds(verb string) []string {
	switch verb {
	case "get":
		return []string{"internal", "forbidden"}
	case "create":
		return []string{"internal", "already-exists"}
	case "update":
		return []string{"internal", "conflict"}
	}
	return []string{"internal"}
}

func faultError(kind string, a k8stesting.Action) error {
	gr := a.GetResource().GroupResource()
	switch kind {
	case "forbidden":
		return kerrors.NewForbidden(gr, "injected", errors.New("injected fault"))
	case "conflict":
		return kerrors.NewConflict(gr, "injected", errors.New("injected fault"))
	case "already-exists":
		return kerrors.NewAlreadyExists(gr, "injected")
	}
	return kerrors.NewInternalError(errors.New("injected fault"))
}

// injector counts the API calls of both clientsets and fails the chosen ones (without effect).
type injector struct {
	n      int32
	at     map[int32]string // call position -> error kind
	trace  []string         // verb resource of every call
	hit    []string
	record bool
}

func (j *injector) react(a k8stesting.Action) (bool, runtime.Object, error) {
	n := atomic.AddInt32(&j.n, 1)
	what := a.GetVerb() + " " + a.GetResource().Resource
	if j.record {
		j.trace = append(j.trace, what)
	}
	if kind, ok := j.at[n]; ok {
		j.hit = append(j.hit, fmt.Sprintf("#%d %s -> %s", n, what, kind))
		return true, nil, faultError(kind, a)
	}
	return false, nil, nil
}

type faultStats struct {
	samples, positions, runs, pairRuns int64
	nilAfterError                      int64 // Deploy returned nil although an injected error was answered
	objectsAfter                       int64 // runs that left at least one object on the API server
	outcomes                           map[string]int64
}

func (f *faultStats) merge(o *faultStats) {
	f.samples += o.samples
	f.positions += o.positions
	f.runs += o.runs
	f.pairRuns += o.pairRuns
	f.nilAfterError += o.nilAfterError
	f.objectsAfter += o.objectsAfter
	if f.outcomes == nil {
		f.outcomes = map[string]int64{}
	}
	for k, v := range o.outcomes {
		f.outcomes[k] += v
	}
}

// runFaulted executes the sequence with the given fault and judges the resulting state.
// It returns the violations, the call trace of the disturbed Deploy and whether Deploy returned nil.
func runFaulted(in *caseInput, f *faultSpec, stats *faultStats) ([]violation, []string, error) {
	ctx := context.Background()
	lid := in.Lease
	ns := kube.VerifLidNS(lid)
	steps := deploySteps(in)
	if f != nil && (f.Step < 1 || f.Step > len(steps)) {
		return nil, nil, machineryError{"fault names a Deploy step that does not exist"}
	}
	kc := newFakeKube()
	ac := akashfake.NewSimpleClientset()
	inj := &injector{}
	kc.PrependReactor("*", "*", inj.react)
	ac.PrependReactor("*", "*", inj.react)

	var out []violation
	var trace []string
	for i, sp := range steps {
		cl := kube.VerifNewClient(nopLog, "lease", sp.st, kc, ac)
		disturbed := f != nil && f.Step == i+1
		atomic.StoreInt32(&inj.n, 0)
		inj.at, inj.trace, inj.hit = nil, nil, nil
		inj.record = disturbed
		if disturbed {
			inj.at = map[int32]string{int32(f.Call): f.Kind}
			if f.Call2 > 0 {
				inj.at[int32(f.Call2)] = f.Kind2
			}
		}
		kc.ClearActions()
		derr := cl.Deploy(ctx, lid, sp.group)
		if !disturbed {
			if derr != nil {
				// an undisturbed Deploy that fails: first judge what it did, then report the failure
				return judgeFailedDeploy(fmt.Sprintf("undisturbed deploy#%d", i+1), lid, kc, derr), nil, machineryError{fmt.Sprintf("undisturbed Deploy#%d: %v", i+1, derr)}
			}
			continue
		}
		// ---- the disturbed Deploy has returned: judge the state, whatever it returned ----
		trace = inj.trace
		if len(inj.hit) == 0 || f.Call2 > 0 && len(inj.hit) < 2 {
			if derr != nil && len(inj.hit) == 0 {
				return judgeFailedDeploy(fmt.Sprintf("fault-free deploy#%d", i+1), lid, kc, derr), nil, machineryError{fmt.Sprintf("fault-free Deploy#%d: %v", i+1, derr)}
			}
			return nil, trace, nil // probe run, or the second position of a pair was not reached after the first fault
		}
		stage := fmt.Sprintf("fault[deploy#%d %s; Deploy returned %v]", i+1, strings.Join(inj.hit, ", "), derr)
		a := &checkCtx{lid: lid, ns: ns, stage: stage}
		auditActions(a, kc.Actions())
		out = append(out, a.out...)
		all, err := listAll(kc)
		if err != nil {
			return nil, nil, machineryError{err.Error()}
		}
		var prev *manifest.Group
		if i > 0 {
			prev = steps[i-1].group
		}
		// A provider restarted with network policies switched ON whose first Deploy is aborted before it
		// wrote any workload leaves the state the previous configuration produced; that state is judged
		// under the previous settings. As soon as the disturbed Deploy has written a workload under the
		// new settings, the new settings' demands apply.
		jst := sp.st
		if i > 0 && sp.st.NetworkPoliciesEnabled && !steps[i-1].st.NetworkPoliciesEnabled {
			wrote := false
			for _, act := range kc.Actions() {
				if act.GetResource().Resource == "deployments" && (act.GetVerb() == "create" || act.GetVerb() == "update") {
					wrote = true
				}
			}
			if !wrote {
				jst = steps[i-1].st
				stage += " [no workload written yet: judged under the previous settings]"
			}
		}
		vs, _ := judgeLeaseState(stage, jst, lid, sp.group, prev, all, in.Foreign, nil, false)
		out = append(out, relabelFault(vs, all[ns])...)
		out = append(out, objectsOutside(stage, all, ns)...)
		if stats != nil {
			stats.runs++
			if f.Call2 > 0 {
				stats.pairRuns++
			}
			if derr == nil {
				stats.nilAfterError++
			}
			o := all[ns]
			if objCount(o) > 0 {
				stats.objectsAfter++
			}
			nd, np := 0, 0
			if o != nil {
				nd, np = len(o.Deployments), len(o.NetPols)
			}
			key := fmt.Sprintf("deploy#%d %s | returned-nil=%v | deployments=%d netpols=%d | violations=%d", i+1, strings.Join(inj.hit, ", "), derr == nil, nd, np, len(out))
			if stats.outcomes == nil {
				stats.outcomes = map[string]int64{}
			}
			// the call position is dropped from the class so that classes stay few
			stats.outcomes[outcomeClass(key)]++
		}
		// ---- the cluster manager retries: an undisturbed Deploy of the same manifest must heal the state ----
		inj.at = nil
		kc.ClearActions()
		if rerr := cl.Deploy(ctx, lid, sp.group); rerr != nil {
			// a retry that cannot succeed on a state left by a fault is reported, not hidden
			out = append(out, violation{Sig: "fault:retry-fails", Detail: fmt.Sprintf("%s: the following undisturbed Deploy fails: %v", stage, rerr)})
		} else {
			if all, err = listAll(kc); err != nil {
				return nil, nil, machineryError{err.Error()}
			}
			rstage := stage + " then undisturbed Deploy"
			fresh := freshPolicies(kc.Actions())
			if i == 0 {
				fresh = nil
			}
			vs, _ := judgeLeaseState(rstage, sp.st, lid, sp.group, nil, all, in.Foreign, fresh, true)
			out = append(out, vs...)
			out = append(out, objectsOutside(rstage, all, ns)...)
		}
		return out, trace, nil
	}
	return out, trace, nil
}

// judgeFailedDeploy: a Deploy that fails although no fault was injected is judged on what it did
// (API calls and objects must stay inside the lease namespace) before the failure is reported.
func judgeFailedDeploy(stage string, lid mtypes.LeaseID, kc *k8sfake.Clientset, derr error) []violation {
	ns := kube.VerifLidNS(lid)
	a := &checkCtx{lid: lid, ns: ns, stage: stage + " (failed: " + derr.Error() + ")"}
	auditActions(a, kc.Actions())
	out := a.out
	if all, err := listAll(kc); err == nil {
		out = append(out, objectsOutside(a.stage, all, ns)...)
	}
	return out
}

func outcomeClass(key string) string {
	// "#12 create networkpolicies -> internal" -> "create networkpolicies -> internal"
	parts := strings.Split(key, "#")
	for i := 1; i < len(parts); i++ {
		if j := strings.Index(parts[i], " "); j >= 0 && (i > 1 || true) {
			head := parts[i][:j]
			digits := true
			for _, ch := range head {
				if ch < '0' || ch > '9' {
					digits = false
				}
			}
			if digits {
				parts[i] = parts[i][j+1:]
			}
		}
	}
	return strings.Join(parts, "")
}

// relabelFault: network-policy violations found on a state left by a disturbed Deploy get their own
// signature: pods may run although the namespace does not carry the policies.
func relabelFault(vs []violation, o *objects) []violation {
	for i := range vs {
		if !strings.HasPrefix(vs[i].Sig, "netpol:") {
			continue
		}
		hasDefault := false
		if o != nil {
			for _, p := range o.NetPols {
				if len(p.Spec.PodSelector.MatchLabels) == 0 && len(p.Spec.PodSelector.MatchExpressions) == 0 {
					hasDefault = true
				}
			}
		}
		if !hasDefault {
			vs[i].Detail += " [" + vs[i].Sig + "]"
			vs[i].Sig = "fault:workload-without-netpol"
		} else {
			vs[i].Sig = "fault:" + vs[i].Sig
		}
	}
	return vs
}

// evalFault enumerates every single fault (and, with pairs, every ordered pair of positions) for one
// sample; report is called once per faulted run that produced violations.
func evalFault(in *caseInput, pairs bool, stats *faultStats, report func([]violation, *caseInput)) error {
	if in.Fault != nil {
		vs, _, err := runFaulted(in, in.Fault, stats)
		if len(vs) > 0 || err == nil {
			report(vs, in)
		}
		return err
	}
	steps := deploySteps(in)
	stats.samples++
	for step := 1; step <= len(steps); step++ {
		// fault-free run up to and including this step fixes the call list of the step
		probe := &faultSpec{Step: step, Call: 1 << 30, Kind: "internal"}
		pvs, trace, err := runFaulted(in, probe, nil)
		if err != nil {
			if len(pvs) > 0 {
				c := *in
				c.Fault = probe
				report(pvs, &c)
			}
			return err
		}
		stats.positions += int64(len(trace))
		for k := 1; k <= len(trace); k++ {
			verb := strings.SplitN(trace[k-1], " ", 2)[0]
			for _, kind := range faultKinds(verb) {
				f := &faultSpec{Step: step, Call: k, Kind: kind, What: trace[k-1]}
				vs, tr2, err := runFaulted(in, f, stats)
				if err != nil {
					if len(vs) > 0 {
						c := *in
						c.Fault = f
						report(vs, &c)
					}
					return err
				}
				if len(vs) > 0 {
					c := *in
					c.Fault = f
					report(vs, &c)
				}
				if !pairs || kind != "internal" {
					continue
				}
				// second fault: every later position of THIS run (the first fault may have changed the call list)
				for k2 := k + 1; k2 <= len(tr2); k2++ {
					f2 := &faultSpec{Step: step, Call: k, Kind: kind, What: trace[k-1] + " & " + tr2[k2-1], Call2: k2, Kind2: "internal"}
					vs, _, err := runFaulted(in, f2, stats)
					if err != nil {
						if len(vs) > 0 {
							c := *in
							c.Fault = f2
							report(vs, &c)
						}
						return err
					}
					if len(vs) > 0 {
						c := *in
						c.Fault = f2
						report(vs, &c)
					}
				}
			}
		}
	}
	return nil
}
