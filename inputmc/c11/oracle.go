package main

// Reference oracle for C11, written from the property statement. It looks only at the Kubernetes
// objects handed to it (from the builders or from the fake API server), the lease id, the manifest
// group and the provider settings; it shares no code with provider/cluster/kube apart from asking the
// real lidNS() what the lease's namespace is called (lidNS itself is judged separately: injective
// and DNS-1123 valid over the whole lease-id set).

import (
	"fmt"
	"math/big"
	"net"
	"reflect"
	"sort"

	appsv1 "k8s.io/api/apps/v1"
	corev1 "k8s.io/api/core/v1"
	netv1 "k8s.io/api/networking/v1"
	apiequality "k8s.io/apimachinery/pkg/api/equality"
	"k8s.io/apimachinery/pkg/api/resource"
	"k8s.io/apimachinery/pkg/labels"

	"github.com/ovrclk/akash/manifest"
	"github.com/ovrclk/akash/provider/cluster/kube"
	mtypes "github.com/ovrclk/akash/x/market/types"
)

type violation struct {
	Sig    string `json:"signature"`
	Detail string `json:"detail"`
}

type objects struct {
	Namespaces  []*corev1.Namespace
	Deployments []*appsv1.Deployment
	Services    []*corev1.Service
	Ingresses   []*netv1.Ingress
	NetPols     []*netv1.NetworkPolicy
}

type checkCtx struct {
	lid   mtypes.LeaseID
	ns    string // lidNS(lid) as computed by the real code
	st    kube.Settings
	group *manifest.Group
	// prev: the manifest group that was deployed before an update whose Deploy did not complete (an
	// injected API error). The API server may then legitimately hold objects generated for either
	// manifest: an object passes if it satisfies the clauses under the asked-for group or under prev,
	// and ports exposed globally by either manifest count as exposed.
	prev     *manifest.Group
	strictNS bool // objects come from the API server: metadata.namespace must be set
	// foreign namespaces (other leases' namespace objects, built by the real nsBuilder) used as
	// traffic sources/destinations in the network-policy model
	foreign []*corev1.Namespace
	stage   string
	out     []violation
	gkey    int
	memo    *npMemo // optional: reuse the network-policy verdict when the very same objects were judged before
}

func (c *checkCtx) fail(sig, format string, a ...interface{}) {
	c.out = append(c.out, violation{Sig: sig, Detail: c.stage + ": " + fmt.Sprintf(format, a...)})
}

func validDNS1123Label(s string) bool {
	if len(s) == 0 || len(s) > 63 {
		return false
	}
	for i := 0; i < len(s); i++ {
		ch := s[i]
		alnum := (ch >= 'a' && ch <= 'z') || (ch >= '0' && ch <= '9')
		if !alnum && ch != '-' {
			return false
		}
		if (i == 0 || i == len(s)-1) && !alnum {
			return false
		}
	}
	return true
}

func (c *checkCtx) nsOK(kind, name, ns string) {
	if ns == c.ns {
		return
	}
	if ns == "" && !c.strictNS {
		return // builder output; the namespace is supplied by the apply call (checked via builder.NS() and on the fake API server)
	}
	c.fail(kind+":namespace", "%s %q is in namespace %q, lease namespace is %q", kind, name, ns, c.ns)
}

func (c *checkCtx) svc(name string) *manifest.Service {
	for i := range c.group.Services {
		if c.group.Services[i].Name == name {
			return &c.group.Services[i]
		}
	}
	return nil
}

func (c *checkCtx) checkNamespace(n *corev1.Namespace) {
	if n.Name != c.ns {
		c.fail("namespace:name", "namespace object named %q, want %q", n.Name, c.ns)
	}
	if !validDNS1123Label(n.Name) {
		c.fail("namespace:dns1123", "namespace name %q is not a DNS-1123 label", n.Name)
	}
	want := map[string]string{
		"akash.network/lease.id.owner":    c.lid.Owner,
		"akash.network/lease.id.provider": c.lid.Provider,
		"akash.network/lease.id.dseq":     fmt.Sprint(c.lid.DSeq),
		"akash.network/lease.id.gseq":     fmt.Sprint(c.lid.GSeq),
		"akash.network/lease.id.oseq":     fmt.Sprint(c.lid.OSeq),
	}
	for k, v := range want {
		if got, ok := n.Labels[k]; ok && got != v {
			c.fail("namespace:lease-labels", "namespace label %s=%q, lease says %q", k, got, v)
		}
	}
}

// quantity -> exact integer in the given scale (milli for cpu, unit for bytes)
func milli(q resource.Quantity) *big.Int { return big.NewInt(q.MilliValue()) }
func units(q resource.Quantity) *big.Int { return big.NewInt(q.Value()) }

func (c *checkCtx) checkOneResource(dname string, rn corev1.ResourceName, cont *corev1.Container, leased uint64, level float64, conv func(resource.Quantity) *big.Int) {
	lim, ok := cont.Resources.Limits[rn]
	if !ok {
		c.fail("container:limits-missing", "deployment %q container has no %s limit (leased %d)", dname, rn, leased)
		return
	}
	L := new(big.Int).SetUint64(leased)
	if conv(lim).Cmp(L) != 0 {
		c.fail("container:limits-ne-leased", "deployment %q %s limit %s != leased %d", dname, rn, lim.String(), leased)
	}
	req, ok := cont.Resources.Requests[rn]
	if !ok {
		// kubernetes defaults a missing request to the limit: allowed by the statement
		return
	}
	r := conv(req)
	if r.Sign() <= 0 {
		c.fail("container:request-not-positive", "deployment %q %s request %s", dname, rn, req.String())
	}
	if r.Cmp(conv(lim)) > 0 {
		c.fail("container:request-gt-limit", "deployment %q %s request %s > limit %s", dname, rn, req.String(), lim.String())
	}
	// requests = leased / commit level (rounded, never zero); tolerate one unit of rounding slack
	var want float64
	if level <= 1 {
		want = float64(leased)
	} else {
		want = float64(leased) / level
	}
	got := float64(r.Int64())
	slack := 1.0 + want*1e-9
	if got < want-slack || got > want+slack {
		if !(want < 1 && got == 1) {
			c.fail("container:request-ne-committed", "deployment %q %s request %s, leased %d / level %v = %v", dname, rn, req.String(), leased, level, want)
		}
	}
}

func (c *checkCtx) checkDeployment(d *appsv1.Deployment, checkRuntimeClass bool) {
	c.nsOK("deployment", d.Name, d.Namespace)
	svc := c.svc(d.Name)
	if svc == nil {
		c.fail("deployment:stale", "deployment %q does not belong to any service of the current manifest group", d.Name)
		return
	}
	ps := d.Spec.Template.Spec
	if ps.AutomountServiceAccountToken == nil || *ps.AutomountServiceAccountToken {
		c.fail("pod:automount-token", "deployment %q: automountServiceAccountToken is not false", d.Name)
	}
	if ps.HostNetwork || ps.HostPID || ps.HostIPC {
		c.fail("pod:host-namespaces", "deployment %q shares host namespaces", d.Name)
	}
	for _, v := range ps.Volumes {
		if v.HostPath != nil {
			c.fail("pod:hostpath", "deployment %q mounts hostPath %q", d.Name, v.HostPath.Path)
		}
	}
	if ps.ServiceAccountName != "" && ps.ServiceAccountName != "default" {
		c.fail("pod:service-account", "deployment %q runs as service account %q", d.Name, ps.ServiceAccountName)
	}
	if checkRuntimeClass {
		want := c.st.DeploymentRuntimeClass
		if want == "none" {
			want = ""
		}
		got := ""
		if ps.RuntimeClassName != nil {
			got = *ps.RuntimeClassName
		}
		if got != want {
			c.fail("pod:runtime-class", "deployment %q runtime class %q, configured %q", d.Name, got, c.st.DeploymentRuntimeClass)
		}
	}
	if len(ps.Containers) == 0 {
		c.fail("pod:no-container", "deployment %q has no containers", d.Name)
	}
	all := append(append([]corev1.Container{}, ps.Containers...), ps.InitContainers...)
	for i := range all {
		ct := &all[i]
		sc := ct.SecurityContext
		if sc == nil {
			c.fail("container:no-security-context", "deployment %q container %q has no security context (escalation defaults to allowed)", d.Name, ct.Name)
		} else {
			if sc.Privileged != nil && *sc.Privileged {
				c.fail("container:privileged", "deployment %q container %q is privileged", d.Name, ct.Name)
			}
			if sc.AllowPrivilegeEscalation == nil || *sc.AllowPrivilegeEscalation {
				c.fail("container:privilege-escalation", "deployment %q container %q may escalate privileges", d.Name, ct.Name)
			}
			if sc.Capabilities != nil && len(sc.Capabilities.Add) > 0 {
				c.fail("container:capabilities", "deployment %q container %q adds capabilities %v", d.Name, ct.Name, sc.Capabilities.Add)
			}
		}
		ru := svc.Resources
		if ru.CPU != nil {
			c.checkOneResource(d.Name, corev1.ResourceCPU, ct, ru.CPU.Units.Value(), c.st.CPUCommitLevel, milli)
		}
		if ru.Memory != nil {
			c.checkOneResource(d.Name, corev1.ResourceMemory, ct, ru.Memory.Quantity.Value(), c.st.MemoryCommitLevel, units)
		}
		if ru.Storage != nil {
			c.checkOneResource(d.Name, corev1.ResourceEphemeralStorage, ct, ru.Storage.Quantity.Value(), c.st.StorageCommitLevel, units)
		}
		for rn := range ct.Resources.Limits {
			if rn != corev1.ResourceCPU && rn != corev1.ResourceMemory && rn != corev1.ResourceEphemeralStorage {
				c.fail("container:limits-extra", "deployment %q has a limit for unleased resource %s", d.Name, rn)
			}
		}
	}
	// selector selects exactly this service's pods: it must match its own template and no other
	// service's template in this namespace
	if d.Spec.Selector == nil || (len(d.Spec.Selector.MatchLabels) == 0 && len(d.Spec.Selector.MatchExpressions) == 0) {
		c.fail("deployment:selector-empty", "deployment %q has an empty selector", d.Name)
	} else if ok, err := selMatches(d.Spec.Selector, d.Spec.Template.Labels); err != nil || !ok {
		c.fail("deployment:selector-mismatch", "deployment %q selector does not match its own pod template (%v)", d.Name, err)
	}
}

// template labels of every deployment in the lease namespace, by service name
func podLabelsOf(ds []*appsv1.Deployment) map[string]map[string]string {
	m := map[string]map[string]string{}
	for _, d := range ds {
		m[d.Name] = d.Spec.Template.Labels
	}
	return m
}

func (c *checkCtx) checkSelectsOnly(kind, name, owner string, sel map[string]string, pods map[string]map[string]string) {
	if len(sel) == 0 {
		c.fail(kind+":selector-empty", "%s %q selects every pod", kind, name)
		return
	}
	s := labels.SelectorFromSet(labels.Set(sel))
	for svcName, pl := range pods {
		m := s.Matches(labels.Set(pl))
		if svcName == owner && !m {
			c.fail(kind+":selector-mismatch", "%s %q does not select the pods of its own service %q", kind, name, owner)
		}
		if svcName != owner && m {
			c.fail(kind+":selector-too-wide", "%s %q of service %q also selects pods of service %q", kind, name, owner, svcName)
		}
	}
}

func trimNP(n string) string {
	if len(n) > 3 && n[len(n)-3:] == "-np" {
		return n[:len(n)-3]
	}
	return n
}

func (c *checkCtx) checkService(s *corev1.Service, pods map[string]map[string]string) {
	c.nsOK("service", s.Name, s.Namespace)
	owner := s.Name
	if c.svc(owner) == nil {
		owner = trimNP(s.Name)
	}
	if c.svc(owner) == nil {
		c.fail("service:stale", "service %q does not belong to any service of the current manifest group", s.Name)
		return
	}
	if s.Spec.Type == corev1.ServiceTypeExternalName {
		c.fail("service:external-name", "service %q is an ExternalName alias to %q", s.Name, s.Spec.ExternalName)
	}
	c.checkSelectsOnly("service", s.Name, owner, s.Spec.Selector, pods)
}

func (c *checkCtx) checkIngress(in *netv1.Ingress) {
	c.nsOK("ingress", in.Name, in.Namespace)
	if c.svc(in.Name) == nil {
		c.fail("ingress:stale", "ingress %q does not belong to any service of the current manifest group", in.Name)
		return
	}
	for _, r := range in.Spec.Rules {
		if r.HTTP == nil {
			continue
		}
		for _, p := range r.HTTP.Paths {
			if p.Backend.Service == nil || c.svc(p.Backend.Service.Name) == nil {
				c.fail("ingress:backend", "ingress %q routes to a backend outside the lease's services", in.Name)
			}
		}
	}
}

// ---- network policies ----

type protoPort struct {
	proto corev1.Protocol
	port  int32
}

func (c *checkCtx) checkNetPols(nsObj *corev1.Namespace, pols []*netv1.NetworkPolicy, pods map[string]map[string]string) {
	for _, p := range pols {
		c.nsOK("netpol", p.Name, p.Namespace)
	}
	if !c.st.NetworkPoliciesEnabled {
		return
	}
	if m := c.memo; m != nil {
		if m.valid && c.gkey != 0 && m.gkey == c.gkey && m.lid == c.lid && reflect.DeepEqual(m.nsl, nsObj.Labels) &&
			reflect.DeepEqual(m.pods, pods) && apiequality.Semantic.DeepEqual(m.pols, pols) {
			c.out = append(c.out, m.viols...)
			return
		}
		start := len(c.out)
		defer func() {
			m.valid, m.gkey, m.lid, m.nsl, m.pods, m.pols = true, c.gkey, c.lid, nsObj.Labels, pods, pols
			m.viols = append([]violation(nil), c.out[start:]...)
		}()
	}
	// work on policies as the API server would hold them
	var eff []*netv1.NetworkPolicy
	for _, p := range pols {
		q := p
		if q.Namespace == "" {
			q = p.DeepCopy()
			q.Namespace = c.ns
		}
		eff = append(eff, q)
	}
	own := &nsInfo{Name: c.ns, Labels: nsObj.Labels}
	ingressNS := &nsInfo{Name: "ingress-nginx", Labels: map[string]string{"app.kubernetes.io/name": "ingress-nginx", "kubernetes.io/metadata.name": "ingress-nginx"}}
	kubeSystem := &nsInfo{Name: "kube-system", Labels: map[string]string{"kubernetes.io/metadata.name": "kube-system"}}
	provNS := &nsInfo{Name: "lease", Labels: map[string]string{"akash.network": "true"}}
	defaultNS := &nsInfo{Name: "default", Labels: map[string]string{}}

	type src struct {
		party
		class string // "same", "controller", "dontcare", "outside"
	}
	var others []src
	others = append(others,
		src{party{Desc: "pod in the lease namespace", NS: own, Labels: map[string]string{"akash.network": "true", "akash.network/namespace": c.ns, "akash.network/manifest-service": "zz"}, IP: net.IPv4(10, 42, 2, 2)}, "same"},
		src{party{Desc: "ingress controller pod", NS: ingressNS, Labels: map[string]string{"app.kubernetes.io/name": "ingress-nginx"}, IP: net.IPv4(10, 42, 0, 9)}, "controller"},
		src{party{Desc: "other pod in the ingress controller namespace", NS: ingressNS, Labels: map[string]string{"app": "debug"}, IP: net.IPv4(10, 42, 0, 10)}, "dontcare"},
		src{party{Desc: "pod labelled like the ingress controller in the default namespace", NS: defaultNS, Labels: map[string]string{"app.kubernetes.io/name": "ingress-nginx"}, IP: net.IPv4(10, 42, 0, 11)}, "outside"},
		src{party{Desc: "kube-system pod", NS: kubeSystem, Labels: map[string]string{"k8s-app": "kube-dns"}, IP: net.IPv4(10, 42, 0, 2)}, "outside"},
		src{party{Desc: "pod in the provider's own namespace", NS: provNS, Labels: map[string]string{"akash.network": "true"}, IP: net.IPv4(10, 42, 0, 3)}, "outside"},
		src{party{Desc: "internet host", IP: net.IPv4(8, 8, 8, 8)}, "outside"},
		src{party{Desc: "host on the node network", IP: net.IPv4(192, 168, 1, 10)}, "outside"},
	)
	for i, f := range c.foreign {
		for svcName := range pods {
			l := map[string]string{"akash.network": "true", "akash.network/namespace": f.Name, "akash.network/manifest-service": svcName}
			others = append(others, src{party{Desc: fmt.Sprintf("pod of another lease (ns %s)", f.Name), NS: &nsInfo{Name: f.Name, Labels: f.Labels}, Labels: l, IP: net.IPv4(10, 42, 3, byte(10+i))}, "outside"})
			break
		}
	}

	// port universe
	seen := map[protoPort]bool{}
	var ports []protoPort
	add := func(pr corev1.Protocol, p int32) {
		k := protoPort{pr, p}
		if !seen[k] {
			seen[k] = true
			ports = append(ports, k)
		}
	}
	for _, s := range c.group.Services {
		for _, e := range s.Expose {
			for _, pr := range []corev1.Protocol{corev1.ProtocolTCP, corev1.ProtocolUDP} {
				add(pr, int32(e.Port))
				if e.ExternalPort != 0 {
					add(pr, int32(e.ExternalPort))
				}
			}
		}
	}
	for _, p := range []int32{22, 53, 80, 443, 8080, 10250} {
		add(corev1.ProtocolTCP, p)
		add(corev1.ProtocolUDP, p)
	}

	names := make([]string, 0, len(pods))
	for n := range pods {
		names = append(names, n)
	}
	sort.Strings(names)
	for _, svcName := range names {
		pl := pods[svcName]
		var exposes []manifest.ServiceExpose
		if svc := c.svc(svcName); svc != nil {
			exposes = append(exposes, svc.Expose...)
		}
		if c.prev != nil {
			for i := range c.prev.Services {
				if c.prev.Services[i].Name == svcName {
					exposes = append(exposes, c.prev.Services[i].Expose...)
				}
			}
		} else if c.svc(svcName) == nil {
			continue
		}
		global := map[protoPort]bool{}
		for _, e := range exposes {
			if !e.Global {
				continue
			}
			pr := corev1.ProtocolTCP
			if e.Proto == manifest.UDP {
				pr = corev1.ProtocolUDP
			}
			global[protoPort{pr, int32(e.Port)}] = true
			if e.ExternalPort != 0 {
				global[protoPort{pr, int32(e.ExternalPort)}] = true
			}
		}
		// ingress
		for _, o := range others {
			if o.class != "outside" {
				continue
			}
			for _, pp := range ports {
				ok, err := admitted(eff, c.ns, pl, netv1.PolicyTypeIngress, o.party, pp.proto, pp.port)
				if err != nil {
					c.fail("netpol:unmodelled", "%v", err)
					return
				}
				if ok && !global[pp] {
					c.fail("netpol:ingress-from-outside", "pods of service %q admit %s/%d from %s; the port is not exposed globally", svcName, pp.proto, pp.port, o.Desc)
					break
				}
			}
		}
		// egress
		var dests []party
		for _, o := range others {
			if o.class == "same" {
				continue
			}
			dests = append(dests, o.party)
		}
		for _, ip := range []net.IP{
			net.IPv4(10, 0, 0, 1), net.IPv4(10, 96, 0, 1), net.IPv4(10, 255, 255, 254),
			net.IPv4(172, 16, 0, 1), net.IPv4(172, 20, 3, 4), net.IPv4(172, 31, 255, 254),
			net.IPv4(192, 168, 0, 1), net.IPv4(192, 168, 255, 254),
		} {
			dests = append(dests, party{Desc: "address " + ip.String(), IP: ip})
		}
		for _, d := range dests {
			if d.IP == nil || !isPrivate(d.IP) {
				continue
			}
			for _, pp := range []protoPort{{corev1.ProtocolTCP, 443}, {corev1.ProtocolTCP, 80}, {corev1.ProtocolUDP, 4000}, {corev1.ProtocolTCP, 6443}, {corev1.ProtocolTCP, 10250}, {corev1.ProtocolUDP, 53}} {
				ok, err := admitted(eff, c.ns, pl, netv1.PolicyTypeEgress, d, pp.proto, pp.port)
				if err != nil {
					c.fail("netpol:unmodelled", "%v", err)
					return
				}
				if ok && pp.port != 53 {
					c.fail("netpol:egress-to-private", "pods of service %q may send %s/%d to %s (%s), a private address outside the lease namespace", svcName, pp.proto, pp.port, d.Desc, d.IP)
					break
				}
			}
		}
	}
}

// either judges one object under the asked-for group and, when that fails and a previous group is
// known (partial update), under the previous group; the object passes if one of them has no complaint.
func (c *checkCtx) either(f func(*checkCtx)) {
	a := *c
	a.out, a.memo = nil, nil
	f(&a)
	if len(a.out) == 0 {
		return
	}
	if c.prev != nil {
		b := *c
		b.out, b.memo, b.group = nil, nil, c.prev
		f(&b)
		if len(b.out) == 0 {
			return
		}
	}
	c.out = append(c.out, a.out...)
}

// checkAll runs every clause on one object set.
func (c *checkCtx) checkAll(o *objects, checkRuntimeClass bool) {
	var nsObj *corev1.Namespace
	for _, n := range o.Namespaces {
		c.checkNamespace(n)
		nsObj = n
	}
	pods := podLabelsOf(o.Deployments)
	for _, d := range o.Deployments {
		d := d
		c.either(func(x *checkCtx) { x.checkDeployment(d, checkRuntimeClass) })
	}
	for _, s := range o.Services {
		s := s
		c.either(func(x *checkCtx) { x.checkService(s, pods) })
	}
	for _, in := range o.Ingresses {
		in := in
		c.either(func(x *checkCtx) { x.checkIngress(in) })
	}
	if nsObj != nil {
		c.checkNetPols(nsObj, o.NetPols, pods)
	}
}
