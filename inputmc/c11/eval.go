package main

// Running the REAL code of provider/cluster/kube on one input and handing the produced objects to
// the oracle. Path (a): builders' create()/update(). Path (b): client.Deploy()/TeardownLease() on
// fake API servers.

import (
	"context"
	"fmt"
	"reflect"
	"strings"

	"github.com/tendermint/tendermint/libs/log"
	appsv1 "k8s.io/api/apps/v1"
	corev1 "k8s.io/api/core/v1"
	netv1 "k8s.io/api/networking/v1"
	"k8s.io/apimachinery/pkg/api/meta"
	metav1 "k8s.io/apimachinery/pkg/apis/meta/v1"
	"k8s.io/apimachinery/pkg/runtime"
	"k8s.io/apimachinery/pkg/runtime/schema"
	k8sfake "k8s.io/client-go/kubernetes/fake"
	k8stesting "k8s.io/client-go/testing"

	"github.com/ovrclk/akash/manifest"
	akashfake "github.com/ovrclk/akash/pkg/client/clientset/versioned/fake"
	"github.com/ovrclk/akash/provider/cluster/kube"
	atypes "github.com/ovrclk/akash/types"
	mtypes "github.com/ovrclk/akash/x/market/types"
)

var nopLog = log.NewNopLogger()

type caseInput struct {
	Path     string           `json:"path"` // "builders" | "deploy"
	Lease    mtypes.LeaseID   `json:"lease"`
	Sibling  *mtypes.LeaseID  `json:"sibling_lease,omitempty"`
	Foreign  []mtypes.LeaseID `json:"foreign_leases,omitempty"`
	Settings kube.Settings    `json:"settings"`
	Group    manifest.Group   `json:"group"`
	Group2   *manifest.Group  `json:"group_after_update,omitempty"`
	// optional continuation of the update sequence; settings change = provider restarted with a new
	// configuration (e.g. network policies switched on or off) between two Deploy calls
	Settings2 *kube.Settings  `json:"settings_after_update,omitempty"`
	Group3    *manifest.Group `json:"group_third,omitempty"`
	Settings3 *kube.Settings  `json:"settings_third,omitempty"`
	// path "fault": which API call of which Deploy answers with which error (nil = enumerate all)
	Fault *faultSpec `json:"fault,omitempty"`
	gkey  int        // driver's group index + 1 (0 = unknown): lets the verdict memo recognise the same group
}

func foreignNamespaces(st kube.Settings, ls []mtypes.LeaseID, g *manifest.Group) []*corev1.Namespace {
	var out []*corev1.Namespace
	for _, l := range ls {
		n, err := kube.VerifNewNS(st, l, g).Create()
		if err == nil && n != nil {
			out = append(out, n)
		}
	}
	return out
}

// a different shape of the same service: what the API server may still hold from an earlier manifest
func alternateService(s manifest.Service) manifest.Service {
	a := s
	a.Count = s.Count + 3
	a.Env = []string{"OLD=1"}
	a.Expose = []manifest.ServiceExpose{{Port: 9999, Proto: manifest.TCP, Global: true}, {Port: 80, Proto: manifest.TCP, Global: true}}
	a.Resources = atypes.ResourceUnits{
		CPU:     &atypes.CPU{Units: atypes.NewResourceValue(s.Resources.CPU.Units.Value()*3 + 7)},
		Memory:  &atypes.Memory{Quantity: atypes.NewResourceValue(s.Resources.Memory.Quantity.Value()*5 + 11)},
		Storage: &atypes.Storage{Quantity: atypes.NewResourceValue(s.Resources.Storage.Quantity.Value()*2 + 13)},
	}
	return a
}

var garbage = map[string]string{"akash.network/namespace": "someone-else", "akash.network/manifest-service": "other", "stale": "yes"}

func cp(m map[string]string) map[string]string {
	o := map[string]string{}
	for k, v := range m {
		o[k] = v
	}
	return o
}

type npMemo struct {
	valid bool
	gkey  int
	lid   mtypes.LeaseID
	pols  []*netv1.NetworkPolicy
	nsl   map[string]string
	pods  map[string]map[string]string
	viols []violation
}

// evalBuilders: path (a). Returns violations and whether the case is non-trivial by the evidence rule.
func evalBuilders(in *caseInput, memo, memoU *npMemo) ([]violation, bool) {
	lid, st, g := in.Lease, in.Settings, &in.Group
	ns := kube.VerifLidNS(lid)
	c := &checkCtx{lid: lid, ns: ns, st: st, group: g, gkey: in.gkey, stage: "builders/create"}
	c.foreign = foreignNamespaces(st, in.Foreign, g)
	u := &checkCtx{lid: lid, ns: ns, st: st, group: g, gkey: in.gkey, stage: "builders/update", foreign: c.foreign}

	var created, updated objects
	bns := func(kind, name, got string) {
		if got != ns {
			c.fail(kind+":builder-namespace", "%s builder for %q applies into namespace %q, lease namespace is %q", kind, name, got, ns)
		}
	}

	nb := kube.VerifNewNS(st, lid, g)
	bns("namespace", nb.Name(), nb.NS())
	if nb.Name() != ns {
		c.fail("namespace:name", "namespace builder name %q != %q", nb.Name(), ns)
	}
	if o, err := nb.Create(); err == nil && o != nil {
		created.Namespaces = append(created.Namespaces, o)
	}
	if o, err := nb.Update(&corev1.Namespace{ObjectMeta: metav1.ObjectMeta{Name: "stale-name", Labels: cp(garbage)}}); err == nil && o != nil {
		updated.Namespaces = append(updated.Namespaces, o)
	}

	pb := kube.VerifNewNetPol(st, lid, g)
	bns("netpol", "*", pb.NS())
	if pols, err := pb.Create(); err == nil {
		created.NetPols = pols
		// applyNetPolicies sends the freshly created policy on update too; update() only relabels
		for _, p := range pols {
			q := p.DeepCopy()
			q.Labels = cp(garbage)
			if o, err := pb.Update(q); err == nil && o != nil {
				updated.NetPols = append(updated.NetPols, o)
			}
		}
	}

	for i := range g.Services {
		svc := &g.Services[i]
		db := kube.VerifNewDeployment(nopLog, st, lid, g, svc)
		bns("deployment", db.Name(), db.NS())
		if o, err := db.Create(); err == nil && o != nil {
			created.Deployments = append(created.Deployments, o)
		}
		alt := alternateService(*svc)
		if prior, err := kube.VerifNewDeployment(nopLog, st, lid, g, &alt).Create(); err == nil && prior != nil {
			prior.Namespace = ns
			prior.Labels = cp(garbage)
			if o, err := db.Update(prior); err == nil && o != nil {
				updated.Deployments = append(updated.Deployments, o)
			}
		}
		for _, np := range []bool{false, true} {
			sb := kube.VerifNewService(nopLog, st, lid, g, svc, np)
			bns("service", sb.Name(), sb.NS())
			if !sb.Any() {
				continue
			}
			o, err := sb.Create()
			if err != nil || o == nil {
				continue
			}
			created.Services = append(created.Services, o)
			prior := o.DeepCopy()
			prior.Namespace = ns
			prior.Labels = cp(garbage)
			prior.Spec.Selector = cp(garbage)
			for j := range prior.Spec.Ports {
				prior.Spec.Ports[j].NodePort = 31000 + int32(j)
			}
			if o2, err := sb.Update(prior); err == nil && o2 != nil {
				updated.Services = append(updated.Services, o2)
			}
		}
		for j := range svc.Expose {
			ib := kube.VerifNewIngress(nopLog, st, lid, g, svc, &svc.Expose[j])
			bns("ingress", ib.Name(), ib.NS())
			if o, err := ib.Create(); err == nil && o != nil {
				created.Ingresses = append(created.Ingresses, o)
				prior := o.DeepCopy()
				prior.Namespace = ns
				prior.Labels = cp(garbage)
				prior.Spec.Rules = nil
				if o2, err := ib.Update(prior); err == nil && o2 != nil {
					updated.Ingresses = append(updated.Ingresses, o2)
				}
			}
		}
	}

	c.memo = memo
	u.memo = memoU
	c.checkAll(&created, true)
	u.checkAll(&updated, true)

	nontrivial := len(created.Services)+len(created.Ingresses)+len(created.NetPols) > 0
	if !nontrivial {
		for _, d := range created.Deployments {
			for _, ct := range d.Spec.Template.Spec.Containers {
				for rn, lim := range ct.Resources.Limits {
					if req, ok := ct.Resources.Requests[rn]; ok && req.Cmp(lim) < 0 {
						nontrivial = true
					}
				}
			}
		}
	}
	return append(c.out, u.out...), nontrivial
}

// ---- path (b): fake API servers ----

var gvkOf = map[string]schema.GroupVersionKind{
	"deployments": {Group: "apps", Version: "v1", Kind: "Deployment"},
	"ingresses":   {Group: "networking.k8s.io", Version: "v1", Kind: "Ingress"},
	"services":    {Group: "", Version: "v1", Kind: "Service"},
}

// newFakeKube returns a client-go fake clientset whose object tracker additionally implements
// DeleteCollection (label-selected delete), which client-go's stock ObjectReaction leaves out and
// cleanupStaleResources relies on.
func newFakeKube() *k8sfake.Clientset {
	kc := k8sfake.NewSimpleClientset()
	tr := kc.Tracker()
	kc.PrependReactor("delete-collection", "*", func(a k8stesting.Action) (bool, runtime.Object, error) {
		da, ok := a.(k8stesting.DeleteCollectionAction)
		if !ok {
			return false, nil, nil
		}
		gvr := a.GetResource()
		gvk, ok := gvkOf[gvr.Resource]
		if !ok {
			return true, nil, fmt.Errorf("verif fake: delete-collection of %s not modelled", gvr.Resource)
		}
		list, err := tr.List(gvr, gvk, a.GetNamespace())
		if err != nil {
			return true, nil, err
		}
		items, err := meta.ExtractList(list)
		if err != nil {
			return true, nil, err
		}
		sel := da.GetListRestrictions().Labels
		for _, it := range items {
			acc, err := meta.Accessor(it)
			if err != nil {
				return true, nil, err
			}
			if sel == nil || sel.Matches(labelSet(acc.GetLabels())) {
				if err := tr.Delete(gvr, acc.GetNamespace(), acc.GetName()); err != nil {
					return true, nil, err
				}
			}
		}
		return true, nil, nil
	})
	return kc
}

type labelSet map[string]string

func (l labelSet) Has(k string) bool   { _, ok := l[k]; return ok }
func (l labelSet) Get(k string) string { return l[k] }

func listAll(kc *k8sfake.Clientset) (map[string]*objects, error) {
	ctx := context.Background()
	by := map[string]*objects{}
	get := func(ns string) *objects {
		if by[ns] == nil {
			by[ns] = &objects{}
		}
		return by[ns]
	}
	nss, err := kc.CoreV1().Namespaces().List(ctx, metav1.ListOptions{})
	if err != nil {
		return nil, err
	}
	for i := range nss.Items {
		o := get(nss.Items[i].Name)
		o.Namespaces = append(o.Namespaces, &nss.Items[i])
	}
	ds, err := kc.AppsV1().Deployments(metav1.NamespaceAll).List(ctx, metav1.ListOptions{})
	if err != nil {
		return nil, err
	}
	for i := range ds.Items {
		o := get(ds.Items[i].Namespace)
		o.Deployments = append(o.Deployments, &ds.Items[i])
	}
	ss, err := kc.CoreV1().Services(metav1.NamespaceAll).List(ctx, metav1.ListOptions{})
	if err != nil {
		return nil, err
	}
	for i := range ss.Items {
		o := get(ss.Items[i].Namespace)
		o.Services = append(o.Services, &ss.Items[i])
	}
	is, err := kc.NetworkingV1().Ingresses(metav1.NamespaceAll).List(ctx, metav1.ListOptions{})
	if err != nil {
		return nil, err
	}
	for i := range is.Items {
		o := get(is.Items[i].Namespace)
		o.Ingresses = append(o.Ingresses, &is.Items[i])
	}
	ps, err := kc.NetworkingV1().NetworkPolicies(metav1.NamespaceAll).List(ctx, metav1.ListOptions{})
	if err != nil {
		return nil, err
	}
	for i := range ps.Items {
		o := get(ps.Items[i].Namespace)
		o.NetPols = append(o.NetPols, &ps.Items[i])
	}
	return by, nil
}

// every API call Deploy made must address the lease namespace (or the Namespace object itself)
func auditActions(c *checkCtx, acts []k8stesting.Action) {
	for _, a := range acts {
		res := a.GetResource().Resource
		if res == "namespaces" {
			name := ""
			switch x := a.(type) {
			case k8stesting.GetAction:
				name = x.GetName()
			case k8stesting.DeleteAction:
				name = x.GetName()
			case k8stesting.CreateAction:
				if acc, err := meta.Accessor(x.GetObject()); err == nil {
					name = acc.GetName()
				}
			}
			if name != c.ns {
				c.fail("api:foreign-namespace-object", "%s on namespace object %q while handling lease namespace %q", a.GetVerb(), name, c.ns)
			}
			continue
		}
		if a.GetNamespace() != c.ns {
			c.fail("api:call-outside-namespace", "%s %s in namespace %q while handling lease namespace %q", a.GetVerb(), res, a.GetNamespace(), c.ns)
		}
	}
}

type machineryError struct{ msg string }

func (e machineryError) Error() string { return e.msg }

func objCount(o *objects) int {
	if o == nil {
		return 0
	}
	return len(o.Namespaces) + len(o.Deployments) + len(o.Services) + len(o.Ingresses) + len(o.NetPols)
}

// deploySteps lists the Deploy calls of the update sequence described by a case input.
type deployStep struct {
	group *manifest.Group
	st    kube.Settings
}

func deploySteps(in *caseInput) []deployStep {
	steps := []deployStep{{&in.Group, in.Settings}}
	if in.Group2 != nil {
		st := in.Settings
		if in.Settings2 != nil {
			st = *in.Settings2
		}
		steps = append(steps, deployStep{in.Group2, st})
		if in.Group3 != nil {
			if in.Settings3 != nil {
				st = *in.Settings3
			}
			steps = append(steps, deployStep{in.Group3, st})
		}
	}
	return steps
}

// names of the network policies written (create/update) by the recorded API calls
func freshPolicies(acts []k8stesting.Action) map[string]bool {
	m := map[string]bool{}
	for _, a := range acts {
		if a.GetResource().Resource != "networkpolicies" {
			continue
		}
		var obj runtime.Object
		switch x := a.(type) {
		case k8stesting.CreateAction:
			obj = x.GetObject()
		case k8stesting.UpdateAction:
			obj = x.GetObject()
		}
		if obj != nil {
			if acc, err := meta.Accessor(obj); err == nil {
				m[acc.GetNamespace()+"/"+acc.GetName()] = true
			}
		}
	}
	return m
}

// judgeLeaseState runs every clause on what the API server holds for one lease. fresh (optional):
// the policies written by the latest Deploy; a network-policy violation that disappears when only
// those are considered is caused by a policy left over from an earlier manifest.
func judgeLeaseState(stage string, st kube.Settings, l mtypes.LeaseID, g, prev *manifest.Group, all map[string]*objects,
	foreign []mtypes.LeaseID, fresh map[string]bool, complete bool) (out []violation, nontrivial bool) {
	c := &checkCtx{lid: l, ns: kube.VerifLidNS(l), st: st, group: g, prev: prev, strictNS: true, stage: stage}
	c.foreign = foreignNamespaces(st, foreign, g)
	o := all[c.ns]
	if complete && (o == nil || len(o.Namespaces) != 1) {
		c.fail("namespace:missing", "no Namespace object %q on the API server after Deploy", c.ns)
	}
	if o != nil {
		if len(o.Namespaces) == 0 && objCount(o) > 0 {
			c.fail("namespace:missing", "%d objects in %q without a Namespace object carrying the lease labels", objCount(o), c.ns)
		}
		c.checkAll(o, true)
		if fresh != nil {
			np := false
			for _, v := range c.out {
				if strings.HasPrefix(v.Sig, "netpol:") {
					np = true
				}
			}
			if np && len(o.Namespaces) > 0 {
				c2 := &checkCtx{lid: l, ns: c.ns, st: st, group: g, prev: prev, strictNS: true, stage: stage, foreign: c.foreign}
				var only []*netv1.NetworkPolicy
				var stale []string
				for _, p := range o.NetPols {
					if fresh[p.Namespace+"/"+p.Name] {
						only = append(only, p)
					} else {
						stale = append(stale, p.Name)
					}
				}
				c2.checkNetPols(o.Namespaces[0], only, podLabelsOf(o.Deployments))
				still := map[string]bool{}
				for _, v := range c2.out {
					still[v.Sig] = true
				}
				for i := range c.out {
					if strings.HasPrefix(c.out[i].Sig, "netpol:") && !still[c.out[i].Sig] && len(stale) > 0 {
						c.out[i].Detail += fmt.Sprintf(" [%s; admitted by policies %v left over from the previous manifest]", c.out[i].Sig, stale)
						c.out[i].Sig = "netpol:stale-policy-after-update"
					}
				}
			}
		}
		// completeness of the object set is only demanded of a Deploy that was not disturbed
		if complete && len(o.Deployments) != len(g.Services) {
			c.fail("deployment:count", "%d deployments on the API server for %d services", len(o.Deployments), len(g.Services))
		}
		if len(o.Services)+len(o.Ingresses)+len(o.NetPols) > 0 {
			nontrivial = true
		}
	}
	return c.out, nontrivial
}

func objectsOutside(stage string, all map[string]*objects, allowed ...string) []violation {
	var out []violation
	for n, o := range all {
		ok := false
		for _, a := range allowed {
			if n == a {
				ok = true
			}
		}
		if !ok && objCount(o) > 0 {
			out = append(out, violation{Sig: "api:object-outside-namespace", Detail: fmt.Sprintf("%s: %d objects found in namespace %q, expected only %v", stage, objCount(o), n, allowed)})
		}
	}
	return out
}

// evalDeploy: path (b). Deploy(lease, group) [; Deploy(lease, group2) [; Deploy(lease, group3)]] - each
// possibly under changed provider settings -; Deploy(sibling, group); TeardownLease(lease). The oracle
// is run on the fake API server's content after every step.
func evalDeploy(in *caseInput) ([]violation, bool, error) {
	ctx := context.Background()
	lid := in.Lease
	kc := newFakeKube()
	ac := akashfake.NewSimpleClientset()
	ns := kube.VerifLidNS(lid)
	var out []violation
	nontrivial := false
	steps := deploySteps(in)
	st := steps[0].st
	cl := kube.VerifNewClient(nopLog, "lease", st, kc, ac)

	check := func(stage string, l mtypes.LeaseID, g *manifest.Group, all map[string]*objects, foreign []mtypes.LeaseID, fresh map[string]bool) {
		vs, nt := judgeLeaseState(stage, st, l, g, nil, all, foreign, fresh, true)
		out = append(out, vs...)
		nontrivial = nontrivial || nt
	}
	expectOnly := func(stage string, all map[string]*objects, allowed ...string) {
		out = append(out, objectsOutside(stage, all, allowed...)...)
	}

	// A failing Deploy is not a verdict by itself, but whatever it did before failing is judged.
	partial := func(stage string, l mtypes.LeaseID, derr error) ([]violation, bool, error) {
		a := &checkCtx{lid: l, ns: kube.VerifLidNS(l), stage: stage + " (failed: " + derr.Error() + ")"}
		auditActions(a, kc.Actions())
		out = append(out, a.out...)
		if all, err := listAll(kc); err == nil {
			for n, o := range all {
				if n != a.ns && n != ns && objCount(o) > 0 {
					out = append(out, violation{Sig: "api:object-outside-namespace", Detail: fmt.Sprintf("%s: %d objects found in namespace %q", a.stage, objCount(o), n)})
				}
			}
		}
		return out, false, machineryError{stage + ": " + derr.Error()}
	}

	var all map[string]*objects
	var err error
	var freshFirst map[string]bool
	cur := steps[0].group
	for i, sp := range steps {
		stage := fmt.Sprintf("deploy#%d", i+1)
		st = sp.st
		cl = kube.VerifNewClient(nopLog, "lease", st, kc, ac)
		kc.ClearActions()
		if err := cl.Deploy(ctx, lid, sp.group); err != nil {
			return partial(stage, lid, err)
		}
		a := &checkCtx{lid: lid, ns: ns, stage: stage}
		auditActions(a, kc.Actions())
		out = append(out, a.out...)
		var fresh map[string]bool
		if i > 0 {
			fresh = freshPolicies(kc.Actions())
			freshFirst = fresh
		}
		if all, err = listAll(kc); err != nil {
			return nil, false, machineryError{err.Error()}
		}
		check(stage, lid, sp.group, all, in.Foreign, fresh)
		expectOnly(stage, all, ns)
		cur = sp.group
		if i == 0 {
			for _, a := range ac.Actions() {
				if a.GetNamespace() != "lease" {
					out = append(out, violation{Sig: "api:manifest-crd-namespace", Detail: "manifest CRD written to namespace " + a.GetNamespace()})
				}
			}
		}
	}

	// 3. a second lease on the same cluster, then tear the first one down
	if in.Sibling != nil {
		sib := *in.Sibling
		sns := kube.VerifLidNS(sib)
		kc.ClearActions()
		if err := cl.Deploy(ctx, sib, &in.Group); err != nil {
			return partial("deploy(sibling)", sib, err)
		}
		a3 := &checkCtx{lid: sib, ns: sns, stage: "deploy(sibling)"}
		auditActions(a3, kc.Actions())
		out = append(out, a3.out...)
		if all, err = listAll(kc); err != nil {
			return nil, false, machineryError{err.Error()}
		}
		if sns == ns {
			out = append(out, violation{Sig: "lidns:collision", Detail: fmt.Sprintf("leases %s and %s share namespace %q", lid, sib, ns)})
		} else {
			check("deploy(sibling)/first", lid, cur, all, []mtypes.LeaseID{sib}, freshFirst)
			check("deploy(sibling)/sibling", sib, &in.Group, all, []mtypes.LeaseID{lid}, nil)
			expectOnly("deploy(sibling)", all, ns, sns)
		}
		before := all[sns]

		kc.ClearActions()
		if err := cl.TeardownLease(ctx, lid); err != nil {
			return out, false, machineryError{"TeardownLease: " + err.Error()} // what was found so far is judged first
		}
		dels := 0
		for _, a := range kc.Actions() {
			switch a.GetVerb() {
			case "delete", "delete-collection":
				d, ok := a.(k8stesting.DeleteAction)
				if a.GetResource().Resource == "namespaces" && ok && d.GetName() == ns {
					dels++
					continue
				}
				out = append(out, violation{Sig: "teardown:deletes-other", Detail: fmt.Sprintf("TeardownLease(%s) issued %s %s ns=%q", lid, a.GetVerb(), a.GetResource().Resource, a.GetNamespace())})
			case "create", "update", "patch":
				out = append(out, violation{Sig: "teardown:writes", Detail: fmt.Sprintf("TeardownLease(%s) issued %s %s", lid, a.GetVerb(), a.GetResource().Resource)})
			}
		}
		if dels != 1 {
			out = append(out, violation{Sig: "teardown:namespace-not-deleted", Detail: fmt.Sprintf("TeardownLease(%s) deleted its namespace %d times", lid, dels)})
		}
		if all, err = listAll(kc); err != nil {
			return nil, false, machineryError{err.Error()}
		}
		if sns != ns {
			after := all[sns]
			if !reflect.DeepEqual(before, after) {
				out = append(out, violation{Sig: "teardown:touches-other-lease", Detail: fmt.Sprintf("objects of lease %s changed when lease %s was torn down", sib, lid)})
			}
			if o := all[ns]; o != nil && len(o.Namespaces) != 0 {
				out = append(out, violation{Sig: "teardown:namespace-not-deleted", Detail: "namespace object still present"})
			}
		}
	}
	return out, nontrivial, nil
}

var _ = appsv1.Deployment{}
