package main

// Structural grammar of C11 inputs. Everything here is a finite list built by nested loops; there
// is no randomness. The tier only selects the size of the lists.

import (
	"fmt"

	"github.com/cosmos/cosmos-sdk/types/bech32"

	"github.com/ovrclk/akash/manifest"
	"github.com/ovrclk/akash/provider/cluster/kube"
	atypes "github.com/ovrclk/akash/types"
	mtypes "github.com/ovrclk/akash/x/market/types"
)

func addr(seed byte) string {
	raw := make([]byte, 20)
	for i := range raw {
		raw[i] = seed + byte(i)*7
	}
	s, err := bech32.ConvertAndEncode("akash", raw)
	if err != nil {
		panic(err)
	}
	return s
}

// leases: 2 owners x 2 providers x dseq {1,12,256,257,65536} x gseq {1,2} x oseq {1,2} = 80.
func genLeases() []mtypes.LeaseID {
	owners := []string{addr(1), addr(2)}
	providers := []string{addr(101), addr(102)}
	var out []mtypes.LeaseID
	for _, o := range owners {
		for _, p := range providers {
			for _, d := range []uint64{1, 12, 256, 257, 65536} {
				for _, g := range []uint32{1, 2} {
					for _, q := range []uint32{1, 2} {
						out = append(out, mtypes.LeaseID{Owner: o, DSeq: d, GSeq: g, OSeq: q, Provider: p})
					}
				}
			}
		}
	}
	return out
}

// extreme but legal ids, used (a) in the lidNS validity/injectivity grid and (b) as additional leases of
// the builder and deploy paths: longest decimal renderings, and ids whose renderings collide when
// concatenated without separators (dseq 1,gseq 12 / dseq 11,gseq 2 / dseq 1,gseq 1,oseq 2 ...).
const (
	dseq1e17 = uint64(100000000000000000)
	dseq2p63 = uint64(1) << 63
	dseqMax  = ^uint64(0)
	seqMax   = ^uint32(0)
)

func genExtremeLeases() []mtypes.LeaseID {
	owners := []string{addr(1), addr(2)}
	p := addr(101)
	var out []mtypes.LeaseID
	for _, o := range owners {
		out = append(out,
			mtypes.LeaseID{Owner: o, DSeq: dseq1e17, GSeq: 1, OSeq: 1, Provider: p},
			mtypes.LeaseID{Owner: o, DSeq: dseq2p63, GSeq: seqMax, OSeq: 1, Provider: p},
			mtypes.LeaseID{Owner: o, DSeq: dseqMax, GSeq: seqMax, OSeq: seqMax, Provider: p},
			mtypes.LeaseID{Owner: o, DSeq: 1, GSeq: 12, OSeq: 1, Provider: p},
			mtypes.LeaseID{Owner: o, DSeq: 11, GSeq: 2, OSeq: 1, Provider: p},
		)
	}
	return out
}

// genLidNSGrid: 2 owners x 2 providers x dseq{1,11,12,111,256,257,65536,10^17,2^63,2^64-1} x
// gseq{1,2,12,2^32-1} x oseq{1,2,12,2^32-1} = 640 ids.
func genLidNSGrid() []mtypes.LeaseID {
	var out []mtypes.LeaseID
	for _, o := range []string{addr(1), addr(2)} {
		for _, p := range []string{addr(101), addr(102)} {
			for _, d := range []uint64{1, 11, 12, 111, 256, 257, 65536, dseq1e17, dseq2p63, dseqMax} {
				for _, g := range []uint32{1, 2, 12, seqMax} {
					for _, q := range []uint32{1, 2, 12, seqMax} {
						out = append(out, mtypes.LeaseID{Owner: o, DSeq: d, GSeq: g, OSeq: q, Provider: p})
					}
				}
			}
		}
	}
	return out
}

// ---- settings ----

type ingressOpt struct {
	Static   bool
	Domain   string
	ExposeLB bool
	SvcType  string
}

func genSettings(tier string) []kube.Settings {
	levels := []float64{1, 1.5, 2, 10}
	ing := []ingressOpt{
		{Static: false, SvcType: "ClusterIP"},
		{Static: true, Domain: "example.com", SvcType: "ClusterIP"},
		{Static: true, Domain: "ingress.provider-7.test", ExposeLB: true, SvcType: "NodePort"},
	}
	mk := func(c, m, st float64, np bool, rc string, io ingressOpt) kube.Settings {
		s := kube.NewDefaultSettings()
		s.CPUCommitLevel, s.MemoryCommitLevel, s.StorageCommitLevel = c, m, st
		s.NetworkPoliciesEnabled = np
		s.DeploymentRuntimeClass = rc
		s.DeploymentIngressStaticHosts = io.Static
		s.DeploymentIngressDomain = io.Domain
		s.DeploymentIngressExposeLBHosts = io.ExposeLB
		s.ClusterPublicHostname = "provider.test"
		if io.SvcType == "NodePort" {
			s.DeploymentServiceType = "NodePort"
		}
		return s
	}
	var out []kube.Settings
	for _, c := range levels {
		for _, m := range levels {
			for _, st := range levels {
				uniform := c == m && m == st
				raised := 0
				for _, x := range []float64{c, m, st} {
					if x != 1 {
						raised++
					}
				}
				for _, np := range []bool{false, true} {
					for _, rc := range []string{"", "none", "gvisor"} {
						for _, io := range ing {
							if tier != "thorough" {
								// quick: uniform triples x netpol x {every runtime class without static hosts,
								// every ingress option set without runtime class}; triples raising a single
								// resource only under (netpol on, gvisor, static hosts)
								if uniform && !(rc == "" || !io.Static) {
									continue
								}
								if !uniform && !(raised == 1 && np && rc == "gvisor" && io.Domain == "example.com") {
									continue
								}
							}
							out = append(out, mk(c, m, st, np, rc, io))
						}
					}
				}
			}
		}
	}
	return out
}

// ---- manifest groups ----

// expose atoms
const (
	exGlobal80    = iota // TCP 80 global  -> ingress
	exGlobal8080         // TCP 8080 global -> node port
	exToOther            // TCP 5432, not global, to the other service
	exUDP                // UDP 5353 global -> node port
	exGlobal80ext        // TCP 3000 as 80 global -> ingress with target port 3000 (thorough)
	exHosts80            // TCP 80 global with a tenant host name (thorough)
)

func exposeAtom(a int, other string) manifest.ServiceExpose {
	switch a {
	case exGlobal80:
		return manifest.ServiceExpose{Port: 80, Proto: manifest.TCP, Global: true}
	case exGlobal8080:
		return manifest.ServiceExpose{Port: 8080, Proto: manifest.TCP, Global: true}
	case exToOther:
		return manifest.ServiceExpose{Port: 5432, Proto: manifest.TCP, Global: false, Service: other}
	case exUDP:
		return manifest.ServiceExpose{Port: 5353, Proto: manifest.UDP, Global: true}
	case exGlobal80ext:
		return manifest.ServiceExpose{Port: 3000, ExternalPort: 80, Proto: manifest.TCP, Global: true}
	case exHosts80:
		return manifest.ServiceExpose{Port: 80, Proto: manifest.TCP, Global: true, Hosts: []string{"shop.tenant.example"}}
	}
	panic("atom")
}

func exposeSets(tier string, full bool) [][]int {
	atoms := []int{exGlobal80, exGlobal8080, exToOther, exUDP}
	if tier == "thorough" && full {
		atoms = append(atoms, exGlobal80ext, exHosts80)
	}
	sets := [][]int{{}}
	for _, a := range atoms {
		sets = append(sets, []int{a})
	}
	if full {
		// every unordered pair
		for i := 0; i < len(atoms); i++ {
			for j := i + 1; j < len(atoms); j++ {
				if tier != "thorough" && !(atoms[i] == exGlobal80 || atoms[j] == exUDP) {
					continue // quick: only the pairs involving the ingress port or the udp port
				}
				sets = append(sets, []int{atoms[i], atoms[j]})
			}
		}
	}
	return sets
}

type resSize struct{ cpu, mem, sto uint64 }

func resSizes(tier string) []resSize {
	r := []resSize{
		{1, 3, 5}, // smallest values: rounding to zero / half must be handled
		{100, 128 << 20, 512 << 20},
	}
	if tier == "thorough" {
		r = append(r, resSize{4000, 16<<30 + 1, 1<<40 + 7})
	}
	return r
}

func mkResources(r resSize) atypes.ResourceUnits {
	return atypes.ResourceUnits{
		CPU:     &atypes.CPU{Units: atypes.NewResourceValue(r.cpu)},
		Memory:  &atypes.Memory{Quantity: atypes.NewResourceValue(r.mem)},
		Storage: &atypes.Storage{Quantity: atypes.NewResourceValue(r.sto)},
	}
}

func mkService(name, other string, env bool, ex []int, count uint32, r resSize) manifest.Service {
	s := manifest.Service{
		Name:      name,
		Image:     "img/" + name + ":1",
		Resources: mkResources(r),
		Count:     count,
	}
	if env {
		// one plain variable, one without '=', and one trying to override a provider-set name
		s.Env = []string{"MODE=prod", "FLAG", "AKASH_OWNER=someone-else"}
	}
	for _, a := range ex {
		s.Expose = append(s.Expose, exposeAtom(a, other))
	}
	return s
}

// genGroups: 1-service groups over the full shape set of "web"; 2-service groups = shapes of "web"
// x a reduced shape set for "db" (only the env-less, count-1, second-size shapes of "web" are paired).
func genGroups(tier string) []manifest.Group {
	sizes := resSizes(tier)
	type first struct {
		svc    manifest.Service
		paired bool
	}
	var firsts []first
	for _, env := range []bool{false, true} {
		for _, ex := range exposeSets(tier, true) {
			for _, cnt := range []uint32{1, 2} {
				for ri, r := range sizes {
					firsts = append(firsts, first{mkService("web", "db", env, ex, cnt, r), !env && cnt == 1 && ri == 1})
				}
			}
		}
	}
	var seconds []manifest.Service
	for _, ex := range exposeSets(tier, false) {
		for _, r := range sizes {
			if tier != "thorough" && (len(ex) == 1 && (ex[0] == exGlobal80)) {
				continue
			}
			seconds = append(seconds, mkService("db", "web", false, ex, 1, r))
		}
	}
	var out []manifest.Group
	for _, f := range firsts {
		out = append(out, manifest.Group{Name: "g1", Services: []manifest.Service{f.svc}})
	}
	for _, f := range firsts {
		if !f.paired {
			continue
		}
		for _, s := range seconds {
			out = append(out, manifest.Group{Name: "g2", Services: []manifest.Service{f.svc, s}})
		}
	}
	return out
}

func describeGrammar(tier string, nl, ns, ng int) string {
	return fmt.Sprintf("leases=%d (80 = 2 owners x 2 providers x dseq{1,12,256,257,65536} x gseq{1,2} x oseq{1,2}, plus 10 extreme ids = 2 owners x {(10^17,1,1),(2^63,2^32-1,1),(2^64-1,2^32-1,2^32-1),(1,12,1),(11,2,1)}); "+
		"settings=%d (commit triples over {1,1.5,2,10}: %s; netpol{off,on}; runtimeclass{\"\",none,gvisor}; 3 ingress option sets); "+
		"groups=%d (service web: env{absent,present} x expose sets x count{1,2} x %d resource sizes; optional service db from a reduced shape set)",
		nl, ns, map[string]string{"quick": "4 uniform x netpol x 5 (runtime class, ingress) pairs + 9 single-raised under (netpol on, gvisor, static hosts)", "thorough": "all 64"}[tier], ng, len(resSizes(tier)))
}
