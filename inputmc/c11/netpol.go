package main

// A small, direct model of Kubernetes NetworkPolicy semantics (networking.k8s.io/v1), used to decide
// what traffic a set of generated policies admits. Written from the Kubernetes API documentation:
//   - a pod is isolated for a direction iff some policy in its namespace selects it and lists the
//     direction in policyTypes; a non-isolated pod admits everything in that direction;
//   - for an isolated pod traffic is admitted iff some rule of some selecting policy matches: the
//     rule's peer list is empty (all peers) or one peer matches, and the rule's port list is empty
//     (all ports) or one port matches;
//   - a peer is either an ipBlock (CIDR minus excepts) or a namespaceSelector/podSelector pair
//     (namespaceSelector absent = the policy's own namespace).

import (
	"fmt"
	"net"
	"sync"

	corev1 "k8s.io/api/core/v1"
	netv1 "k8s.io/api/networking/v1"
	metav1 "k8s.io/apimachinery/pkg/apis/meta/v1"
	"k8s.io/apimachinery/pkg/labels"
	"k8s.io/apimachinery/pkg/util/intstr"
)

type nsInfo struct {
	Name   string
	Labels map[string]string
}

// party is one end of a connection: a pod (with namespace and labels) and/or a bare IP.
type party struct {
	Desc   string
	NS     *nsInfo // nil for non-pod endpoints
	Labels map[string]string
	IP     net.IP
}

// CIDR parsing is memoised by text (pure function)
var cidrCache sync.Map

// selMatches: nil selector is the caller's business; an empty selector matches everything;
// matchLabels are compared directly, matchExpressions go through apimachinery.
func selMatches(sel *metav1.LabelSelector, l map[string]string) (bool, error) {
	if sel == nil {
		return false, nil
	}
	for k, v := range sel.MatchLabels {
		if got, ok := l[k]; !ok || got != v {
			return false, nil
		}
	}
	if len(sel.MatchExpressions) == 0 {
		return true, nil
	}
	s, err := metav1.LabelSelectorAsSelector(&metav1.LabelSelector{MatchExpressions: sel.MatchExpressions})
	if err != nil {
		return false, err
	}
	return s.Matches(labels.Set(l)), nil
}

func parseCIDR(c string) (*net.IPNet, error) {
	if v, ok := cidrCache.Load(c); ok {
		return v.(*net.IPNet), nil
	}
	_, n, err := net.ParseCIDR(c)
	if err != nil {
		return nil, err
	}
	cidrCache.Store(c, n)
	return n, nil
}

func peerMatches(polNS string, p netv1.NetworkPolicyPeer, x party) (bool, error) {
	if p.IPBlock != nil {
		if x.IP == nil {
			return false, nil
		}
		cidr, err := parseCIDR(p.IPBlock.CIDR)
		if err != nil {
			return false, fmt.Errorf("bad cidr %q", p.IPBlock.CIDR)
		}
		if !cidr.Contains(x.IP) {
			return false, nil
		}
		for _, e := range p.IPBlock.Except {
			ex, err := parseCIDR(e)
			if err != nil {
				return false, fmt.Errorf("bad except cidr %q", e)
			}
			if ex.Contains(x.IP) {
				return false, nil
			}
		}
		return true, nil
	}
	if x.NS == nil {
		return false, nil
	}
	if p.NamespaceSelector == nil && p.PodSelector == nil {
		return false, nil // empty peer: matches nothing we model
	}
	if p.NamespaceSelector == nil {
		if x.NS.Name != polNS {
			return false, nil
		}
	} else {
		ok, err := selMatches(p.NamespaceSelector, x.NS.Labels)
		if err != nil || !ok {
			return false, err
		}
	}
	if p.PodSelector != nil {
		return selMatches(p.PodSelector, x.Labels)
	}
	return true, nil
}

func portMatches(pp netv1.NetworkPolicyPort, proto corev1.Protocol, port int32) (bool, error) {
	want := corev1.ProtocolTCP
	if pp.Protocol != nil {
		want = *pp.Protocol
	}
	if want != proto {
		return false, nil
	}
	if pp.Port == nil {
		return true, nil
	}
	if pp.Port.Type == intstr.String {
		return false, fmt.Errorf("named port %q not modelled", pp.Port.StrVal)
	}
	return pp.Port.IntVal == port, nil
}

func hasType(p *netv1.NetworkPolicy, t netv1.PolicyType) bool {
	if len(p.Spec.PolicyTypes) == 0 {
		// default: Ingress always; Egress iff egress rules exist
		if t == netv1.PolicyTypeIngress {
			return true
		}
		return len(p.Spec.Egress) > 0
	}
	for _, x := range p.Spec.PolicyTypes {
		if x == t {
			return true
		}
	}
	return false
}

// admitted reports whether `pod` (living in namespace podNS) may receive from (ingress) or send to
// (egress) `other` on proto/port under the policies (only those in podNS apply).
func admitted(pols []*netv1.NetworkPolicy, podNS string, podLabels map[string]string, dir netv1.PolicyType,
	other party, proto corev1.Protocol, port int32) (bool, error) {
	isolated := false
	for _, p := range pols {
		if p.Namespace != podNS || !hasType(p, dir) {
			continue
		}
		ok, err := selMatches(&p.Spec.PodSelector, podLabels)
		if err != nil {
			return false, err
		}
		if !ok {
			continue
		}
		isolated = true
		if dir == netv1.PolicyTypeIngress {
			for _, r := range p.Spec.Ingress {
				m, err := ruleMatches(p.Namespace, r.From, r.Ports, other, proto, port)
				if err != nil {
					return false, err
				}
				if m {
					return true, nil
				}
			}
		} else {
			for _, r := range p.Spec.Egress {
				m, err := ruleMatches(p.Namespace, r.To, r.Ports, other, proto, port)
				if err != nil {
					return false, err
				}
				if m {
					return true, nil
				}
			}
		}
	}
	return !isolated, nil
}

func ruleMatches(polNS string, peers []netv1.NetworkPolicyPeer, ports []netv1.NetworkPolicyPort, other party,
	proto corev1.Protocol, port int32) (bool, error) {
	peerOK := len(peers) == 0
	for _, p := range peers {
		m, err := peerMatches(polNS, p, other)
		if err != nil {
			return false, err
		}
		if m {
			peerOK = true
			break
		}
	}
	if !peerOK {
		return false, nil
	}
	if len(ports) == 0 {
		return true, nil
	}
	for _, pp := range ports {
		m, err := portMatches(pp, proto, port)
		if err != nil {
			return false, err
		}
		if m {
			return true, nil
		}
	}
	return false, nil
}

func isPrivate(ip net.IP) bool {
	v := ip.To4()
	if v == nil {
		return false
	}
	switch {
	case v[0] == 10:
		return true
	case v[0] == 172 && v[1] >= 16 && v[1] <= 31:
		return true
	case v[0] == 192 && v[1] == 168:
		return true
	}
	return false
}
