package main

import (
	"bytes"
	"crypto/sha256"
	"encoding/hex"
	"encoding/json"
	"fmt"
	"sort"
	"strings"

	"github.com/ovrclk/akash/manifest"
	"github.com/ovrclk/akash/sdl"
	atypes "github.com/ovrclk/akash/types"
	"github.com/ovrclk/akash/validation"
	dtypes "github.com/ovrclk/akash/x/deployment/types"

	"verif.local/verif/inputmc/imc"
)

// outputs of the real translation for one YAML text
type outputs struct {
	groups       []*dtypes.GroupSpec
	manifest     manifest.Manifest
	groupsJSON   []byte
	manifestJSON []byte
	version      string
}

func (o *outputs) equal(p *outputs) (string, bool) {
	if !bytes.Equal(o.groupsJSON, p.groupsJSON) {
		return "groups", false
	}
	if !bytes.Equal(o.manifestJSON, p.manifestJSON) {
		return "manifest", false
	}
	if o.version != p.version {
		return "version", false
	}
	return "", true
}

func (o *outputs) digest() [32]byte {
	h := sha256.New()
	h.Write(o.groupsJSON)
	h.Write([]byte{0})
	h.Write(o.manifestJSON)
	var out [32]byte
	copy(out[:], h.Sum(nil))
	return out
}

// derive calls the three real derivations on an already parsed document.
func derive(s sdl.SDL) (*outputs, error) {
	g, err := s.DeploymentGroups()
	if err != nil {
		return nil, fmt.Errorf("DeploymentGroups: %w", err)
	}
	m, err := s.Manifest()
	if err != nil {
		return nil, fmt.Errorf("Manifest: %w", err)
	}
	v, err := sdl.Version(s)
	if err != nil {
		return nil, fmt.Errorf("Version: %w", err)
	}
	gj, err := json.Marshal(g)
	if err != nil {
		return nil, fmt.Errorf("marshal groups: %w", err)
	}
	mj, err := json.Marshal(m)
	if err != nil {
		return nil, fmt.Errorf("marshal manifest: %w", err)
	}
	return &outputs{groups: g, manifest: m, groupsJSON: gj, manifestJSON: mj, version: hex.EncodeToString(v)}, nil
}

func translate(text string) (sdl.SDL, *outputs, error) {
	s, err := sdl.Read([]byte(text))
	if err != nil {
		return nil, nil, fmt.Errorf("Read: %w", err)
	}
	o, err := derive(s)
	return s, o, err
}

// ---------------------------------------------------------------------------------------------
// actual outputs -> the same flat tables as the expectations of model.go

func attrsOf(a atypes.Attributes) string {
	out := make([]string, 0, len(a))
	for _, x := range a {
		out = append(out, x.Key+"="+x.Value)
	}
	sort.Strings(out)
	return fmt.Sprintf("%q", out)
}

func ActualManifest(m manifest.Manifest) (map[string]string, []string) {
	out := map[string]string{}
	var dup []string
	for _, g := range m {
		for _, s := range g.Services {
			k := g.Name + "/" + s.Name + "/"
			if _, ok := out[k+"image"]; ok {
				dup = append(dup, k)
			}
			out[k+"image"] = s.Image
			out[k+"command"] = strs(s.Command)
			out[k+"args"] = strs(s.Args)
			out[k+"env"] = strs(s.Env)
			out[k+"count"] = fmt.Sprint(s.Count)
			if s.Resources.CPU != nil {
				out[k+"resources.cpu"] = fmt.Sprint(s.Resources.CPU.Units.Value())
				out[k+"resources.cpu.attributes"] = attrsOf(s.Resources.CPU.Attributes)
			}
			if s.Resources.Memory != nil {
				out[k+"resources.memory"] = fmt.Sprint(s.Resources.Memory.Quantity.Value())
			}
			if s.Resources.Storage != nil {
				out[k+"resources.storage"] = fmt.Sprint(s.Resources.Storage.Quantity.Value())
				out[k+"resources.storage.attributes"] = attrsOf(s.Resources.Storage.Attributes)
			}
			var ex []string
			for _, x := range s.Expose {
				ex = append(ex, exposeDesc(x.Port, x.ExternalPort, string(x.Proto), x.Service, x.Global, x.Hosts))
			}
			sort.Strings(ex)
			out[k+"expose"] = strs(ex)
		}
	}
	return out, dup
}

func ActualGroups(gs []*dtypes.GroupSpec) (map[string]string, []string) {
	out := map[string]string{}
	var dup []string
	for _, g := range gs {
		if _, ok := out[g.Name+"/resources"]; ok {
			dup = append(dup, g.Name)
		}
		var r []resUnit
		for _, x := range g.Resources {
			var cpu, mem, sto uint64
			cpuA, stoA := attrsOf(nil), attrsOf(nil)
			if x.Resources.CPU != nil {
				cpu = x.Resources.CPU.Units.Value()
				cpuA = attrsOf(x.Resources.CPU.Attributes)
			}
			if x.Resources.Memory != nil {
				mem = x.Resources.Memory.Quantity.Value()
			}
			if x.Resources.Storage != nil {
				sto = x.Resources.Storage.Quantity.Value()
				stoA = attrsOf(x.Resources.Storage.Attributes)
			}
			var kinds []string
			for _, e := range x.Resources.Endpoints {
				kinds = append(kinds, e.Kind.String())
			}
			r = append(r, newResUnit(cpu, cpuA, mem, sto, stoA, x.Count, x.Price.Amount.String()+x.Price.Denom, kinds))
		}
		groupTable(out, g.Name, r)
		out[g.Name+"/requirements.attributes"] = attrsOf(g.Requirements.Attributes)
		out[g.Name+"/requirements.signedBy.allOf"] = strs(g.Requirements.SignedBy.AllOf)
		out[g.Name+"/requirements.signedBy.anyOf"] = strs(g.Requirements.SignedBy.AnyOf)
	}
	return out, dup
}

// fieldOf strips the "group/service/" (or "group/") prefix: the signature names the field only.
func fieldOf(key string, depth int) string {
	for i := 0; i < depth; i++ {
		for j := 0; j < len(key); j++ {
			if key[j] == '/' {
				key = key[j+1:]
				break
			}
		}
	}
	return key
}

type mismatch struct {
	Sig  string
	What string
}

func compareTables(side string, depth int, exp, act map[string]string) []mismatch {
	var out []mismatch
	keys := make([]string, 0, len(exp)+len(act))
	for k := range exp {
		keys = append(keys, k)
	}
	for k := range act {
		if _, ok := exp[k]; !ok {
			keys = append(keys, k)
		}
	}
	sort.Strings(keys)
	for _, k := range keys {
		e, eok := exp[k]
		a, aok := act[k]
		switch {
		case eok && !aok:
			out = append(out, mismatch{"faithful/" + side + "." + fieldOf(k, depth) + "/missing", fmt.Sprintf("%s %s: declared %s, absent from the output", side, k, e)})
		case !eok && aok:
			out = append(out, mismatch{"faithful/" + side + "." + fieldOf(k, depth) + "/undeclared", fmt.Sprintf("%s %s: output has %s, nothing was declared", side, k, a)})
		case e != a:
			out = append(out, mismatch{"faithful/" + side + "." + fieldOf(k, depth), fmt.Sprintf("%s %s: declared %s, output has %s", side, k, e, a)})
		}
	}
	return out
}

// ---------------------------------------------------------------------------------------------

// tieRuns: fresh parse+derive runs of a document that has a case-only name tie.
const tieRuns = 16

func caseTie(d Doc) bool {
	tie := func(names []string) bool {
		seen := map[string]string{}
		for _, n := range names {
			l := strings.ToLower(n)
			if o, ok := seen[l]; ok && o != n {
				return true
			}
			seen[l] = n
		}
		return false
	}
	var ps, cs, ss []string
	for _, p := range d.Placements {
		ps = append(ps, p.Name)
	}
	for _, c := range d.Computes {
		cs = append(cs, c.Name)
	}
	for _, s := range d.Services {
		ss = append(ss, s.Name)
	}
	return tie(ps) || tie(cs) || tie(ss)
}

// expectedGroupOrder: the placements that are deployed to, in byte-wise ascending name order.
func expectedGroupOrder(d Doc) []string {
	set := map[string]bool{}
	for _, e := range d.Deployment {
		for _, a := range e.At {
			set[a.Placement] = true
		}
	}
	var out []string
	for n := range set {
		out = append(out, n)
	}
	sort.Strings(out)
	return out
}

type docStats struct {
	reads    int64
	digest   [32]byte
	ok       bool
	nontriv  bool
	rendered int
}

// orders returns the key orders under which d is re-rendered (see `permRule`).
func orders(d Doc, full bool) []Order {
	nAt := make([]int, len(d.Deployment))
	for i, e := range d.Deployment {
		nAt[i] = len(e.At)
	}
	rev := func(n int) []int {
		p := make([]int, n)
		for i := range p {
			p[i] = n - 1 - i
		}
		return p
	}
	allRev := Order{
		Services: rev(len(d.Services)), Profiles: rev(2), Compute: rev(len(d.Computes)), Placement: rev(len(d.Placements)),
		Deployment: rev(len(d.Deployment)), SvcFields: rev(5),
	}
	for _, n := range nAt {
		allRev.DeployAt = append(allRev.DeployAt, rev(n))
	}
	allRev.RevAttrs = true

	var out []Order
	// (1) one map at a time, every permutation (24 at most), all other maps in declaration order
	for _, p := range imc.Perms(4, 24)[1:] {
		out = append(out, Order{Top: p})
	}
	for _, p := range imc.Perms(len(d.Services), 24)[1:] {
		out = append(out, Order{Services: p})
	}
	for _, p := range imc.Perms(2, 24)[1:] {
		out = append(out, Order{Profiles: p})
	}
	for _, p := range imc.Perms(len(d.Computes), 24)[1:] {
		out = append(out, Order{Compute: p})
	}
	for _, p := range imc.Perms(len(d.Placements), 24)[1:] {
		out = append(out, Order{Placement: p})
	}
	for _, p := range imc.Perms(len(d.Deployment), 24)[1:] {
		out = append(out, Order{Deployment: p})
	}
	for i, n := range nAt {
		for _, p := range imc.Perms(n, 24)[1:] {
			at := make([][]int, len(nAt))
			at[i] = p
			out = append(out, Order{DeployAt: at})
		}
	}
	if full {
		for _, p := range imc.Perms(5, 24)[1:] {
			out = append(out, Order{SvcFields: p})
		}
	}
	{
		for r := 1; r < 5; r++ { // the rotations put every field first and last once
			out = append(out, Order{SvcFields: []int{r % 5, (r + 1) % 5, (r + 2) % 5, (r + 3) % 5, (r + 4) % 5}})
		}
	}
	// attribute mappings (storage attributes of compute profiles, placement attributes): every
	// permutation of the mappings of each occurring size, and all of them reversed
	stoSizes, placeSizes := map[int]bool{}, map[int]bool{}
	for _, c := range d.Computes {
		stoSizes[len(c.StoAttrs)] = true
	}
	for _, p := range d.Placements {
		placeSizes[len(p.Attrs)] = true
	}
	for n := 2; n <= 4; n++ {
		if stoSizes[n] {
			for _, p := range imc.Perms(n, 24)[1:] {
				out = append(out, Order{StoAttrs: p})
			}
		}
		if placeSizes[n] {
			for _, p := range imc.Perms(n, 24)[1:] {
				out = append(out, Order{PlaceAttrs: p})
			}
		}
	}
	out = append(out, Order{RevAttrs: true})
	// (2) every permutation of the top-level map combined with all other maps reversed
	for _, p := range imc.Perms(4, 24) {
		o := allRev
		o.Top = p
		out = append(out, o)
	}
	if !full {
		return out
	}
	// (3) thorough: the full product of the permutations of the services, profiles, compute,
	// placement, deployment and deployment.<svc> maps, under the identity and the reversed
	// top-level order.
	var atChoices [][][]int
	atChoices = append(atChoices, nil)
	for i, n := range nAt {
		var next [][][]int
		for _, prefix := range atChoices {
			for _, p := range imc.Perms(n, 24) {
				c := make([][]int, i+1)
				copy(c, prefix)
				c[i] = p
				next = append(next, c)
			}
		}
		atChoices = next
	}
	for _, top := range [][]int{nil} { // top-level map in declaration order
		for _, ps := range imc.Perms(len(d.Services), 24) {
			for _, pp := range imc.Perms(2, 24) {
				for _, pc := range imc.Perms(len(d.Computes), 24) {
					for _, pl := range imc.Perms(len(d.Placements), 24) {
						for _, pd := range imc.Perms(len(d.Deployment), 24) {
							for _, at := range atChoices {
								out = append(out, Order{Top: top, Services: ps, Profiles: pp, Compute: pc, Placement: pl, Deployment: pd, DeployAt: at})
							}
						}
					}
				}
			}
		}
	}
	return out
}

const permRule = "key orders per document: (1) each of the maps {top-level, services, profiles, profiles.compute, profiles.placement, deployment, " +
	"deployment.<svc>} in every permutation (first 24 in lexicographic order if more) with all other maps in declaration order, and the five keys " +
	"of every service (image, command, args, env, expose) in their 5 rotations, every storage.attributes mapping of a compute profile and every attributes mapping of a placement " +
	"(0-3 keys) in all permutations and all reversed (thorough: additionally the first 24 permutations in lexicographic order); " +
	"(2) every permutation of the top-level map with all other maps reversed; thorough adds (3) the full product of all permutations of the services, " +
	"profiles, compute, placement, deployment and deployment.<svc> maps (top-level map in declaration order); renderings with identical text are parsed once"

const (
	kindDocument  = "sdl-document"
	kindQuantity  = "quantity-document"
	kindIllFormed = "illformed-candidate"
)

// quantitySig maps the signatures of the quantity grammar onto quantity/{cpu,memory,storage}: what
// is wrong there is the conversion of one quantity string, wherever the number shows up.
func quantitySig(sig string) string {
	for _, f := range []string{"cpu", "memory", "storage"} {
		if strings.HasSuffix(sig, "resources."+f) {
			return "quantity/" + f
		}
	}
	return "quantity/other:" + sig
}

type replayInput struct {
	Kind  string `json:"kind"`
	Doc   Doc    `json:"doc"`
	Order *Order `json:"order,omitempty"`
	SDL   string `json:"sdl"`
	Other string `json:"sdl_other_key_order,omitempty"`
}

// checkDoc runs every clause of the property on one document. permMode: 0 none, 1 quick set,
// 2 thorough set.
func checkDoc(d Doc, kind string, permMode int, rep *imc.Reporter) docStats {
	var st docStats
	base := Render(d, Order{})
	viol := func(sig, what string, o *Order, other string) {
		if kind == kindQuantity {
			sig = quantitySig(sig)
		}
		rep.Violation(sig, what, func() interface{} {
			return replayInput{Kind: kind, Doc: d, Order: o, SDL: base, Other: other}
		})
	}

	// (d) the document is well-formed by the generator's rules, so Read (which validates the
	// groups and the manifest) must accept it
	s1, o1, err := translate(base)
	st.reads++
	if err != nil {
		if kind == kindIllFormed {
			// not a valid document by the generator's rules: Read may (and does) refuse it; the
			// property says nothing here. Had Read accepted it, every clause below would apply.
			return st
		}
		viol("read-error", "a well-formed document is rejected: "+err.Error(), nil, "")
		return st
	}
	st.ok = true
	st.digest = o1.digest()

	// (a) determinism: a second derivation from the same parsed object and a second parse
	if o1b, err := derive(s1); err != nil {
		viol("determinism/second-derivation-error", err.Error(), nil, "")
	} else if f, ok := o1.equal(o1b); !ok {
		viol("determinism/same-object/"+f, "deriving "+f+" twice from the same parsed document gives different results", nil, "")
	}
	// fresh parses of the same text: 1 more, or tieRuns-1 more when two names of one map differ only
	// in letter case (the order of such a pair must not be left to Go's randomised map iteration)
	runs := 2
	if caseTie(d) {
		runs = tieRuns
	}
	for r := 1; r < runs; r++ {
		_, o2, err := translate(base)
		st.reads++
		if err != nil {
			viol("determinism/second-read-error", err.Error(), nil, "")
			break
		} else if f, ok := o1.equal(o2); !ok {
			viol("determinism/two-runs/"+f, fmt.Sprintf("run %d on the same text gives different %s than run 1", r+1, f), nil, "")
			break
		}
	}

	// (a') the order of the outputs is the one fixed by the names alone: groups (=> GSeq) and
	// manifest groups in byte-wise ascending placement name, services of a manifest group in
	// byte-wise ascending service name
	wantGroups := expectedGroupOrder(d)
	var gotG, gotM []string
	for _, g := range o1.groups {
		gotG = append(gotG, g.Name)
	}
	for _, g := range o1.manifest {
		gotM = append(gotM, g.Name)
		var svcs []string
		for _, s := range g.Services {
			svcs = append(svcs, s.Name)
		}
		if !sort.StringsAreSorted(svcs) {
			viol("order/manifest-services", fmt.Sprintf("services of manifest group %s are not in ascending name order: %q", g.Name, svcs), nil, "")
		}
	}
	if strs(gotG) != strs(wantGroups) {
		viol("order/groups", fmt.Sprintf("deployment groups come in order %q, byte-wise ascending names give %q", gotG, wantGroups), nil, "")
	}
	if strs(gotM) != strs(wantGroups) {
		viol("order/manifest-groups", fmt.Sprintf("manifest groups come in order %q, byte-wise ascending names give %q", gotM, wantGroups), nil, "")
	}

	// (c) faithfulness
	am, dupS := ActualManifest(o1.manifest)
	for _, k := range dupS {
		viol("faithful/manifest.duplicate-service", "service appears twice in a manifest group: "+k, nil, "")
	}
	for _, mm := range compareTables("manifest", 2, ExpectedManifest(d), am) {
		viol(mm.Sig, mm.What, nil, "")
	}
	ag, dupG := ActualGroups(o1.groups)
	for _, k := range dupG {
		viol("faithful/groups.duplicate-group", "deployment group appears twice: "+k, nil, "")
	}
	gm := compareTables("groups", 1, ExpectedGroups(d), ag)
	perField := false
	for _, mm := range gm {
		if strings.HasPrefix(mm.Sig, "faithful/groups.resources.") {
			perField = true
		}
	}
	for _, mm := range gm {
		if perField && mm.Sig == "faithful/groups.resources" {
			continue // the per-field signature is the precise one
		}
		viol(mm.Sig, mm.What, nil, "")
	}

	// (d) self-consistency: the manifest passes the provider's validation against the groups of
	// the same document
	if err := validation.ValidateManifestWithGroupSpecs(&o1.manifest, o1.groups); err != nil {
		viol("self-consistency/cross-validation", "ValidateManifestWithGroupSpecs(manifest, groups) of one document fails: "+err.Error(), nil, "")
	}
	if err := validation.ValidateManifest(o1.manifest); err != nil {
		viol("self-consistency/validate-manifest", "ValidateManifest fails: "+err.Error(), nil, "")
	}

	// (b) key reordering
	if permMode > 0 {
		seen := map[[32]byte]bool{sha256.Sum256([]byte(base)): true}
		for _, o := range orders(d, permMode == 2) {
			o := o
			text := Render(d, o)
			h := sha256.Sum256([]byte(text))
			if seen[h] {
				continue
			}
			seen[h] = true
			st.rendered++
			_, op, err := translate(text)
			st.reads++
			if err != nil {
				viol("reorder/read-error", "a reordering of mapping keys is rejected: "+err.Error(), &o, text)
				continue
			}
			if f, ok := o1.equal(op); !ok {
				viol("reorder/"+f, "reordering mapping keys changes the "+f, &o, text)
			}
		}
	}
	st.nontriv = len(d.Services) > 1 || len(d.Placements) > 1 || len(d.Deployment) > 1
	return st
}
