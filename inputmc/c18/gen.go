package main

import (
	"fmt"
	"math/big"
	"strings"
)

// ---------------------------------------------------------------------------------------------
// Structural grammar of SDL v2 documents. Every dimension is a small alphabet; the grammar is the
// full product of the alphabets selected by the Scope (candidates that are not well-formed by
// model.Valid are counted and dropped).

type Scope struct {
	Name      string
	Topo      []int // topologies, see topoNames
	WebCAE    []int // command/args/env variants of web
	WebExpose []int
	DbCAE     []int
	DbExpose  []int
	Render    []int // quantity renderings of the two compute profiles
	PlaceVar  []int // placement variants
	NameVar   []int // naming of placements and compute profiles, see nameVariants (nil: {0})
	WebCount  []uint32
	DbCount   []uint32
}

var topoNames = []string{
	"web@p1",
	"web@p1 db@p1",
	"web@p1 db@p2",
	"web@p1+p2 db@p1",
	"web@p1+p2",
	"web@p1(profile a)+p2(the other profile, same count) db@p2+p1(same profile, counts n and n+1)",
}

func topoHasDb(topo int) bool { return topo == 1 || topo == 2 || topo == 3 || topo == 5 }

func quickScope() Scope {
	return Scope{
		Name:      "quick",
		Topo:      []int{0, 1, 2, 3, 4, 5},
		WebCAE:    []int{0, 4},
		WebExpose: []int{0, 1, 2, 3, 4},
		DbCAE:     []int{0, 4},
		DbExpose:  []int{0, 1, 2, 3},
		Render:    []int{0, 1},
		PlaceVar:  []int{0, 1},
		WebCount:  []uint32{2},
		DbCount:   []uint32{3},
	}
}

func thoroughScope() Scope {
	return Scope{
		Name:      "thorough",
		Topo:      []int{0, 1, 2, 3, 4, 5},
		WebCAE:    []int{0, 1, 2, 3, 4},
		WebExpose: []int{0, 1, 2, 3, 4},
		DbCAE:     []int{0, 1, 4},
		DbExpose:  []int{0, 1, 2, 3},
		Render:    []int{0, 1, 2},
		PlaceVar:  []int{0, 1, 2},
		WebCount:  []uint32{2},
		DbCount:   []uint32{1, 3},
	}
}

func (s Scope) Describe() string {
	var t []string
	for _, i := range s.Topo {
		t = append(t, topoNames[i])
	}
	return fmt.Sprintf("topologies {%s} x web(command/args/env variants %v x expose variants %v) x db(variants %v x expose variants %v) x "+
		"compute assignment web,db in {small,large} x quantity renderings %v x placement variants %v x counts web %v db %v x name variants %v (0: p1,p2/small,large; 1: westcoast,Westcoast/Standard,standard; 2: alpha,Zeta/beta,Gamma)",
		strings.Join(t, "; "), s.WebCAE, s.WebExpose, s.DbCAE, s.DbExpose, s.Render, s.PlaceVar, s.WebCount, s.DbCount, nameVars(s))
}

func cae(s *Service, v int, tag string) {
	cmd := []string{"/bin/sh", "-c"}
	args := []string{"--name=" + tag, "-v", "--port=80"}
	env := []string{"A=1", "B_C=x=y", "EMPTY="}
	switch v {
	case 1:
		s.Command = cmd
	case 2:
		s.Args = args
	case 3:
		s.Env = env
	case 4:
		s.Command, s.Args, s.Env = cmd, args, env
	}
}

func webExpose(v int, other string) []Expose {
	switch v {
	case 0:
		return []Expose{{Port: 80, To: []To{{Global: true}}}}
	case 1:
		return []Expose{{Port: 8080, As: 80, Proto: "tcp", Accept: []string{"web.example.com", "www.example.com"}, To: []To{{Global: true}}}}
	case 2: // declared in an order that the translation has to re-sort
		return []Expose{{Port: 443, Proto: "TCP", To: []To{{Global: true}}}, {Port: 53, Proto: "udp", To: []To{{Global: true}}}, {Port: 80, To: []To{{Global: true}}}}
	case 3:
		return []Expose{{Port: 80, Proto: "tcp", To: []To{{Service: other}, {Global: true}}}}
	case 4:
		// 3000 published as 80 (shared http), 80 published as 8080 (NOT http: the published port decides), inter-service, local
		return []Expose{{Port: 3000, As: 80, To: []To{{Global: true}}}, {Port: 80, As: 8080, Proto: "tcp", To: []To{{Global: true}}},
			{Port: 3001, As: 81, To: []To{{Service: other}}}, {Port: 3002}}
	}
	panic("webExpose")
}

func dbExpose(v int) []Expose {
	switch v {
	case 0:
		return nil
	case 1:
		return []Expose{{Port: 5432, To: []To{{Service: "web"}}}}
	case 2:
		return []Expose{{Port: 5432, Proto: "tcp", To: []To{{Global: true}}}}
	case 3:
		return []Expose{{Port: 53, As: 5353, Proto: "UDP", Accept: []string{"db.example.com"}, To: []To{{Global: true}}}}
	}
	panic("dbExpose")
}

const (
	ki = uint64(1) << 10
	mi = uint64(1) << 20
	gi = uint64(1) << 30
)

// computes: the two compute profiles in three quantity renderings. Storage `attributes` mappings
// occur with 0, 1, 2 and 3 keys (declared in non-sorted order), the cpu `attributes` mapping with 0
// and 1 key ("arch" is the only cpu attribute this tree accepts, see sdl/cpu.go).
func computes(v int) []Compute {
	switch v {
	case 0:
		return []Compute{
			{Name: "small", CPU: "100m", CPUQuote: true, CPUMilli: 100, Mem: "128Mi", MemBytes: 128 * mi, Sto: "1Gi", StoBytes: gi},
			{Name: "large", CPU: "0.5", CPUMilli: 500, Mem: "1G", MemBytes: 1000000000, Sto: "512M", StoBytes: 512000000,
				StoAttrs: []Attr{{"tier", "fast"}, {"class", "ssd"}}},
		}
	case 1:
		return []Compute{
			{Name: "small", CPU: "0.1", CPUQuote: true, CPUMilli: 100, Mem: "134217728", MemBytes: 134217728, Sto: "1024Mi", StoBytes: gi,
				StoAttrs: []Attr{{"zone", "z2"}, {"class", "default"}, {"persistent", "true"}}},
			{Name: "large", CPU: "2", CPUMilli: 2000, Arch: "amd64", Mem: "1.5Gi", MemBytes: 3 * gi / 2, Sto: "10G", StoBytes: 10000000000,
				StoAttrs: []Attr{{"class", "beta2"}}},
		}
	case 2:
		return []Compute{
			{Name: "small", CPU: "250m", CPUQuote: true, CPUMilli: 250, Arch: "arm64", Mem: "64M", MemBytes: 64000000, Sto: "5Mi", StoBytes: 5 * mi,
				StoAttrs: []Attr{{"b", "2"}, {"c", "3"}, {"a", "1"}}},
			{Name: "large", CPU: "1.5", CPUMilli: 1500, Arch: "arm64", Mem: "2Gi", MemBytes: 2 * gi, Sto: "1.5G", StoBytes: 1500000000,
				StoAttrs: []Attr{{"z", "26"}, {"y", "25"}, {"x", "24"}}},
		}
	}
	panic("computes")
}

func placementOf(name string, v int) Placement {
	p := Placement{Name: name}
	switch v % 3 {
	case 0:
		p.Pricing = []Pricing{{"small", 50, "uakt"}, {"large", 100, "uakt"}}
	case 1: // attributes declared in non-sorted order
		p.Attrs = []Attr{{"tier", "a"}, {"region", "us-west"}, {"zone", "z1"}}
		p.AllOf = []string{"akash1zauditor", "akash1aauditor"}
		p.AnyOf = []string{"akash1mauditor", "akash1bauditor", "akash1qauditor"}
		p.Pricing = []Pricing{{"large", 1000, "uakt"}, {"small", 1, "uakt"}}
	case 2:
		p.Attrs = []Attr{{"region", "us-east"}}
		p.AnyOf = []string{"akash1onlyany"}
		p.Pricing = []Pricing{{"small", 75, "uakt"}, {"large", 75, "uakt"}}
	}
	return p
}

// Enumerate lists every document of the scope, and separately the candidates of the product that
// are not well-formed by model.Valid.
func Enumerate(sc Scope) (docs []Doc, illformed []Doc) {
	profiles := []string{"small", "large"}
	for _, topo := range sc.Topo {
		hasDb := topoHasDb(topo)
		dbCAE, dbEx, dbProf, dbCount := []int{-1}, []int{-1}, []string{""}, []uint32{0}
		if hasDb {
			dbCAE, dbEx, dbProf, dbCount = sc.DbCAE, sc.DbExpose, profiles, sc.DbCount
		}
		for _, wc := range sc.WebCAE {
			for _, we := range sc.WebExpose {
				for _, dc := range dbCAE {
					for _, de := range dbEx {
						for _, wp := range profiles {
							for _, dp := range dbProf {
								for _, r := range sc.Render {
									for _, pv := range sc.PlaceVar {
										for _, wn := range sc.WebCount {
											for _, dn := range dbCount {
												for _, nv := range nameVars(sc) {
													d := rename(build(topo, wc, we, dc, de, wp, dp, r, pv, wn, dn), nv)
													if !Valid(d) {
														illformed = append(illformed, d)
														continue
													}
													docs = append(docs, d)
												}
											}
										}
									}
								}
							}
						}
					}
				}
			}
		}
	}
	return docs, illformed
}

// nameVariants: how the placements (p1, p2) and compute profiles (small, large) are called.
//
//	0: p1 p2 / small large
//	1: names that differ only in letter case (a tie for any case-insensitive comparison)
//	2: names whose byte-wise order is the opposite of their case-insensitive order ("Zeta" < "alpha")
//
// Service names stay lower-case: validation.ValidateManifest refuses anything else.
var nameVariants = []map[string]string{
	0: {},
	1: {"p1": "westcoast", "p2": "Westcoast", "small": "Standard", "large": "standard"},
	2: {"p1": "alpha", "p2": "Zeta", "small": "beta", "large": "Gamma"},
}

func nameVars(sc Scope) []int {
	if len(sc.NameVar) == 0 {
		return []int{0}
	}
	return sc.NameVar
}

func rename(d Doc, nv int) Doc {
	m := nameVariants[nv]
	if len(m) == 0 {
		return d
	}
	n := func(s string) string {
		if r, ok := m[s]; ok {
			return r
		}
		return s
	}
	out := Doc{Services: d.Services}
	for _, c := range d.Computes {
		c.Name = n(c.Name)
		out.Computes = append(out.Computes, c)
	}
	for _, p := range d.Placements {
		p.Name = n(p.Name)
		pr := make([]Pricing, len(p.Pricing))
		for i, x := range p.Pricing {
			x.Profile = n(x.Profile)
			pr[i] = x
		}
		p.Pricing = pr
		out.Placements = append(out.Placements, p)
	}
	for _, e := range d.Deployment {
		ne := DeployEntry{Service: e.Service}
		for _, a := range e.At {
			a.Placement, a.Profile = n(a.Placement), n(a.Profile)
			ne.At = append(ne.At, a)
		}
		out.Deployment = append(out.Deployment, ne)
	}
	return out
}

// namesScope: the name grammar. Small alphabets for everything else, every topology with two
// placements or two services, name variants 1 and 2.
func namesScope() Scope {
	return Scope{
		Name:      "names",
		Topo:      []int{1, 2, 3, 4, 5},
		WebCAE:    []int{0},
		WebExpose: []int{0, 3},
		DbCAE:     []int{0},
		DbExpose:  []int{0, 2},
		Render:    []int{0},
		PlaceVar:  []int{0, 1},
		NameVar:   []int{1, 2},
		WebCount:  []uint32{2},
		DbCount:   []uint32{3},
	}
}

func build(topo, wc, we, dc, de int, wp, dp string, r, pv int, wn, dn uint32) Doc {
	hasDb := topoHasDb(topo)
	other := "web"
	if hasDb {
		other = "db"
	}
	var d Doc
	web := Service{Name: "web", Image: "nginx:1.19"}
	cae(&web, wc, "web")
	web.Expose = webExpose(we, other)
	// services are declared db first so that declaration order differs from sorted order
	if hasDb {
		db := Service{Name: "db", Image: "postgres:13"}
		cae(&db, dc, "db")
		db.Expose = dbExpose(de)
		d.Services = append(d.Services, web, db)
	} else {
		d.Services = append(d.Services, web)
	}
	d.Computes = computes(r)
	// only the profiles that are used need pricing, all are priced
	switch topo {
	case 0:
		d.Placements = []Placement{placementOf("p1", pv)}
		d.Deployment = []DeployEntry{{"web", []DeployAt{{"p1", wp, wn}}}}
	case 1:
		d.Placements = []Placement{placementOf("p1", pv)}
		d.Deployment = []DeployEntry{{"web", []DeployAt{{"p1", wp, wn}}}, {"db", []DeployAt{{"p1", dp, dn}}}}
	case 2:
		d.Placements = []Placement{placementOf("p2", pv+1), placementOf("p1", pv)}
		d.Deployment = []DeployEntry{{"web", []DeployAt{{"p1", wp, wn}}}, {"db", []DeployAt{{"p2", dp, dn}}}}
	case 3:
		d.Placements = []Placement{placementOf("p2", pv+1), placementOf("p1", pv)}
		d.Deployment = []DeployEntry{{"web", []DeployAt{{"p2", wp, wn + 1}, {"p1", wp, wn}}}, {"db", []DeployAt{{"p1", dp, dn}}}}
	case 4:
		d.Placements = []Placement{placementOf("p2", pv+1), placementOf("p1", pv)}
		d.Deployment = []DeployEntry{{"web", []DeployAt{{"p2", wp, wn + 1}, {"p1", wp, wn}}}}
	case 5: // both services in both placements; web with a different profile per placement
		otherProfile := "small"
		if wp == "small" {
			otherProfile = "large"
		}
		d.Placements = []Placement{placementOf("p2", pv+1), placementOf("p1", pv)}
		d.Deployment = []DeployEntry{
			{"web", []DeployAt{{"p1", wp, wn}, {"p2", otherProfile, wn}}},
			{"db", []DeployAt{{"p2", dp, dn}, {"p1", dp, dn + 1}}},
		}
	}
	return d
}

// ---------------------------------------------------------------------------------------------
// Quantity grammar: one minimal document per quantity string; the expected value is computed with
// exact rational arithmetic from the decimal text.

type quantityCase struct {
	Kind string // cpu | memory | storage
	Text string
}

func exactScaled(text string, scale uint64) (uint64, bool) {
	r, ok := new(big.Rat).SetString(text)
	if !ok {
		return 0, false
	}
	r.Mul(r, new(big.Rat).SetUint64(scale))
	if !r.IsInt() {
		return 0, false
	}
	n := r.Num()
	if !n.IsUint64() {
		return 0, false
	}
	return n.Uint64(), true
}

var byteSuffixes = []struct {
	sym  string
	unit uint64
}{
	{"", 1}, {"k", 1000}, {"Ki", 1 << 10}, {"M", 1000 * 1000}, {"Mi", 1 << 20}, {"G", 1000 * 1000 * 1000}, {"Gi", 1 << 30}, {"T", 1000 * 1000 * 1000 * 1000}, {"Ti", 1 << 40},
}

// quantityDocs enumerates the quantity grammar:
//
//	cpu:     "<n>m" for n in [10,cpuMax] ; "<i>.<f>" with 1..3 decimals and "<i>" in (0, cpuMax/1000]
//	memory:  "<i>[.<f>]<suffix>" with mantissa 0.1 .. mant (dec decimals), suffix in byteSuffixes, kept if the exact
//	         value is a whole number of bytes within [1Mi, 16Gi]
//	storage: same, within [5Mi, 1Ti]
func quantityDocs(thorough bool) []Doc {
	var out []Doc
	mk := func(c Compute) Doc {
		c.Name = "small"
		return Doc{
			Services:   []Service{{Name: "web", Image: "nginx:1.19", Expose: webExpose(0, "web")}},
			Computes:   []Compute{c},
			Placements: []Placement{{Name: "p1", Pricing: []Pricing{{"small", 50, "uakt"}}}},
			Deployment: []DeployEntry{{"web", []DeployAt{{"p1", "small", 1}}}},
		}
	}
	baseC := Compute{CPU: "100m", CPUQuote: true, CPUMilli: 100, Mem: "128Mi", MemBytes: 128 * mi, Sto: "1Gi", StoBytes: gi}

	cpuMax := uint64(4000)
	if thorough {
		cpuMax = 10000
	}
	for n := uint64(10); n <= cpuMax; n++ {
		c := baseC
		c.CPU, c.CPUMilli = fmt.Sprintf("%dm", n), n
		out = append(out, mk(c))
	}
	seen := map[string]bool{}
	for n := uint64(10); n <= cpuMax; n++ {
		forms := []string{fmt.Sprintf("%d.%03d", n/1000, n%1000)}
		if n%10 == 0 {
			forms = append(forms, fmt.Sprintf("%d.%02d", n/1000, n%1000/10))
		}
		if n%100 == 0 {
			forms = append(forms, fmt.Sprintf("%d.%d", n/1000, n%1000/100))
		}
		if n%1000 == 0 {
			forms = append(forms, fmt.Sprintf("%d", n/1000))
		}
		for _, f := range forms {
			if seen[f] {
				continue
			}
			seen[f] = true
			want, ok := exactScaled(f, 1000)
			if !ok || want != n {
				panic("cpu grammar")
			}
			for _, quoted := range []bool{false, true} {
				c := baseC
				c.CPU, c.CPUQuote, c.CPUMilli = f, quoted, n
				out = append(out, mk(c))
			}
		}
	}

	mant, dec := 200, 1 // 0.1 .. 20.0
	if thorough {
		mant, dec = 2000, 2 // 0.01 .. 20.00
	}
	pow := 10
	if dec == 2 {
		pow = 100
	}
	for _, kind := range []string{"memory", "storage"} {
		lo, hi := mi, 16*gi
		if kind == "storage" {
			lo, hi = 5*mi, uint64(1)<<40
		}
		seen := map[string]bool{}
		for _, suf := range byteSuffixes {
			var texts []string
			for m := 1; m <= mant; m++ {
				if m%pow == 0 {
					texts = append(texts, fmt.Sprintf("%d", m/pow))
				}
				if dec == 2 && m%10 == 0 {
					texts = append(texts, fmt.Sprintf("%d.%d", m/pow, m%pow/10))
				}
				texts = append(texts, fmt.Sprintf("%d.%0*d", m/pow, dec, m%pow))
			}
			// larger whole mantissas: 21..1024 and the plain byte counts around the limits
			for m := 21; m <= 1024; m++ {
				texts = append(texts, fmt.Sprintf("%d", m))
			}
			if suf.sym == "" {
				texts = []string{fmt.Sprint(lo), fmt.Sprint(lo + 1), fmt.Sprint(hi - 1), fmt.Sprint(hi), "134217728", "1000000007"}
			}
			for _, t := range texts {
				text := t + suf.sym
				if seen[text] {
					continue
				}
				seen[text] = true
				want, ok := exactScaled(t, suf.unit)
				if !ok || want < lo || want > hi {
					continue
				}
				c := baseC
				if kind == "memory" {
					c.Mem, c.MemBytes = text, want
				} else {
					c.Sto, c.StoBytes = text, want
				}
				out = append(out, mk(c))
			}
		}
	}
	return out
}
