package main

import (
	"fmt"
	"sort"
	"strings"
)

// ---------------------------------------------------------------------------------------------
// The generator's structured description of an SDL v2 document. It is the reference: every
// expectation of the faithfulness oracle is derived from these structs, never from sdl code.

type To struct {
	Service string `json:"service,omitempty"`
	Global  bool   `json:"global,omitempty"`
}

type Expose struct {
	Port   uint16   `json:"port"`
	As     uint16   `json:"as,omitempty"`    // 0: key absent
	Proto  string   `json:"proto,omitempty"` // "": key absent
	To     []To     `json:"to,omitempty"`
	Accept []string `json:"accept,omitempty"`
}

type Service struct {
	Name    string   `json:"name"`
	Image   string   `json:"image"`
	Command []string `json:"command,omitempty"`
	Args    []string `json:"args,omitempty"`
	Env     []string `json:"env,omitempty"`
	Expose  []Expose `json:"expose,omitempty"`
}

type Attr struct {
	K string `json:"k"`
	V string `json:"v"`
}

// Compute carries, next to each quantity string that is written into the YAML, the exact value the
// tenant means by it (computed by the generator with integer arithmetic).
type Compute struct {
	Name     string `json:"name"`
	CPU      string `json:"cpu"` // YAML text, e.g. "100m" or "0.5"
	CPUQuote bool   `json:"cpu_quoted"`
	CPUMilli uint64 `json:"cpu_milli"`
	Arch     string `json:"arch,omitempty"` // cpu attribute "arch"
	Mem      string `json:"mem"`
	MemBytes uint64 `json:"mem_bytes"`
	Sto      string `json:"sto"`
	StoBytes uint64 `json:"sto_bytes"`
	StoAttrs []Attr `json:"sto_attrs,omitempty"`
}

type Pricing struct {
	Profile string `json:"profile"`
	Amount  int64  `json:"amount"`
	Denom   string `json:"denom"`
}

type Placement struct {
	Name    string    `json:"name"`
	Attrs   []Attr    `json:"attrs,omitempty"` // declaration order
	AllOf   []string  `json:"all_of,omitempty"`
	AnyOf   []string  `json:"any_of,omitempty"`
	Pricing []Pricing `json:"pricing"`
}

type DeployAt struct {
	Placement string `json:"placement"`
	Profile   string `json:"profile"`
	Count     uint32 `json:"count"`
}

type DeployEntry struct {
	Service string     `json:"service"`
	At      []DeployAt `json:"at"`
}

type Doc struct {
	Services   []Service     `json:"services"`
	Computes   []Compute     `json:"computes"`
	Placements []Placement   `json:"placements"`
	Deployment []DeployEntry `json:"deployment"`
}

// Order fixes the order in which the keys of every YAML mapping under test are written.
// A nil slice means declaration order.
type Order struct {
	Top        []int   `json:"top,omitempty"`        // version, services, profiles, deployment
	Services   []int   `json:"services,omitempty"`   // services map
	Profiles   []int   `json:"profiles,omitempty"`   // compute, placement
	Compute    []int   `json:"compute,omitempty"`    // profiles.compute map
	Placement  []int   `json:"placement,omitempty"`  // profiles.placement map
	Deployment []int   `json:"deployment,omitempty"` // deployment map
	DeployAt   [][]int `json:"deploy_at,omitempty"`  // deployment.<svc> maps
	SvcFields  []int   `json:"svc_fields,omitempty"` // image, command, args, env, expose inside each service
	// StoAttrs / PlaceAttrs permute the keys of every profiles.compute.<p>.resources.storage.attributes /
	// profiles.placement.<p>.attributes mapping that has exactly len(perm) keys; RevAttrs writes all
	// attribute mappings in reverse declaration order.
	StoAttrs   []int `json:"storage_attributes,omitempty"`
	PlaceAttrs []int `json:"placement_attributes,omitempty"`
	RevAttrs   bool  `json:"reverse_attributes,omitempty"`
}

func attrOrder(p []int, rev bool, n int) []int {
	if rev {
		out := make([]int, n)
		for i := range out {
			out[i] = n - 1 - i
		}
		return out
	}
	return perm(p, n)
}

func perm(p []int, n int) []int {
	if len(p) == n {
		return p
	}
	id := make([]int, n)
	for i := range id {
		id[i] = i
	}
	return id
}

func q(s string) string { return fmt.Sprintf("%q", s) }

// Render writes the YAML text of d with the key orders of o.
func Render(d Doc, o Order) string {
	var b strings.Builder
	w := func(ind int, s string) {
		b.WriteString(strings.Repeat("  ", ind))
		b.WriteString(s)
		b.WriteString("\n")
	}
	list := func(ind int, key string, items []string) {
		w(ind, key+":")
		for _, it := range items {
			w(ind+1, "- "+q(it))
		}
	}

	sections := []func(){
		func() { w(0, `version: "2.0"`) },
		func() {
			w(0, "services:")
			for _, i := range perm(o.Services, len(d.Services)) {
				s := d.Services[i]
				w(1, s.Name+":")
				fields := []func(){
					func() { w(2, "image: "+q(s.Image)) },
					func() {
						if len(s.Command) > 0 {
							list(2, "command", s.Command)
						}
					},
					func() {
						if len(s.Args) > 0 {
							list(2, "args", s.Args)
						}
					},
					func() {
						if len(s.Env) > 0 {
							list(2, "env", s.Env)
						}
					},
					func() {
						if len(s.Expose) == 0 {
							return
						}
						w(2, "expose:")
						for _, e := range s.Expose {
							w(3, fmt.Sprintf("- port: %d", e.Port))
							if e.As != 0 {
								w(4, fmt.Sprintf("as: %d", e.As))
							}
							if e.Proto != "" {
								w(4, "proto: "+e.Proto)
							}
							if len(e.Accept) > 0 {
								list(4, "accept", e.Accept)
							}
							if len(e.To) > 0 {
								w(4, "to:")
								for _, t := range e.To {
									switch {
									case t.Global && t.Service != "":
										w(5, "- global: true")
										w(5, "  service: "+t.Service)
									case t.Global:
										w(5, "- global: true")
									default:
										w(5, "- service: "+t.Service)
									}
								}
							}
						}
					},
				}
				for _, f := range perm(o.SvcFields, len(fields)) {
					fields[f]()
				}
			}
		},
		func() {
			w(0, "profiles:")
			sub := []func(){
				func() {
					w(1, "compute:")
					for _, i := range perm(o.Compute, len(d.Computes)) {
						c := d.Computes[i]
						w(2, c.Name+":")
						w(3, "resources:")
						w(4, "cpu:")
						if c.CPUQuote {
							w(5, "units: "+q(c.CPU))
						} else {
							w(5, "units: "+c.CPU)
						}
						if c.Arch != "" {
							w(5, "attributes:")
							w(6, "arch: "+q(c.Arch))
						}
						w(4, "memory:")
						w(5, "size: "+q(c.Mem))
						w(4, "storage:")
						w(5, "size: "+q(c.Sto))
						if len(c.StoAttrs) > 0 {
							w(5, "attributes:")
							for _, i := range attrOrder(o.StoAttrs, o.RevAttrs, len(c.StoAttrs)) {
								a := c.StoAttrs[i]
								w(6, a.K+": "+q(a.V))
							}
						}
					}
				},
				func() {
					w(1, "placement:")
					for _, i := range perm(o.Placement, len(d.Placements)) {
						p := d.Placements[i]
						w(2, p.Name+":")
						if len(p.Attrs) > 0 {
							w(3, "attributes:")
							for _, i := range attrOrder(o.PlaceAttrs, o.RevAttrs, len(p.Attrs)) {
								a := p.Attrs[i]
								w(4, a.K+": "+q(a.V))
							}
						}
						if len(p.AllOf)+len(p.AnyOf) > 0 {
							w(3, "signedBy:")
							if len(p.AllOf) > 0 {
								list(4, "allOf", p.AllOf)
							}
							if len(p.AnyOf) > 0 {
								list(4, "anyOf", p.AnyOf)
							}
						}
						w(3, "pricing:")
						for _, pr := range p.Pricing {
							w(4, pr.Profile+":")
							w(5, "denom: "+pr.Denom)
							w(5, fmt.Sprintf("amount: %d", pr.Amount))
						}
					}
				},
			}
			for _, i := range perm(o.Profiles, len(sub)) {
				sub[i]()
			}
		},
		func() {
			w(0, "deployment:")
			for _, i := range perm(o.Deployment, len(d.Deployment)) {
				e := d.Deployment[i]
				w(1, e.Service+":")
				var at []int
				if i < len(o.DeployAt) {
					at = o.DeployAt[i]
				}
				for _, j := range perm(at, len(e.At)) {
					a := e.At[j]
					w(2, a.Placement+":")
					w(3, "profile: "+a.Profile)
					w(3, fmt.Sprintf("count: %d", a.Count))
				}
			}
		},
	}
	b.WriteString("---\n")
	for _, i := range perm(o.Top, len(sections)) {
		sections[i]()
	}
	return b.String()
}

// ---------------------------------------------------------------------------------------------
// Expectations, as flat field -> value tables so that a mismatch names the field.

func (d Doc) service(name string) *Service {
	for i := range d.Services {
		if d.Services[i].Name == name {
			return &d.Services[i]
		}
	}
	return nil
}

func (d Doc) compute(name string) *Compute {
	for i := range d.Computes {
		if d.Computes[i].Name == name {
			return &d.Computes[i]
		}
	}
	return nil
}

func (d Doc) placement(name string) *Placement {
	for i := range d.Placements {
		if d.Placements[i].Name == name {
			return &d.Placements[i]
		}
	}
	return nil
}

func strs(s []string) string { return fmt.Sprintf("%q", append([]string{}, s...)) }

func attrsSorted(a []Attr) string {
	out := make([]string, 0, len(a))
	for _, x := range a {
		out = append(out, x.K+"="+x.V)
	}
	sort.Strings(out)
	return fmt.Sprintf("%q", out)
}

// protoName is what the tenant means by the proto key: absent means TCP, names are
// case-insensitive.
func protoName(p string) string {
	if p == "" {
		return "TCP"
	}
	return strings.ToUpper(p)
}

// endpointKind: a globally exposed port that is reachable as TCP port 80 is served by the shared
// HTTP ingress; every other globally exposed port needs a port of its own.
func endpointKind(e Expose) string {
	ext := e.As
	if ext == 0 {
		ext = e.Port
	}
	if protoName(e.Proto) == "TCP" && ext == 80 {
		return "SHARED_HTTP"
	}
	return "RANDOM_PORT"
}

func exposeDesc(port, as uint16, proto, svc string, global bool, hosts []string) string {
	return fmt.Sprintf("port=%d as=%d proto=%s service=%s global=%v hosts=%s", port, as, proto, svc, global, strs(hosts))
}

// ExpectedManifest returns "group/service/field" -> value for everything the tenant declared
// that belongs into the manifest.
func ExpectedManifest(d Doc) map[string]string {
	m := map[string]string{}
	for _, e := range d.Deployment {
		s := d.service(e.Service)
		for _, at := range e.At {
			c := d.compute(at.Profile)
			k := at.Placement + "/" + s.Name + "/"
			m[k+"image"] = s.Image
			m[k+"command"] = strs(s.Command)
			m[k+"args"] = strs(s.Args)
			m[k+"env"] = strs(s.Env)
			m[k+"count"] = fmt.Sprint(at.Count)
			m[k+"resources.cpu"] = fmt.Sprint(c.CPUMilli)
			m[k+"resources.cpu.attributes"] = attrsSorted(archAttr(c.Arch))
			m[k+"resources.memory"] = fmt.Sprint(c.MemBytes)
			m[k+"resources.storage"] = fmt.Sprint(c.StoBytes)
			m[k+"resources.storage.attributes"] = attrsSorted(c.StoAttrs)
			var ex []string
			for _, x := range s.Expose {
				if len(x.To) == 0 {
					ex = append(ex, exposeDesc(x.Port, x.As, protoName(x.Proto), "", false, x.Accept))
				}
				for _, t := range x.To {
					ex = append(ex, exposeDesc(x.Port, x.As, protoName(x.Proto), t.Service, t.Global, x.Accept))
				}
			}
			sort.Strings(ex)
			m[k+"expose"] = strs(ex)
		}
	}
	return m
}

func archAttr(a string) []Attr {
	if a == "" {
		return nil
	}
	return []Attr{{"arch", a}}
}

// resUnit is one (anonymous) resource unit of a deployment group, field by field.
type resUnit struct {
	f map[string]string
}

var resFields = []string{"cpu", "cpu.attributes", "memory", "storage", "storage.attributes", "count", "price", "endpoints"}

func newResUnit(cpu uint64, cpuAttrs string, mem, sto uint64, stoAttrs string, count uint32, price string, kinds []string) resUnit {
	sort.Strings(kinds)
	return resUnit{f: map[string]string{
		"cpu": fmt.Sprint(cpu), "cpu.attributes": cpuAttrs, "memory": fmt.Sprint(mem), "storage": fmt.Sprint(sto),
		"storage.attributes": stoAttrs, "count": fmt.Sprint(count), "price": price, "endpoints": strs(kinds),
	}}
}

// groupTable flattens the units of one group: the multiset of whole units ("resources") and, so
// that a mismatch can name the field, the multiset of every single field ("resources.<field>").
func groupTable(m map[string]string, group string, units []resUnit) {
	var whole []string
	for _, u := range units {
		var parts []string
		for _, f := range resFields {
			parts = append(parts, f+"="+u.f[f])
		}
		whole = append(whole, strings.Join(parts, " "))
	}
	sort.Strings(whole)
	m[group+"/resources"] = strs(whole)
	for _, f := range resFields {
		var vals []string
		for _, u := range units {
			vals = append(vals, u.f[f])
		}
		sort.Strings(vals)
		m[group+"/resources."+f] = strs(vals)
	}
}

// ExpectedGroups returns "group/field" -> value. Resource units of a deployment group carry no
// name, so they are compared as a sorted multiset of descriptions.
func ExpectedGroups(d Doc) map[string]string {
	res := map[string][]resUnit{}
	for _, e := range d.Deployment {
		s := d.service(e.Service)
		for _, at := range e.At {
			c := d.compute(at.Profile)
			p := d.placement(at.Placement)
			var price Pricing
			for _, pr := range p.Pricing {
				if pr.Profile == at.Profile {
					price = pr
				}
			}
			var kinds []string
			for _, x := range s.Expose {
				for _, t := range x.To {
					if t.Global {
						kinds = append(kinds, endpointKind(x))
					}
				}
			}
			res[p.Name] = append(res[p.Name], newResUnit(c.CPUMilli, attrsSorted(archAttr(c.Arch)), c.MemBytes, c.StoBytes,
				attrsSorted(c.StoAttrs), at.Count, fmt.Sprintf("%d%s", price.Amount, price.Denom), kinds))
		}
	}
	m := map[string]string{}
	for name, r := range res {
		p := d.placement(name)
		groupTable(m, name, r)
		m[name+"/requirements.attributes"] = attrsSorted(p.Attrs)
		m[name+"/requirements.signedBy.allOf"] = strs(p.AllOf)
		m[name+"/requirements.signedBy.anyOf"] = strs(p.AnyOf)
	}
	return m
}

// Valid is the generator's own notion of a well-formed document (the grammar only emits documents
// for which it holds; the count of filtered candidates is reported):
//   - at least one globally exposed port,
//   - no hostname is claimed twice (a service with accept-hosts deployed in two placements, or an
//     expose with accept-hosts and two `to` entries, claims it twice).
func Valid(d Doc) bool {
	global := 0
	hosts := map[string]int{}
	for _, e := range d.Deployment {
		s := d.service(e.Service)
		for range e.At {
			for _, x := range s.Expose {
				n := len(x.To)
				if n == 0 {
					n = 1
				}
				for _, h := range x.Accept {
					hosts[h] += n
				}
				for _, t := range x.To {
					if t.Global {
						global++
					}
				}
			}
		}
	}
	for _, n := range hosts {
		if n > 1 {
			return false
		}
	}
	return global > 0
}
