// Command c18 decides property C18 (SDL translation is deterministic, faithful and self-consistent)
// by small-scope exhaustive enumeration: every document of a structural grammar is rendered to YAML
// (with explicit control over the order of mapping keys), pushed through the real sdl.Read /
// DeploymentGroups / Manifest / Version, and compared with expectations derived from the
// generator's own description of the document.
//
//	c18 quick|thorough
//	c18 replay <file>
package main

import (
	"encoding/json"
	"fmt"
	"os"
	"sync"
	"time"

	"verif.local/verif/evlib"
	"verif.local/verif/inputmc/imc"
)

const prop = "C18"

func main() {
	if len(os.Args) < 2 {
		fmt.Fprintln(os.Stderr, "usage: c18 quick|thorough|replay <file>")
		os.Exit(2)
	}
	switch os.Args[1] {
	case "quick", "thorough":
		os.Exit(run(os.Args[1]))
	case "replay":
		if len(os.Args) < 3 {
			fmt.Fprintln(os.Stderr, "usage: c18 replay <file>")
			os.Exit(2)
		}
		os.Exit(replay(os.Args[2]))
	default:
		fmt.Fprintln(os.Stderr, "unknown mode", os.Args[1])
		os.Exit(2)
	}
}

func run(tier string) int {
	start := time.Now()
	rep := imc.NewReporter(prop)
	sc, permMode, budget := quickScope(), 1, 105*time.Second
	if tier == "thorough" {
		sc, permMode, budget = thoroughScope(), 2, 17*time.Minute
	}
	dl := imc.NewDeadline(budget)

	docs, illformed := Enumerate(sc)
	qdocs := quantityDocs(tier == "thorough")

	var mu sync.Mutex
	distinct := map[[32]byte]bool{}
	distinctNT := map[[32]byte]bool{}
	counters := imc.NewCounters()
	sampler := imc.NewSampler(2)

	work := func(set []Doc, class string, mode int) int64 {
		kind := kindDocument
		switch class {
		case "quantity":
			kind = kindQuantity
		case "illformed":
			kind = kindIllFormed
		}
		return imc.ForEach(int64(len(set)), 8, dl, func(_ int, i int64) {
			d := set[i]
			st := checkDoc(d, kind, mode, rep)
			mu.Lock()
			if st.ok {
				distinct[st.digest] = true
				if st.nontriv || class == "quantity" {
					distinctNT[st.digest] = true
				}
			}
			mu.Unlock()
			l := imc.Local{"reads": st.reads, "reorderings_parsed": int64(st.rendered), "documents/" + class: 1}
			if st.ok {
				l["accepted_by_Read/"+class]++
			} else {
				l["rejected_by_Read/"+class]++
			}
			counters.Merge(l)
			sampler.Offer(class, func() interface{} {
				return map[string]interface{}{"sdl": Render(d, Order{}), "reorderings_parsed": st.rendered}
			})
		})
	}
	// cheap grammar first so that a deadline never starves it
	doneQ := work(qdocs, "quantity", 0)
	doneI := work(illformed, "illformed", 0)
	ndocs, nill := Enumerate(namesScope())
	doneN := work(ndocs, "names", permMode) + work(nill, "illformed", 0)
	doneD := work(docs, "document", permMode)

	exhaustive := doneQ == int64(len(qdocs)) && doneD == int64(len(docs)) && doneI == int64(len(illformed)) && doneN == int64(len(ndocs)+len(nill))
	c := counters.Map()
	cov := evlib.Coverage{
		Evaluations:        c["reads"],
		DistinctNontrivial: int64(len(distinctNT)),
		Rule: "evaluations = calls of the real sdl.Read (+DeploymentGroups, Manifest, Version, ValidateManifestWithGroupSpecs) on generated YAML texts. " +
			"Document grammar (" + sc.Name + "): " + sc.Describe() + "; every candidate of the product that is well-formed (>=1 global port, no hostname claimed twice) is a document. " +
			permRule + ". Quantity grammar: one minimal document per cpu / memory / storage quantity string (see extras.quantity_grammar), expectation by exact rational arithmetic. " +
			"distinct_nontrivial = number of distinct (DeploymentGroups JSON, Manifest JSON) outputs, counted by sha256, over documents that have more than one " +
			"service, placement or deployment entry, plus the distinct outputs of the quantity grammar. The property is one-sided (it speaks about valid documents): " +
			"accepted_by_Read/* and rejected_by_Read/* in extras.class_counts give both populations.",
		Samples:    sampler.Samples(),
		Exhaustive: exhaustive,
		Extra: map[string]interface{}{
			"documents_in_grammar":          len(docs),
			"name_documents_in_grammar":     len(ndocs),
			"name_grammar":                  namesScope().Describe(),
			"runs_per_document":             fmt.Sprintf("2 fresh parse+derive runs; %d when two names of one map differ only in letter case", tieRuns),
			"documents_checked":             doneD,
			"illformed_candidates":          len(illformed),
			"illformed_candidates_checked":  doneI,
			"quantity_documents_in_grammar": len(qdocs),
			"quantity_documents_checked":    doneQ,
			"distinct_outputs_all":          len(distinct),
			"class_counts":                  c,
			"quantity_grammar": "cpu: <n>m and decimal forms with 1-3 decimals (quoted and unquoted) of every n milli-cpu in [10, 4000 quick | 10000 thorough]; " +
				"memory/storage: mantissas 0.1..20.0 (thorough 0.01..20.00) and 21..1024 with suffixes {none,k,Ki,M,Mi,G,Gi,T,Ti}, kept when the exact value is a whole number of bytes inside the unit limits",
			"workers": imc.Workers(),
		},
	}
	return imc.Finish(rep, tier, start, cov, []string{
		"the generator's structured description of a document is the reference for faithfulness; expectations never call sdl code",
		"key orders are bounded as stated in rule; YAML features outside the emitted subset (anchors, flow style, comments) are not covered",
		"resource units of a deployment group are anonymous, so they are compared as a multiset per group",
		fmt.Sprintf("dependence on Go's randomised map iteration is looked for by repetition of the runtime's choice, not by sampling inputs: documents with a case-only name tie are parsed and derived %d times and all outputs compared (a 2-key tie left to map order escapes with probability 2^-%d per document); independently, the order of groups / manifest groups is compared with the byte-wise ascending name order on every document, which is deterministic", tieRuns, tieRuns-1),
	})
}

func replay(path string) int {
	raw, err := os.ReadFile(path)
	if err != nil {
		fmt.Println("MACHINERY-FAILURE cannot read replay:", err)
		return 2
	}
	var file struct {
		Signature string      `json:"signature"`
		Input     replayInput `json:"input"`
	}
	if err := json.Unmarshal(raw, &file); err != nil {
		fmt.Println("MACHINERY-FAILURE cannot parse replay:", err)
		return 2
	}
	if got := Render(file.Input.Doc, Order{}); got != file.Input.SDL {
		fmt.Println("MACHINERY-FAILURE replay divergence: the stored SDL text is not what the generator renders for the stored document")
		return 2
	}
	rep := imc.NewReporter(prop)
	rep.ReplayOf = path
	// the stored order first (if any), then the standard set
	if o := file.Input.Order; o != nil {
		_, a, errA := translate(file.Input.SDL)
		_, b, errB := translate(Render(file.Input.Doc, *o))
		if errA == nil && errB == nil {
			if f, ok := a.equal(b); !ok {
				fmt.Printf("stored key order reproduces a difference in %s\n", f)
			}
		}
	}
	checkDoc(file.Input.Doc, file.Input.Kind, 2, rep)
	fmt.Printf("replaying %s (recorded signature %q)\n%s", path, file.Signature, file.Input.SDL)
	code := rep.Print()
	if code == 0 {
		fmt.Println("replay: no violation reproduced")
	}
	return code
}
