package main

import (
	"bytes"
	"crypto/sha256"
	"encoding/hex"
	"encoding/json"
	"fmt"
	"reflect"
	"sort"

	sdk "github.com/cosmos/cosmos-sdk/types"

	"github.com/ovrclk/akash/manifest"
	"github.com/ovrclk/akash/sdl"
	atypes "github.com/ovrclk/akash/types"

	"verif.local/verif/inputmc/imc"
)

// ---------------------------------------------------------------------------------------------
// Hash clause: "The hash does not depend on serialization order and changes when any manifest
// field changes."
//
//   sensitivity : for each base manifest, EVERY single-field mutation reachable by walking the Go
//                 value (every string, number, bool, quantity; for every slice: drop last, duplicate
//                 last, swap the first two distinct elements, append one; for nil pointers: allocate)
//                 must change sdl.ManifestVersion.
//   order       : for each base manifest, the JSON encoding is re-written with the keys of its
//                 objects permuted; decoding it the way the provider's gateway does
//                 (encoding/json into manifest.Manifest) and hashing must give the base version,
//                 and sorting the permuted bytes must give the bytes that were hashed.

func richManifest() manifest.Manifest {
	unit := func(cpu, mem, sto uint64) atypes.ResourceUnits {
		return atypes.ResourceUnits{
			CPU:       &atypes.CPU{Units: atypes.NewResourceValue(cpu), Attributes: atypes.Attributes{{Key: "arch", Value: "amd64"}}},
			Memory:    &atypes.Memory{Quantity: atypes.NewResourceValue(mem), Attributes: atypes.Attributes{{Key: "kind", Value: "ecc"}}},
			Storage:   &atypes.Storage{Quantity: atypes.NewResourceValue(sto), Attributes: atypes.Attributes{{Key: "class", Value: "ssd"}, {Key: "zone", Value: "a"}}},
			Endpoints: []atypes.Endpoint{{Kind: atypes.Endpoint_SHARED_HTTP}, {Kind: atypes.Endpoint_RANDOM_PORT}},
		}
	}
	return manifest.Manifest{
		{
			Name: "westcoast",
			Services: []manifest.Service{
				{
					Name: "web", Image: "nginx:1.19", Command: []string{"/bin/sh", "-c"}, Args: []string{"--port=80", "-v"}, Env: []string{"A=1", "B=2"},
					Resources: unit(100, 128<<20, 1<<30), Count: 2,
					Expose: []manifest.ServiceExpose{
						{Port: 8080, ExternalPort: 80, Proto: manifest.TCP, Service: "", Global: true, Hosts: []string{"a.example.com", "b.example.com"}},
						{Port: 53, ExternalPort: 5353, Proto: manifest.UDP, Service: "db", Global: false, Hosts: []string{"c.example.com"}},
					},
				},
				{
					Name: "db", Image: "postgres:13", Command: []string{"postgres"}, Args: []string{"-c", "max_connections=10"}, Env: []string{"PGDATA=/data"},
					Resources: unit(500, 1<<30, 10<<30), Count: 1,
					Expose: []manifest.ServiceExpose{{Port: 5432, ExternalPort: 5432, Proto: manifest.TCP, Service: "web", Global: false, Hosts: []string{"d.example.com"}}},
				},
			},
		},
		{
			Name: "eastcoast",
			Services: []manifest.Service{
				{
					Name: "cache", Image: "redis:6", Command: []string{"redis-server"}, Args: []string{"--appendonly", "yes"}, Env: []string{"X=y"},
					Resources: unit(250, 64<<20, 5<<20), Count: 3,
					Expose: []manifest.ServiceExpose{{Port: 6379, ExternalPort: 16379, Proto: manifest.TCP, Service: "", Global: true, Hosts: []string{"e.example.com"}}},
				},
			},
		},
	}
}

func minimalManifest() manifest.Manifest {
	return manifest.Manifest{{
		Name: "g",
		Services: []manifest.Service{{
			Name: "web", Image: "nginx",
			Resources: atypes.ResourceUnits{
				CPU:     &atypes.CPU{Units: atypes.NewResourceValue(100)},
				Memory:  &atypes.Memory{Quantity: atypes.NewResourceValue(128 << 20)},
				Storage: &atypes.Storage{Quantity: atypes.NewResourceValue(1 << 30)},
			},
			Count:  1,
			Expose: []manifest.ServiceExpose{{Port: 80, Proto: manifest.TCP, Global: true}},
		}},
	}}
}

const hashBaseSDL = `---
version: "2.0"
services:
  web:
    image: nginx
    args: ["-g", "daemon off;"]
    env: ["A=1"]
    expose:
      - port: 80
        to:
          - global: true
          - service: db
      - port: 12345
        proto: udp
        to:
          - global: true
  db:
    image: postgres
    expose:
      - port: 5432
        accept: [ahostname.com]
        to:
          - service: web
profiles:
  compute:
    web:
      resources:
        cpu: {units: "100m"}
        memory: {size: "128Mi"}
        storage: {size: "1Gi"}
    db:
      resources:
        cpu: {units: 1, attributes: {arch: amd64}}
        memory: {size: "1Gi"}
        storage: {size: "10Gi", attributes: {class: default}}
  placement:
    westcoast:
      attributes: {region: us-west}
      pricing:
        web: {denom: uakt, amount: 50}
        db: {denom: uakt, amount: 60}
    eastcoast:
      pricing:
        web: {denom: uakt, amount: 50}
deployment:
  web:
    westcoast: {profile: web, count: 2}
    eastcoast: {profile: web, count: 1}
  db:
    westcoast: {profile: db, count: 1}
`

func sdlManifest() (manifest.Manifest, error) {
	s, err := sdl.Read([]byte(hashBaseSDL))
	if err != nil {
		return nil, err
	}
	return s.Manifest()
}

type hashBase struct {
	name string
	mk   func() manifest.Manifest
}

var (
	typeSDKInt = reflect.TypeOf(sdk.Int{})
)

// walkMutations visits every single-field mutation of *root in a fixed order. visit is called
// with a description after the mutation has been applied; the caller gets a fresh copy for every
// mutation, selected by ordinal (target); the function returns the number of mutations it passed.
type mutator struct {
	target int
	seen   int
	desc   string
}

func (mu *mutator) hit() bool {
	mu.seen++
	return mu.seen-1 == mu.target
}

func (mu *mutator) walk(v reflect.Value, path string) bool {
	if v.Type() == typeSDKInt {
		if mu.hit() {
			old := v.Interface().(sdk.Int)
			if old.IsNil() {
				v.Set(reflect.ValueOf(sdk.NewInt(1)))
			} else {
				v.Set(reflect.ValueOf(old.AddRaw(1)))
			}
			mu.desc = path + ": +1"
			return true
		}
		return false
	}
	switch v.Kind() {
	case reflect.String:
		if mu.hit() {
			v.SetString(v.String() + "x")
			mu.desc = path + ": append \"x\""
			return true
		}
	case reflect.Uint8, reflect.Uint16, reflect.Uint32, reflect.Uint64, reflect.Uint:
		if mu.hit() {
			v.SetUint(v.Uint() + 1)
			mu.desc = path + ": +1"
			return true
		}
	case reflect.Int8, reflect.Int16, reflect.Int32, reflect.Int64, reflect.Int:
		if mu.hit() {
			v.SetInt(v.Int() + 1)
			mu.desc = path + ": +1"
			return true
		}
	case reflect.Bool:
		if mu.hit() {
			v.SetBool(!v.Bool())
			mu.desc = path + ": flip"
			return true
		}
	case reflect.Ptr:
		if v.IsNil() {
			if mu.hit() {
				v.Set(reflect.New(v.Type().Elem()))
				mu.desc = path + ": nil -> zero value"
				return true
			}
			return false
		}
		return mu.walk(v.Elem(), path)
	case reflect.Struct:
		for i := 0; i < v.NumField(); i++ {
			f := v.Field(i)
			if !f.CanSet() {
				continue
			}
			if mu.walk(f, path+"."+v.Type().Field(i).Name) {
				return true
			}
		}
	case reflect.Slice:
		n := v.Len()
		for i := 0; i < n; i++ {
			if mu.walk(v.Index(i), fmt.Sprintf("%s[%d]", path, i)) {
				return true
			}
		}
		if n > 0 {
			if mu.hit() {
				v.Set(v.Slice(0, n-1))
				mu.desc = path + ": drop last element"
				return true
			}
			if mu.hit() {
				v.Set(reflect.Append(v, v.Index(n-1)))
				mu.desc = path + ": duplicate last element"
				return true
			}
			// swap the first pair of distinct neighbours (order of lists is meaningful)
			for i := 0; i+1 < n; i++ {
				a, b := v.Index(i).Interface(), v.Index(i+1).Interface()
				if !reflect.DeepEqual(a, b) {
					if mu.hit() {
						tmp := reflect.New(v.Type().Elem()).Elem()
						tmp.Set(v.Index(i))
						v.Index(i).Set(v.Index(i + 1))
						v.Index(i + 1).Set(tmp)
						mu.desc = fmt.Sprintf("%s: swap [%d] and [%d]", path, i, i+1)
						return true
					}
					break
				}
			}
		}
		if mu.hit() {
			el := reflect.New(v.Type().Elem()).Elem()
			if el.Kind() == reflect.String {
				el.SetString("x")
			}
			v.Set(reflect.Append(v, el))
			mu.desc = path + ": append one element"
			return true
		}
	}
	return false
}

type hashReplay struct {
	Kind     string          `json:"kind"`
	Base     string          `json:"base"`
	Mutation string          `json:"mutation,omitempty"`
	Ordinal  int             `json:"mutation_ordinal,omitempty"`
	Manifest json.RawMessage `json:"manifest"`
	Other    json.RawMessage `json:"other_encoding,omitempty"`
	BaseHash string          `json:"base_version"`
	Hash     string          `json:"version"`
}

func version(m manifest.Manifest) (string, error) {
	v, err := sdl.ManifestVersion(m)
	if err != nil {
		return "", err
	}
	return hex.EncodeToString(v), nil
}

func hashBases() ([]hashBase, error) {
	if _, err := sdlManifest(); err != nil {
		return nil, fmt.Errorf("base SDL of the hash check is not readable: %w", err)
	}
	return []hashBase{
		{"rich", richManifest},
		{"minimal", minimalManifest},
		{"from-sdl", func() manifest.Manifest { m, _ := sdlManifest(); return m }},
	}, nil
}

// runHashSensitivity: every single-field mutation of every base changes the version.
func runHashSensitivity(bases []hashBase, rep *imc.Reporter, counters *imc.Counters, sampler *imc.Sampler) {
	for _, b := range bases {
		baseV, err := version(b.mk())
		if err != nil {
			rep.Machinery(fmt.Errorf("ManifestVersion(%s): %w", b.name, err))
			return
		}
		hashes := map[string]bool{baseV: true}
		for k := 0; ; k++ {
			m := b.mk()
			mu := &mutator{target: k}
			if !mu.walk(reflect.ValueOf(&m).Elem(), "manifest") {
				break
			}
			v, err := version(m)
			counters.Add("evaluations", 1)
			counters.Add("hash_mutations/"+b.name, 1)
			if err != nil {
				rep.Violation("hash/error-on-mutated-manifest", "ManifestVersion fails on a mutated manifest: "+err.Error(), func() interface{} {
					return hashReplay{Kind: "hash-mutation", Base: b.name, Mutation: mu.desc, Ordinal: k, Manifest: imc.JSON(m), BaseHash: baseV}
				})
				continue
			}
			if v == baseV {
				rep.Violation("hash/insensitive", "a changed manifest field leaves the version unchanged: "+mu.desc, func() interface{} {
					return hashReplay{Kind: "hash-mutation", Base: b.name, Mutation: mu.desc, Ordinal: k, Manifest: imc.JSON(m), BaseHash: baseV, Hash: v}
				})
			}
			hashes[v] = true
			desc := mu.desc
			sampler.Offer("hash-mutation/"+b.name, func() interface{} { return map[string]string{"base": b.name, "mutation": desc, "version": v} })
		}
		counters.Add("hash_distinct_versions/"+b.name, int64(len(hashes)))
	}
}

// ---- JSON key reordering -------------------------------------------------------------------

type jnode struct {
	kind  byte // 'o' object, 'a' array, 'v' scalar
	keys  []string
	vals  []*jnode
	raw   json.RawMessage
	order []int // emission order of keys (objects)
}

func parseJSON(raw []byte) (*jnode, error) {
	dec := json.NewDecoder(bytes.NewReader(raw))
	dec.UseNumber()
	return parseNode(dec)
}

func parseNode(dec *json.Decoder) (*jnode, error) {
	tok, err := dec.Token()
	if err != nil {
		return nil, err
	}
	switch t := tok.(type) {
	case json.Delim:
		switch t {
		case '{':
			n := &jnode{kind: 'o'}
			for dec.More() {
				k, err := dec.Token()
				if err != nil {
					return nil, err
				}
				v, err := parseNode(dec)
				if err != nil {
					return nil, err
				}
				n.keys = append(n.keys, k.(string))
				n.vals = append(n.vals, v)
			}
			_, err := dec.Token()
			return n, err
		case '[':
			n := &jnode{kind: 'a'}
			for dec.More() {
				v, err := parseNode(dec)
				if err != nil {
					return nil, err
				}
				n.vals = append(n.vals, v)
			}
			_, err := dec.Token()
			return n, err
		}
		return nil, fmt.Errorf("unexpected delimiter %v", t)
	default:
		b, err := json.Marshal(tok)
		return &jnode{kind: 'v', raw: b}, err
	}
}

func (n *jnode) objects(out *[]*jnode) {
	if n.kind == 'o' {
		*out = append(*out, n)
	}
	for _, v := range n.vals {
		v.objects(out)
	}
}

func (n *jnode) emit(b *bytes.Buffer) {
	switch n.kind {
	case 'v':
		b.Write(n.raw)
	case 'a':
		b.WriteByte('[')
		for i, v := range n.vals {
			if i > 0 {
				b.WriteByte(',')
			}
			v.emit(b)
		}
		b.WriteByte(']')
	case 'o':
		b.WriteByte('{')
		ord := n.order
		if len(ord) != len(n.keys) {
			ord = nil
		}
		for i := range n.keys {
			j := i
			if ord != nil {
				j = ord[i]
			}
			if i > 0 {
				b.WriteByte(',')
			}
			k, _ := json.Marshal(n.keys[j])
			b.Write(k)
			b.WriteByte(':')
			n.vals[j].emit(b)
		}
		b.WriteByte('}')
	}
}

// runHashOrder: key orders of the JSON encoding do not matter.
func runHashOrder(bases []hashBase, rep *imc.Reporter, counters *imc.Counters, sampler *imc.Sampler) {
	for _, b := range bases {
		base := b.mk()
		baseV, err := version(base)
		if err != nil {
			rep.Machinery(err)
			return
		}
		raw, err := json.Marshal(base)
		if err != nil {
			rep.Machinery(err)
			return
		}
		sortedBase, err := sdk.SortJSON(raw)
		if err != nil {
			rep.Machinery(err)
			return
		}
		if got := sha256.Sum256(sortedBase); hex.EncodeToString(got[:]) != baseV {
			rep.Violation("hash/not-sha256-of-sorted-json", "ManifestVersion is not the sha256 of the sorted JSON encoding", func() interface{} {
				return hashReplay{Kind: "hash-order", Base: b.name, Manifest: raw, BaseHash: baseV, Hash: hex.EncodeToString(got[:])}
			})
		}
		root, err := parseJSON(raw)
		if err != nil {
			rep.Machinery(err)
			return
		}
		var objs []*jnode
		root.objects(&objs)
		check := func(what string) {
			var buf bytes.Buffer
			root.emit(&buf)
			enc := append([]byte(nil), buf.Bytes()...)
			counters.Add("evaluations", 1)
			counters.Add("hash_reorderings/"+b.name, 1)
			viol := func(sig, msg, v string) {
				rep.Violation(sig, msg+" ("+what+")", func() interface{} {
					return hashReplay{Kind: "hash-order", Base: b.name, Mutation: what, Manifest: raw, Other: enc, BaseHash: baseV, Hash: v}
				})
			}
			var back manifest.Manifest
			if err := json.Unmarshal(enc, &back); err != nil {
				viol("hash/reordered-json-not-decodable", "a reordered encoding does not decode: "+err.Error(), "")
				return
			}
			v, err := version(back)
			if err != nil {
				viol("hash/error", err.Error(), "")
				return
			}
			if v != baseV {
				viol("hash/order-dependent", "a manifest decoded from a reordered JSON encoding has a different version", v)
			}
			s2, err := sdk.SortJSON(enc)
			if err != nil || !bytes.Equal(s2, sortedBase) {
				viol("hash/sortjson-order-dependent", "sorting a reordered encoding does not give the canonical bytes", "")
			}
			sampler.Offer("hash-order/"+b.name, func() interface{} {
				return map[string]string{"base": b.name, "reordering": what, "encoding": string(enc), "version": v}
			})
		}
		// identity round trip, every object one at a time in every permutation (24 at most,
		// plus all rotations), all objects reversed, all objects sorted descending
		check("identity")
		for i, o := range objs {
			n := len(o.keys)
			perms := imc.Perms(n, 24)[1:]
			for r := 1; r < n; r++ {
				p := make([]int, n)
				for j := range p {
					p[j] = (j + r) % n
				}
				perms = append(perms, p)
			}
			for _, p := range perms {
				o.order = p
				check(fmt.Sprintf("object #%d keys %v in order %v", i, o.keys, p))
			}
			o.order = nil
		}
		for _, o := range objs {
			n := len(o.keys)
			o.order = make([]int, n)
			for j := range o.order {
				o.order[j] = n - 1 - j
			}
		}
		check("all objects reversed")
		for _, o := range objs {
			idx := make([]int, len(o.keys))
			for j := range idx {
				idx[j] = j
			}
			sort.Slice(idx, func(a, b int) bool { return o.keys[idx[a]] > o.keys[idx[b]] })
			o.order = idx
		}
		check("all objects in descending key order")
	}
}
