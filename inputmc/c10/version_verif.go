//go:build verif

package main

import (
	"bytes"
	"encoding/hex"
	"fmt"

	"github.com/ovrclk/akash/manifest"
	pmanifest "github.com/ovrclk/akash/provider/manifest"
	"github.com/ovrclk/akash/sdl"

	"verif.local/verif/inputmc/imc"
)

// ---------------------------------------------------------------------------------------------
// Version clause: "The provider accepts a manifest for a deployment only if its hash equals the
// version recorded on chain for that deployment".
//
// Enumerated: every chain history c0..cn (n <= 2) over an alphabet of 7 version values
// (the versions of 4 manifests, nil, a truncated and a bit-flipped version), every way the manager
// can have learned about it -- it observes the update events s+1..n (s in 0..n), its deployment
// query saw c_f (f in s..n), and p of the observed events (p in 0..n-s) were delivered before the
// answer of the query was installed -- and every submitted manifest of the alphabet. The verdict
// is taken after all events were delivered. Oracle: accept <=> version(submitted) == c_n and the
// submitted manifest equals the on-chain groups (manifest #3 has a different cpu quantity).

var versionGroups = []DGroup{{Name: "g1", Entries: []DEntry{{Unit: 0, Count: 2, Endpoints: []int{kindShared}}}}}

func versionManifests() [][]MGroup {
	web := func(unit int) []MGroup {
		return []MGroup{{Name: "g1", Services: []MService{{Unit: unit, Count: 2, Expose: []int{0}}}}}
	}
	return [][]MGroup{web(0), web(0), web(0), web(1)}
}

func versionAlphabet() (manifests []manifestCase, chainVals [][]byte, err error) {
	for i, mg := range versionManifests() {
		m := manifestOf(mg)
		// the three matching manifests differ in image / env only
		switch i {
		case 1:
			m[0].Services[0].Image = "registry.example/app:2"
		case 2:
			m[0].Services[0].Env = []string{"MODE=b"}
		}
		v, err := sdl.ManifestVersion(m)
		if err != nil {
			return nil, nil, err
		}
		manifests = append(manifests, manifestCase{model: mg, m: m, version: v})
	}
	for i := range manifests {
		for j := range manifests {
			if i != j && bytes.Equal(manifests[i].version, manifests[j].version) {
				return nil, nil, fmt.Errorf("version alphabet: manifests %d and %d have the same version", i, j)
			}
		}
		chainVals = append(chainVals, manifests[i].version)
	}
	v0 := manifests[0].version
	flipped := append([]byte(nil), v0...)
	flipped[len(flipped)-1] ^= 1
	chainVals = append(chainVals, nil, v0[:len(v0)-1], flipped)
	return manifests, chainVals, nil
}

func akashManifests(ms []manifestCase) interface{} {
	var out []interface{}
	for _, m := range ms {
		out = append(out, imc.JSON(m.m))
	}
	return out
}

type manifestCase struct {
	model   []MGroup
	m       manifest.Manifest
	version []byte
}

func runVersion(rep *imc.Reporter, counters *imc.Counters, sampler *imc.Sampler) bool {
	manifests, chainVals, err := versionAlphabet()
	if err != nil {
		rep.Machinery(err)
		return false
	}
	groups := chainGroups(versionGroups)
	hexes := func(vs [][]byte) []string {
		var out []string
		for _, v := range vs {
			out = append(out, hex.EncodeToString(v))
		}
		return out
	}
	var alphaHex []string
	for _, m := range manifests {
		alphaHex = append(alphaHex, hex.EncodeToString(m.version))
	}
	nv := len(chainVals)
	for n := 0; n <= 2; n++ {
		for _, hist := range product(nv, n+1) {
			chain := make([][]byte, 0, n+1)
			for _, x := range hist {
				chain = append(chain, chainVals[x])
			}
			latest := chain[n]
			for s := 0; s <= n; s++ {
				for f := s; f <= n; f++ {
					for p := 0; p <= n-s; p++ {
						for sub := range manifests {
							mgr := pmanifest.VerifNewManager()
							for e := s + 1; e <= s+p; e++ {
								mgr.Update(chain[e])
							}
							mgr.InstallData(chain[f], groups)
							for e := s + p + 1; e <= n; e++ {
								mgr.Update(chain[e])
							}
							err := mgr.Validate(manifests[sub].m)
							counters.Add("evaluations", 1)
							counters.Add("version_triples", 1)
							want := bytes.Equal(manifests[sub].version, latest) && oracleCross(versionGroups, manifests[sub].model)
							got := err == nil
							class := "version/oracle_reject"
							if want {
								class = "version/oracle_accept"
							}
							counters.Add(class, 1)
							mk := func() interface{} {
								return versionReplay{Kind: "version", Chain: hexes(chain), Observed: s + 1, QuerySaw: f, Before: p, Submitted: sub,
									Alphabet: alphaHex, Manifests: akashManifests(manifests), Groups: imc.JSON(groups), Oracle: want, Real: errStr(err)}
							}
							if n > 0 && (want || bytes.Equal(manifests[sub].version, chain[0])) {
								counters.Add("version/nontrivial", 1) // history with updates where the submitted version occurs
								sampler.Offer(class, mk)
							}
							switch {
							case got && !want:
								rep.Violation("version/false-accept", "validateRequest accepts a manifest whose version is not the latest on-chain version (or whose resources differ)", mk)
							case !got && want:
								rep.Violation("version/false-reject", "validateRequest rejects the manifest whose version is the latest on-chain version: "+err.Error(), mk)
							}
						}
					}
				}
			}
		}
	}
	return true
}

func replayVersion(in versionReplay, rep *imc.Reporter) {
	manifests, _, err := versionAlphabet()
	if err != nil {
		rep.Machinery(err)
		return
	}
	var chain [][]byte
	for _, h := range in.Chain {
		b, err := hex.DecodeString(h)
		if err != nil {
			rep.Machinery(err)
			return
		}
		if len(b) == 0 {
			b = nil
		}
		chain = append(chain, b)
	}
	n, s, f, p := len(chain)-1, in.Observed-1, in.QuerySaw, in.Before
	mgr := pmanifest.VerifNewManager()
	for e := s + 1; e <= s+p; e++ {
		mgr.Update(chain[e])
	}
	mgr.InstallData(chain[f], chainGroups(versionGroups))
	for e := s + p + 1; e <= n; e++ {
		mgr.Update(chain[e])
	}
	err = mgr.Validate(manifests[in.Submitted].m)
	want := bytes.Equal(manifests[in.Submitted].version, chain[n]) && oracleCross(versionGroups, manifests[in.Submitted].model)
	fmt.Printf("replay version triple: oracle accepts=%v, validateRequest: %s\n", want, errStr(err))
	mk := func() interface{} { return in }
	if (err == nil) && !want {
		rep.Violation("version/false-accept", "validateRequest accepts a manifest whose version is not the latest on-chain version", mk)
	}
	if err != nil && want {
		rep.Violation("version/false-reject", "validateRequest rejects the manifest whose version is the latest on-chain version: "+err.Error(), mk)
	}
}

// runProviderPairs pushes every pair of the groups grammar (C) through the real
// manager.validateRequest with the on-chain version set to the version of the submitted manifest:
// what remains is the composition ValidateManifest + ValidateManifestWithDeployment (+ hostname check).
func runProviderPairs(ds []dCase, ms []mCase, rep *imc.Reporter, counters *imc.Counters, dl *imc.Deadline) (done, total int64) {
	nm := int64(len(ms))
	total = int64(len(ds)) * nm
	versions := make([][]byte, len(ms))
	for i := range ms {
		v, err := sdl.ManifestVersion(ms[i].manifest)
		if err != nil {
			rep.Machinery(err)
			return 0, total
		}
		versions[i] = v
	}
	locals := make([]pairCounters, imc.Workers())
	done = imc.ForEach(total, 128, dl, func(w int, i int64) {
		d, m := &ds[i/nm], &ms[i%nm]
		l := &locals[w]
		mgr := pmanifest.VerifNewManager()
		mgr.InstallData(versions[i%nm], d.chain)
		err := mgr.Validate(m.manifest)
		l.evals++
		l.pairs++
		want := oracleCross(d.model, m.model)
		mk := func() interface{} {
			return crossReplay{Kind: "provider-pair", Grammar: "C/validateRequest", Groups: d.model, Manifest: m.model, UnitAlphabet: unitAlphabet, ExposeAlphabet: exposeAlphabet,
				ChainGroups: imc.JSON(d.chain), AkashManifest: imc.JSON(m.manifest), Oracle: want, Real: map[string]string{"manager.validateRequest": errStr(err)}}
		}
		if err == nil {
			l.provAccept++
		} else {
			l.provReject++
		}
		if err == nil && !want {
			rep.Violation("provider/validateRequest-false-accept", "manager.validateRequest accepts a manifest that does not equal the on-chain groups", mk)
		}
		if err != nil && want && hasGlobal(m.model) {
			rep.Violation("provider/validateRequest-false-reject", "manager.validateRequest rejects a manifest that equals the on-chain groups: "+err.Error(), mk)
		}
	})
	for i := range locals {
		counters.Merge(locals[i].local("C/validateRequest"))
	}
	return
}
