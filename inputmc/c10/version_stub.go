//go:build !verif

package main

import "verif.local/verif/inputmc/imc"

// Without the in-package harness (build tag verif + overlay) the version clause cannot be checked.
func runVersion(rep *imc.Reporter, counters *imc.Counters, sampler *imc.Sampler) bool {
	rep.Machinery(errNoHarness)
	return false
}

func runProviderPairs(ds []dCase, ms []mCase, rep *imc.Reporter, counters *imc.Counters, dl *imc.Deadline) (int64, int64) {
	rep.Machinery(errNoHarness)
	return 0, 0
}

func replayVersion(in versionReplay, rep *imc.Reporter) { rep.Machinery(errNoHarness) }
