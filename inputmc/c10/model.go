package main

import (
	"fmt"

	sdk "github.com/cosmos/cosmos-sdk/types"

	"github.com/ovrclk/akash/manifest"
	atypes "github.com/ovrclk/akash/types"
	dtypes "github.com/ovrclk/akash/x/deployment/types"
)

// ---------------------------------------------------------------------------------------------
// Compact description of the two sides of the comparison. The oracle (oracle.go) only reads these
// structs; the real akash values are built from them below.

// Unit is one compute resource unit.
type Unit struct {
	CPU      uint64 `json:"cpu_milli"`
	Mem      uint64 `json:"memory"`
	Sto      uint64 `json:"storage"`
	CPUAttrs []KV   `json:"cpu_attributes,omitempty"`
	MemAttrs []KV   `json:"memory_attributes,omitempty"`
	StoAttrs []KV   `json:"storage_attributes,omitempty"`
}

// KV is one attribute of a resource, in list position.
type KV struct {
	K string `json:"key"`
	V string `json:"value"`
}

const (
	baseCPU = 100
	baseMem = 128 << 20
	baseSto = 1 << 30
)

// unitAlphabet: a base unit, and units that differ from it in exactly one field by the smallest
// possible amount.
var unitAlphabet = buildUnitAlphabet()

// attrVariants: attribute lists relative to the canonical pair {class=ssd, zone=a}.
var attrVariants = []struct {
	name string
	kv   []KV
}{
	{"canonical", []KV{{"class", "ssd"}, {"zone", "a"}}},
	{"duplicate-first", []KV{{"class", "ssd"}, {"class", "ssd"}}}, // same length, one entry repeated in place of the other
	{"reordered", []KV{{"zone", "a"}, {"class", "ssd"}}},
	{"duplicate-second", []KV{{"zone", "a"}, {"zone", "a"}}},
	{"superset", []KV{{"class", "ssd"}, {"zone", "a"}, {"tier", "x"}}},
	{"subset", []KV{{"class", "ssd"}}},
	{"other-value", []KV{{"class", "ssd"}, {"zone", "b"}}},
}

// attrUnitFirst is the index of the first attribute unit: unit attrUnitFirst + 3*v + r carries
// attrVariants[v] on resource r (0 cpu, 1 memory, 2 storage), everything else as the base unit.
const attrUnitFirst = 5

func buildUnitAlphabet() []Unit {
	us := []Unit{
		{CPU: baseCPU, Mem: baseMem, Sto: baseSto},
		{CPU: baseCPU + 1, Mem: baseMem, Sto: baseSto},
		{CPU: baseCPU, Mem: baseMem + 1, Sto: baseSto},
		{CPU: baseCPU, Mem: baseMem, Sto: baseSto + 1},
		{CPU: baseCPU, Mem: baseMem, Sto: baseSto, CPUAttrs: []KV{{"arch", "arm64"}}},
	}
	for _, v := range attrVariants {
		us = append(us,
			Unit{CPU: baseCPU, Mem: baseMem, Sto: baseSto, CPUAttrs: v.kv},
			Unit{CPU: baseCPU, Mem: baseMem, Sto: baseSto, MemAttrs: v.kv},
			Unit{CPU: baseCPU, Mem: baseMem, Sto: baseSto, StoAttrs: v.kv})
	}
	return us
}

const (
	kindShared = 0 // SHARED_HTTP
	kindRandom = 1 // RANDOM_PORT
)

// DEntry is one resource entry of an on-chain deployment group.
type DEntry struct {
	Unit      int    `json:"unit"` // index into unitAlphabet
	Count     uint32 `json:"count"`
	Endpoints []int  `json:"endpoints,omitempty"` // kindShared / kindRandom
}

type DGroup struct {
	Name    string   `json:"name"`
	Entries []DEntry `json:"entries"`
}

// ExposeDef is one entry of the expose alphabet of manifest services.
type ExposeDef struct {
	Port     uint16 `json:"port"`
	External uint16 `json:"external_port,omitempty"`
	Proto    string `json:"proto"`
	Global   bool   `json:"global"`
	Service  string `json:"service,omitempty"`
}

var exposeAlphabet = []ExposeDef{
	0: {Port: 80, Proto: "TCP", Global: true},                   // http on 80
	1: {Port: 8080, Proto: "TCP", Global: true},                 // other tcp port
	2: {Port: 80, Proto: "UDP", Global: true},                   // udp on 80
	3: {Port: 8080, External: 80, Proto: "TCP", Global: true},   // container 8080 published as 80
	4: {Port: 80, External: 8080, Proto: "TCP", Global: true},   // container 80 published as 8080
	5: {Port: 80, Proto: "TCP", Global: false, Service: "svc0"}, // inter-service
	6: {Port: 80, Proto: "TCP", Global: false},                  // local, nothing said
}

type MService struct {
	Unit   int    `json:"unit"`
	Count  uint32 `json:"count"`
	Expose []int  `json:"expose,omitempty"` // indices into exposeAlphabet
}

type MGroup struct {
	Name     string     `json:"name"`
	Services []MService `json:"services"`
}

// ---------------------------------------------------------------------------------------------
// real values

func resourceUnits(u Unit, endpoints []int) atypes.ResourceUnits {
	ru := atypes.ResourceUnits{
		CPU:     &atypes.CPU{Units: atypes.NewResourceValue(u.CPU)},
		Memory:  &atypes.Memory{Quantity: atypes.NewResourceValue(u.Mem)},
		Storage: &atypes.Storage{Quantity: atypes.NewResourceValue(u.Sto)},
	}
	ru.CPU.Attributes = attributes(u.CPUAttrs)
	ru.Memory.Attributes = attributes(u.MemAttrs)
	ru.Storage.Attributes = attributes(u.StoAttrs)
	for _, k := range endpoints {
		kind := atypes.Endpoint_SHARED_HTTP
		if k == kindRandom {
			kind = atypes.Endpoint_RANDOM_PORT
		}
		ru.Endpoints = append(ru.Endpoints, atypes.Endpoint{Kind: kind})
	}
	return ru
}

func attributes(kv []KV) atypes.Attributes {
	var out atypes.Attributes
	for _, a := range kv {
		out = append(out, atypes.Attribute{Key: a.K, Value: a.V})
	}
	return out
}

func groupSpec(g DGroup) *dtypes.GroupSpec {
	gs := &dtypes.GroupSpec{Name: g.Name}
	for _, e := range g.Entries {
		gs.Resources = append(gs.Resources, dtypes.Resource{
			Resources: resourceUnits(unitAlphabet[e.Unit], e.Endpoints),
			Count:     e.Count,
			Price:     sdk.NewInt64Coin("uakt", 10),
		})
	}
	return gs
}

func groupSpecs(gs []DGroup) []*dtypes.GroupSpec {
	out := make([]*dtypes.GroupSpec, 0, len(gs))
	for _, g := range gs {
		out = append(out, groupSpec(g))
	}
	return out
}

func chainGroups(gs []DGroup) []dtypes.Group {
	out := make([]dtypes.Group, 0, len(gs))
	for i, g := range gs {
		out = append(out, dtypes.Group{
			GroupID:   dtypes.GroupID{Owner: "akash1tenant", DSeq: 7, GSeq: uint32(i + 1)},
			State:     dtypes.GroupOpen,
			GroupSpec: *groupSpec(g),
		})
	}
	return out
}

func manifestOf(ms []MGroup) manifest.Manifest {
	out := make(manifest.Manifest, 0, len(ms))
	for _, g := range ms {
		mg := manifest.Group{Name: g.Name}
		for i, s := range g.Services {
			svc := manifest.Service{
				Name:      fmt.Sprintf("svc%d", i),
				Image:     "registry.example/app:1",
				Resources: resourceUnits(unitAlphabet[s.Unit], nil),
				Count:     s.Count,
			}
			for _, x := range s.Expose {
				d := exposeAlphabet[x]
				svc.Expose = append(svc.Expose, manifest.ServiceExpose{
					Port: d.Port, ExternalPort: d.External, Proto: manifest.ServiceProtocol(d.Proto), Global: d.Global, Service: d.Service,
				})
			}
			mg.Services = append(mg.Services, svc)
		}
		out = append(out, mg)
	}
	return out
}
