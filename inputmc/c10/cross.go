package main

import (
	"crypto/sha256"
	"encoding/json"
	"fmt"
	"sort"
	"strings"

	"github.com/ovrclk/akash/manifest"
	"github.com/ovrclk/akash/validation"
	dtypes "github.com/ovrclk/akash/x/deployment/types"

	"verif.local/verif/inputmc/imc"
)

// ---------------------------------------------------------------------------------------------
// enumeration helpers

// sequences returns every sequence of length 1..maxLen over [0,n).
func sequences(n, maxLen int) [][]int {
	var out [][]int
	var cur []int
	var rec func()
	rec = func() {
		if len(cur) > 0 {
			out = append(out, append([]int(nil), cur...))
		}
		if len(cur) == maxLen {
			return
		}
		for i := 0; i < n; i++ {
			cur = append(cur, i)
			rec()
			cur = cur[:len(cur)-1]
		}
	}
	rec()
	return out
}

type dCase struct {
	model  []DGroup
	specs  []*dtypes.GroupSpec
	chain  []dtypes.Group
	key    string // canonical totals of the oracle (single-group grammars)
	okey   string // same with position-wise attribute lists
	sum    uint64
	digest [32]byte
}

type mCase struct {
	model    []MGroup
	manifest manifest.Manifest
	key      string
	okey     string
	sum      uint64
	digest   [32]byte
}

func orderedKey(t totals) string {
	var parts []string
	for u, n := range t.ordered {
		parts = append(parts, fmt.Sprintf("%s=%d", u, n))
	}
	sort.Strings(parts)
	return strings.Join(parts, ",")
}

func totalsKey(t totals) string {
	var parts []string
	for u, n := range t.replicas {
		parts = append(parts, fmt.Sprintf("%s=%d", u, n))
	}
	sort.Strings(parts)
	return fmt.Sprintf("%s|S%d|R%d", strings.Join(parts, ","), t.shared, t.random)
}

func digestOf(v interface{}) [32]byte {
	b, err := json.Marshal(v)
	if err != nil {
		panic(err)
	}
	return sha256.Sum256(b)
}

func mkD(gs []DGroup) dCase {
	c := dCase{model: gs, specs: groupSpecs(gs), chain: chainGroups(gs)}
	if len(gs) == 1 {
		t := dTotals(gs[0])
		c.key, c.okey, c.sum = totalsKey(t), orderedKey(t), t.sum
	}
	c.digest = digestOf([]interface{}{c.chain, c.specs})
	return c
}

func mkM(ms []MGroup) mCase {
	c := mCase{model: ms, manifest: manifestOf(ms)}
	if len(ms) == 1 {
		t := mTotals(ms[0])
		c.key, c.okey, c.sum = totalsKey(t), orderedKey(t), t.sum
	}
	c.digest = digestOf(c.manifest)
	return c
}

// ---------------------------------------------------------------------------------------------

type crossScope struct {
	// grammar A: splits, merges, orderings of resource units (no endpoints)
	AUnits  int  // first n units of unitAlphabet
	ACounts int  // counts 1..n
	ADLen   int  // entries per group 1..n
	AMLen   int  // services per group 1..n
	A4      bool // additionally grammar A4: units {0,1}, 1..4 services per group (4-way splits in the quick tier)
	// grammar B: endpoints
	BDLen, BMLen int
}

func (s crossScope) Describe() string {
	return fmt.Sprintf("A(split/merge/order): one group, deployment entries = all sequences of length 1..%d over (unit in first %d of unitAlphabet x count 1..%d), "+
		"manifest services = all sequences of length 1..%d over the same alphabet, full product (A4=%v: additionally the same with units {0,1} and 1..4 services); "+
		"B(endpoints): one group, entries = sequences of length 1..%d over (unit in {0,1} x count in {1,2} x endpoints in %v), services = sequences of length 1..%d over "+
		"(unit in {0,1} x count in {1,2} x exposes in %v of exposeAlphabet), full product; "+
		"C(groups): deployment group lists over names {g1,g2} (1-2 distinct, both orders) x %d contents, manifests with 1-2 groups over names {g1,g2,g3} incl. duplicates x %d contents, full product; "+
		"D(single difference): 1 entry x 1 service, every unit pair of the first 5 units x counts 1..3 x 1..3 x endpoint lists x expose lists; "+
		"E(attribute lists): entries = sequences of length 1..2 over (base unit or {canonical {class=ssd,zone=a}, duplicate-first, reordered} on cpu/memory/storage x count 1..2), services = sequences of length 1..2 over "+
		"(base unit or every variant {canonical, duplicate-first, reordered, duplicate-second, superset, subset, other-value} on cpu/memory/storage x count 1..2), full product",
		s.ADLen, s.AUnits, s.ACounts, s.AMLen, s.A4, s.BDLen, bEndpointLists, s.BMLen, bExposeLists, len(cDContents), len(cMContents))
}

var bEndpointLists = [][]int{{}, {kindShared}, {kindRandom}, {kindShared, kindRandom}, {kindRandom, kindShared}, {kindShared, kindShared}}
var bExposeLists = [][]int{{}, {0}, {1}, {2}, {3}, {4}, {5}, {6}, {0, 1}, {1, 5}, {0, 3}}

var cDContents = [][]DEntry{
	{{Unit: 0, Count: 1}},
	{{Unit: 0, Count: 2}},
	{{Unit: 1, Count: 1}},
	{{Unit: 0, Count: 1}, {Unit: 1, Count: 1}},
	{{Unit: 0, Count: 1, Endpoints: []int{kindShared}}},
	{{Unit: 0, Count: 2, Endpoints: []int{kindShared}}},
}
var cMContents = [][]MService{
	{{Unit: 0, Count: 1}},
	{{Unit: 0, Count: 1}, {Unit: 0, Count: 1}},
	{{Unit: 0, Count: 2}},
	{{Unit: 1, Count: 1}},
	{{Unit: 1, Count: 1}, {Unit: 0, Count: 1}},
	{{Unit: 0, Count: 1, Expose: []int{0}}},
	{{Unit: 0, Count: 1}, {Unit: 0, Count: 1, Expose: []int{0}}},
}

func grammarA(s crossScope) (ds []dCase, ms []mCase) {
	n := s.AUnits * s.ACounts
	for _, seq := range sequences(n, s.ADLen) {
		g := DGroup{Name: "g1"}
		for _, x := range seq {
			g.Entries = append(g.Entries, DEntry{Unit: x / s.ACounts, Count: uint32(x%s.ACounts + 1)})
		}
		ds = append(ds, mkD([]DGroup{g}))
	}
	for _, seq := range sequences(n, s.AMLen) {
		g := MGroup{Name: "g1"}
		for _, x := range seq {
			g.Services = append(g.Services, MService{Unit: x / s.ACounts, Count: uint32(x%s.ACounts + 1)})
		}
		ms = append(ms, mkM([]MGroup{g}))
	}
	return
}

func grammarB(s crossScope) (ds []dCase, ms []mCase) {
	ne := len(bEndpointLists)
	for _, seq := range sequences(2*2*ne, s.BDLen) {
		g := DGroup{Name: "g1"}
		for _, x := range seq {
			g.Entries = append(g.Entries, DEntry{Unit: x / (2 * ne), Count: uint32(x/ne%2 + 1), Endpoints: bEndpointLists[x%ne]})
		}
		ds = append(ds, mkD([]DGroup{g}))
	}
	nx := len(bExposeLists)
	for _, seq := range sequences(2*2*nx, s.BMLen) {
		g := MGroup{Name: "g1"}
		for _, x := range seq {
			g.Services = append(g.Services, MService{Unit: x / (2 * nx), Count: uint32(x/nx%2 + 1), Expose: bExposeLists[x%nx]})
		}
		ms = append(ms, mkM([]MGroup{g}))
	}
	return
}

func grammarC() (ds []dCase, ms []mCase) {
	for _, names := range [][]string{{"g1"}, {"g2"}, {"g1", "g2"}, {"g2", "g1"}} {
		for _, seq := range product(len(cDContents), len(names)) {
			var gs []DGroup
			for i, n := range names {
				gs = append(gs, DGroup{Name: n, Entries: cDContents[seq[i]]})
			}
			ds = append(ds, mkD(gs))
		}
	}
	all := []string{"g1", "g2", "g3"}
	var nameLists [][]string
	for _, a := range all {
		nameLists = append(nameLists, []string{a})
	}
	for _, a := range all {
		for _, b := range all {
			nameLists = append(nameLists, []string{a, b})
		}
	}
	for _, names := range nameLists {
		for _, seq := range product(len(cMContents), len(names)) {
			var gs []MGroup
			for i, n := range names {
				gs = append(gs, MGroup{Name: n, Services: cMContents[seq[i]]})
			}
			ms = append(ms, mkM(gs))
		}
	}
	return
}

func grammarD() (ds []dCase, ms []mCase) {
	for u := 0; u < attrUnitFirst; u++ {
		for c := uint32(1); c <= 3; c++ {
			for _, e := range bEndpointLists {
				ds = append(ds, mkD([]DGroup{{Name: "g1", Entries: []DEntry{{Unit: u, Count: c, Endpoints: e}}}}))
			}
			for _, x := range bExposeLists {
				ms = append(ms, mkM([]MGroup{{Name: "g1", Services: []MService{{Unit: u, Count: c, Expose: x}}}}))
			}
		}
	}
	return
}

// grammarE: attribute lists. On-chain units: the base unit and, for each of cpu / memory / storage,
// the canonical, duplicate-first and reordered two-attribute lists; manifest units: the base unit and
// every attribute variant on every resource. Entries / services: sequences of length 1..2 x count 1..2.
func grammarE() (ds []dCase, ms []mCase) {
	dUnits := []int{0}
	for _, v := range []int{0, 1, 2} {
		for r := 0; r < 3; r++ {
			dUnits = append(dUnits, attrUnitFirst+3*v+r)
		}
	}
	mUnits := []int{0}
	for i := attrUnitFirst; i < len(unitAlphabet); i++ {
		mUnits = append(mUnits, i)
	}
	for _, seq := range sequences(len(dUnits)*2, 2) {
		g := DGroup{Name: "g1"}
		for _, x := range seq {
			g.Entries = append(g.Entries, DEntry{Unit: dUnits[x/2], Count: uint32(x%2 + 1)})
		}
		ds = append(ds, mkD([]DGroup{g}))
	}
	for _, seq := range sequences(len(mUnits)*2, 2) {
		g := MGroup{Name: "g1"}
		for _, x := range seq {
			g.Services = append(g.Services, MService{Unit: mUnits[x/2], Count: uint32(x%2 + 1)})
		}
		ms = append(ms, mkM([]MGroup{g}))
	}
	return
}

// product: every vector of length k over [0,n)
func product(n, k int) [][]int {
	out := [][]int{{}}
	for i := 0; i < k; i++ {
		var next [][]int
		for _, p := range out {
			for v := 0; v < n; v++ {
				next = append(next, append(append([]int(nil), p...), v))
			}
		}
		out = next
	}
	return out
}

// ---------------------------------------------------------------------------------------------

type crossReplay struct {
	Kind           string            `json:"kind"`
	Grammar        string            `json:"grammar"`
	Groups         []DGroup          `json:"groups"`
	Manifest       []MGroup          `json:"manifest"`
	UnitAlphabet   []Unit            `json:"unit_alphabet"`
	ExposeAlphabet []ExposeDef       `json:"expose_alphabet"`
	ChainGroups    json.RawMessage   `json:"akash_deployment_groups"`
	AkashManifest  json.RawMessage   `json:"akash_manifest"`
	Oracle         bool              `json:"oracle_accepts"`
	Real           map[string]string `json:"real_verdicts"`
}

func errStr(err error) string {
	if err == nil {
		return "accept"
	}
	return "reject: " + err.Error()
}

// checkPair evaluates one (groups, manifest) pair with the real comparison and the oracle.
// composite additionally runs ValidateManifest first, as the provider does.
type pairCounters struct {
	evals, oracleAccept, oracleReject, bareDup, provAccept, provReject int64
	pairs, ntAccept, ntReject                                          int64
	orderOnlyAccepted, orderOnlyRejected                               int64
	_                                                                  [8]int64 // keep workers on separate cache lines
}

func (c *pairCounters) local(grammar string) imc.Local {
	return imc.Local{
		"evaluations": c.evals, "oracle_accept/" + grammar: c.oracleAccept, "oracle_reject/" + grammar: c.oracleReject,
		"bare_accepts_duplicate_group_names": c.bareDup, "provider_accept/" + grammar: c.provAccept, "provider_reject/" + grammar: c.provReject,
		"attribute_order_only/accepted_by_tree": c.orderOnlyAccepted, "attribute_order_only/rejected_by_tree": c.orderOnlyRejected,
		"pairs/" + grammar: c.pairs, "nontrivial_accept/" + grammar: c.ntAccept, "nontrivial_reject/" + grammar: c.ntReject,
	}
}

func checkPair(grammar string, d *dCase, m *mCase, want bool, composite bool, rep *imc.Reporter, l *pairCounters) {
	errSpecs := validation.ValidateManifestWithGroupSpecs(&m.manifest, d.specs)
	errChain := validation.ValidateManifestWithDeployment(&m.manifest, d.chain)
	l.evals += 2
	viol := func(sig, what string, extra map[string]string) {
		if rep.Seen(sig) {
			return
		}
		rep.Violation(sig, what, func() interface{} {
			real := map[string]string{"ValidateManifestWithGroupSpecs": errStr(errSpecs), "ValidateManifestWithDeployment": errStr(errChain)}
			for k, v := range extra {
				real[k] = v
			}
			return crossReplay{Kind: "cross", Grammar: grammar, Groups: d.model, Manifest: m.model, UnitAlphabet: unitAlphabet, ExposeAlphabet: exposeAlphabet,
				ChainGroups: imc.JSON(d.chain), AkashManifest: imc.JSON(m.manifest), Oracle: want, Real: real}
		})
	}
	if (errSpecs == nil) != (errChain == nil) {
		viol("cross/specs-vs-deployment-disagree", "ValidateManifestWithGroupSpecs and ValidateManifestWithDeployment disagree on the same pair", nil)
	}
	got := errChain == nil
	dup := !distinctNames(m.model)
	switch {
	case dup:
		// two manifest groups of the same name: the bare comparison is not specified for this
		// input (the provider runs ValidateManifest first, which must reject it); recorded only
		if got {
			l.bareDup++
		}
	case got && !want:
		viol("cross/false-accept", "the comparison accepts a manifest whose per-group totals differ from the on-chain groups", nil)
	case !got && want:
		viol("cross/false-reject", "the comparison rejects a manifest whose per-group totals equal the on-chain groups: "+errChain.Error(), nil)
	}
	if want {
		l.oracleAccept++
	} else {
		l.oracleReject++
	}
	if composite {
		errVM := validation.ValidateManifest(m.manifest)
		l.evals++
		accepted := errVM == nil && errChain == nil
		ex := map[string]string{"ValidateManifest": errStr(errVM)}
		if accepted && !want {
			viol("provider/false-accept", "ValidateManifest + ValidateManifestWithDeployment accept a manifest that does not equal the on-chain groups", ex)
		}
		if !accepted && want && hasGlobal(m.model) {
			viol("provider/false-reject", "ValidateManifest + ValidateManifestWithDeployment reject a manifest that equals the on-chain groups", ex)
		}
		if accepted {
			l.provAccept++
		} else {
			l.provReject++
		}
	}
}

// runSingleGroupGrammar enumerates the full product ds x ms of a single-group grammar.
func runSingleGroupGrammar(name string, ds []dCase, ms []mCase, rep *imc.Reporter, counters *imc.Counters, sampler *imc.Sampler, dl *imc.Deadline) (done, total int64) {
	nm := int64(len(ms))
	total = int64(len(ds)) * nm
	locals := make([]pairCounters, imc.Workers())
	done = imc.ForEach(total, 8192, dl, func(w int, i int64) {
		d, m := &ds[i/nm], &ms[i%nm]
		l := &locals[w]
		want := d.key == m.key // precomputed totals of the oracle, see mkD / mkM
		if want && d.okey != m.okey {
			// only the order inside attribute lists differs: either verdict is tolerated, see oracle.go
			l.evals += 2
			l.pairs++
			if validation.ValidateManifestWithDeployment(&m.manifest, d.chain) == nil && validation.ValidateManifestWithGroupSpecs(&m.manifest, d.specs) == nil {
				l.orderOnlyAccepted++
			} else {
				l.orderOnlyRejected++
				if l.orderOnlyRejected == 1 {
					sampler.Offer(name+"/attribute-order-only:rejected-by-the-tree", func() interface{} { return pairSample(d, m, want) })
				}
			}
			return
		}
		checkPair(name, d, m, want, false, rep, l)
		l.pairs++
		// non-trivial cases, both verdict classes
		switch {
		case want && !sameShape(d.model[0], m.model[0]):
			l.ntAccept++
			if l.ntAccept%50021 == 1 {
				sampler.Offer(name+"/accept:split-merge-or-reorder", func() interface{} { return pairSample(d, m, want) })
			}
		case !want && d.sum == m.sum:
			l.ntReject++
			if l.ntReject%50021 == 1 {
				sampler.Offer(name+"/reject:same-replica-sum", func() interface{} { return pairSample(d, m, want) })
			}
		}
	})
	for i := range locals {
		counters.Merge(locals[i].local(name))
	}
	return
}

func pairSample(d *dCase, m *mCase, want bool) interface{} {
	return map[string]interface{}{"groups": d.model, "manifest": m.model, "oracle_accepts": want}
}

// runGroupsGrammar: grammar C, several groups, names; evaluated with the bare comparison and with
// the provider's composition (ValidateManifest first).
func runGroupsGrammar(ds []dCase, ms []mCase, rep *imc.Reporter, counters *imc.Counters, sampler *imc.Sampler, dl *imc.Deadline) (done, total int64) {
	nm := int64(len(ms))
	total = int64(len(ds)) * nm
	locals := make([]pairCounters, imc.Workers())
	done = imc.ForEach(total, 256, dl, func(w int, i int64) {
		d, m := &ds[i/nm], &ms[i%nm]
		l := &locals[w]
		want := oracleCross(d.model, m.model)
		checkPair("C", d, m, want, true, rep, l)
		l.pairs++
		if want && (len(d.model) > 1 || !sameShape(d.model[0], m.model[0])) {
			l.ntAccept++
			if l.ntAccept%101 == 1 {
				sampler.Offer("C/accept:multi-group-or-split", func() interface{} { return pairSample(d, m, want) })
			}
		}
		if !want && len(d.model) == len(m.model) {
			l.ntReject++
			if l.ntReject%1009 == 1 {
				sampler.Offer("C/reject:same-group-count", func() interface{} { return pairSample(d, m, want) })
			}
		}
	})
	for i := range locals {
		counters.Merge(locals[i].local("C"))
	}
	return
}

// unchanged verifies that the real functions did not modify their (shared) inputs.
func unchanged(ds []dCase, ms []mCase) error {
	for i := range ds {
		if digestOf([]interface{}{ds[i].chain, ds[i].specs}) != ds[i].digest {
			return fmt.Errorf("deployment groups #%d were modified by the comparison", i)
		}
	}
	for i := range ms {
		if digestOf(ms[i].manifest) != ms[i].digest {
			return fmt.Errorf("manifest #%d was modified by the comparison", i)
		}
	}
	return nil
}
