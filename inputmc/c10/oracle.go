package main

import (
	"fmt"
	"sort"
	"strings"
)

// The reference oracle, written from the property statement:
//
//	"group by group, the manifest's compute resources, replica counts and endpoint counts equal
//	 exactly those of the on-chain deployment groups; the resource comparison rejects no manifest
//	 whose per-group totals are equal, however the tenant split or ordered its services."
//
// i.e. the manifest names exactly the on-chain groups (each once) and, per group,
//   - for every class of resource unit (cpu, memory, storage quantities equal, and the attribute
//     lists of cpu, memory and storage equal AS MULTISETS: same entries, same multiplicities) the
//     total number of replicas is the same on both sides, and
//   - the number of endpoints served by the shared HTTP ingress and the number of endpoints that
//     need a port of their own are the same on both sides.

// Attribute order. "Equal exactly" does not make the order of an attribute list meaningful, so the
// reference notion of a unit class is order-free (classKey(u, false)). The unchanged tree compares
// attribute lists position by position (generated Equal of types.CPU / Memory / Storage), i.e. it
// also distinguishes two units that differ only in the order of an attribute list
// (classKey(u, true)). Both totals are kept: when they give the same verdict the real comparison
// has to agree in both directions; when they differ (the ONLY difference between the two sides is
// the order inside attribute lists) either real verdict is tolerated and counted
// (attribute_order_only/*), not flagged -- reported to the coordinator instead.
func classKey(u Unit, ordered bool) string {
	l := func(kv []KV) string {
		var parts []string
		for _, a := range kv {
			parts = append(parts, fmt.Sprintf("%q=%q", a.K, a.V))
		}
		if !ordered {
			sort.Strings(parts)
		}
		return "[" + strings.Join(parts, ",") + "]"
	}
	return fmt.Sprintf("%d%s/%d%s/%d%s", u.CPU, l(u.CPUAttrs), u.Mem, l(u.MemAttrs), u.Sto, l(u.StoAttrs))
}

type totals struct {
	replicas map[string]uint64 // order-free unit class -> replicas
	ordered  map[string]uint64 // position-wise unit class -> replicas
	shared   int
	random   int
	sum      uint64
}

func dTotals(g DGroup) totals {
	t := totals{replicas: map[string]uint64{}, ordered: map[string]uint64{}}
	for _, e := range g.Entries {
		t.replicas[classKey(unitAlphabet[e.Unit], false)] += uint64(e.Count)
		t.ordered[classKey(unitAlphabet[e.Unit], true)] += uint64(e.Count)
		t.sum += uint64(e.Count)
		for _, k := range e.Endpoints {
			if k == kindShared {
				t.shared++
			} else {
				t.random++
			}
		}
	}
	return t
}

// endpointKindOf: only globally exposed ports occupy an endpoint; one that is reachable as TCP
// port 80 from outside (the published port if one is given, else the container port) goes
// through the shared HTTP ingress, every other one needs its own port.
func endpointKindOf(x ExposeDef) (kind int, any bool) {
	if !x.Global {
		return 0, false
	}
	published := x.External
	if published == 0 {
		published = x.Port
	}
	if x.Proto == "TCP" && published == 80 {
		return kindShared, true
	}
	return kindRandom, true
}

func mTotals(g MGroup) totals {
	t := totals{replicas: map[string]uint64{}, ordered: map[string]uint64{}}
	for _, s := range g.Services {
		t.replicas[classKey(unitAlphabet[s.Unit], false)] += uint64(s.Count)
		t.ordered[classKey(unitAlphabet[s.Unit], true)] += uint64(s.Count)
		t.sum += uint64(s.Count)
		for _, x := range s.Expose {
			if k, ok := endpointKindOf(exposeAlphabet[x]); ok {
				if k == kindShared {
					t.shared++
				} else {
					t.random++
				}
			}
		}
	}
	return t
}

func (a totals) equal(b totals) bool {
	if a.shared != b.shared || a.random != b.random || len(a.replicas) != len(b.replicas) {
		return false
	}
	for u, n := range a.replicas {
		if b.replicas[u] != n {
			return false
		}
	}
	return true
}

// oracleCross decides a (deployment groups, manifest) pair.
func oracleCross(ds []DGroup, ms []MGroup) bool {
	if len(ds) != len(ms) {
		return false
	}
	byName := map[string]DGroup{}
	for _, d := range ds {
		byName[d.Name] = d
	}
	seen := map[string]bool{}
	for _, m := range ms {
		d, ok := byName[m.Name]
		if !ok || seen[m.Name] {
			return false
		}
		seen[m.Name] = true
		if !dTotals(d).equal(mTotals(m)) {
			return false
		}
	}
	return true
}

// orderOnly: the order-free oracle accepts the pair, the position-wise one does not (single-group
// pairs): the two sides differ only in the order inside attribute lists.
func orderOnly(d DGroup, m MGroup) bool {
	a, b := dTotals(d), mTotals(m)
	if !a.equal(b) {
		return false
	}
	if len(a.ordered) != len(b.ordered) {
		return true
	}
	for k, n := range a.ordered {
		if b.ordered[k] != n {
			return true
		}
	}
	return false
}

func distinctNames(ms []MGroup) bool {
	seen := map[string]bool{}
	for _, m := range ms {
		if seen[m.Name] {
			return false
		}
		seen[m.Name] = true
	}
	return true
}

func hasGlobal(ms []MGroup) bool {
	for _, m := range ms {
		for _, s := range m.Services {
			for _, x := range s.Expose {
				if exposeAlphabet[x].Global {
					return true
				}
			}
		}
	}
	return false
}

// sameShape: the manifest lists exactly the group's (unit, count) sequence, service by service.
// Accepted pairs that are NOT of the same shape are the genuine splits / merges / reorderings.
func sameShape(d DGroup, m MGroup) bool {
	if len(d.Entries) != len(m.Services) {
		return false
	}
	for i := range d.Entries {
		if d.Entries[i].Unit != m.Services[i].Unit || d.Entries[i].Count != m.Services[i].Count {
			return false
		}
	}
	return true
}
