package main

// The reference oracle, written from the property statement:
//
//	"group by group, the manifest's compute resources, replica counts and endpoint counts equal
//	 exactly those of the on-chain deployment groups; the resource comparison rejects no manifest
//	 whose per-group totals are equal, however the tenant split or ordered its services."
//
// i.e. the manifest names exactly the on-chain groups (each once) and, per group,
//   - for every class of resource unit (cpu, memory, storage, attributes all equal) the total
//     number of replicas is the same on both sides, and
//   - the number of endpoints served by the shared HTTP ingress and the number of endpoints that
//     need a port of their own are the same on both sides.

type totals struct {
	replicas map[Unit]uint64
	shared   int
	random   int
	sum      uint64
}

func dTotals(g DGroup) totals {
	t := totals{replicas: map[Unit]uint64{}}
	for _, e := range g.Entries {
		t.replicas[unitAlphabet[e.Unit]] += uint64(e.Count)
		t.sum += uint64(e.Count)
		for _, k := range e.Endpoints {
			if k == kindShared {
				t.shared++
			} else {
				t.random++
			}
		}
	}
	return t
}

// endpointKindOf: only globally exposed ports occupy an endpoint; one that is reachable as TCP
// port 80 from outside (the published port if one is given, else the container port) goes
// through the shared HTTP ingress, every other one needs its own port.
func endpointKindOf(x ExposeDef) (kind int, any bool) {
	if !x.Global {
		return 0, false
	}
	published := x.External
	if published == 0 {
		published = x.Port
	}
	if x.Proto == "TCP" && published == 80 {
		return kindShared, true
	}
	return kindRandom, true
}

func mTotals(g MGroup) totals {
	t := totals{replicas: map[Unit]uint64{}}
	for _, s := range g.Services {
		t.replicas[unitAlphabet[s.Unit]] += uint64(s.Count)
		t.sum += uint64(s.Count)
		for _, x := range s.Expose {
			if k, ok := endpointKindOf(exposeAlphabet[x]); ok {
				if k == kindShared {
					t.shared++
				} else {
					t.random++
				}
			}
		}
	}
	return t
}

func (a totals) equal(b totals) bool {
	if a.shared != b.shared || a.random != b.random || len(a.replicas) != len(b.replicas) {
		return false
	}
	for u, n := range a.replicas {
		if b.replicas[u] != n {
			return false
		}
	}
	return true
}

// oracleCross decides a (deployment groups, manifest) pair.
func oracleCross(ds []DGroup, ms []MGroup) bool {
	if len(ds) != len(ms) {
		return false
	}
	byName := map[string]DGroup{}
	for _, d := range ds {
		byName[d.Name] = d
	}
	seen := map[string]bool{}
	for _, m := range ms {
		d, ok := byName[m.Name]
		if !ok || seen[m.Name] {
			return false
		}
		seen[m.Name] = true
		if !dTotals(d).equal(mTotals(m)) {
			return false
		}
	}
	return true
}

func distinctNames(ms []MGroup) bool {
	seen := map[string]bool{}
	for _, m := range ms {
		if seen[m.Name] {
			return false
		}
		seen[m.Name] = true
	}
	return true
}

func hasGlobal(ms []MGroup) bool {
	for _, m := range ms {
		for _, s := range m.Services {
			for _, x := range s.Expose {
				if exposeAlphabet[x].Global {
					return true
				}
			}
		}
	}
	return false
}

// sameShape: the manifest lists exactly the group's (unit, count) sequence, service by service.
// Accepted pairs that are NOT of the same shape are the genuine splits / merges / reorderings.
func sameShape(d DGroup, m MGroup) bool {
	if len(d.Entries) != len(m.Services) {
		return false
	}
	for i := range d.Entries {
		if d.Entries[i].Unit != m.Services[i].Unit || d.Entries[i].Count != m.Services[i].Count {
			return false
		}
	}
	return true
}
