// Command c10 decides property C10 (manifest integrity) by small-scope exhaustive enumeration:
//
//	cross    every (on-chain deployment groups, manifest) pair of four structural grammars through the
//	         real validation.ValidateManifestWithDeployment / ...WithGroupSpecs (and, for the groups
//	         grammar, through ValidateManifest + comparison and through manager.validateRequest),
//	         against a multiset oracle written from the property statement, in both directions;
//	version  every (chain history, what the manager observed, submitted manifest) triple through the
//	         real manager.validateRequest;
//	hash     every single-field mutation of three base manifests changes sdl.ManifestVersion, every
//	         key reordering of their JSON encoding leaves it unchanged.
//
//	c10 quick|thorough
//	c10 replay <file>
package main

import (
	"encoding/json"
	"errors"
	"flag"
	"fmt"
	"os"
	"reflect"
	"time"

	"github.com/ovrclk/akash/manifest"

	"verif.local/verif/evlib"
	"verif.local/verif/inputmc/imc"
)

const prop = "C10"

var errNoHarness = errors.New("built without the in-package harness (needs -tags verif and the overlay of checks/C10)")

type versionReplay struct {
	Kind      string      `json:"kind"`
	Chain     []string    `json:"chain_versions_hex"` // c0..cn
	Observed  int         `json:"first_observed_update"`
	QuerySaw  int         `json:"query_saw_index"`
	Before    int         `json:"updates_delivered_before_query_answer"`
	Submitted int         `json:"submitted_manifest"`
	Alphabet  []string    `json:"manifest_versions_hex"`
	Manifests interface{} `json:"akash_manifest_alphabet"`
	Groups    interface{} `json:"akash_deployment_groups"`
	Oracle    bool        `json:"oracle_accepts"`
	Real      string      `json:"real_verdict"`
}

func main() {
	if len(os.Args) < 2 {
		fmt.Fprintln(os.Stderr, "usage: c10 quick|thorough|replay <file>")
		os.Exit(2)
	}
	switch os.Args[1] {
	case "quick", "thorough":
		fs := flag.NewFlagSet("c10", flag.ExitOnError)
		merge := fs.String("merge", "", "result file of `checks/C20 c10version <tier>` (version protocol on the real manager) to fold into the evidence")
		skip := fs.String("skip-transcription", "", "reason: do not run the transcribed version-triple enumeration")
		mergeFailed := fs.String("merge-failed", "", "reason: the version-protocol run failed (machinery); nothing is merged and the run is not exhaustive")
		_ = fs.Parse(os.Args[2:])
		versionProtocolFailed = *mergeFailed
		os.Exit(run(os.Args[1], *merge, *skip))
	case "replay":
		if len(os.Args) < 3 {
			fmt.Fprintln(os.Stderr, "usage: c10 replay <file>")
			os.Exit(2)
		}
		os.Exit(replay(os.Args[2]))
	default:
		fmt.Fprintln(os.Stderr, "unknown mode", os.Args[1])
		os.Exit(2)
	}
}

var versionProtocolFailed string

func run(tier, mergePath, skipTranscription string) int {
	start := time.Now()
	rep := imc.NewReporter(prop)
	sc, budget := crossScope{AUnits: 4, ACounts: 3, ADLen: 3, AMLen: 3, A4: true, BDLen: 2, BMLen: 2}, 90*time.Second
	if tier == "thorough" {
		sc, budget = crossScope{AUnits: 5, ACounts: 3, ADLen: 3, AMLen: 4, BDLen: 2, BMLen: 3}, 17*time.Minute
	}
	if os.Getenv("VERIF_C10_SCOPE") == "tiny" { // development aid
		sc = crossScope{AUnits: 2, ACounts: 2, ADLen: 2, AMLen: 3, BDLen: 1, BMLen: 2}
	}
	dl := imc.NewDeadline(budget)
	counters := imc.NewCounters()
	sampler := imc.NewSampler(2)
	exhaustive := true
	spaces := map[string]interface{}{}

	// the small clauses first, so that a deadline can only cut the big products
	bases, err := hashBases()
	if err != nil {
		rep.Machinery(err)
	} else {
		runHashSensitivity(bases, rep, counters, sampler)
		runHashOrder(bases, rep, counters, sampler)
	}
	extras := map[string]interface{}{}
	if skipTranscription != "" {
		// the update-event branch of manager.run is not the text the harness transcribes: the
		// triple enumeration would test the transcription, not the tree. The version protocol on
		// the real manager (merged below, when available) is what decides this part then.
		extras["version_transcription_skipped"] = true
		extras["version_transcription_skipped_reason"] = skipTranscription
		fmt.Println("note: transcribed version-triple enumeration skipped:", skipTranscription)
	} else {
		extras["version_transcription_skipped"] = false
		if !runVersion(rep, counters, sampler) {
			exhaustive = false
		}
	}
	var vp *versionProtocol
	if mergePath != "" {
		var err error
		if vp, err = loadVersionProtocol(mergePath, tier); err != nil {
			rep.Machinery(err)
		} else {
			for _, v := range vp.Violations {
				rep.ViolationAt(v.Signature, "version protocol on the real manager (checks/C20 c10version): "+v.Message, v.Replay)
			}
			exhaustive = exhaustive && vp.Exhaustive
			extras["version_protocol"] = vp.raw
			counters.Add("evaluations", vp.Executions)
			counters.Add("version_protocol/executions", vp.Executions)
			counters.Add("version_protocol/distinct_outcomes", vp.DistinctOutcomes)
		}
	} else if versionProtocolFailed != "" {
		extras["version_protocol"] = "not merged: " + versionProtocolFailed
		exhaustive = false
	} else {
		extras["version_protocol"] = "not merged (checks/C20 has no c10version mode yet)"
		if skipTranscription != "" {
			exhaustive = false // nothing covered the version clause in this run
		}
	}

	type grammar struct {
		name string
		ds   []dCase
		ms   []mCase
	}
	var gs []grammar
	dd, dm := grammarD()
	gs = append(gs, grammar{"D", dd, dm})
	ed, em := grammarE()
	gs = append(gs, grammar{"E", ed, em})
	cd, cm := grammarC()
	bd, bm := grammarB(sc)
	gs = append(gs, grammar{"B", bd, bm})
	if sc.A4 {
		a4 := sc
		a4.AUnits, a4.AMLen = 2, 4
		ad, am := grammarA(a4)
		gs = append(gs, grammar{"A4", ad, am})
	}
	ad, am := grammarA(sc)
	gs = append(gs, grammar{"A", ad, am})

	done, total := runGroupsGrammar(cd, cm, rep, counters, sampler, dl)
	spaces["C"] = map[string]int64{"deployment_group_lists": int64(len(cd)), "manifests": int64(len(cm)), "pairs": total, "pairs_done": done}
	exhaustive = exhaustive && done == total
	done, total = runProviderPairs(cd, cm, rep, counters, dl)
	spaces["C/validateRequest"] = map[string]int64{"pairs": total, "pairs_done": done}
	exhaustive = exhaustive && done == total
	if err := unchanged(cd, cm); err != nil {
		rep.Violation("cross/inputs-modified", err.Error(), func() interface{} { return "grammar C" })
	}
	for _, g := range gs {
		done, total := runSingleGroupGrammar(g.name, g.ds, g.ms, rep, counters, sampler, dl)
		spaces[g.name] = map[string]int64{"deployment_groups": int64(len(g.ds)), "manifests": int64(len(g.ms)), "pairs": total, "pairs_done": done}
		exhaustive = exhaustive && done == total
		if err := unchanged(g.ds, g.ms); err != nil {
			rep.Violation("cross/inputs-modified", err.Error(), func() interface{} { return "grammar " + g.name })
		}
	}

	c := counters.Map()
	var ntAccept, ntReject int64
	for k, v := range c {
		if len(k) > 18 && k[:18] == "nontrivial_accept/" {
			ntAccept += v
		}
		if len(k) > 18 && k[:18] == "nontrivial_reject/" {
			ntReject += v
		}
	}
	hashNT := int64(0)
	for _, b := range []string{"rich", "minimal", "from-sdl"} {
		hashNT += c["hash_mutations/"+b] + c["hash_reorderings/"+b]
	}
	cov := evlib.Coverage{
		Evaluations:        c["evaluations"],
		DistinctNontrivial: ntAccept + ntReject + c["version/nontrivial"] + hashNT,
		Rule: "evaluations = calls of the real functions (ValidateManifestWithDeployment and ValidateManifestWithGroupSpecs per pair; ValidateManifest and manager.validateRequest " +
			"per pair of grammar C; manager.validateRequest per version triple; sdl.ManifestVersion per mutation / reordering). Cross grammars (" + tier + "): " + sc.Describe() + ". " +
			"Every pair of a product is a distinct input by construction. distinct_nontrivial counts, measured per pair: accept class = pairs the oracle accepts although the manifest " +
			"is not the service-by-service copy of the group (a genuine split, merge or reordering; for C also any accepted multi-group pair); reject class = pairs the oracle rejects " +
			"although the replica sums (A, B, D) or the group counts (C) agree (near misses: one unit class, one count or one endpoint differs); plus version triples with at least one " +
			"update in which the submitted version occurs on chain (transcribed enumeration; the merged version-protocol executions of checks/C20 add to evaluations only); plus every hash mutation and reordering (each is a distinct input). Both verdict classes are in extras.class_counts " +
			"(oracle_accept/*, oracle_reject/*, version/oracle_accept, version/oracle_reject).",
		Samples:    sampler.Samples(),
		Exhaustive: exhaustive && rep.Broken == nil,
		Extra: mergeExtras(extras, map[string]interface{}{
			"class_counts":         c,
			"spaces":               spaces,
			"nontrivial_accept":    ntAccept,
			"nontrivial_reject":    ntReject,
			"unit_alphabet":        unitAlphabet,
			"expose_alphabet":      exposeAlphabet,
			"workers":              imc.Workers(),
			"bare_comparison_note": "bare_accepts_duplicate_group_names counts manifests with two groups of one name that ValidateManifestWithDeployment alone accepts; the provider path is guarded by ValidateManifest (checked: provider/* signatures)",
			"version_enumeration":  "chain histories c0..cn, n<=2, over 7 version values (4 manifests, nil, truncated, bit-flipped) x observed updates s+1..n x query saw c_f (f in s..n) x p updates delivered before the query answer x 4 submitted manifests; verdict after all events",
			"hash_enumeration":     "3 base manifests (rich hand-built, minimal, derived from an SDL); all single-field mutations by a reflective walk; JSON key orders: each object alone in <=24 permutations + rotations, all reversed, all descending",
		}),
	}
	return imc.Finish(rep, tier, start, cov, []string{
		"the update-event handler of manager.run (two statements) is transcribed in the in-package harness for the triple enumeration; if that case of manager.run no longer has the transcribed text the enumeration is skipped (version_transcription_skipped) and the version clause rests on the merged version_protocol result of checks/C20 c10version (real manager under the controlled scheduler)",
		"the hostname reservation service is a stub that always answers 'free'",
		"version verdicts are taken when all update events have been delivered (no claim about the window in which an event is still in flight)",
		"unit classes: cpu, memory, storage quantities and the attribute lists of cpu, memory and storage compared as multisets; pairs whose two sides differ ONLY in the order inside attribute lists are not judged (the unchanged tree compares position by position and rejects them; counted in class_counts attribute_order_only/*)",
	})
}

func mergeExtras(a, b map[string]interface{}) map[string]interface{} {
	for k, v := range a {
		b[k] = v
	}
	return b
}

// versionProtocol is /verif/build/c10-version.json, written by `checks/C20 c10version <tier>`: the
// version protocol explored on the REAL manifest manager under the controlled scheduler.
type versionProtocol struct {
	Part             string `json:"part"`
	Tier             string `json:"tier"`
	Executions       int64  `json:"executions"`
	States           int64  `json:"states"`
	Transitions      int64  `json:"transitions"`
	DistinctOutcomes int64  `json:"distinct_outcomes"`
	Exhaustive       bool   `json:"exhaustive"`
	Violations       []struct {
		Signature string `json:"signature"`
		Message   string `json:"message"`
		Replay    string `json:"replay"`
	} `json:"violations"`
	raw json.RawMessage
}

func loadVersionProtocol(path, tier string) (*versionProtocol, error) {
	raw, err := os.ReadFile(path)
	if err != nil {
		return nil, fmt.Errorf("version-protocol result: %w", err)
	}
	var vp versionProtocol
	if err := json.Unmarshal(raw, &vp); err != nil {
		return nil, fmt.Errorf("version-protocol result %s: %w", path, err)
	}
	if vp.Part != "version-protocol" {
		return nil, fmt.Errorf("version-protocol result %s: part is %q", path, vp.Part)
	}
	if vp.Tier != "" && vp.Tier != tier {
		return nil, fmt.Errorf("version-protocol result %s is of tier %q, this run is %q", path, vp.Tier, tier)
	}
	vp.raw = raw
	return &vp, nil
}

func replay(path string) int {
	raw, err := os.ReadFile(path)
	if err != nil {
		fmt.Println("MACHINERY-FAILURE cannot read replay:", err)
		return 2
	}
	var head struct {
		Signature string          `json:"signature"`
		Input     json.RawMessage `json:"input"`
	}
	if err := json.Unmarshal(raw, &head); err != nil {
		fmt.Println("MACHINERY-FAILURE cannot parse replay:", err)
		return 2
	}
	var kind struct {
		Kind string `json:"kind"`
	}
	_ = json.Unmarshal(head.Input, &kind)
	rep := imc.NewReporter(prop)
	rep.ReplayOf = path
	counters := imc.NewCounters()
	fmt.Printf("replaying %s (recorded signature %q, kind %s)\n", path, head.Signature, kind.Kind)
	switch kind.Kind {
	case "cross", "provider-pair":
		var in crossReplay
		if err := json.Unmarshal(head.Input, &in); err != nil {
			fmt.Println("MACHINERY-FAILURE cannot parse replay input:", err)
			return 2
		}
		d, m := mkD(in.Groups), mkM(in.Manifest)
		// the replay file also carries the concrete akash values; they must be what the model builds
		var stored manifest.Manifest
		if err := json.Unmarshal(in.AkashManifest, &stored); err != nil || digestOf(stored) != digestOf(m.manifest) {
			fmt.Println("MACHINERY-FAILURE replay divergence: stored akash manifest is not what the model builds")
			return 2
		}
		want := oracleCross(in.Groups, in.Manifest)
		if len(in.Groups) == 1 && len(in.Manifest) == 1 && in.Groups[0].Name == in.Manifest[0].Name && orderOnly(in.Groups[0], in.Manifest[0]) {
			fmt.Println("the two sides differ only in the order inside attribute lists: not judged (see oracle.go)")
			return 0
		}
		var l pairCounters
		checkPair(in.Grammar, &d, &m, want, true, rep, &l)
		if kind.Kind == "provider-pair" {
			runProviderPairs([]dCase{d}, []mCase{m}, rep, counters, nil)
		}
		fmt.Printf("oracle accepts=%v\n", want)
	case "version":
		var in versionReplay
		if err := json.Unmarshal(head.Input, &in); err != nil {
			fmt.Println("MACHINERY-FAILURE cannot parse replay input:", err)
			return 2
		}
		replayVersion(in, rep)
	case "hash-mutation":
		var in hashReplay
		if err := json.Unmarshal(head.Input, &in); err != nil {
			fmt.Println("MACHINERY-FAILURE cannot parse replay input:", err)
			return 2
		}
		bases, err := hashBases()
		if err != nil {
			fmt.Println("MACHINERY-FAILURE", err)
			return 2
		}
		for _, b := range bases {
			if b.name != in.Base {
				continue
			}
			m := b.mk()
			mu := &mutator{target: in.Ordinal}
			if !mu.walk(reflect.ValueOf(&m).Elem(), "manifest") || mu.desc != in.Mutation {
				fmt.Println("MACHINERY-FAILURE replay divergence: mutation ordinal does not name the recorded mutation")
				return 2
			}
			bv, _ := version(b.mk())
			v, err := version(m)
			fmt.Printf("base %s, mutation %s: base version %s, mutated version %s (err %v)\n", b.name, mu.desc, bv, v, err)
			if err == nil && v == bv {
				rep.Violation("hash/insensitive", "a changed manifest field leaves the version unchanged: "+mu.desc, func() interface{} { return in })
			}
		}
	case "hash-order":
		bases, err := hashBases()
		if err != nil {
			fmt.Println("MACHINERY-FAILURE", err)
			return 2
		}
		sampler := imc.NewSampler(0)
		runHashOrder(bases, rep, counters, sampler)
	default:
		fmt.Println("MACHINERY-FAILURE unknown replay kind", kind.Kind)
		return 2
	}
	code := rep.Print()
	if code == 0 {
		fmt.Println("replay: no violation reproduced")
	}
	return code
}
