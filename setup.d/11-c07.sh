#!/bin/bash
# pre-build chainmc against the runtime overlay (everything is recompiled once; later builds hit the cache)
cd "$(dirname "$0")/.." && checks/C07 build
