#!/bin/bash
# build engine A once so that the Go build cache is warm for every check
. "$(dirname "$0")/../bin/env.sh"
cd "$VERIF_ROOT"
cp -f "$REPO/go.sum" go.sum
go build -o build/chainmc ./chainmc
