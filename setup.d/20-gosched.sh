#!/bin/bash
# warm the cache for the gosched-based checks: instrument + build + one quick run of the C15 harness (evidence untouched),
# which compiles the shared instrumented dependencies; the other harnesses build on first use
cd "$(dirname "$0")/.." && C15_NO_EVIDENCE=1 checks/C15 quick >/dev/null 2>&1 || true
checks/C14 build >/dev/null 2>&1 || true
