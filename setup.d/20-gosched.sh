#!/bin/bash
# warm the cache for the gosched-based checks: instrument + build + one quick run of the C15 harness (evidence untouched)
cd "$(dirname "$0")/.." && C15_NO_EVIDENCE=1 checks/C15 quick >/dev/null 2>&1 || true
