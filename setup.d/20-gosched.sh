#!/bin/bash
# warm the cache for the gosched-based checks: instrument + build the C15 harness once
cd "$(dirname "$0")/.." && C15_BUILD=1 checks/C15 quick >/dev/null 2>&1 || true
