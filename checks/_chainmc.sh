#!/bin/bash
# shared entry for the chainmc (engine A) checks: rebuild from /repo's current tree, run, evidence is written by the binary.
# VERIF_SUBST="/repo/a.go=/some/copy.go,..." replaces repo files through `go build -overlay` (used for mutants; /repo is untouched).
set -u
. "$(dirname "$0")/../bin/env.sh"
cd "$VERIF_ROOT"
id="$1"; tier="${2:-quick}"
if [ "$tier" = "replay" ]; then
  go build -o "build/chainmc.$id" ./chainmc >&2 || exit 2
  exec "build/chainmc.$id" -replay "$3"
fi
ovl=()
if [ -n "${VERIF_SUBST:-}" ]; then
  mkdir -p build/overlay
  ovf="build/overlay/chainmc.$id.$$.json"   # private per invocation: mutant runs are concurrent
  python3 - "$VERIF_SUBST" > "$ovf" <<'PY'
import json,sys
rep={}
for pair in sys.argv[1].split(','):
    if pair.strip():
        a,b=pair.split('=',1); rep[a.strip()]=b.strip()
print(json.dumps({"Replace":rep}))
PY
  ovl=(-overlay "$ovf")
fi
cp -f "$REPO/go.sum" go.sum 2>/dev/null
bin="build/chainmc.$id${VERIF_SUBST:+.subst.$$}"
if ! go build "${ovl[@]}" -o "$bin" ./chainmc >&2; then
  echo "chainmc: build failed" >&2; exit 2
fi
if [ -n "${VERIF_SUBST:-}" ]; then
  "$bin" -prop "$id" -tier "$tier" ${VERIF_NO_EVIDENCE:+-no-evidence}; rc=$?
  rm -f "$bin" "$ovf"; exit $rc
fi
exec "$bin" -prop "$id" -tier "$tier" ${VERIF_NO_EVIDENCE:+-no-evidence}
