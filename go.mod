module verif.local/verif

go 1.21

require (
	github.com/cosmos/cosmos-sdk v0.41.3
	github.com/gorilla/mux v1.8.0
	github.com/gorilla/websocket v1.4.2
	github.com/ovrclk/akash v0.0.0
	github.com/tendermint/tendermint v0.34.9
	github.com/tendermint/tm-db v0.6.4
	google.golang.org/grpc v1.35.0
	k8s.io/api v0.19.3
	k8s.io/apimachinery v0.20.2
	k8s.io/client-go v0.19.3
	verif.local/gosched v0.0.0-00010101000000-000000000000
)

require (
	github.com/99designs/keyring v1.1.6 // indirect
	github.com/ChainSafe/go-schnorrkel v0.0.0-20200405005733-88cbf1b4c40d // indirect
	github.com/Workiva/go-datastructures v1.0.52 // indirect
	github.com/armon/go-metrics v0.3.6 // indirect
	github.com/avast/retry-go v2.7.0+incompatible // indirect
	github.com/beorn7/perks v1.0.1 // indirect
	github.com/bgentry/speakeasy v0.1.0 // indirect
	github.com/blang/semver v3.5.1+incompatible // indirect
	github.com/boz/go-lifecycle v0.1.1-0.20190620234137-5139c86739b8 // indirect
	github.com/btcsuite/btcd v0.21.0-beta // indirect
	github.com/cespare/xxhash/v2 v2.1.1 // indirect
	github.com/confio/ics23/go v0.6.3 // indirect
	github.com/cosmos/go-bip39 v1.0.0 // indirect
	github.com/cosmos/iavl v0.15.3 // indirect
	github.com/davecgh/go-spew v1.1.2-0.20180830191138-d8f796af33cc // indirect
	github.com/docker/spdystream v0.0.0-20160310174837-449fdfce4d96 // indirect
	github.com/dvsekhvalnov/jose2go v0.0.0-20200901110807-248326c1351b // indirect
	github.com/enigmampc/btcutil v1.0.3-0.20200723161021-e2fb6adb2a25 // indirect
	github.com/evanphx/json-patch v4.9.0+incompatible // indirect
	github.com/felixge/httpsnoop v1.0.1 // indirect
	github.com/fsnotify/fsnotify v1.4.9 // indirect
	github.com/go-kit/kit v0.10.0 // indirect
	github.com/go-logfmt/logfmt v0.5.0 // indirect
	github.com/go-logr/logr v0.2.0 // indirect
	github.com/godbus/dbus v0.0.0-20190726142602-4481cbc300e2 // indirect
	github.com/gogo/gateway v1.1.0 // indirect
	github.com/gogo/protobuf v1.3.3 // indirect
	github.com/golang/protobuf v1.4.3 // indirect
	github.com/golang/snappy v0.0.2 // indirect
	github.com/google/btree v1.0.0 // indirect
	github.com/google/gofuzz v1.1.0 // indirect
	github.com/google/orderedcode v0.0.1 // indirect
	github.com/googleapis/gnostic v0.4.1 // indirect
	github.com/gorilla/context v1.1.1 // indirect
	github.com/gorilla/handlers v1.5.1 // indirect
	github.com/grpc-ecosystem/go-grpc-middleware v1.2.2 // indirect
	github.com/grpc-ecosystem/grpc-gateway v1.16.0 // indirect
	github.com/gsterjov/go-libsecret v0.0.0-20161001094733-a6f4afe4910c // indirect
	github.com/gtank/merlin v0.1.1 // indirect
	github.com/gtank/ristretto255 v0.1.2 // indirect
	github.com/hashicorp/go-immutable-radix v1.0.0 // indirect
	github.com/hashicorp/golang-lru v0.5.4 // indirect
	github.com/hashicorp/hcl v1.0.1-0.20191016231534-914dc3f8dd7c // indirect
	github.com/imdario/mergo v0.3.5 // indirect
	github.com/json-iterator/go v1.1.10 // indirect
	github.com/libp2p/go-buffer-pool v0.0.3-0.20190619091711-d94255cb3dfc // indirect
	github.com/magiconair/properties v1.8.4 // indirect
	github.com/mattn/go-isatty v0.0.12 // indirect
	github.com/matttproud/golang_protobuf_extensions v1.0.2-0.20181231171920-c182affec369 // indirect
	github.com/mimoo/StrobeGo v0.0.0-20181016162300-f8f6d4d2b643 // indirect
	github.com/minio/highwayhash v1.0.1 // indirect
	github.com/mitchellh/go-homedir v1.1.0 // indirect
	github.com/mitchellh/mapstructure v1.1.2 // indirect
	github.com/modern-go/concurrent v0.0.0-20180306012644-bacd9c7ef1dd // indirect
	github.com/modern-go/reflect2 v1.0.1 // indirect
	github.com/mtibben/percent v0.2.1 // indirect
	github.com/pelletier/go-toml v1.8.1 // indirect
	github.com/pkg/errors v0.9.1 // indirect
	github.com/pmezard/go-difflib v1.0.1-0.20181226105442-5d4384ee4fb2 // indirect
	github.com/prometheus/client_golang v1.8.0 // indirect
	github.com/prometheus/client_model v0.2.0 // indirect
	github.com/prometheus/common v0.15.0 // indirect
	github.com/prometheus/procfs v0.2.0 // indirect
	github.com/rakyll/statik v0.1.7 // indirect
	github.com/rcrowley/go-metrics v0.0.0-20200313005456-10cdbea86bc0 // indirect
	github.com/regen-network/cosmos-proto v0.3.1 // indirect
	github.com/rs/cors v1.7.1-0.20191011001009-dcbccb712443 // indirect
	github.com/rs/zerolog v1.20.0 // indirect
	github.com/satori/go.uuid v1.2.0 // indirect
	github.com/shopspring/decimal v1.2.0 // indirect
	github.com/spf13/afero v1.3.4 // indirect
	github.com/spf13/cast v1.3.1 // indirect
	github.com/spf13/cobra v1.1.1 // indirect
	github.com/spf13/jwalterweatherman v1.1.0 // indirect
	github.com/spf13/pflag v1.0.5 // indirect
	github.com/spf13/viper v1.7.1 // indirect
	github.com/stretchr/testify v1.7.0 // indirect
	github.com/subosito/gotenv v1.2.1-0.20190917103637-de67a6614a4d // indirect
	github.com/syndtr/goleveldb v1.0.1-0.20200815110645-5c35d600f0ca // indirect
	github.com/tendermint/btcd v0.1.1 // indirect
	github.com/tendermint/crypto v0.0.0-20191022145703-50d29ede1e15 // indirect
	github.com/tendermint/go-amino v0.16.0 // indirect
	golang.org/x/crypto v0.0.0-20201221181555-eec23a3978ad // indirect
	golang.org/x/net v0.0.0-20201110031124-69a78807bb2b // indirect
	golang.org/x/oauth2 v0.0.0-20200107190931-bf48bf16ab8d // indirect
	golang.org/x/sync v0.0.0-20201020160332-67f06af15bc9 // indirect
	golang.org/x/sys v0.0.0-20210124154548-22da62e12c0c // indirect
	golang.org/x/term v0.0.0-20201117132131-f5c789dd3221 // indirect
	golang.org/x/text v0.3.4 // indirect
	golang.org/x/time v0.0.0-20191024005414-555d28b269f0 // indirect
	google.golang.org/genproto v0.0.0-20210114201628-6edceaf6022f // indirect
	google.golang.org/protobuf v1.25.0 // indirect
	gopkg.in/inf.v0 v0.9.1 // indirect
	gopkg.in/ini.v1 v1.51.0 // indirect
	gopkg.in/yaml.v2 v2.4.0 // indirect
	gopkg.in/yaml.v3 v3.0.0-20210107192922-496545a6307b // indirect
	k8s.io/klog/v2 v2.4.0 // indirect
	k8s.io/kube-openapi v0.0.0-20201113171705-d219536bb9fd // indirect
	k8s.io/metrics v0.19.3 // indirect
	k8s.io/utils v0.0.0-20200729134348-d5654de09c73 // indirect
	sigs.k8s.io/structured-merge-diff/v4 v4.0.2 // indirect
	sigs.k8s.io/yaml v1.2.0 // indirect
)

replace github.com/ovrclk/akash => /repo

replace verif.local/gosched => ./gosched

replace github.com/keybase/go-keychain => github.com/99designs/go-keychain v0.0.0-20191008050251-8e49817e8af4

replace github.com/gogo/protobuf => github.com/regen-network/protobuf v1.3.3-alpha.regen.1

replace google.golang.org/grpc => google.golang.org/grpc v1.33.2

replace github.com/cosmos/cosmos-sdk => github.com/ovrclk/cosmos-sdk v0.41.4-akash-4

replace github.com/tendermint/tendermint => github.com/ovrclk/tendermint v0.34.9-akash-1

replace (
	github.com/cosmos/ledger-cosmos-go => github.com/ovrclk/ledger-cosmos-go v0.13.2
	github.com/zondax/hid => github.com/troian/hid v0.9.9
	github.com/zondax/ledger-go => github.com/ovrclk/ledger-go v0.13.4
)
