module verif.local/verif

go 1.21

require github.com/ovrclk/akash v0.0.0

replace github.com/ovrclk/akash => /repo

replace verif.local/gosched => ./gosched

replace github.com/keybase/go-keychain => github.com/99designs/go-keychain v0.0.0-20191008050251-8e49817e8af4

replace github.com/gogo/protobuf => github.com/regen-network/protobuf v1.3.3-alpha.regen.1

replace google.golang.org/grpc => google.golang.org/grpc v1.33.2

replace github.com/cosmos/cosmos-sdk => github.com/ovrclk/cosmos-sdk v0.41.4-akash-4

replace github.com/tendermint/tendermint => github.com/ovrclk/tendermint v0.34.9-akash-1

replace (
	github.com/cosmos/ledger-cosmos-go => github.com/ovrclk/ledger-cosmos-go v0.13.2
	github.com/zondax/hid => github.com/troian/hid v0.9.9
	github.com/zondax/ledger-go => github.com/ovrclk/ledger-go v0.13.4
)
