// Package evlib writes /verif/evidence/<id>.json in the shape of EVIDENCE.schema.json and
// loads the committed known-findings file.
package evlib

import (
	"encoding/json"
	"fmt"
	"os"
	"path/filepath"
	"strconv"
	"strings"
)

// Coverage holds the keys of every level we use; zero-valued optional keys are omitted.
type Coverage struct {
	Evaluations        int64         `json:"evaluations"`
	DistinctNontrivial int64         `json:"distinct_nontrivial"`
	Rule               string        `json:"rule"`
	Samples            []interface{} `json:"samples"`
	States             int64         `json:"states,omitempty"`
	Transitions        int64         `json:"transitions,omitempty"`
	TracesValidated    *int64        `json:"traces_validated_against_impl,omitempty"`
	Exhaustive         bool          `json:"exhaustive"`
	Extra              map[string]interface{} `json:"-"`
}

type Evidence struct {
	PropertyID  string   `json:"property_id"`
	Tier        string   `json:"tier"`
	Seed        int64    `json:"seed"`
	Level       string   `json:"level"`
	Coverage    Coverage `json:"coverage"`
	Assumptions []string `json:"assumptions,omitempty"`
	WallS       float64  `json:"wall_s"`
	Violations  int      `json:"violations"`
}

func Root() string {
	if r := os.Getenv("VERIF_ROOT"); r != "" {
		return r
	}
	return "/verif"
}

func Seed() int64 {
	n, _ := strconv.ParseInt(os.Getenv("VERIF_SEED"), 10, 64)
	return n
}

// Write marshals ev, merging Coverage.Extra into the coverage object.
func Write(ev Evidence) error {
	raw, err := json.Marshal(ev)
	if err != nil {
		return err
	}
	var m map[string]interface{}
	if err := json.Unmarshal(raw, &m); err != nil {
		return err
	}
	cov := m["coverage"].(map[string]interface{})
	for k, v := range ev.Coverage.Extra {
		cov[k] = v
	}
	if ev.Coverage.Samples == nil {
		cov["samples"] = []interface{}{}
	}
	out, err := json.MarshalIndent(m, "", " ")
	if err != nil {
		return err
	}
	dir := filepath.Join(Root(), "evidence")
	if err := os.MkdirAll(dir, 0o755); err != nil {
		return err
	}
	tmp := filepath.Join(dir, "."+ev.PropertyID+".json.tmp")
	if err := os.WriteFile(tmp, append(out, '\n'), 0o644); err != nil {
		return err
	}
	return os.Rename(tmp, filepath.Join(dir, ev.PropertyID+".json"))
}

// Finding is one entry of known_findings.json.
type Finding struct {
	Property  string `json:"property"`
	Status    string `json:"status"` // "known" | "fixed"
	Signature string `json:"signature"`
	What      string `json:"what"`
	Commit    string `json:"commit,omitempty"`
}

type Findings struct {
	Findings []Finding `json:"findings"`
}

func LoadFindings() (Findings, error) {
	var f Findings
	raw, err := os.ReadFile(filepath.Join(Root(), "known_findings.json"))
	if err != nil {
		if os.IsNotExist(err) {
			return f, nil
		}
		return f, err
	}
	err = json.Unmarshal(raw, &f)
	return f, err
}

// Known reports whether a violation signature of a property is listed as a known (unrepaired) finding.
// "fixed" entries suppress nothing.
func (f Findings) Known(prop, sig string) (Finding, bool) {
	for _, x := range f.Findings {
		if x.Status == "known" && x.Property == prop && x.Signature == sig {
			return x, true
		}
	}
	return Finding{}, false
}

// ReplayPath returns /verif/replays/<id>-<n>.json
func ReplayPath(prop string, n int) string {
	return filepath.Join(Root(), "replays", fmt.Sprintf("%s-%d.json", prop, n))
}

func WriteReplay(prop string, n int, v interface{}) (string, error) {
	p := ReplayPath(prop, n)
	if err := os.MkdirAll(filepath.Dir(p), 0o755); err != nil {
		return p, err
	}
	raw, err := json.MarshalIndent(v, "", " ")
	if err != nil {
		return p, err
	}
	return p, os.WriteFile(p, append(raw, '\n'), 0o644)
}

func Tier() string {
	t := strings.TrimSpace(os.Getenv("VERIF_TIER"))
	if t == "" {
		return "quick"
	}
	return t
}
