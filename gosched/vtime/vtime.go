// Package vtime is the drop-in replacement for the subset of package time that the instrumented
// files use. Under a controlled execution the clock is virtual and timers are owned by the
// scheduler (firing is an explorer choice); otherwise everything falls through to package time.
package vtime

import (
	"time"

	"verif.local/gosched/vs"
)

type (
	Duration = time.Duration
	Time     = time.Time
	Month    = time.Month
	Weekday  = time.Weekday
	Location = time.Location
)

const (
	Nanosecond  = time.Nanosecond
	Microsecond = time.Microsecond
	Millisecond = time.Millisecond
	Second      = time.Second
	Minute      = time.Minute
	Hour        = time.Hour

	RFC3339     = time.RFC3339
	RFC3339Nano = time.RFC3339Nano
	RFC1123     = time.RFC1123
	RFC822      = time.RFC822
	Kitchen     = time.Kitchen
)

var (
	UTC   = time.UTC
	Local = time.Local
)

func Unix(sec, nsec int64) Time { return time.Unix(sec, nsec) }
func Date(y int, m Month, d, h, mi, s, ns int, l *Location) Time {
	return time.Date(y, m, d, h, mi, s, ns, l)
}
func Parse(layout, value string) (Time, error) { return time.Parse(layout, value) }
func ParseDuration(s string) (Duration, error) { return time.ParseDuration(s) }

// Now is the virtual clock under a controlled execution.
func Now() Time             { return vs.Now() }
func Since(t Time) Duration { return Now().Sub(t) }
func Until(t Time) Duration { return t.Sub(Now()) }

// Timer mirrors time.Timer.
type Timer struct {
	C    <-chan Time
	v    *vs.Timer
	real *time.Timer
}

func NewTimer(d Duration) *Timer {
	if !vs.Active() {
		r := time.NewTimer(d)
		return &Timer{C: r.C, real: r}
	}
	v := vs.NewTimer(d, 0, nil)
	return &Timer{C: v.C, v: v}
}

func AfterFunc(d Duration, f func()) *Timer {
	if !vs.Active() {
		return &Timer{real: time.AfterFunc(d, f)}
	}
	return &Timer{v: vs.NewTimer(d, 0, f)}
}

func (t *Timer) Stop() bool {
	if t.real != nil {
		return t.real.Stop()
	}
	return t.v.Stop()
}

func (t *Timer) Reset(d Duration) bool {
	if t.real != nil {
		return t.real.Reset(d)
	}
	return t.v.Reset(d)
}

func After(d Duration) <-chan Time {
	if !vs.Active() {
		return time.After(d)
	}
	return vs.NewTimer(d, 0, nil).C
}

func Sleep(d Duration) {
	if !vs.Active() {
		time.Sleep(d)
		return
	}
	vs.Recv[Time](vs.NewTimer(d, 0, nil).C)
}

// Ticker mirrors time.Ticker.
type Ticker struct {
	C    <-chan Time
	v    *vs.Timer
	real *time.Ticker
}

func NewTicker(d Duration) *Ticker {
	if d <= 0 {
		panic("non-positive interval for NewTicker")
	}
	if !vs.Active() {
		r := time.NewTicker(d)
		return &Ticker{C: r.C, real: r}
	}
	v := vs.NewTimer(d, d, nil)
	return &Ticker{C: v.C, v: v}
}

func (t *Ticker) Stop() {
	if t.real != nil {
		t.real.Stop()
		return
	}
	t.v.Stop()
}

func (t *Ticker) Reset(d Duration) {
	if t.real != nil {
		t.real.Reset(d)
		return
	}
	t.v.Reset(d)
}

func Tick(d Duration) <-chan Time {
	if d <= 0 {
		return nil
	}
	return NewTicker(d).C
}
