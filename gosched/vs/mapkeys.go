package vs

import (
	"fmt"
	"runtime"
	"sort"
	"strings"
	"unsafe"
)

// Map iteration order is owned as follows (DESIGN §3.1/§5): the instrumenter rewrites
// `for k, v := range m` in instrumented files into a loop over MapKeys(m). For a map that has
// never held more than 8 entries (one bucket, B==0) the Go runtime iterates the bucket's slots
// cyclically from a random start offset, and a slot is a deterministic function of the map's own
// insert/delete history. MapKeys reads the keys in slot order straight from the bucket and lets the
// explorer choose the rotation - exactly the set of orders the real runtime can produce, replayable.
// Larger maps fall back to sorted key order when the key type is ordered, else abort the run.
//
// The bucket layout is that of go1.20..go1.23 (runtime/map.go); it is verified at start-up on a
// probe map and the shim refuses to run when the probe fails.

type hmapHdr struct {
	count      int
	flags      uint8
	B          uint8
	noverflow  uint16
	hash0      uint32
	buckets    unsafe.Pointer
	oldbuckets unsafe.Pointer
}

const (
	bucketCnt  = 8
	minTopHash = 5
	dataOffset = 8
)

var mapLayoutErr = checkMapLayout()

func slotOrder[K comparable, V any](m map[K]V) ([]K, bool) {
	h := *(**hmapHdr)(unsafe.Pointer(&m))
	if h == nil || h.count == 0 {
		return nil, true
	}
	var zero K
	ksz := unsafe.Sizeof(zero)
	if h.B != 0 || h.oldbuckets != nil || ksz > 128 || h.buckets == nil {
		return nil, false
	}
	keys := make([]K, 0, h.count)
	for i := uintptr(0); i < bucketCnt; i++ {
		top := *(*uint8)(unsafe.Add(h.buckets, i))
		if top >= minTopHash {
			keys = append(keys, *(*K)(unsafe.Add(h.buckets, dataOffset+i*ksz)))
		}
	}
	if len(keys) != h.count {
		return nil, false
	}
	for _, k := range keys {
		if _, ok := m[k]; !ok {
			return nil, false
		}
	}
	return keys, true
}

func checkMapLayout() error {
	v := runtime.Version()
	ok := false
	for _, p := range []string{"go1.20", "go1.21", "go1.22", "go1.23"} {
		if v == p || strings.HasPrefix(v, p+".") || strings.HasPrefix(v, p+" ") {
			ok = true
		}
	}
	if !ok {
		return fmt.Errorf("vs.MapKeys knows the map layout of go1.20-go1.23 only, not %s", v)
	}
	m := map[int]string{}
	m[30] = "a"
	m[10] = "b"
	m[20] = "c"
	if k, ok := slotOrder(m); !ok || fmt.Sprint(k) != "[30 10 20]" {
		return fmt.Errorf("vs.MapKeys: map layout probe failed (%v)", k)
	}
	delete(m, 10)
	m[90] = "d"
	if k, ok := slotOrder(m); !ok || fmt.Sprint(k) != "[30 90 20]" {
		return fmt.Errorf("vs.MapKeys: map layout probe failed after delete (%v)", k)
	}
	type big struct{ a, b, c uint64 }
	pm := map[*big]bool{}
	x, y := &big{}, &big{}
	pm[y] = true
	pm[x] = true
	if k, ok := slotOrder(pm); !ok || len(k) != 2 || k[0] != y || k[1] != x {
		return fmt.Errorf("vs.MapKeys: map layout probe failed for pointer keys")
	}
	return nil
}

// MapKeys returns the keys of m in the order in which an instrumented `range m` visits them.
func MapKeys[K comparable, V any](m map[K]V) []K {
	n := len(m)
	if n == 0 {
		return nil
	}
	if active == nil {
		keys := make([]K, 0, n)
		for k := range m {
			keys = append(keys, k)
		}
		return keys
	}
	if mapLayoutErr != nil {
		Fatalf("%v", mapLayoutErr)
	}
	keys, ok := slotOrder(m)
	if !ok {
		keys = keys[:0]
		for k := range m {
			keys = append(keys, k)
		}
		if !sortKeys(keys) {
			Fatalf("vs.MapKeys: map with %d entries of unordered key type %T iterated by instrumented code: order cannot be made deterministic", n, keys[0])
		}
	}
	if n > 1 {
		j := Choose(n)
		if j > 0 {
			rot := make([]K, 0, n)
			rot = append(rot, keys[j:]...)
			rot = append(rot, keys[:j]...)
			keys = rot
		}
	}
	return keys
}

func sortKeys[K comparable](keys []K) bool {
	switch ks := any(keys).(type) {
	case []string:
		sort.Strings(ks)
	case []int:
		sort.Ints(ks)
	case []uint64:
		sort.Slice(ks, func(i, j int) bool { return ks[i] < ks[j] })
	case []int64:
		sort.Slice(ks, func(i, j int) bool { return ks[i] < ks[j] })
	case []uint32:
		sort.Slice(ks, func(i, j int) bool { return ks[i] < ks[j] })
	default:
		// any key type with a deterministic String form
		if _, ok := any(keys[0]).(fmt.Stringer); ok {
			sort.Slice(keys, func(i, j int) bool {
				return any(keys[i]).(fmt.Stringer).String() < any(keys[j]).(fmt.Stringer).String()
			})
			return true
		}
		return false
	}
	return true
}
