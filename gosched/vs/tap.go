package vs

import "reflect"

// Channel taps (added for the C20 harness; additive, nothing changes for callers that do not use
// them). A tap lets a harness see the VALUES that instrumented code moves over channels it has no
// handle on (reply channels created inside a method, the private input channels of a component),
// attributed to the goroutine that performed the operation - so an oracle can be written over the
// input/output sequence of one goroutine, in its own program order.

// TapEvent is one completed channel operation as seen by the goroutine G that performed it.
// A rendezvous produces two events (the sender's, then the receiver's); a buffered send produces a
// send event when the value enters the buffer and a receive event when it leaves it. Receives from
// closed channels and timer ticks are not reported.
type TapEvent struct {
	G    string       // canonical id of the goroutine
	Send bool         // true: G's send completed; false: G received Val
	Chan uintptr      // identity of the channel (compare with ChanID)
	Elem reflect.Type // element type of the channel (Val of a nil interface value is an untyped nil)
	Val  any
}

// SetTap installs f for the current execution (call it from Body, before the system starts). f runs
// inside the scheduler, while G's operation is applied: it must only record (no vs operation, no
// blocking). What f appends to a per-goroutine log is a function of that goroutine's history, so an
// oracle over such logs is compatible with history-hash pruning.
func SetTap(f func(TapEvent)) {
	if s := active; s != nil {
		s.tap = f
	}
}

// ChanID returns the identity of a channel value of any direction (0 for nil / non-channels).
func ChanID(ch any) uintptr {
	v := reflect.ValueOf(ch)
	if !v.IsValid() || v.Kind() != reflect.Chan || v.IsNil() {
		return 0
	}
	return v.Pointer()
}

// PendingOp is one alternative of a parked channel operation (or select) at the moment of the call.
type PendingOp struct {
	G     string
	Label string
	Class string
	Send  bool
	Chan  uintptr
	Val   any // value of a pending send
}

// PendingChanOps lists the channel operations goroutines are parked on. It is meant for Check (after
// the execution ended: "is somebody still trying to send a second reply?"); it is not a scheduling
// point and folds nothing.
func PendingChanOps() []PendingOp {
	s := active
	if s == nil {
		return nil
	}
	var out []PendingOp
	for _, g := range s.gs {
		if g.done || g.op == nil || g.op.kind != kSelect {
			continue
		}
		for i := range g.op.cases {
			c := &g.op.cases[i]
			if c.cm == nil {
				continue
			}
			out = append(out, PendingOp{G: g.id, Label: g.label, Class: g.class.String(), Send: c.send, Chan: c.cm.id, Val: c.val})
		}
	}
	return out
}

// Closed reports whether ch has been closed in the scheduler's model (instrumented code closes
// channels through vs.Close, which does not touch the real channel). For Check; not a scheduling
// point, folds nothing.
func Closed[T any](ch <-chan T) bool {
	s := active
	if s == nil {
		return false
	}
	cm := modelR(s, ch)
	return cm != nil && cm.closed
}
