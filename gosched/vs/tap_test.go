package vs

import (
	"fmt"
	"strings"
	"testing"
)

// A reply channel made inside a "method" is never handed to the harness; the tap still sees every
// value sent on it (also the second one, which would otherwise sit unread in the buffer), attributed
// to the sending goroutine, and PendingChanOps shows a third reply that is still being attempted.
func TestTapSeesRepliesOnPrivateChannels(t *testing.T) {
	type request struct{ reply chan error }
	var sends, recvs, pendingSends int
	var byG map[string][]string
	fac := func() Exec {
		byG = map[string][]string{}
		sends, recvs, pendingSends = 0, 0, 0
		var replyID uintptr
		reqch := make(chan request)
		return Exec{
			Body: func() {
				SetTap(func(ev TapEvent) {
					if r, ok := ev.Val.(request); ok && !ev.Send {
						replyID = ChanID(r.reply)
						return
					}
					if ev.Chan == replyID && replyID != 0 {
						if ev.Send {
							sends++
							byG[ev.G] = append(byG[ev.G], fmt.Sprint("send ", ev.Val, " ", ev.Elem))
						} else {
							recvs++
						}
					}
				})
				GoDaemon(func() { // the server: answers three times
					r := Recv(reqch)
					Send(r.reply, nil)
					Send(r.reply, fmt.Errorf("again"))
					Send(r.reply, fmt.Errorf("and again"))
				})
				Go(func() { // the client
					ch := make(chan error, 1)
					Send(reqch, request{reply: ch})
					Recv(ch)
				})
			},
			Check: func(r *Result) (string, []string) {
				for _, p := range PendingChanOps() {
					if p.Send && p.Chan == replyID {
						pendingSends++
					}
				}
				return r.Status.String(), nil
			},
		}
	}
	r := RunOnce(fac, nil, Options{})
	if r.Status != StatusDone {
		t.Fatalf("status %s %s", r.Status, r.Msg)
	}
	if sends != 2 || recvs != 1 || pendingSends != 1 {
		t.Errorf("sends=%d recvs=%d pending=%d, want 2 1 1 (%v)", sends, recvs, pendingSends, byG)
	}
	for g, l := range byG {
		if len(l) != 2 || !strings.HasPrefix(l[0], "send <nil> error") || !strings.Contains(l[1], "again") {
			t.Errorf("log of %s: %v", g, l)
		}
	}
}

func TestClosedReadsTheModel(t *testing.T) {
	ch := make(chan struct{})
	var closed, before bool
	fac := func() Exec {
		return Exec{
			Body:  func() { before = Closed(ch); Close(ch) },
			Check: func(r *Result) (string, []string) { closed = Closed(ch); return "", nil },
		}
	}
	RunOnce(fac, nil, Options{})
	if before || !closed {
		t.Errorf("before=%v after=%v", before, closed)
	}
	select {
	case <-ch:
		t.Errorf("the real channel must stay open")
	default:
	}
}
