package vs

// H is a 128-bit rolling hash (two independently mixed 64-bit lanes). It is used for
// per-goroutine histories, per-object histories and the global state key.
type H [2]uint64

func mix64(x uint64) uint64 {
	x ^= x >> 30
	x *= 0xbf58476d1ce4e5b9
	x ^= x >> 27
	x *= 0x94d049bb133111eb
	x ^= x >> 31
	return x
}

func mix64b(x uint64) uint64 {
	x ^= x >> 33
	x *= 0xff51afd7ed558ccd
	x ^= x >> 33
	x *= 0xc4ceb9fe1a85ec53
	x ^= x >> 33
	return x
}

func (h H) fold(v uint64) H {
	return H{
		mix64(h[0] + 0x9e3779b97f4a7c15 + v),
		mix64b((h[1] ^ (v * 0xc2b2ae3d27d4eb4f)) + 0x165667b19e3779f9),
	}
}

func (h H) foldH(o H) H { return h.fold(o[0]).fold(o[1]) }

func (h H) fold2(a, b uint64) H { return h.fold(a).fold(b) }

func strHash(s string) H {
	var a uint64 = 0xcbf29ce484222325
	var b uint64 = 0x84222325cbf29ce4
	for i := 0; i < len(s); i++ {
		a ^= uint64(s[i])
		a *= 0x100000001b3
		b = (b ^ uint64(s[i])) * 0x9ddfea08eb382d69
		b ^= b >> 29
	}
	return H{mix64(a), mix64b(b)}
}

// contribution of one goroutine to the order-independent global key
func (h H) contrib() H { return H{mix64b(h[0] ^ 0x1234567), mix64(h[1] + 0x7654321)} }

func (h *H) add(o H) { h[0] += o[0]; h[1] += o[1] }
func (h *H) sub(o H) { h[0] -= o[0]; h[1] -= o[1] }
