package vs

import (
	"context"
	"fmt"
	"runtime"
)

func spawn(f func(), class Class) {
	s := active
	if s == nil {
		go f()
		return
	}
	if s.poison {
		runtime.Goexit()
	}
	g := s.newG(s.cur, f, class)
	if s.tracing {
		s.trace = append(s.trace, fmt.Sprintf("%s spawns %s", s.cur.name(), g.id))
	}
}

// GoSys is the `go` statement of instrumented code. The goroutine may stay blocked forever
// without making the execution a deadlock.
func GoSys(f func()) { spawn(f, ClassSys) }

// Go starts a harness client goroutine: it must have finished when the execution ends,
// otherwise the execution is reported as a deadlock.
func Go(f func()) { spawn(f, ClassClient) }

// GoDaemon starts a harness goroutine that is allowed to stay blocked forever.
func GoDaemon(f func()) { spawn(f, ClassDaemon) }

// GoEnv starts an environment goroutine (DESIGN §3.3): every transition it takes part in while
// some non-environment transition is enabled costs one unit of the early-injection budget.
func GoEnv(f func()) { spawn(f, ClassEnv) }

// Label names the running goroutine in traces and reports.
func Label(l string) {
	if s := active; s != nil {
		s.cur.label = l
	}
}

// ID returns the canonical (schedule-independent) id of the running goroutine.
func ID() string {
	if s := active; s != nil {
		return s.cur.id
	}
	return ""
}

// Choose is a data choice resolved by the explorer: it returns a value in [0,n). It is not a
// scheduling point (no other goroutine runs between the call and the return).
func Choose(n int) int {
	s := active
	if s == nil {
		return 0
	}
	if n <= 1 {
		return 0
	}
	g := s.block(&op{kind: kChoose, n: n, desc: "choose"})
	return g.chooseRes
}

// Note folds data the running goroutine has read from memory written by another goroutine
// (without a hooked operation in between) into its history, so that history-hash pruning
// stays sound. It is not a scheduling point.
func Note(args ...any) {
	s := active
	if s == nil {
		return
	}
	g := s.cur
	s.setH(g, g.h.fold(cNote).foldH(strHash(fmt.Sprint(args...))))
}

// Yield is a scheduling point without effect.
func Yield() {
	s := active
	if s == nil {
		runtime.Gosched()
		return
	}
	s.block(&op{kind: kSimple, desc: "yield", pure: true})
}

// EnvTurn is the scheduling point at which an environment goroutine waits for its turn: with
// early-injection budget 0 it is passed only when the system is quiescent.
func EnvTurn() {
	s := active
	if s == nil {
		runtime.Gosched()
		return
	}
	s.block(&op{kind: kSimple, desc: "env-turn", pure: true})
}

// EnvQuiesce is EnvTurn for big-step harnesses (added for C12): the calling environment goroutine
// is charged one early injection whenever a non-environment transition is enabled, EVEN IF it still
// holds the run token (EnvTurn lets an environment goroutine that keeps the token continue for free,
// so that it may fire several events back to back). With early-injection budget 0 the call therefore
// returns only when the system is quiescent: every operation the caller started before has been
// driven as far as it can go.
func EnvQuiesce() {
	s := active
	if s == nil {
		runtime.Gosched()
		return
	}
	s.block(&op{kind: kSimple, desc: "env-quiesce", pure: true, strict: true})
}

// Steps returns the number of transitions taken so far in this execution.
func Steps() int {
	if s := active; s != nil {
		return s.nsteps
	}
	return 0
}

// Fold modes for Op.
const (
	FoldNone    = foldNone
	FoldAcquire = foldAcquire
	FoldRelease = foldRelease
	FoldChain   = foldChain
	FoldCommute = foldCommute
)

// Op is the generic blocking primitive on which vsync is built: the running goroutine parks
// until enabled() holds (nil = always), then apply() runs atomically. fold says how the
// histories of the goroutine and of obj are combined.
func Op(desc string, obj *Obj, fold uint8, enabled func() bool, apply func()) {
	s := active
	if s == nil {
		panic("vs.Op outside a controlled execution")
	}
	s.block(&op{kind: kSimple, desc: desc, obj: obj, fold: fold, enabled: enabled, apply: apply, pure: true})
}

// opImpure is Op for operations whose apply function itself folds a result into a history.
func opImpure(desc string, obj *Obj, fold uint8, enabled func() bool, apply func()) {
	active.block(&op{kind: kSimple, desc: desc, obj: obj, fold: fold, enabled: enabled, apply: apply})
}

// Panic makes the running goroutine panic with msg after the pending operation (used by vsync
// for "negative WaitGroup counter", "unlock of unlocked mutex").
func Panic(msg string) { panic(msg) }

// CallCancel is `cancel()` for a context.CancelFunc: closing a foreign Done() channel is made a
// scheduling point, so that other goroutines can be observed polling the context before it.
func CallCancel(cancel context.CancelFunc) {
	if active != nil {
		Yield()
	}
	cancel()
}

// Fatalf aborts the current execution as a harness error (machinery failure, exit 2).
func Fatalf(format string, args ...any) {
	s := active
	if s == nil {
		panic(fmt.Sprintf(format, args...))
	}
	s.fail(StatusHarnessError, format, args...)
	s.block(&op{kind: kSimple, desc: "fatal", enabled: func() bool { return false }})
}
